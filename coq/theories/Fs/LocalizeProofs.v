(* Proofs about the localize effect-program model (Fs/Localize.v) for C18. *)
From KV Require Import Fs.LocPath Fs.LocPathProofs Fs.Localize.
From Coq Require Import Lia.

Local Open Scope list_scope.

Ltac inv H := inversion H; subst; clear H.
(* closes the three components of the invariant after a step; S : forall r, safe_ev (mkEv _ _ (res_ok r)) *)
Ltac fin S := repeat split; auto; try (constructor; auto; first [apply (S RFail) | apply (S RUnit) | apply S]).

(* ------------------------------------------------------------------ obligations over the generated tables
   (coq/theories/Gen/LocalizeTables.v is regenerated from /repo by translate/localize.go on every run;
   each obligation states what the hand-written model assumes about the source) *)

(* every recognised kustomization file name is a single proper path component *)
Lemma Gen_kust_names_good : forallb good_comp gen_kust_file_names = true.
Proof. vm_compute. reflexivity. Qed.

(* localizeNativeFields ranges over a map of exactly these fields with these localizing methods
   (model: [localize], fields 0-4 of [range_fields]) *)
Lemma Gen_native_map_fields :
  gen_native_map_fields =
  [("bases", "kust.Bases", "lc.localizeRoot");
   ("components", "kust.Components", "lc.localizeRoot");
   ("configurations", "kust.Configurations", "lc.localizeFile");
   ("crds", "kust.Crds", "lc.localizeFile");
   ("resources", "kust.Resources", "lc.localizeResource")].
Proof. vm_compute. reflexivity. Qed.

(* ... and localizeBuiltinPlugins over a map of exactly these three *)
Lemma Gen_plugin_map_fields :
  gen_plugin_map_fields =
  [("generators", "kust.Generators"); ("transformers", "kust.Transformers"); ("validators", "kust.Validators")].
Proof. vm_compute. reflexivity. Qed.

(* every other localizing call of localizeNativeFields, in source order (model: the sequence in
   [localize], including the two helm calls) *)
Lemma Gen_native_calls :
  gen_native_calls =
  [("localizeFile", "path");
   ("localizeGenerator", "&kust.ConfigMapGenerator[i].GeneratorArgs");
   ("localizeGenerator", "&kust.SecretGenerator[i].GeneratorArgs");
   ("localizeHelmInflationGenerator", "kust");
   ("localizeHelmCharts", "kust");
   ("localizePatches", "kust.Patches");
   ("localizePatches", "kust.PatchesJson6902");
   ("localizeK8sResource", "string(patch)");
   ("localizeFile", "replacement.Path")].
Proof. vm_compute. reflexivity. Qed.

(* the built-in plugin field specs (harness/c18.go pluginRefs implements this table) and the localizing function of each filter group (model: [loc_pref]) *)
Lemma Gen_plugin_specs :
  gen_plugin_specs =
  [("0", "ConfigMapGenerator", "env"); ("0", "ConfigMapGenerator", "envs");
   ("0", "SecretGenerator", "env"); ("0", "SecretGenerator", "envs");
   ("0", "HelmChartInflationGenerator", "valuesFile");
   ("0", "HelmChartInflationGenerator", "additionalValuesFiles");
   ("0", "PatchTransformer", "path"); ("0", "PatchJson6902Transformer", "path");
   ("0", "ReplacementTransformer", "replacements/path");
   ("1", "ConfigMapGenerator", "files"); ("1", "SecretGenerator", "files");
   ("2", "PatchStrategicMergeTransformer", "paths")] /\
  gen_plugin_spec_fns =
  [("0", "lbp.lc.localizeFile"); ("1", "lbp.lc.localizeFileSource"); ("2", "lbp.lc.localizeK8sResource")].
Proof. vm_compute. split; reflexivity. Qed.

(* the log.Fatalf / log.Panicf sites of the package.  Model: cleanedRelativePath #1 = XFatal,
   localizeRoot #1 = XPanic; the filepath.Rel sites cannot fire on cleaned absolute paths; the
   copyChartHome #1 = XPanic; the others belong to remote targets (outside the model).  A new site fails this obligation. *)
Lemma Gen_fatal_sites :
  List.map (fun t => (fst (fst t), snd (fst t))) gen_fatal_sites =
  [("Run", "log.Panicf"); ("localizeRoot", "log.Panicf"); ("localizeRoot", "log.Panicf");
   ("copyChartHome", "log.Panicf"); ("copyChartHome", "log.Panicf"); ("copyDir", "log.Panicf");
   ("hasRef", "log.Fatalf"); ("cleanedRelativePath", "log.Fatalf"); ("cleanedRelativePath", "log.Fatalf");
   ("locFilePath", "log.Panicf"); ("locRootPath", "log.Panicf"); ("locRootPath", "log.Panicf");
   ("locRootPath", "log.Panicf")].
Proof. vm_compute. reflexivity. Qed.

(* The FAULT POINTS.  [gen_fs_call_sites] lists every call of a filesys.FileSystem method on an fSys
   receiver in the localizer and in the loader code it runs through (translate/localize.go, source
   order).  [model_fs_sites] says, site by site, which definition of Fs/Localize.v issues the
   corresponding effect — or why the site lies outside the model (remote references only).  The
   obligation: the two tables agree site for site, so a call added to or removed from the source
   breaks it.  [run] numbers the effects a program issues and [fault] fails exactly one of them:
   every in-model call site is a fault point and every fault point is one of these call sites. *)
Definition model_fs_sites : list (string * string * string * string) :=
  [("util.go", "createNewDir", "Exists", "prelude_checks");
   ("util.go", "createNewDir", "Mkdir", "prelude_create");
   ("util.go", "createNewDir", "RemoveAll", "prelude_create");
   ("util.go", "cleanedRelativePath", "CleanedAbs", "cleaned_relative_path");
   ("localizer.go", "Run", "RemoveAll", "localize_tail (deferred recover: cleanup on panic)");
   ("localizer.go", "Run", "MkdirAll", "localize_tail");
   ("localizer.go", "Run", "RemoveAll", "localize_tail");
   ("localizer.go", "Run", "RemoveAll", "localize_tail");
   ("localizer.go", "localize", "WriteFile", "localize");
   ("localizer.go", "localizeFileWithContent", "Exists", "outside: remote file");
   ("localizer.go", "localizeFileWithContent", "MkdirAll", "loc_file_with_content");
   ("localizer.go", "localizeFileWithContent", "WriteFile", "loc_file_with_content");
   ("localizer.go", "localizeRoot", "Exists", "outside: remote root");
   ("localizer.go", "localizeRoot", "MkdirAll", "localize");
   ("localizer.go", "copyChartHome", "Exists", "copy_chart_home");
   ("localizer.go", "copyChartHome", "Exists", "copy_chart_home");
   ("localizer.go", "copyDir", "Walk", "copy_dir");
   ("localizer.go", "copyDir", "MkdirAll", "copy_entries");
   ("localizer.go", "copyDir", "ReadFile", "copy_entries");
   ("localizer.go", "copyDir", "WriteFile", "copy_entries");
   ("fileloader.go", "newLoaderAtGitClone", "CleanedAbs", "outside: remote root");
   ("fileloader.go", "Load", "ReadFile", "ldr_load");
   ("loadrestrictions.go", "RestrictionRootOnly", "CleanedAbs", "ldr_load");
   ("filesystem.go", "ConfirmDir", "CleanedAbs", "confirm_dir")].

Lemma Gen_fs_call_sites :
  List.map fst model_fs_sites = gen_fs_call_sites.
Proof. vm_compute. reflexivity. Qed.

(* the effect signature is exactly the set of methods called at the in-model sites *)
Definition opcode_name (o : opcode) : string :=
  match o with
  | OExists => "Exists" | OMkdir => "Mkdir" | OMkdirAll => "MkdirAll" | OCleanedAbs => "CleanedAbs"
  | OReadFile => "ReadFile" | OWriteFile => "WriteFile" | ORemoveAll => "RemoveAll" | OWalk => "Walk"
  end.
Definition all_opcodes : list opcode :=
  [OExists; OMkdir; OMkdirAll; OCleanedAbs; OReadFile; OWriteFile; ORemoveAll; OWalk].
Lemma all_opcodes_complete o : In o all_opcodes.
Proof. destruct o; cbn; tauto. Qed.

Definition in_model_methods : list string :=
  List.map (fun t => snd (fst t))
           (filter (fun t => negb (has_prefix "outside" (snd t))) model_fs_sites).

Lemma Gen_fault_points :
  (* every in-model call site calls a method of the effect signature … *)
  forallb (fun m => existsb (fun o => String.eqb (opcode_name o) m) all_opcodes) in_model_methods = true /\
  (* … and every effect of the signature is called at some in-model site *)
  forallb (fun o => existsb (String.eqb (opcode_name o)) in_model_methods) all_opcodes = true.
Proof. vm_compute. split; reflexivity. Qed.

(* ------------------------------------------------------------------ interpreter *)

Lemma run_op {A} ch fault (e : eff) (k : eres -> prog A) w :
  (forall c, e <> EChoose c) ->
  run ch fault (Op e k) w = let '(w', r) := step_world fault e w in run ch fault (k r) w'.
Proof. destruct e; intros H; try reflexivity. exfalso; eapply H; eauto. Qed.

Lemma every_call_faultable (e : eff) (w : world) :
  (forall c, e <> EChoose c) ->
  step_world (Some (w_n w)) e w =
  (mkW (w_fs w) (S (w_n w)) (mkEv (eff_op e) (eff_path e) (res_ok (fail_res e)) :: w_trace w), fail_res e).
Proof.
  intros H. unfold step_world, fault_hit. rewrite Nat.eqb_refl.
  destruct e; try reflexivity. exfalso; eapply H; eauto.
Qed.

Lemma run_choose {A} ch fault cands (k : eres -> prog A) w :
  run ch fault (Op (EChoose cands) k) w = run ch fault (k (RPick (ch (w_trace w) cands))) w.
Proof. reflexivity. Qed.

Lemma run_bind {A B} ch fault (m : prog A) (f : A -> prog B) : forall w,
  run ch fault (pbind m f) w =
  match run ch fault m w with
  | (w', OOk a) => run ch fault (f a) w'
  | (w', OExn x) => (w', OExn x)
  end.
Proof.
  induction m as [a|e k IH|x]; intros w; cbn [pbind]; try reflexivity.
  destruct e; try (rewrite !run_op by discriminate; destruct (step_world fault _ w) as [w1 r]; apply IH).
  rewrite !run_choose. apply IH.
Qed.

Lemma run_pcatch {A} ch fault (m : prog A) : forall w,
  run ch fault (pcatch m) w =
  match run ch fault m w with
  | (w', OOk a) => (w', OOk (Some a))
  | (w', OExn XErr) => (w', OOk None)
  | (w', OExn x) => (w', OExn x)
  end.
Proof.
  induction m as [a|e k IH|x]; intros w; cbn [pcatch]; try reflexivity.
  - destruct e; try (rewrite !run_op by discriminate; destruct (step_world fault _ w) as [w1 r]; apply IH).
    rewrite !run_choose. apply IH.
  - destruct x; reflexivity.
Qed.

Lemma run_ptry {A} ch fault (m : prog A) : forall w,
  run ch fault (ptry m) w =
  match run ch fault m w with
  | (w', OOk a) => (w', OOk (inl a))
  | (w', OExn XErr) => (w', OOk (inr XErr))
  | (w', OExn XPanic) => (w', OOk (inr XPanic))
  | (w', OExn x) => (w', OExn x)
  end.
Proof.
  induction m as [a|e k IH|x]; intros w; cbn [ptry]; try reflexivity.
  - destruct e; try (rewrite !run_op by discriminate; destruct (step_world fault _ w) as [w1 r]; apply IH).
    rewrite !run_choose. apply IH.
  - destruct x; reflexivity.
Qed.

(* ------------------------------------------------------------------ file system lemmas *)

Definition fs_wf (s : fs) : Prop := forall p e, In (p, e) s -> good_path p = true.

Lemma lookup_in p s e : lookup p s = Some e -> In (p, e) s.
Proof.
  induction s as [|[q e'] s IH]; cbn; intros H; [discriminate|].
  destruct (cpath_eqb q p) eqn:E.
  - apply cpath_eqb_eq in E; subst. inv H. auto.
  - auto.
Qed.

Lemma lookup_set p q e s : lookup p (fs_set q e s) = if cpath_eqb q p then Some e else lookup p s.
Proof. reflexivity. Qed.

Lemma lookup_remove p q s : lookup p (fs_remove q s) = if is_prefix q p then None else lookup p s.
Proof.
  unfold fs_remove. induction s as [|[k e] s IH]; cbn.
  - destruct (is_prefix q p); reflexivity.
  - destruct (is_prefix q k) eqn:Ek; cbn.
    + rewrite IH. destruct (cpath_eqb k p) eqn:E; auto.
      apply cpath_eqb_eq in E; subst. rewrite Ek. reflexivity.
    + destruct (cpath_eqb k p) eqn:E; auto.
      apply cpath_eqb_eq in E; subst. rewrite Ek. reflexivity.
Qed.

Lemma fs_wf_set s q e : fs_wf s -> good_path q = true -> fs_wf (fs_set q e s).
Proof. intros H Hq p e' [Hin|Hin]; [inv Hin; auto | eauto]. Qed.

Lemma fs_wf_remove s q : fs_wf s -> fs_wf (fs_remove q s).
Proof. intros H p e Hin. unfold fs_remove in Hin. apply filter_In in Hin. destruct Hin; eauto. Qed.

Lemma find_walk_path s : forall rest cur q e, find_walk s cur rest = FNode q e -> q = cur ++ rest.
Proof.
  induction rest as [|x r IH]; intros cur q e H; cbn in H.
  - inv H. rewrite app_nil_r; auto.
  - destruct (lookup (cur ++ [x]) s) as [[|c]|] eqn:L; try discriminate.
    + apply IH in H. rewrite <- app_assoc in H. auto.
    + destruct r; [|discriminate]. inv H. auto.
Qed.

Lemma find_walk_not_root s : forall rest cur, find_walk s cur rest <> FRoot.
Proof.
  induction rest as [|x r IH]; intros cur; cbn; [discriminate|].
  destruct (lookup (cur ++ [x]) s) as [[|c]|]; try discriminate; auto.
  destruct r; discriminate.
Qed.

Lemma find_walk_good s : fs_wf s -> forall rest cur q e,
  good_path cur = true -> find_walk s cur rest = FNode q e -> good_path q = true.
Proof.
  intros W. induction rest as [|x r IH]; intros cur q e G H; cbn in H.
  - inv H; auto.
  - destruct (lookup (cur ++ [x]) s) as [[|c]|] eqn:L; try discriminate.
    + apply lookup_in in L. eapply IH; [|eauto]. eapply W; eauto.
    + destruct r; [|discriminate]. inv H. apply lookup_in in L. eapply W; eauto.
Qed.

(* a node found below a non-empty remainder is bound in the state *)
Lemma find_walk_bound s : forall rest cur q e,
  rest <> [] -> find_walk s cur rest = FNode q e -> lookup q s = Some e.
Proof.
  induction rest as [|x r IH]; intros cur q e Hne H; [congruence|]. cbn in H.
  destruct (lookup (cur ++ [x]) s) as [[|c]|] eqn:L; try discriminate.
  - destruct r as [|y r'].
    + cbn in H. inv H. auto.
    + eapply IH; [discriminate | eauto].
  - destruct r; [|discriminate]. inv H. auto.
Qed.

Lemma query_root_forms p : (String.eqb p "/" || String.eqb p ".")%bool = true -> query_comps p = [].
Proof.
  intros H. apply orb_prop in H. destruct H as [H|H]; apply String.eqb_eq in H; subst; reflexivity.
Qed.

Lemma fs_find_node s p q e : fs_find s p = FNode q e -> q = query_comps p /\ q <> [].
Proof.
  unfold fs_find. destruct (String.eqb p ""); [discriminate|].
  destruct (String.eqb p "/" || String.eqb p ".")%bool; [discriminate|].
  destruct (query_comps p) as [|c0 c] eqn:Q; [discriminate|].
  intros H. apply find_walk_path in H. cbn in H. subst. split; auto. discriminate.
Qed.

Lemma fs_find_root s p : fs_find s p = FRoot -> query_comps p = [].
Proof.
  unfold fs_find. destruct (String.eqb p ""); [discriminate|].
  destruct (String.eqb p "/" || String.eqb p ".")%bool eqn:E.
  - intros _. apply query_root_forms; auto.
  - destruct (query_comps p) as [|c0 c]; [discriminate|].
    intros H. exfalso. eapply find_walk_not_root; eauto.
Qed.

Lemma fs_find_good s p q e : fs_wf s -> fs_find s p = FNode q e -> good_path q = true.
Proof.
  intros W. unfold fs_find. destruct (String.eqb p ""); [discriminate|].
  destruct (String.eqb p "/" || String.eqb p ".")%bool; [discriminate|].
  destruct (query_comps p) as [|c0 c]; [discriminate|].
  intros H. eapply (find_walk_good s W _ [] q e); [reflexivity | exact H].
Qed.

Lemma good_path_removelast q : good_path q = true -> good_path (removelast q) = true.
Proof.
  intros H. destruct q as [|x q] using rev_ind; auto.
  rewrite removelast_last. rewrite good_path_app in H. apply andb_prop in H; tauto.
Qed.

Lemma good_last q : q <> [] -> good_path q = true -> good_comp (last q "/") = true.
Proof.
  intros Hne H. destruct q as [|x q _] using rev_ind; [congruence|].
  rewrite last_last. rewrite good_path_app in H. apply andb_prop in H. destruct H as [_ H].
  cbn in H. rewrite andb_true_r in H. auto.
Qed.

(* CleanedAbs on the in-memory file system is lexical: when it succeeds, dir and name are the
   split of the cleaned query path — whatever the state. *)
Definition abs_lex (p : string) (d : cpath) (f : string) : Prop :=
  good_path d = true /\
  ((f = "" /\ d = query_comps p) \/ (good_comp f = true /\ d ++ [f] = query_comps p)).

Lemma exec_cleaned_abs s p s' d f :
  fs_wf s -> exec (ECleanedAbs p) s = (s', RAbs d f) -> abs_lex p d f.
Proof.
  intros W. unfold exec. destruct (fs_find s p) as [|q [|c]| |] eqn:F; intros H; inv H.
  - split; auto. left. split; auto. symmetry. eapply fs_find_root; eauto.
  - split; [eapply fs_find_good; eauto|]. left. split; auto. apply fs_find_node in F; tauto.
  - pose proof (fs_find_good _ _ _ _ W F) as G. apply fs_find_node in F. destruct F as [-> Hne].
    split; [apply good_path_removelast; auto|]. right. split.
    + apply good_last; auto.
    + unfold dir_c, base_c. symmetry. apply app_removelast_last; auto.
Qed.

Lemma abs_lex_join p d f : abs_lex p d f -> join_abs d f = query_comps p /\ good_path (query_comps p) = true.
Proof.
  intros [G [[-> ->]|[Gf E]]].
  - rewrite join_abs_empty. auto.
  - rewrite join_abs_name by auto. rewrite <- E. split; auto.
    rewrite good_path_app, G. cbn. rewrite Gf. reflexivity.
Qed.

(* add_dirs only binds previously unbound extensions of [cur] along [rest] *)
Lemma add_dirs_lookup : forall rest s cur s' p,
  add_dirs s cur rest = Some s' ->
  lookup p s' = lookup p s \/
  (lookup p s = None /\ exists k, 0 < k <= List.length rest /\ p = cur ++ firstn k rest).
Proof.
  induction rest as [|x r IH]; intros s cur s' p H; cbn in H.
  - inv H. auto.
  - destruct (String.eqb x ".."); [discriminate|]. destruct (legal_name x); [|discriminate]. cbn in H.
    destruct (lookup (cur ++ [x]) s) as [[|c]|] eqn:L; try discriminate.
    + destruct (IH _ _ _ p H) as [E|[E (k & Hk & ->)]]; auto.
      right. split; auto. exists (S k). split; [cbn; lia|]. cbn. rewrite <- app_assoc. reflexivity.
    + destruct (IH _ _ _ p H) as [E|[E (k & Hk & ->)]].
      * rewrite E. rewrite lookup_set. destruct (cpath_eqb (cur ++ [x]) p) eqn:Eq; auto.
        apply cpath_eqb_eq in Eq; subst. right. split; auto. exists 1. split; [cbn; lia|]. reflexivity.
      * rewrite lookup_set in E. destruct (cpath_eqb (cur ++ [x]) ((cur ++ [x]) ++ firstn k r)); [discriminate|].
        right. split; auto. exists (S k). split; [cbn; lia|]. cbn. rewrite <- app_assoc. reflexivity.
Qed.

Lemma add_dirs_legal : forall rest s cur s', add_dirs s cur rest = Some s' -> forallb legal_name rest = true.
Proof.
  induction rest as [|x r IH]; intros s cur s' H; cbn in *; auto.
  destruct (String.eqb x ".."); [discriminate|]. destruct (legal_name x) eqn:Lx; [|discriminate]. cbn in *.
  destruct (lookup (cur ++ [x]) s) as [[|c]|]; try discriminate; eauto.
Qed.

Lemma legal_all_good l : forallb legal_name l = true -> good_path l = true.
Proof.
  unfold good_path. induction l; cbn; auto. intros H; apply andb_prop in H; destruct H.
  rewrite legal_name_good; auto.
Qed.

Lemma add_dirs_wf : forall rest s cur s',
  fs_wf s -> good_path cur = true -> add_dirs s cur rest = Some s' -> fs_wf s'.
Proof.
  induction rest as [|x r IH]; intros s cur s' W G H; cbn in H.
  - inv H; auto.
  - destruct (String.eqb x ".."); [discriminate|]. destruct (legal_name x) eqn:Lx; [|discriminate]. cbn in H.
    assert (G' : good_path (cur ++ [x]) = true).
    { rewrite good_path_app, G. cbn. rewrite legal_name_good; auto. }
    destruct (lookup (cur ++ [x]) s) as [[|c]|] eqn:L; try discriminate.
    + eapply IH; eauto.
    + eapply IH; [| |eauto]; auto. apply fs_wf_set; auto.
Qed.

Lemma firstn_prefix {A} k (l : list A) : exists r, l = firstn k l ++ r.
Proof. exists (skipn k l). symmetry. apply firstn_skipn. Qed.

Lemma is_prefix_firstn k q : is_prefix (firstn k q) q = true.
Proof. destruct (firstn_prefix k q) as [r E]. rewrite E at 2. apply is_prefix_app. Qed.

Lemma prefix_is_firstn p q : is_prefix p q = true -> p = firstn (List.length p) q.
Proof.
  intros H. destruct (is_prefix_inv _ _ H) as [r ->].
  rewrite firstn_app, Nat.sub_diag, firstn_all. cbn. rewrite app_nil_r. reflexivity.
Qed.

(* ---- Walk listing ---- *)

Lemma in_insert_str x y l : In x (insert_str y l) -> x = y \/ In x l.
Proof.
  induction l as [|z t IH]; cbn; intros H.
  - destruct H as [<-|[]]; auto.
  - destruct (String.eqb y z); auto.
    destruct (String.ltb y z).
    + destruct H as [<-|H]; auto.
    + destruct H as [<-|H]; [right; left; auto|]. destruct (IH H) as [->|H']; auto.
Qed.

Lemma child_names_in s q name : In name (child_names s q) -> exists e, In (q ++ [name], e) s.
Proof.
  unfold child_names. induction s as [|[k e] s IH]; cbn; intros H; [contradiction|].
  destruct (rev k) as [|nm drev] eqn:R.
  - destruct (IH H) as [e' He']. eauto.
  - destruct (cpath_eqb (rev drev) q) eqn:Eq.
    + apply in_insert_str in H. destruct H as [->|H].
      * apply cpath_eqb_eq in Eq. subst q. exists e. left.
        f_equal. rewrite <- (rev_involutive k), R. reflexivity.
      * destruct (IH H) as [e' He']. eauto.
    + destruct (IH H) as [e' He']. eauto.
Qed.

(* every listed path is the start path extended by proper components *)
Definition under (q : cpath) (e : string * bool) : Prop :=
  exists r, good_path r = true /\ fst e = show_abs (q ++ r).

Lemma walk_list_under s : fs_wf s -> forall fuel q, Forall (under q) (walk_list fuel s q).
Proof.
  intros W. induction fuel as [|fuel IH]; intros q; cbn [walk_list]; constructor.
  - exists []. rewrite app_nil_r. auto.
  - apply Forall_forall. intros e He. apply in_flat_map in He. destruct He as (name & Hn & He).
    destruct (child_names_in _ _ _ Hn) as [e' Hin]. pose proof (W _ _ Hin) as G.
    rewrite good_path_app in G. apply andb_prop in G. destruct G as [_ Gn].
    destruct (lookup (q ++ [name]) s) as [[|c]|] eqn:L.
    + pose proof (IH (q ++ [name])) as F. rewrite Forall_forall in F.
      destruct (F _ He) as (r & Gr & Er). exists (name :: r). split.
      * change (good_path ([name] ++ r) = true). rewrite good_path_app, Gn, Gr. reflexivity.
      * rewrite Er, <- app_assoc. reflexivity.
    + destruct He as [<-|[]]. exists [name]. split; auto.
    + destruct He.
Qed.

Definition walk_lex (p : string) (l : list (string * bool)) : Prop :=
  good_path (query_comps p) = true /\
  Forall (fun e => exists r, good_path r = true /\ query_comps (fst e) = query_comps p ++ r) l.

Lemma under_query q e : good_path q = true -> under q e ->
  exists r, good_path r = true /\ query_comps (fst e) = q ++ r.
Proof.
  intros G (r & Gr & E). exists r. split; auto. rewrite E. apply query_show.
  rewrite good_path_app, G, Gr. reflexivity.
Qed.

Lemma exec_walk s p s' l : fs_wf s -> exec (EWalk p) s = (s', RList l) -> walk_lex p l.
Proof.
  intros W. unfold exec. destruct (fs_find s p) as [|q [|c]| |] eqn:F; intros H;
    try discriminate; injection H as <- <-.
  - unfold walk_lex. rewrite (fs_find_root _ _ F). split; auto.
    pose proof (walk_list_under s W (S (List.length s)) []) as U. cbn [walk_list] in U.
    eapply Forall_impl; [|exact U]. intros e Ue. apply under_query; auto.
  - pose proof (fs_find_good _ _ _ _ W F) as G. apply fs_find_node in F. destruct F as [-> _].
    split; auto.
    pose proof (walk_list_under s W (S (List.length s)) (query_comps p)) as U. cbn [walk_list] in U.
    eapply Forall_impl; [|exact U]. intros e Ue. apply under_query; auto.
  - pose proof (fs_find_good _ _ _ _ W F) as G. apply fs_find_node in F. destruct F as [-> _].
    split; auto. constructor; auto. exists []. rewrite app_nil_r. split; auto. cbn [fst]. apply query_show; auto.
Qed.

(* ------------------------------------------------------------------ the safety invariant *)

Section Safety.
  Variable nd : cpath.          (* the localize destination *)
  Variable s0 : fs.             (* the state before localize started *)

  Definition mutating (o : opcode) : bool :=
    match o with OMkdir | OMkdirAll | OWriteFile => true | _ => false end.

  (* where the in-memory file system looks for the path of an event *)
  Definition ev_target (e : event) : list string := query_comps (ev_path e).

  Definition safe_ev (e : event) : Prop :=
    (mutating (ev_op e) = true -> is_prefix nd (ev_target e) = true) /\
    (ev_op e = ORemoveAll -> ev_target e = nd).

  (* every proper ancestor of newDir is an existing directory *)
  Definition ancestors_dirs (s : fs) : Prop :=
    forall k, 0 < k < List.length nd -> lookup (firstn k nd) s = Some EDir.

  Definition frame (s : fs) : Prop :=
    ancestors_dirs s0 -> forall p, is_prefix nd p = false -> lookup p s = lookup p s0.

  Definition Inv (w : world) : Prop :=
    fs_wf (w_fs w) /\ Forall safe_ev (w_trace w) /\ frame (w_fs w).

  Definition triple {A} (m : prog A) (Q : A -> Prop) : Prop :=
    forall ch fault w w' out,
      Inv w -> run ch fault m w = (w', out) -> Inv w' /\ (forall a, out = OOk a -> Q a).

  Lemma triple_ret {A} (a : A) (Q : A -> Prop) : Q a -> triple (Ret a) Q.
  Proof. intros HQ ch fault w w' out I H. cbn in H. inv H. split; auto. intros a' E; inv E; auto. Qed.

  Lemma triple_throw {A} x (Q : A -> Prop) : triple (Throw x) Q.
  Proof. intros ch fault w w' out I H. cbn in H. inv H. split; auto. intros a' E; inv E. Qed.

  Lemma triple_bind {A B} (m : prog A) (f : A -> prog B) Q R :
    triple m Q -> (forall a, Q a -> triple (f a) R) -> triple (pbind m f) R.
  Proof.
    intros Hm Hf ch fault w w' out I H. rewrite run_bind in H.
    destruct (run ch fault m w) as [w1 [a|x]] eqn:E.
    - destruct (Hm _ _ _ _ _ I E) as [I1 HQ]. eapply Hf; eauto.
    - inv H. destruct (Hm _ _ _ _ _ I E) as [I1 _]. split; auto. intros a E'; inv E'.
  Qed.

  Lemma triple_conseq {A} (m : prog A) (Q R : A -> Prop) :
    triple m Q -> (forall a, Q a -> R a) -> triple m R.
  Proof. intros Hm HQR ch fault w w' out I H. destruct (Hm _ _ _ _ _ I H) as [I1 HQ]. split; auto. Qed.

  Lemma triple_pure {A} (m : prog A) (P : Prop) : P -> triple m (fun _ => True) -> triple m (fun _ => P).
  Proof. intros HP Hm. eapply triple_conseq; eauto. Qed.

  Lemma triple_pcatch {A} (m : prog A) Q :
    triple m Q -> triple (pcatch m) (fun o => forall a, o = Some a -> Q a).
  Proof.
    intros Hm ch fault w w' out I H. rewrite run_pcatch in H.
    destruct (run ch fault m w) as [w1 [a|x]] eqn:E; destruct (Hm _ _ _ _ _ I E) as [I1 HQ].
    - inv H. split; auto. intros o Eo; inv Eo. intros a' Ea; inv Ea. auto.
    - destruct x; inv H; split; auto; intros o Eo; inv Eo; intros a' Ea; inv Ea.
  Qed.

  Lemma triple_ptry {A} (m : prog A) Q :
    triple m Q -> triple (ptry m) (fun o => forall a, o = inl a -> Q a).
  Proof.
    intros Hm ch fault w w' out I H. rewrite run_ptry in H.
    destruct (run ch fault m w) as [w1 [a|x]] eqn:E; destruct (Hm _ _ _ _ _ I E) as [I1 HQ].
    - inv H. split; auto. intros o Eo; inv Eo. intros a' Ea; inv Ea. auto.
    - destruct x; inv H; split; auto; intros o Eo; inv Eo; intros a' Ea; inv Ea.
  Qed.

  Lemma triple_mapP {A B} (f : A -> prog B) (l : list A) :
    (forall x, triple (f x) (fun _ => True)) -> triple (mapP f l) (fun _ => True).
  Proof.
    intros Hf. induction l as [|x t IH]; cbn [mapP].
    - apply triple_ret; auto.
    - eapply triple_bind; [apply Hf|]. intros y _.
      eapply triple_bind; [apply IH|]. intros ys _. apply triple_ret; auto.
  Qed.

  Lemma triple_choose {A} cands (k : eres -> prog A) Q :
    (forall r, triple (k r) Q) -> triple (Op (EChoose cands) k) Q.
  Proof. intros Hk ch fault w w' out I H. rewrite run_choose in H. eapply Hk; eauto. Qed.

  (* ---- single steps ---- *)

  Definition read_only (e : eff) : bool :=
    match e with EExists _ | ECleanedAbs _ | EReadFile _ | EWalk _ => true | _ => false end.

  Lemma exec_read_only e s : read_only e = true -> fst (exec e s) = s.
  Proof.
    destruct e; try discriminate; intros _; cbn [exec]; try reflexivity.
    - destruct (fs_find s p) as [|? [|?]| |]; reflexivity.
    - destruct (fs_find s p) as [|? [|?]| |]; reflexivity.
    - destruct (fs_find s p) as [|? [|?]| |]; reflexivity.
  Qed.

  Lemma step_read_only fault e w :
    read_only e = true -> Inv w -> Inv (fst (step_world fault e w)) /\ w_fs (fst (step_world fault e w)) = w_fs w.
  Proof.
    intros R (W & T & F). unfold step_world.
    assert (S : forall r, safe_ev (mkEv (eff_op e) (eff_path e) (res_ok r))).
    { intros r. destruct e; try discriminate; split; cbn; intros; discriminate. }
    destruct (fallible e && fault_hit fault (w_n w))%bool.
    - cbn. split; auto. fin S.
    - pose proof (exec_read_only e (w_fs w) R) as X.
      destruct (exec e (w_fs w)) as [s' r]. cbn in X. subst s'. cbn.
      split; auto. fin S.
  Qed.

  Lemma triple_ro {A} e (k : eres -> prog A) Q :
    read_only e = true -> (forall r, triple (k r) Q) -> triple (Op e k) Q.
  Proof.
    intros R Hk ch fault w w' out I H.
    rewrite run_op in H by (destruct e; discriminate).
    destruct (step_world fault e w) as [w1 r] eqn:E.
    pose proof (step_read_only fault e w R I) as [I1 _]. rewrite E in I1. cbn in I1.
    eapply Hk; eauto.
  Qed.

  Lemma triple_cleaned_abs {A} p (k : eres -> prog A) Q :
    triple (k RFail) Q ->
    (forall d f, abs_lex p d f -> triple (k (RAbs d f)) Q) ->
    triple (Op (ECleanedAbs p) k) Q.
  Proof.
    intros Hfail Hok ch fault w w' out I H.
    rewrite run_op in H by discriminate.
    destruct (step_world fault (ECleanedAbs p) w) as [w1 r] eqn:E.
    pose proof (step_read_only fault (ECleanedAbs p) w eq_refl I) as [I1 _]. rewrite E in I1. cbn in I1.
    unfold step_world in E. destruct I as (W & _ & _).
    destruct (fallible (ECleanedAbs p) && fault_hit fault (w_n w))%bool.
    - inv E. eapply Hfail; eauto.
    - destruct (exec (ECleanedAbs p) (w_fs w)) as [s' r'] eqn:X. inv E.
      destruct r;
        try (cbn in X; destruct (fs_find (w_fs w) p) as [|? [|?]| |]; discriminate).
      + eapply Hfail; eauto.
      + eapply Hok; eauto. eapply exec_cleaned_abs; eauto.
  Qed.

  Lemma triple_walk {A} p (k : eres -> prog A) Q :
    triple (k RFail) Q ->
    (forall l, walk_lex p l -> triple (k (RList l)) Q) ->
    triple (Op (EWalk p) k) Q.
  Proof.
    intros Hfail Hok ch fault w w' out I H.
    rewrite run_op in H by discriminate.
    destruct (step_world fault (EWalk p) w) as [w1 r] eqn:E.
    pose proof (step_read_only fault (EWalk p) w eq_refl I) as [I1 _]. rewrite E in I1. cbn in I1.
    unfold step_world in E. destruct I as (W & _ & _).
    destruct (fallible (EWalk p) && fault_hit fault (w_n w))%bool.
    - inv E. eapply Hfail; eauto.
    - destruct (exec (EWalk p) (w_fs w)) as [s' r'] eqn:X. inv E.
      destruct r;
        try (cbn in X; destruct (fs_find (w_fs w) p) as [|? [|?]| |]; discriminate).
      + eapply Hfail; eauto.
      + eapply Hok; eauto. eapply exec_walk; eauto.
  Qed.

  Lemma triple_op_bool e : read_only e = true -> triple (op_bool e) (fun _ => True).
  Proof.
    intros R. unfold op_bool. apply triple_ro; auto. intros r; destruct r; apply triple_ret; auto.
  Qed.

  (* frame of mkdir -p towards a path inside newDir *)
  Lemma add_dirs_frame s q s' :
    frame s -> is_prefix nd q = true -> add_dirs s [] q = Some s' -> frame s'.
  Proof.
    intros F Hq H A p Hp.
    destruct (add_dirs_lookup _ _ _ _ p H) as [E|[E (k & Hk & ->)]].
    - rewrite E. apply F; auto.
    - exfalso. cbn in E, Hp.
      (* firstn k q is a prefix of q, as is nd: comparable; not inside nd => proper prefix of nd *)
      destruct (is_prefix_comparable _ _ _ Hq (is_prefix_firstn k q)) as [C|C].
      + cbn in Hp. rewrite C in Hp. discriminate.
      + pose proof (prefix_is_firstn _ _ C) as E2.
        assert (L : List.length (firstn k q) < List.length nd).
        { pose proof (is_prefix_length _ _ C).
          destruct (Nat.eq_dec (List.length (firstn k q)) (List.length nd)) as [El|]; [|lia].
          exfalso. assert (Hfn : firstn k q = nd).
          { rewrite E2. rewrite El. apply firstn_all. }
          rewrite Hfn in Hp. rewrite is_prefix_refl in Hp. discriminate. }
        assert (P : 0 < List.length (firstn k q)).
        { rewrite firstn_length. destruct q; cbn in *; lia. }
        cbn in *. rewrite (F A) in E by (cbn; auto).
        rewrite E2 in E. rewrite (A _ (conj P L)) in E. discriminate.
  Qed.

  Lemma step_mkdir fault e p w :
    (e = EMkdir p \/ e = EMkdirAll p) -> is_prefix nd (query_comps p) = true ->
    Inv w -> Inv (fst (step_world fault e w)).
  Proof.
    intros He Hp (W & T & F).
    assert (S : safe_ev (mkEv (eff_op e) (eff_path e) (res_ok RFail)) /\
                forall r, safe_ev (mkEv (eff_op e) (eff_path e) (res_ok r))).
    { destruct He; subst; repeat split; cbn; intros; auto; discriminate. }
    destruct S as [_ S].
    unfold step_world. destruct (fallible e && fault_hit fault (w_n w))%bool.
    - cbn. fin S.
    - assert (X : exec e (w_fs w) = match fs_mkdir (w_fs w) p with Some s' => (s', RUnit) | None => (w_fs w, RFail) end)
        by (destruct He; subst; reflexivity).
      rewrite X. unfold fs_mkdir. destruct (add_dirs (w_fs w) [] (query_comps p)) as [s'|] eqn:D; cbn.
      + fin S.
        * apply (add_dirs_wf _ _ [] _ W eq_refl D).
        * eapply add_dirs_frame; eauto.
      + fin S.
  Qed.

  Lemma removelast_rev_tail {A} (x : A) l : rev (x :: l) = rev l ++ [x].
  Proof. reflexivity. Qed.

  Lemma step_write fault p c w :
    is_prefix nd (query_comps p) = true -> Inv w -> Inv (fst (step_world fault (EWriteFile p c) w)).
  Proof.
    intros Hp (W & T & F).
    assert (S : forall r, safe_ev (mkEv OWriteFile p (res_ok r))).
    { intros r; split; cbn; intros; auto; discriminate. }
    unfold step_world. destruct (fallible (EWriteFile p c) && fault_hit fault (w_n w))%bool.
    - cbn. fin S.
    - cbn [exec]. unfold fs_write.
      destruct (rev (query_comps p)) as [|name drev] eqn:R; cbn; [fin S|].
      assert (Q : query_comps p = rev drev ++ [name]).
      { rewrite <- (rev_involutive (query_comps p)), R. reflexivity. }
      destruct (add_dirs (w_fs w) [] (rev drev)) as [s1|] eqn:D; cbn; [|fin S].
      destruct (legal_name name) eqn:Ln; cbn; [|fin S].
      pose proof (add_dirs_wf _ _ [] _ W eq_refl D) as W1.
      assert (G : good_path (query_comps p) = true).
      { rewrite Q, good_path_app. rewrite (legal_all_good _ (add_dirs_legal _ _ _ _ D)). cbn.
        rewrite legal_name_good; auto. }
      assert (F1 : frame s1).
      { intros A q Hq. destruct (add_dirs_lookup _ _ _ _ q D) as [E|[E (k & Hk & ->)]].
        - rewrite E. apply F; auto.
        - exfalso. cbn in E, Hq.
          assert (Pq : is_prefix (firstn k (rev drev)) (query_comps p) = true).
          { rewrite Q. apply is_prefix_app_r. apply is_prefix_firstn. }
          destruct (is_prefix_comparable _ _ _ Hp Pq) as [C|C].
          + rewrite C in Hq. discriminate.
          + pose proof (prefix_is_firstn _ _ C) as E2.
            assert (L : List.length (firstn k (rev drev)) < List.length nd).
            { pose proof (is_prefix_length _ _ C).
              destruct (Nat.eq_dec (List.length (firstn k (rev drev))) (List.length nd)) as [El|]; [|lia].
              exfalso. assert (Hfn : firstn k (rev drev) = nd).
              { rewrite E2. rewrite El. apply firstn_all. }
              rewrite Hfn in Hq. rewrite is_prefix_refl in Hq. discriminate. }
            assert (P : 0 < List.length (firstn k (rev drev))).
            { rewrite firstn_length. destruct (rev drev); cbn in *; lia. }
            rewrite (F A) in E by auto.
            rewrite E2 in E. rewrite (A _ (conj P L)) in E. discriminate. }
      destruct (lookup (query_comps p) s1) as [[|c']|] eqn:L; cbn; fin S.
      + apply fs_wf_set; auto.
      + intros A q Hq. cbn [w_fs]. rewrite lookup_set.
        destruct (cpath_eqb (query_comps p) q) eqn:Eq.
        * apply cpath_eqb_eq in Eq; subst. rewrite Hp in Hq. discriminate.
        * apply F1; auto.
      + apply fs_wf_set; auto.
      + intros A q Hq. cbn [w_fs]. rewrite lookup_set.
        destruct (cpath_eqb (query_comps p) q) eqn:Eq.
        * apply cpath_eqb_eq in Eq; subst. rewrite Hp in Hq. discriminate.
        * apply F1; auto.
  Qed.

  Lemma step_remove fault p w :
    query_comps p = nd -> Inv w -> Inv (fst (step_world fault (ERemoveAll p) w)).
  Proof.
    intros Hp (W & T & F).
    assert (S : forall r, safe_ev (mkEv ORemoveAll p (res_ok r))).
    { intros r; split; cbn; intros; auto; discriminate. }
    unfold step_world. destruct (fallible (ERemoveAll p) && fault_hit fault (w_n w))%bool.
    - cbn. fin S.
    - cbn [exec]. unfold fs_remove_all.
      destruct (fs_find (w_fs w) p) as [|q e| |] eqn:Fd; cbn; fin S.
      + apply fs_wf_remove; auto.
      + intros A q' Hq'. cbn [w_fs]. rewrite lookup_remove.
        apply fs_find_node in Fd. destruct Fd as [-> _]. rewrite Hp, Hq'. apply F; auto.
  Qed.

  Lemma triple_mut {A} e p (k : eres -> prog A) Q :
    (e = EMkdir p \/ e = EMkdirAll p \/ exists c, e = EWriteFile p c) ->
    is_prefix nd (query_comps p) = true ->
    (forall r, triple (k r) Q) -> triple (Op e k) Q.
  Proof.
    intros He Hp Hk ch fault w w' out I H.
    rewrite run_op in H by (destruct He as [->|[->|[c ->]]]; discriminate).
    destruct (step_world fault e w) as [w1 r] eqn:E.
    assert (I1 : Inv w1).
    { replace w1 with (fst (step_world fault e w)) by (rewrite E; reflexivity).
      destruct He as [->|[->|[c ->]]].
      - eapply step_mkdir; eauto.
      - eapply step_mkdir; eauto.
      - eapply step_write; eauto. }
    eapply Hk; eauto.
  Qed.

  Lemma triple_remove {A} p (k : eres -> prog A) Q :
    query_comps p = nd ->
    (forall r, triple (k r) Q) -> triple (Op (ERemoveAll p) k) Q.
  Proof.
    intros Hp Hk ch fault w w' out I H.
    rewrite run_op in H by discriminate.
    destruct (step_world fault (ERemoveAll p) w) as [w1 r] eqn:E.
    assert (I1 : Inv w1).
    { replace w1 with (fst (step_world fault (ERemoveAll p) w)) by (rewrite E; reflexivity).
      eapply step_remove; eauto. }
    eapply Hk; eauto.
  Qed.

  Lemma triple_op_unit e p :
    (e = EMkdir p \/ e = EMkdirAll p \/ exists c, e = EWriteFile p c) ->
    is_prefix nd (query_comps p) = true -> triple (op_unit e) (fun _ => True).
  Proof.
    intros He Hp. unfold op_unit. eapply triple_mut; eauto.
    intros r. destruct r; try apply triple_throw. apply triple_ret; auto.
  Qed.

  (* ---------------------------------------------------------------- the localizer's functions *)

  Variable orc : oracles.
  Variable scope : cpath.
  Hypothesis Gnd : good_path nd = true.

  Let A := mkArgs scope nd.

  (* the loader has established that [path] denotes something strictly below [root] *)
  Definition in_root (root : cpath) (path : string) : Prop :=
    exists r', r' <> [] /\ good_path r' = true /\ query_comps (abs_of root path) = root ++ r'.

  (* localizer state: root = scope/r, destination = newDir/r *)
  Definition lc_ok (lc : lcst) : Prop :=
    exists r, good_path r = true /\ lc_root lc = scope ++ r /\ lc_dst lc = nd ++ r.

  Lemma triple_guard s : triple (guard_local s) (fun _ => True).
  Proof. unfold guard_local. destruct (remote_like s); [apply triple_throw | apply triple_ret; auto]. Qed.

  Lemma triple_confirm_dir p :
    triple (confirm_dir p) (fun d => good_path d = true /\ d = query_comps p).
  Proof.
    unfold confirm_dir. destruct (String.eqb p ""); [apply triple_throw|].
    apply triple_cleaned_abs; [apply triple_throw|].
    intros d f [G L]. destruct (String.eqb f "") eqn:E; [|apply triple_throw].
    apply String.eqb_eq in E; subst. apply triple_ret. split; auto.
    destruct L as [[_ ->]|[Gf _]]; auto. discriminate.
  Qed.

  Lemma triple_crp root file :
    triple (cleaned_relative_path root file)
           (fun lp => lp = rel_comps root (query_comps (abs_of root file))).
  Proof.
    unfold cleaned_relative_path. apply triple_cleaned_abs; [apply triple_throw|].
    intros d f L. apply triple_ret. destruct (abs_lex_join _ _ _ L) as [-> _]. reflexivity.
  Qed.

  Lemma triple_ldr_load lc path :
    triple (ldr_load A lc path) (fun _ => in_root (lc_root lc) path).
  Proof.
    unfold ldr_load. eapply triple_bind; [apply triple_guard|]. intros _ _.
    apply triple_cleaned_abs; [apply triple_throw|].
    intros d f L. destruct (String.eqb f "") eqn:Ef; [apply triple_throw|].
    destruct (has_prefix_c d (lc_root lc)) eqn:Hp; cbn [negb]; [|apply triple_throw].
    assert (IR : in_root (lc_root lc) path).
    { destruct L as [G [[-> _]|[Gf E]]]; [discriminate|].
      unfold has_prefix_c in Hp. destruct (is_prefix_inv _ _ Hp) as [r1 ->].
      exists (r1 ++ [f]). repeat split.
      - destruct r1; discriminate.
      - rewrite good_path_app in G. apply andb_prop in G. destruct G as [_ G].
        rewrite good_path_app, G. cbn. rewrite Gf. reflexivity.
      - rewrite <- E, app_assoc. reflexivity. }
    apply triple_pure; auto.
    apply triple_ro; auto. intros r2. destruct r2; try apply triple_throw.
    eapply triple_bind; [apply triple_crp|]. intros cp _.
    match goal with |- context [if ?b then _ else _] => destruct b end;
      [apply triple_throw | apply triple_ret; auto].
  Qed.

  Lemma good_lc lc : lc_ok lc -> good_path scope = true -> good_path (lc_root lc) = true /\ good_path (lc_dst lc) = true.
  Proof.
    intros (r & G & -> & ->) Gs. rewrite !good_path_app, G, Gs, Gnd. auto.
  Qed.

  Hypothesis Gsc : good_path scope = true.

  Lemma removelast_app_ne {X} (a b : list X) : b <> [] -> removelast (a ++ b) = a ++ removelast b.
  Proof. intros H. apply removelast_app; auto. Qed.

  Lemma triple_lfwc lc path c :
    lc_ok lc -> in_root (lc_root lc) path ->
    triple (loc_file_with_content lc path c) (fun _ => True).
  Proof.
    intros Hlc (r' & Hne & G' & Q). pose proof Hlc as (r & G & Er & Ed).
    unfold loc_file_with_content. eapply triple_bind; [apply triple_crp|].
    intros lp ->. rewrite Q, rel_comps_below.
    rewrite join_comps_normal by (apply good_path_normal; auto).
    assert (Gd : good_path (lc_dst lc ++ r') = true).
    { rewrite Ed, !good_path_app, Gnd, G, G'. reflexivity. }
    eapply triple_bind.
    - eapply triple_op_unit; [right; left; reflexivity|].
      unfold dir_c. rewrite removelast_app_ne by auto.
      rewrite query_show.
      + rewrite Ed, <- app_assoc. apply is_prefix_app.
      + rewrite <- removelast_app_ne by auto. apply good_path_removelast; auto.
    - intros _ _. eapply triple_bind.
      + eapply triple_op_unit; [right; right; eexists; reflexivity|].
        rewrite query_show by auto. rewrite Ed, <- app_assoc. apply is_prefix_app.
      + intros _ _. apply triple_ret; auto.
  Qed.

  Lemma triple_loc_file lc path : lc_ok lc -> triple (loc_file A lc path) (fun _ => True).
  Proof.
    intros Hlc. unfold loc_file. destruct (String.eqb path ""); [apply triple_ret; auto|].
    eapply triple_bind; [apply triple_ldr_load|]. intros c IR. apply triple_lfwc; auto.
  Qed.

  Lemma triple_loc_file_source lc src : lc_ok lc -> triple (loc_file_source A lc src) (fun _ => True).
  Proof.
    intros Hlc. unfold loc_file_source.
    destruct (count_char "="%char src) as [|[|n]]; try apply triple_throw.
    - apply triple_loc_file; auto.
    - destruct (split_first "="%char src) as [[key file]|]; [|apply triple_throw].
      destruct (String.eqb key ""); [apply triple_throw|].
      destruct (String.eqb file ""); [apply triple_throw|].
      eapply triple_bind; [apply triple_loc_file; auto|]. intros; apply triple_ret; auto.
  Qed.

  Lemma triple_loc_generator lc g : lc_ok lc -> triple (loc_generator A lc g) (fun _ => True).
  Proof.
    intros Hlc. unfold loc_generator.
    eapply triple_bind; [apply triple_loc_file; auto|]. intros e _.
    eapply triple_bind; [apply triple_mapP; intros; apply triple_loc_file; auto|]. intros es _.
    eapply triple_bind; [apply triple_mapP; intros; apply triple_loc_file_source; auto|]. intros fs _.
    apply triple_ret; auto.
  Qed.

  Lemma triple_load_k8s lc entry :
    triple (load_k8s orc A lc entry) (fun r => r <> None -> in_root (lc_root lc) entry).
  Proof.
    unfold load_k8s. destruct (o_inline orc entry); [apply triple_ret; congruence|].
    eapply triple_bind; [apply triple_ldr_load|]. intros c IR.
    destruct (is_res orc c); [apply triple_ret; auto | apply triple_throw].
  Qed.

  Lemma triple_loc_k8s lc entry : lc_ok lc -> triple (loc_k8s orc A lc entry) (fun _ => True).
  Proof.
    intros Hlc. unfold loc_k8s. eapply triple_bind; [apply triple_load_k8s|].
    intros [c|] _; [apply triple_loc_file; auto | apply triple_ret; auto].
  Qed.

  Lemma triple_ldr_new lc path :
    triple (ldr_new A lc path) (fun root => good_path root = true /\ is_prefix scope root = true).
  Proof.
    unfold ldr_new. destruct (String.eqb path ""); [apply triple_throw|].
    eapply triple_bind; [apply triple_guard|]. intros _ _.
    destruct (is_abs path); [apply triple_throw|].
    eapply triple_bind; [apply triple_confirm_dir|]. intros root [G _].
    destruct (cycle_with root (lc_root lc :: lc_anc lc)); [apply triple_throw|].
    destruct (has_prefix_c root (a_scope A)) eqn:Hs; cbn [negb]; [|apply triple_throw].
    destruct (has_prefix_c root (a_newdir A)); [apply triple_throw|].
    apply triple_ret. split; auto.
  Qed.

  Lemma triple_copy_entries src dst : forall l,
    good_path dst = true -> is_prefix nd dst = true ->
    Forall (fun e => exists r, good_path r = true /\ query_comps (fst e) = src ++ r) l ->
    triple (copy_entries src dst l) (fun _ => True).
  Proof.
    induction l as [|[p isdir] t IH]; intros Gd Pd F; cbn [copy_entries]; [apply triple_ret; auto|].
    inv F. destruct H1 as (r & Gr & Er). cbn [fst] in Er.
    rewrite Er, rel_comps_below. rewrite join_comps_normal by (apply good_path_normal; auto).
    assert (In_nd : is_prefix nd (query_comps (show_abs (dst ++ r))) = true).
    { rewrite query_show by (rewrite good_path_app, Gd, Gr; auto). apply is_prefix_app_r; auto. }
    destruct isdir.
    - eapply triple_mut; [right; left; reflexivity | exact In_nd |]. intros _. apply IH; auto.
    - apply triple_ro; auto. intros r0. destruct r0; try apply triple_throw.
      eapply triple_bind.
      + eapply triple_op_unit; [right; right; eexists; reflexivity | exact In_nd].
      + intros _ _. apply IH; auto.
  Qed.

  Lemma triple_copy_dir src dst :
    good_path src = true -> good_path dst = true -> is_prefix nd dst = true ->
    triple (copy_dir src dst) (fun _ => True).
  Proof.
    intros Gs Gd Pd. unfold copy_dir. apply triple_walk; [apply triple_throw|].
    intros l [_ F]. rewrite query_show in F by auto. apply triple_copy_entries; auto.
  Qed.

  Lemma triple_copy_chart_home lc path clean :
    lc_ok lc ->
    (clean = false -> join_abs (lc_root lc) path = lc_root lc ++ ["charts"]) ->
    triple (copy_chart_home A lc path clean) (fun _ => True).
  Proof.
    intros Hlc Hdef. pose proof Hlc as (r & G & Er & Ed). unfold copy_chart_home.
    eapply triple_bind; [apply triple_op_bool; reflexivity|]. intros ex _.
    destruct ex; cbn [negb]; [|apply triple_ret; auto].
    eapply triple_bind; [apply triple_ldr_new|]. intros hroot [Gh Ps].
    apply triple_cleaned_abs; [apply triple_throw|].
    intros cleaned f [G' L]. destruct (String.eqb f "") eqn:Ef; cbn [negb]; [|apply triple_throw].
    apply String.eqb_eq in Ef; subst.
    destruct L as [[_ E']|[Gf _]]; [|discriminate].
    rewrite query_show in E' by auto. subst cleaned.
    destruct (is_prefix_inv _ _ Ps) as [r1 E1]. subst hroot.
    assert (G1 : good_path r1 = true).
    { rewrite good_path_app in Gh. apply andb_prop in Gh; tauto. }
    assert (D : exists x, good_path x = true /\
                join_comps (lc_dst lc)
                  (if clean then rel_comps (lc_root lc) (scope ++ r1)
                   else rel_comps (lc_root lc) (join_abs (lc_root lc) path)) = nd ++ x).
    { destruct clean.
      - exists r1. split; auto. rewrite Er, Ed. apply join_rel_mirror; apply good_path_normal; auto.
      - exists (r ++ ["charts"]). split; [rewrite good_path_app, G; reflexivity|].
        rewrite (Hdef eq_refl), rel_comps_below. rewrite join_comps_normal by reflexivity.
        rewrite Ed, app_assoc. reflexivity. }
    destruct D as (x & Gx & Dx). cbn zeta. rewrite Dx.
    eapply triple_bind; [apply triple_op_bool; reflexivity|]. intros ex2 _.
    destruct ex2; [apply triple_ret; auto|].
    eapply triple_bind.
    - apply triple_copy_dir; auto.
      + rewrite good_path_app, Gnd, Gx. reflexivity.
      + apply is_prefix_app.
    - intros _ _. apply triple_ret; auto.
  Qed.

  Lemma triple_copy_chart_home_entry lc entry :
    lc_ok lc -> triple (copy_chart_home_entry A lc entry) (fun _ => True).
  Proof.
    intros Hlc. unfold copy_chart_home_entry.
    set (path := if String.eqb entry "" then "charts" else entry).
    destruct (is_abs path); [apply triple_throw|].
    eapply triple_bind.
    - apply triple_copy_chart_home; auto. intros Hc. apply negb_false_iff in Hc.
      apply cpath_eqb_eq in Hc. rewrite Hc. apply join_abs_name. reflexivity.
    - intros lp _. apply triple_ret; auto.
  Qed.

  Lemma triple_loc_pref lc kp : lc_ok lc -> triple (loc_pref orc A lc kp) (fun _ => True).
  Proof.
    intros Hlc. unfold loc_pref. destruct (fst kp).
    - apply triple_loc_file; auto.
    - apply triple_loc_file_source; auto.
    - apply triple_loc_k8s; auto.
    - apply triple_copy_chart_home_entry; auto.
    - apply triple_copy_chart_home_entry; auto.
  Qed.

  Lemma triple_loc_plugin_entry lc entry : lc_ok lc -> triple (loc_plugin_entry orc A lc entry) (fun _ => True).
  Proof.
    intros Hlc. unfold loc_plugin_entry. eapply triple_bind; [apply triple_load_k8s|].
    intros [c|] IR; [|apply triple_throw]. destruct c; try apply triple_throw.
    eapply triple_bind; [apply triple_mapP; intros; apply triple_loc_pref; auto|].
    intros newp _. apply triple_lfwc; auto. apply IR; discriminate.
  Qed.

  Lemma triple_range_fields lc locfn : forall n remaining done,
    (forall id x, triple (locfn id x) (fun _ => True)) ->
    triple (range_fields n lc locfn remaining done) (fun _ => True).
  Proof.
    induction n as [|n IH]; intros remaining done Hf; destruct remaining as [|f0 rem]; cbn [range_fields];
      try (apply triple_ret; auto).
    apply triple_choose. intros r.
    eapply triple_bind; [apply triple_mapP; intros; apply Hf|]. intros out _. apply IH; auto.
  Qed.

  Lemma triple_load_kust_file lc : forall names acc,
    triple (load_kust_file A lc names acc)
           (fun found => forall n c, In (n, c) found -> In n names \/ In (n, c) acc).
  Proof.
    induction names as [|n t IH]; intros acc; cbn [load_kust_file].
    - apply triple_ret; auto.
    - eapply triple_bind; [apply triple_pcatch, triple_ldr_load|]. intros r _.
      eapply triple_conseq; [apply IH|]. cbn. intros found H n' c' Hin.
      destruct (H _ _ Hin) as [H1|H1]; auto.
      destruct r; auto. apply in_app_or in H1. destruct H1 as [H1|[H1|[]]]; auto. inv H1. auto.
  Qed.

  Lemma kust_name_good n : In n kust_names -> good_comp n = true.
  Proof.
    intros H. pose proof Gen_kust_names_good as G. unfold kust_names in H.
    rewrite forallb_forall in G. auto.
  Qed.

  Lemma join_abs_kust_name d n : In n kust_names -> join_abs d n = d ++ [n].
  Proof. intros H. apply join_abs_name. apply kust_name_good; auto. Qed.

  Theorem triple_localize : forall fuel lc, lc_ok lc -> triple (localize orc A fuel lc) (fun _ => True).
  Proof.
    induction fuel as [|fuel IH]; intros lc Hlc; cbn [localize]; [apply triple_throw|].
    pose proof Hlc as (r & G & Er & Ed).
    (* localizeRoot *)
    assert (Hroot : forall path,
      triple (if String.eqb path "" then Ret ""
              else dop root <- ldr_new A lc path ;
                   Op (ECleanedAbs (show_abs root)) (fun r0 =>
                     match r0 with
                     | RAbs root' f =>
                         if negb (String.eqb f "") then Throw XPanic
                         else
                           let lp := rel_comps (lc_root lc) root' in
                           let new_dst := join_comps (lc_dst lc) lp in
                           dop _ <- op_unit (EMkdirAll (show_abs new_dst)) ;
                           dop _ <- localize orc A fuel (mkLc root' (lc_root lc :: lc_anc lc) new_dst) ;
                           Ret (show_rel lp)
                     | _ => Throw XPanic
                     end)) (fun _ => True)).
    { intros path. destruct (String.eqb path ""); [apply triple_ret; auto|].
      eapply triple_bind; [apply triple_ldr_new|]. intros root [Gr Ps].
      apply triple_cleaned_abs; [apply triple_throw|].
      intros root' f [G' L]. destruct (String.eqb f "") eqn:Ef; cbn [negb]; [|apply triple_throw].
      apply String.eqb_eq in Ef; subst.
      destruct L as [[_ E']|[Gf _]]; [|discriminate].
      rewrite query_show in E' by auto. subst root'.
      destruct (is_prefix_inv _ _ Ps) as [r1 E1]. subst root.
      assert (G1 : good_path r1 = true).
      { rewrite good_path_app in Gr. apply andb_prop in Gr; tauto. }
      cbn zeta. rewrite Er, Ed.
      rewrite join_rel_mirror by (apply good_path_normal; auto).
      eapply triple_bind.
      - eapply triple_op_unit; [right; left; reflexivity|].
        rewrite query_show by (rewrite good_path_app, Gnd, G1; auto). apply is_prefix_app.
      - intros _ _. eapply triple_bind.
        + apply IH. exists r1. repeat split; auto.
        + intros _ _. apply triple_ret; auto. }
    (* localizeResource *)
    assert (Hres : forall path,
      triple (dop r0 <- pcatch (dop c <- ldr_load A lc path ;
                                if is_res orc c then loc_file_with_content lc path c else Throw XErr) ;
              match r0 with
              | Some lp => Ret lp
              | None =>
                  if String.eqb path "" then Ret ""
                  else dop root <- ldr_new A lc path ;
                       Op (ECleanedAbs (show_abs root)) (fun r0 =>
                         match r0 with
                         | RAbs root' f =>
                             if negb (String.eqb f "") then Throw XPanic
                             else
                               let lp := rel_comps (lc_root lc) root' in
                               let new_dst := join_comps (lc_dst lc) lp in
                               dop _ <- op_unit (EMkdirAll (show_abs new_dst)) ;
                               dop _ <- localize orc A fuel (mkLc root' (lc_root lc :: lc_anc lc) new_dst) ;
                               Ret (show_rel lp)
                         | _ => Throw XPanic
                         end)
              end) (fun _ => True)).
    { intros path. eapply triple_bind.
      - apply triple_pcatch. eapply triple_bind; [apply triple_ldr_load|]. intros c IR.
        destruct (is_res orc c); [apply triple_lfwc; auto | apply triple_throw].
      - intros [lp|] _; [apply triple_ret; auto | apply Hroot]. }
    eapply triple_bind; [apply triple_load_kust_file|]. intros found Hfound.
    destruct found as [|[kname c] [|? ?]]; try apply triple_throw.
    destruct c as [id| |]; try apply triple_throw.
    destruct (o_kust orc id) as [k|]; [|apply triple_throw].
    eapply triple_bind.
    { instantiate (1 := fun _ => True). destruct (k_openapi k).
      - eapply triple_bind; [apply triple_loc_file; auto|]. intros; apply triple_ret; auto.
      - apply triple_ret; auto. }
    intros oa _.
    eapply triple_bind.
    { apply triple_range_fields. intros fid x.
      destruct fid as [|[|[|[|fid]]]]; auto; apply triple_loc_file; auto. }
    intros done _.
    eapply triple_bind; [apply triple_mapP; intros; apply triple_loc_generator; auto|]. intros cms _.
    eapply triple_bind; [apply triple_mapP; intros; apply triple_loc_generator; auto|]. intros secs _.
    eapply triple_bind.
    { apply triple_mapP. intros h. unfold loc_helm_infl.
      eapply triple_bind; [apply triple_loc_file; auto|]. intros v _.
      eapply triple_bind; [apply triple_copy_chart_home_entry; auto|]. intros d _. apply triple_ret; auto. }
    intros hinfl _.
    eapply triple_bind.
    { apply triple_mapP. intros h. unfold loc_helm_chart.
      eapply triple_bind; [apply triple_loc_file; auto|]. intros v _.
      eapply triple_bind; [apply triple_mapP; intros; apply triple_loc_file; auto|]. intros vs _.
      apply triple_ret; auto. }
    intros hcharts _.
    eapply triple_bind.
    { instantiate (1 := fun _ => True). destruct (k_helmglobals k).
      - eapply triple_bind; [apply triple_copy_chart_home_entry; auto|]. intros; apply triple_ret; auto.
      - destruct (k_helmcharts k); [apply triple_ret; auto|].
        eapply triple_bind; [apply triple_copy_chart_home_entry; auto|]. intros; apply triple_ret; auto. }
    intros hglob _.
    eapply triple_bind; [apply triple_mapP; intros; apply triple_loc_file; auto|]. intros pats _.
    eapply triple_bind; [apply triple_mapP; intros; apply triple_loc_file; auto|]. intros p69 _.
    eapply triple_bind; [apply triple_mapP; intros; apply triple_loc_k8s; auto|]. intros psm _.
    eapply triple_bind; [apply triple_mapP; intros; apply triple_loc_file; auto|]. intros repl _.
    eapply triple_bind.
    { apply triple_range_fields. intros fid x. apply triple_loc_plugin_entry; auto. }
    intros pdone _.
    eapply triple_op_unit; [right; right; eexists; reflexivity|].
    assert (Hk : In kname kust_names).
    { destruct (Hfound kname (CRaw id) (or_introl eq_refl)) as [H|[]]; auto. }
    rewrite join_abs_kust_name by auto.
    rewrite query_show.
    - rewrite Ed, <- app_assoc. apply is_prefix_app.
    - rewrite Ed, !good_path_app, Gnd, G. cbn. rewrite kust_name_good; auto.
  Qed.
End Safety.

(* ------------------------------------------------------------------ the whole run *)

(* where newDir will be: the in-memory file system's reading of the destination argument
   (util.go defaultNewDir when it is empty) *)
Definition newdir_path (target newdir : string) : cpath :=
  query_comps (if String.eqb newdir "" then default_new_dir (query_comps target) else newdir).

Lemma triple_checks nd s0 target scope newdir :
  nd = newdir_path target newdir ->
  triple nd s0 (prelude_checks target scope newdir)
    (fun x => let '(sc, troot, raw) := x in
              query_comps raw = nd /\ good_path sc = true /\
              exists r, good_path r = true /\ troot = sc ++ r).
Proof.
  intros End. unfold prelude_checks.
  eapply triple_bind; [apply triple_guard|]. intros _ _.
  eapply triple_bind; [apply triple_confirm_dir|]. intros troot [Gt Et].
  eapply triple_bind.
  { instantiate (1 := fun sc => good_path sc = true /\ exists r, good_path r = true /\ troot = sc ++ r).
    destruct (String.eqb scope "").
    - apply triple_ret. split; auto. exists []. rewrite app_nil_r. auto.
    - eapply triple_bind; [apply triple_confirm_dir|]. intros s [Gs _].
      destruct (has_prefix_c troot s) eqn:Hp; [|apply triple_throw].
      apply triple_ret. split; auto. unfold has_prefix_c in Hp.
      destruct (is_prefix_inv _ _ Hp) as [r ->]. exists r. split; auto.
      rewrite good_path_app in Gt. apply andb_prop in Gt; tauto. }
  intros sc [Gsc Hr].
  assert (Eraw : nd = query_comps (if String.eqb newdir "" then default_new_dir troot else newdir)).
  { rewrite End. unfold newdir_path. rewrite Et. reflexivity. }
  eapply triple_bind; [apply triple_op_bool; reflexivity|].
  intros ex _. destruct ex; [apply triple_throw|]. apply triple_ret. auto.
Qed.

Lemma triple_create nd s0 sc troot raw :
  query_comps raw = nd ->
  triple nd s0 (prelude_create (sc, troot, raw))
    (fun x => let '(sc', troot', nd') := x in
              sc' = sc /\ troot' = troot /\ nd' = nd /\ good_path nd = true).
Proof.
  intros Eraw. unfold prelude_create.
  eapply triple_bind.
  { eapply triple_op_unit; [left; reflexivity|]. rewrite Eraw. apply is_prefix_refl. }
  intros _ _.
  eapply triple_bind; [apply triple_pcatch, triple_confirm_dir|]. intros r Hrr.
  destruct r as [nd'|].
  - destruct (Hrr _ eq_refl) as [G' E']. apply triple_ret.
    rewrite Eraw in E'. subst nd'. repeat split; auto.
  - apply triple_remove; auto. intros; apply triple_throw.
Qed.

Lemma triple_prelude nd s0 target scope newdir :
  nd = newdir_path target newdir ->
  triple nd s0 (localize_prelude target scope newdir)
    (fun x => let '(sc, troot, nd') := x in
              nd' = nd /\ good_path nd = true /\ good_path sc = true /\
              exists r, good_path r = true /\ troot = sc ++ r).
Proof.
  intros End. unfold localize_prelude.
  eapply triple_bind; [apply triple_checks; eauto|].
  intros [[sc troot] raw] (Eraw & Gsc & Hr).
  eapply triple_conseq; [apply triple_create; auto|].
  intros [[sc' troot'] nd'] (-> & -> & -> & G). auto.
Qed.

Lemma triple_tail nd s0 orc fuel sc troot :
  good_path nd = true -> good_path sc = true ->
  (exists r, good_path r = true /\ troot = sc ++ r) ->
  triple nd s0 (localize_tail orc fuel (sc, troot, nd)) (fun _ => True).
Proof.
  intros Gnd Gsc (r & Gr & ->). unfold localize_tail.
  rewrite rel_comps_below. rewrite join_comps_normal by (apply good_path_normal; auto).
  eapply triple_mut; [right; left; reflexivity | |].
  { rewrite query_show by (rewrite good_path_app, Gnd, Gr; auto). apply is_prefix_app. }
  intros r0.
  assert (Hcl : forall x, triple nd s0 (Op (ERemoveAll (show_abs nd)) (fun _ => Throw x : prog string)) (fun _ => True)).
  { intros x. apply triple_remove; [apply query_show; auto|]. intros; apply triple_throw. }
  destruct r0; try exact (Hcl XErr).
  eapply triple_bind.
  { apply triple_ptry. apply triple_localize; auto. exists r. auto. }
  intros [u|x] _; [apply triple_ret; auto | exact (Hcl x)].
Qed.

Theorem run_safe orc fuel target scope newdir s0 :
  triple (newdir_path target newdir) s0 (localize_run orc fuel target scope newdir) (fun _ => True).
Proof.
  unfold localize_run. eapply triple_bind; [apply triple_prelude; reflexivity|].
  intros [[sc troot] nd'] (-> & Gnd & Gsc & Hr). apply triple_tail; auto.
Qed.

Lemma inv_world0 nd s : fs_wf s -> Inv nd s (world0 s).
Proof. intros W. split; [exact W|]. split; [constructor|]. intros _ p _. reflexivity. Qed.

(* every mkdir / write of any run, with any fault position and any map iteration order, targets
   a path inside newDir; RemoveAll is only ever applied to newDir *)
Theorem writes_confined orc ch fuel target scope newdir fault s w out :
  fs_wf s ->
  run_localize orc ch fuel target scope newdir fault s = (w, out) ->
  Forall (safe_ev (newdir_path target newdir)) (w_trace w).
Proof.
  intros W H. destruct (run_safe orc fuel target scope newdir s _ _ _ _ _ (inv_world0 _ _ W) H) as [(_ & T & _) _].
  exact T.
Qed.

(* nothing outside newDir changes, whatever happens (given that newDir's parent chain exists) *)
Theorem source_unchanged orc ch fuel target scope newdir fault s w out :
  fs_wf s ->
  ancestors_dirs (newdir_path target newdir) s ->
  run_localize orc ch fuel target scope newdir fault s = (w, out) ->
  forall p, is_prefix (newdir_path target newdir) p = false -> lookup p (w_fs w) = lookup p s.
Proof.
  intros W A H. destruct (run_safe orc fuel target scope newdir s _ _ _ _ _ (inv_world0 _ _ W) H) as [(_ & _ & F) _].
  apply F; auto.
Qed.

(* ------------------------------------------------------------------ all-or-nothing *)

(* FileSystem.Exists(newDir) *)
Definition exists_path (s : fs) (p : cpath) : bool :=
  match fs_find s (show_abs p) with FRoot | FNode _ _ => true | _ => false end.

Lemma fs_find_bound s p q e : fs_find s p = FNode q e -> lookup q s = Some e.
Proof.
  unfold fs_find. destruct (String.eqb p ""); [discriminate|].
  destruct (String.eqb p "/" || String.eqb p ".")%bool; [discriminate|].
  destruct (query_comps p) as [|c0 c] eqn:Q; [discriminate|].
  intros H. eapply find_walk_bound; [|eauto]. discriminate.
Qed.

Lemma remove_all_gone s p s' :
  fs_remove_all s p = Some s' ->
  match fs_find s' p with FRoot | FNode _ _ => true | _ => false end = false.
Proof.
  unfold fs_remove_all. destruct (fs_find s p) as [|q e| |] eqn:F; intros H; inv H.
  - destruct (fs_find_node _ _ _ _ F) as [Eq Hne].
    destruct (fs_find (fs_remove q s) p) as [|q' e'| |] eqn:F'; auto.
    + apply fs_find_root in F'. congruence.
    + destruct (fs_find_node _ _ _ _ F') as [Eq' _]. apply fs_find_bound in F'.
      rewrite lookup_remove in F'. rewrite Eq', <- Eq, is_prefix_refl in F'. discriminate.
  - rewrite F. reflexivity.
Qed.

Lemma pcatch_not_err {A} ch fault (m : prog A) w w' x :
  run ch fault (pcatch m) w = (w', OExn x) -> x <> XErr.
Proof.
  rewrite run_pcatch. destruct (run ch fault m w) as [w1 [a|[| | | |]]]; intros H; inv H; discriminate.
Qed.

Lemma step_ro_inv fault e w w1 r :
  step_world fault e w = (w1, r) -> read_only e = true ->
  w_fs w1 = w_fs w /\ (r = fail_res e \/ r = snd (exec e (w_fs w))).
Proof.
  intros H R. unfold step_world in H.
  destruct (fallible e && fault_hit fault (w_n w))%bool.
  - inv H. auto.
  - pose proof (exec_read_only e (w_fs w) R) as X.
    destruct (exec e (w_fs w)) as [s' r'] eqn:E. inv H. cbn in *. auto.
Qed.

(* programs made of read-only effects leave the state alone: the part of Run before Mkdir(newDir) *)
Inductive ro_only {A} : prog A -> Prop :=
| ro_ret a : ro_only (Ret a)
| ro_throw x : ro_only (Throw x)
| ro_op e k : read_only e = true -> (forall r, ro_only (k r)) -> ro_only (Op e k).

Lemma ro_only_bind {A B} (m : prog A) (f : A -> prog B) :
  ro_only m -> (forall a, ro_only (f a)) -> ro_only (pbind m f).
Proof. induction 1; cbn; auto; constructor; auto. Qed.

Lemma ro_only_pcatch {A} (m : prog A) : ro_only m -> ro_only (pcatch m).
Proof. induction 1; cbn; try constructor; auto. destruct x; constructor. Qed.

Lemma ro_only_fs {A} ch fault (m : prog A) : ro_only m ->
  forall w w' out, run ch fault m w = (w', out) -> w_fs w' = w_fs w.
Proof.
  induction 1 as [a|x|e k He Hk IH]; intros w w' out H0;
    [cbn in H0; inv H0; auto | cbn in H0; inv H0; auto |].
  rewrite run_op in H0 by (destruct e; discriminate).
  destruct (step_world fault e w) as [w1 r] eqn:S.
  destruct (step_ro_inv _ _ _ _ _ S He) as [E _]. rewrite <- E. eapply IH; eauto.
Qed.

Lemma ro_only_confirm p : ro_only (confirm_dir p).
Proof.
  unfold confirm_dir. destruct (String.eqb p ""); constructor; auto.
  intros r; destruct r; try constructor. destruct (String.eqb f ""); constructor.
Qed.

Lemma ro_only_checks target scope newdir : ro_only (prelude_checks target scope newdir).
Proof.
  unfold prelude_checks.
  apply ro_only_bind; [unfold guard_local; destruct (remote_like target); constructor|]. intros _.
  apply ro_only_bind; [apply ro_only_confirm|]. intros troot.
  apply ro_only_bind.
  { destruct (String.eqb scope ""); [constructor|].
    apply ro_only_bind; [apply ro_only_confirm|]. intros s.
    destruct (has_prefix_c troot s); constructor. }
  intros sc. apply ro_only_bind.
  { unfold op_bool. constructor; auto. intros r; destruct r; constructor. }
  intros ex. destruct ex; constructor.
Qed.

Lemma step_trace fault e w :
  w_trace (fst (step_world fault e w)) =
  mkEv (eff_op e) (eff_path e) (res_ok (snd (step_world fault e w))) :: w_trace w.
Proof.
  unfold step_world. destruct (fallible e && fault_hit fault (w_n w))%bool; cbn; auto.
  destruct (exec e (w_fs w)); reflexivity.
Qed.

(* a directory-creating step either succeeds or leaves the state alone *)
Lemma step_mkdir_cases fault e p w :
  e = EMkdir p \/ e = EMkdirAll p ->
  (snd (step_world fault e w) = RUnit /\ fs_mkdir (w_fs w) p = Some (w_fs (fst (step_world fault e w)))) \/
  (snd (step_world fault e w) = RFail /\ w_fs (fst (step_world fault e w)) = w_fs w).
Proof.
  intros He. unfold step_world.
  destruct (fallible e && fault_hit fault (w_n w))%bool;
    [right; destruct He; subst; auto|].
  assert (X : exec e (w_fs w) = match fs_mkdir (w_fs w) p with Some s' => (s', RUnit) | None => (w_fs w, RFail) end)
    by (destruct He; subst; reflexivity).
  rewrite X. destruct (fs_mkdir (w_fs w) p); cbn; auto.
Qed.

(* a RemoveAll step that reports success has removed the path *)
Lemma step_remove_ok fault p w :
  res_ok (snd (step_world fault (ERemoveAll p) w)) = true ->
  fs_remove_all (w_fs w) p = Some (w_fs (fst (step_world fault (ERemoveAll p) w))).
Proof.
  unfold step_world. destruct (fallible (ERemoveAll p) && fault_hit fault (w_n w))%bool; [discriminate|].
  cbn [exec]. destruct (fs_remove_all (w_fs w) p); cbn; [reflexivity | discriminate].
Qed.

Lemma fs_find_comps s p : query_comps p <> [] -> fs_find s p = find_walk s [] (query_comps p).
Proof.
  intros H. unfold fs_find.
  destruct (String.eqb p "") eqn:E1; [apply String.eqb_eq in E1; subst; exfalso; apply H; reflexivity|].
  destruct (String.eqb p "/" || String.eqb p ".")%bool eqn:E2; [exfalso; apply H; apply query_root_forms; auto|].
  destruct (query_comps p); [congruence | reflexivity].
Qed.

Lemma exists_path_root s : exists_path s [] = true.
Proof. reflexivity. Qed.

(* Exists(p) and Exists(newDir.String()) agree when p denotes newDir *)
Lemma exists_path_query s p :
  good_path (query_comps p) = true -> query_comps p <> [] ->
  exists_path s (query_comps p) = match fs_find s p with FRoot | FNode _ _ => true | _ => false end.
Proof.
  intros G Hne. unfold exists_path. rewrite (fs_find_comps s p Hne).
  rewrite fs_find_comps by (rewrite query_show; auto). rewrite query_show by auto. reflexivity.
Qed.

(* createNewDir: an error return leaves no newDir (given it was not there and no RemoveAll failed) *)
Lemma create_cleanup ch fault sc troot raw w w' :
  run ch fault (prelude_create (sc, troot, raw)) w = (w', OExn XErr) ->
  exists_path (w_fs w) (query_comps raw) = false ->
  (forall e, In e (w_trace w') -> ev_op e = ORemoveAll -> ev_ok e = true) ->
  exists_path (w_fs w') (query_comps raw) = false.
Proof.
  intros H Fr Hrm. unfold prelude_create in H. rewrite run_bind in H.
  unfold op_unit in H. rewrite run_op in H by discriminate.
  pose proof (step_mkdir_cases fault (EMkdir raw) raw w (or_introl eq_refl)) as C.
  destruct (step_world fault (EMkdir raw) w) as [w1 r] eqn:S1. cbn [fst snd] in C.
  destruct C as [[-> D]|[-> E]]; cbn [run] in H.
  2:{ inv H. rewrite E. exact Fr. }
  rewrite run_bind in H.
  pose proof (ro_only_fs ch fault _ (ro_only_pcatch _ (ro_only_confirm raw)) w1) as RO.
  destruct (run ch fault (pcatch (confirm_dir raw)) w1) as [w2 [[nd'|]|x]] eqn:R2.
  - cbn in H. inv H.
  - specialize (RO _ _ eq_refl).
    rewrite run_op in H by discriminate.
    pose proof (step_trace fault (ERemoveAll raw) w2) as T.
    pose proof (step_remove_ok fault raw w2) as K.
    destruct (step_world fault (ERemoveAll raw) w2) as [w3 r3] eqn:S3. cbn [fst snd] in T, K.
    cbn [run] in H. inv H.
    assert (Ok3 : res_ok r3 = true).
    { apply (Hrm (mkEv ORemoveAll raw (res_ok r3))); auto. rewrite T. left; reflexivity. }
    specialize (K Ok3). apply remove_all_gone in K.
    unfold fs_mkdir in D. pose proof (legal_all_good _ (add_dirs_legal _ _ _ _ D)) as G.
    destruct (query_comps raw) as [|c0 cs] eqn:Q.
    + rewrite exists_path_root in Fr. discriminate.
    + rewrite <- Q in *. rewrite exists_path_query; auto. rewrite Q; discriminate.
  - inv H. exfalso. eapply pcatch_not_err; eauto.
Qed.

Lemma ptry_not_caught {A} ch fault (m : prog A) w w' x :
  run ch fault (ptry m) w = (w', OExn x) -> x <> XErr /\ x <> XPanic.
Proof.
  rewrite run_ptry. destruct (run ch fault m w) as [w1 [a|[| | | |]]]; intros H; inv H; split; discriminate.
Qed.

(* programs whose only failure mode is the error return (no panic, no exit): createNewDir *)
Inductive err_only {A} : prog A -> Prop :=
| eo_ret a : err_only (Ret a)
| eo_throw : err_only (Throw XErr)
| eo_op e k : (forall r, err_only (k r)) -> err_only (Op e k).

Lemma err_only_out {A} ch fault (m : prog A) : err_only m ->
  forall w w' x, run ch fault m w = (w', OExn x) -> x = XErr.
Proof.
  induction 1 as [a| |e k Hk IH]; intros w w' x H0.
  - cbn in H0. inv H0.
  - cbn in H0. inv H0. reflexivity.
  - destruct e; try (rewrite run_op in H0 by discriminate; destruct (step_world fault _ w) as [w1 r]; eapply IH; eauto).
    rewrite run_choose in H0. eapply IH; eauto.
Qed.

Lemma err_only_confirm p : err_only (confirm_dir p).
Proof.
  unfold confirm_dir. destruct (String.eqb p ""); try constructor.
  intros r; destruct r; try constructor. destruct (String.eqb f ""); constructor.
Qed.

Lemma err_only_bind {A B} (m : prog A) (f : A -> prog B) :
  err_only m -> (forall a, err_only (f a)) -> err_only (pbind m f).
Proof. induction 1; cbn; auto; constructor; auto. Qed.

(* Run after NewLoader: an error return AND a panic leave no newDir *)
Lemma tail_cleanup orc ch fault fuel sc troot nd w w' x :
  x = XErr \/ x = XPanic ->
  run ch fault (localize_tail orc fuel (sc, troot, nd)) w = (w', OExn x) ->
  (forall e, In e (w_trace w') -> ev_op e = ORemoveAll -> ev_ok e = true) ->
  exists_path (w_fs w') nd = false.
Proof.
  intros Hx H Hrm. unfold localize_tail in H. rewrite run_op in H by discriminate.
  destruct (step_world fault (EMkdirAll _) w) as [w1 r].
  assert (Cl : forall y w2 w3 z, run ch fault (Op (ERemoveAll (show_abs nd)) (fun _ => Throw y : prog string)) w2 = (w3, OExn z) ->
               (forall e, In e (w_trace w3) -> ev_op e = ORemoveAll -> ev_ok e = true) ->
               exists_path (w_fs w3) nd = false).
  { intros y w2 w3 z H2 Hrm2. rewrite run_op in H2 by discriminate.
    pose proof (step_trace fault (ERemoveAll (show_abs nd)) w2) as T.
    pose proof (step_remove_ok fault (show_abs nd) w2) as K.
    destruct (step_world fault (ERemoveAll (show_abs nd)) w2) as [w4 r4]. cbn [fst snd] in T, K.
    cbn [run] in H2. inv H2.
    assert (Ok4 : res_ok r4 = true).
    { apply (Hrm2 (mkEv ORemoveAll (show_abs nd) (res_ok r4))); auto. rewrite T. left; reflexivity. }
    unfold exists_path. eapply remove_all_gone; eauto. }
  destruct r; try (eapply Cl; eauto; fail).
  rewrite run_bind in H.
  destruct (run ch fault (ptry _) w1) as [w2 [[u|y]|z]] eqn:E.
  - cbn in H. inv H.
  - eapply Cl; eauto.
  - inv H. exfalso. destruct (ptry_not_caught _ _ _ _ _ _ E) as [N1 N2]. destruct Hx; congruence.
Qed.

(* createNewDir neither panics nor exits: its failures are error returns *)
Lemma create_err_only x0 : err_only (prelude_create x0).
Proof.
  destruct x0 as [[sc troot] raw]. unfold prelude_create.
  apply err_only_bind; [unfold op_unit; constructor; intros r; destruct r; constructor|]. intros _.
  apply err_only_bind.
  - assert (E : forall A (m : prog A), err_only m -> err_only (pcatch m)).
    { intros A m Hm. induction Hm; cbn; constructor; auto. }
    apply E, err_only_confirm.
  - intros r. destruct r; constructor. intros; constructor.
Qed.

(* ALL-OR-NOTHING for error returns AND panics (since the repairs d268200 and 113a8f3): whenever
   localize returns an error or panics — for every fault position — and no RemoveAll call failed,
   newDir (which was not there before) does not exist afterwards.  Only the process exit
   (log.Fatalf) is left out. *)
Theorem all_or_nothing_partial orc ch fuel target scope newdir fault s w x :
  fs_wf s ->
  x = XErr \/ x = XPanic ->
  exists_path s (newdir_path target newdir) = false ->
  run_localize orc ch fuel target scope newdir fault s = (w, OExn x) ->
  (forall e, In e (w_trace w) -> ev_op e = ORemoveAll -> ev_ok e = true) ->
  exists_path (w_fs w) (newdir_path target newdir) = false.
Proof.
  intros W Hx Fr H Hrm. unfold run_localize, localize_run, localize_prelude in H.
  rewrite !run_bind in H.
  destruct (run ch fault (prelude_checks target scope newdir) (world0 s)) as [w0 [[[sc troot] raw]|x0]] eqn:E0.
  - pose proof (ro_only_fs _ _ _ (ro_only_checks target scope newdir) _ _ _ E0) as F0. cbn in F0.
    destruct (triple_checks _ s target scope newdir eq_refl _ _ _ _ _ (inv_world0 _ _ W) E0) as [I0 P].
    destruct (P _ eq_refl) as (Eraw & Gsc & Hr).
    destruct (run ch fault (prelude_create (sc, troot, raw)) w0) as [w1 [[[sc' troot'] nd']|x1]] eqn:E1.
    + destruct (triple_create _ s sc troot raw Eraw _ _ _ _ _ I0 E1) as [_ P1].
      destruct (P1 _ eq_refl) as (-> & -> & -> & G).
      eapply tail_cleanup; eauto.
    + injection H as <- <-. pose proof (err_only_out _ _ _ (create_err_only _) _ _ _ E1) as ->.
      rewrite <- Eraw. eapply create_cleanup; eauto. rewrite Eraw, F0. exact Fr.
  - injection H as <- <-. rewrite (ro_only_fs _ _ _ (ro_only_checks target scope newdir) _ _ _ E0). exact Fr.
Qed.

Corollary writes_confined_in orc ch fuel target scope newdir fault s w out :
  fs_wf s ->
  run_localize orc ch fuel target scope newdir fault s = (w, out) ->
  forall e, In e (w_trace w) ->
    (mutating (ev_op e) = true -> is_prefix (newdir_path target newdir) (ev_target e) = true) /\
    (ev_op e = ORemoveAll -> ev_target e = newdir_path target newdir).
Proof.
  intros W H e Hin. pose proof (writes_confined _ _ _ _ _ _ _ _ _ _ W H) as F.
  rewrite Forall_forall in F. exact (F e Hin).
Qed.

(* ------------------------------------------------------------------ equivalence, per reference *)

(* The path string written into a localized kustomization (filepath.Rel result, printed), when a
   later build joins it to the mirrored root, denotes exactly the location the localizer wrote to. *)
Lemma rewritten_path_resolves dst lp :
  forallb (fun c => negb (str_contains_char slash c)) lp = true ->
  join_abs dst (show_rel lp) = join_comps dst lp.
Proof.
  intros H. unfold join_abs, join_comps, show_rel. destruct lp as [|x lp].
  - reflexivity.
  - unfold split_path. rewrite split_join; auto. discriminate.
Qed.

Lemma exec_read_file s p c :
  snd (exec (EReadFile p) s) = RData c -> lookup (query_comps p) s = Some (EFile c).
Proof.
  cbn. destruct (fs_find s p) as [|q [|c']| |] eqn:F; cbn; intros H; inv H.
  pose proof (fs_find_bound _ _ _ _ F). apply fs_find_node in F. destruct F as [-> _]. auto.
Qed.

Lemma run_crp ch fault root file w w' lp :
  run ch fault (cleaned_relative_path root file) w = (w', OOk lp) ->
  fs_wf (w_fs w) ->
  w_fs w' = w_fs w /\ lp = rel_comps root (query_comps (abs_of root file)).
Proof.
  unfold cleaned_relative_path. rewrite run_op by discriminate.
  destruct (step_world fault (ECleanedAbs (abs_of root file)) w) as [w1 r] eqn:S. intros H W.
  destruct (step_ro_inv _ _ _ _ _ S eq_refl) as [Efs [->|Er]]; [cbn in H; inv H|].
  destruct r; cbn in H; inv H. split; auto.
  assert (X : exec (ECleanedAbs (abs_of root file)) (w_fs w) = (fst (exec (ECleanedAbs (abs_of root file)) (w_fs w)), RAbs d f)).
  { rewrite Er. destruct (exec _ _); reflexivity. }
  destruct (abs_lex_join _ _ _ (exec_cleaned_abs _ _ _ _ _ W X)) as [-> _]. reflexivity.
Qed.

(* Loader.Load, when it succeeds, has read the file bound at the cleaned path, strictly below the root *)
Lemma run_ldr_load ch fault scope nd lc path w w' c :
  run ch fault (ldr_load (mkArgs scope nd) lc path) w = (w', OOk c) ->
  fs_wf (w_fs w) ->
  w_fs w' = w_fs w /\ in_root (lc_root lc) path /\
  lookup (query_comps (abs_of (lc_root lc) path)) (w_fs w) = Some (EFile c).
Proof.
  unfold ldr_load. rewrite run_bind. unfold guard_local.
  destruct (remote_like path); [cbn [run]; intros H; inv H|].
  change (run ch fault (Ret tt) w) with (w, OOk tt). cbv beta iota.
  rewrite run_op by discriminate.
  destruct (step_world fault (ECleanedAbs (abs_of (lc_root lc) path)) w) as [w1 r] eqn:S. intros H W.
  destruct (step_ro_inv _ _ _ _ _ S eq_refl) as [Efs [->|Er]]; [cbn in H; inv H|].
  destruct r; cbn [run] in H; try (inv H; fail).
  assert (X : exec (ECleanedAbs (abs_of (lc_root lc) path)) (w_fs w)
              = (fst (exec (ECleanedAbs (abs_of (lc_root lc) path)) (w_fs w)), RAbs d f)).
  { rewrite Er. destruct (exec _ _); reflexivity. }
  pose proof (exec_cleaned_abs _ _ _ _ _ W X) as L.
  destruct (String.eqb f "") eqn:Ef; [cbn in H; inv H|].
  destruct (has_prefix_c d (lc_root lc)) eqn:Hp; cbn [negb] in H; [|cbn in H; inv H].
  rewrite run_op in H by discriminate.
  destruct (step_world fault (EReadFile (show_abs (join_abs d f))) w1) as [w2 r2] eqn:S2.
  destruct (step_ro_inv _ _ _ _ _ S2 eq_refl) as [Efs2 [->|Er2]]; [cbn in H; inv H|].
  destruct r2; cbn [run] in H; try (inv H; fail).
  rewrite run_bind in H.
  destruct (run ch fault (cleaned_relative_path (lc_root lc) path) w2) as [w3 [cp|x]] eqn:R3; [|inv H].
  destruct (run_crp _ _ _ _ _ _ _ R3) as [Efs3 _]; [rewrite Efs2, Efs; auto|].
  match type of H with context [if ?b then _ else _] => destruct b end; cbn in H; inv H.
  destruct (abs_lex_join _ _ _ L) as [J G].
  assert (IR : in_root (lc_root lc) path).
  { destruct L as [Gd [[-> _]|[Gf E]]]; [discriminate|].
    unfold has_prefix_c in Hp. destruct (is_prefix_inv _ _ Hp) as [r1 ->].
    exists (r1 ++ [f]). repeat split.
    - destruct r1; discriminate.
    - rewrite good_path_app in Gd. apply andb_prop in Gd. destruct Gd as [_ Gd].
      rewrite good_path_app, Gd. cbn. rewrite Gf. reflexivity.
    - rewrite <- E, app_assoc. reflexivity. }
  repeat split; auto.
  - rewrite Efs3, Efs2, Efs. reflexivity.
  - symmetry in Er2. apply exec_read_file in Er2.
    rewrite query_show in Er2 by (rewrite J; auto). rewrite J, Efs in Er2. exact Er2.
Qed.

Lemma step_mut_res fault e w w1 r :
  (exists p, e = EMkdirAll p) \/ (exists p c, e = EWriteFile p c) ->
  step_world fault e w = (w1, r) -> r = RUnit ->
  exec e (w_fs w) = (w_fs w1, RUnit).
Proof.
  intros He H ->. unfold step_world in H.
  destruct (fallible e && fault_hit fault (w_n w))%bool;
    [destruct He as [[p ->]|[p [c ->]]]; cbn in H; inv H|].
  destruct (exec e (w_fs w)) as [s' r'] eqn:E. inv H. reflexivity.
Qed.

(* localizeFileWithContent, when it succeeds, returns a path that — joined to the mirrored root —
   is bound to the given content (or to a directory that was in the way) *)
Lemma run_lfwc ch fault lc path c w w' s :
  in_root (lc_root lc) path -> good_path (lc_dst lc) = true ->
  run ch fault (loc_file_with_content lc path c) w = (w', OOk s) ->
  fs_wf (w_fs w) ->
  lookup (join_abs (lc_dst lc) s) (w_fs w') = Some (EFile c) \/
  lookup (join_abs (lc_dst lc) s) (w_fs w') = Some EDir.
Proof.
  intros (r' & Hne & G' & Q) Gd. unfold loc_file_with_content. rewrite run_bind.
  destruct (run ch fault (cleaned_relative_path (lc_root lc) path) w) as [w1 [lp|x]] eqn:R1; [|intros H; inv H].
  intros H W. destruct (run_crp _ _ _ _ _ _ _ R1 W) as [Efs ->].
  rewrite Q, rel_comps_below in H.
  rewrite join_comps_normal in H by (apply good_path_normal; auto).
  rewrite run_bind in H. unfold op_unit in H at 1. rewrite run_op in H by discriminate.
  destruct (step_world fault (EMkdirAll _) w1) as [w2 r2] eqn:S2.
  destruct r2; cbn [run] in H; try (inv H; fail).
  rewrite run_bind in H. unfold op_unit in H. rewrite run_op in H by discriminate.
  destruct (step_world fault (EWriteFile _ c) w2) as [w3 r3] eqn:S3.
  destruct r3; cbn [run] in H; try (inv H; fail). inv H.
  pose proof (step_mut_res _ _ _ _ _ (or_intror (ex_intro _ _ (ex_intro _ c eq_refl))) S3 eq_refl) as X.
  cbn [exec] in X.
  assert (Gq : good_path (lc_dst lc ++ r') = true) by (rewrite good_path_app, Gd, G'; auto).
  rewrite rewritten_path_resolves by (apply good_path_noslash; auto).
  rewrite join_comps_normal by (apply good_path_normal; auto).
  unfold fs_write in X. rewrite query_show in X by auto.
  destruct (rev (lc_dst lc ++ r')) as [|name drev]; [discriminate|].
  destruct (add_dirs (w_fs w2) [] (rev drev)) as [s1|]; [|discriminate].
  destruct (negb (legal_name name)); [discriminate|].
  destruct (lookup (lc_dst lc ++ r') s1) as [[|c']|] eqn:L; inv X.
  - right. exact L.
  - left. rewrite lookup_set, cpath_eqb_refl. reflexivity.
  - left. rewrite lookup_set, cpath_eqb_refl. reflexivity.
Qed.

(* localizeFile on a non-empty reference: the bytes bound at the referenced (cleaned) source path
   are, afterwards, bound at the REWRITTEN path resolved from the mirrored root. *)
Theorem loc_file_copies ch fault scope nd lc path w w' s :
  good_path (lc_dst lc) = true -> fs_wf (w_fs w) -> path <> "" ->
  run ch fault (loc_file (mkArgs scope nd) lc path) w = (w', OOk s) ->
  exists c,
    lookup (query_comps (abs_of (lc_root lc) path)) (w_fs w) = Some (EFile c) /\
    (lookup (join_abs (lc_dst lc) s) (w_fs w') = Some (EFile c) \/
     lookup (join_abs (lc_dst lc) s) (w_fs w') = Some EDir).
Proof.
  intros Gd W Hp. unfold loc_file.
  destruct (String.eqb path "") eqn:E; [apply String.eqb_eq in E; congruence|].
  rewrite run_bind.
  destruct (run ch fault (ldr_load (mkArgs scope nd) lc path) w) as [w1 [c|x]] eqn:R1; [|intros H; inv H].
  intros H. destruct (run_ldr_load _ _ _ _ _ _ _ _ _ R1 W) as (Efs & IR & L).
  exists c. split; auto. eapply run_lfwc; eauto. rewrite Efs; auto.
Qed.

(* ------------------------------------------------------------------ failures before anything was created *)

(* an event that cannot have changed the state *)
Definition quiet_ev (e : event) : Prop :=
  (mutating (ev_op e) = true -> ev_ok e = false) /\
  (ev_op e = ORemoveAll -> ev_path e = "" \/ ev_ok e = false).

Lemma step_quiet fault e w :
  (forall c, e <> EChoose c) ->
  quiet_ev (mkEv (eff_op e) (eff_path e) (res_ok (snd (step_world fault e w)))) ->
  w_fs (fst (step_world fault e w)) = w_fs w.
Proof.
  intros Hc [Hm Hr]. unfold step_world in *.
  destruct (fallible e && fault_hit fault (w_n w))%bool; [reflexivity|].
  destruct e; cbn [exec] in *.
  - reflexivity.
  - destruct (fs_mkdir (w_fs w) p); cbn in *; auto. specialize (Hm eq_refl). discriminate.
  - destruct (fs_mkdir (w_fs w) p); cbn in *; auto. specialize (Hm eq_refl). discriminate.
  - destruct (fs_find (w_fs w) p) as [|? [|?]| |]; reflexivity.
  - destruct (fs_find (w_fs w) p) as [|? [|?]| |]; reflexivity.
  - destruct (fs_write (w_fs w) p c); cbn in *; auto. specialize (Hm eq_refl). discriminate.
  - unfold fs_remove_all in *. destruct (fs_find (w_fs w) p) as [|q e| |] eqn:F; cbn in *; auto.
    destruct (Hr eq_refl) as [->|?]; [cbn in F|]; discriminate.
  - destruct (fs_find (w_fs w) p) as [|? [|?]| |]; reflexivity.
  - exfalso. eapply Hc; eauto.
Qed.

Lemma run_quiet {A} ch fault (m : prog A) : forall w w' out,
  run ch fault m w = (w', out) ->
  exists l, w_trace w' = l ++ w_trace w /\ (Forall quiet_ev l -> w_fs w' = w_fs w).
Proof.
  induction m as [a|e k IH|x]; intros w w' out H.
  - cbn in H. inv H. exists []. auto.
  - destruct e; try (
      rewrite run_op in H by discriminate;
      match type of H with context [step_world fault ?e w] =>
        pose proof (step_trace fault e w) as T; pose proof (step_quiet fault e w) as Q;
        destruct (step_world fault e w) as [w1 r] eqn:S end;
      cbn [fst snd] in T, Q;
      destruct (IH _ _ _ _ H) as (l & El & Hl);
      eexists (l ++ [_]); split;
      [rewrite El, T, <- app_assoc; reflexivity|];
      intros F; apply Forall_app in F; destruct F as [F1 F2]; inv F2;
      rewrite Hl by auto; apply Q; [discriminate | auto]; fail).
    rewrite run_choose in H. eapply IH; eauto.
  - cbn in H. inv H. exists []. auto.
Qed.

(* If no event of the run can have changed the state (no successful mkdir/write, no RemoveAll of a
   real path), the final state IS the initial state — in particular failures before Mkdir(newDir)
   leave nothing behind. *)
Theorem nothing_created_nothing_left orc ch fuel target scope newdir fault s w out :
  run_localize orc ch fuel target scope newdir fault s = (w, out) ->
  Forall quiet_ev (w_trace w) ->
  w_fs w = s.
Proof.
  intros H F. unfold run_localize in H. destruct (run_quiet _ _ _ _ _ _ H) as (l & El & Hl).
  cbn in El. rewrite app_nil_r in El. subst l. apply Hl; auto.
Qed.
