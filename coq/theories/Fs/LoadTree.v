(* The loading recursion of a build, generic in the type of the loaded tree (so that the correspondence
   check can run it without the pipeline model): see Fs/BuildLoad.v for the instance on Res.Pipeline.ptree. *)
From KV Require Export Fs.Loader.

Record read_ev : Type := mkEv {
  ev_root : string;     (* root of the loader (layer) that issued the read *)
  ev_ref : string;      (* the reference as written in the kustomization *)
  ev_path : string;     (* the path handed to FileSystem.ReadFile *)
  ev_bytes : string     (* what was read *)
}.

(* loadKustFile: the model knows the file name kustomization.yaml only *)
Definition kust_file : string := "kustomization.yaml".

(* FileLoader.Load of a local reference, keeping the path it hands to ReadFile *)
Definition load_ev (fs : fsops) (l : loader) (p : string) : res read_ev :=
  match restrict fs l (load_path l p) with
  | Ok q =>
      match f_read_file fs q with
      | Ok b => Ok (mkEv (l_root l) p q b)
      | Err => Err
      | Panic => Panic
      | Diverge => Diverge
      end
  | Err => Err
  | Panic => Panic
  | Diverge => Diverge
  end.

Section LoadTree.
  Variables T D Docs : Type.
  Variable mk_file : Docs -> T.
  Variable mk_dir : string -> D -> list T -> T.
  Variable is_repo : string -> bool.
  Variable git_new : loader -> string -> res loader.
  (* YAML decoding (external): a kustomization file -> its directives and its resources: entries *)
  Variable parse_kust : string -> res (D * list string).
  (* … a resource file -> its documents *)
  Variable parse_docs : string -> res Docs.

  Fixpoint load_tree_gen (fuel : nat) (fs : fsops) (l : loader) : res (T * list read_ev) :=
    match fuel with
    | O => Diverge
    | S f =>
        do ke <- load_ev fs l kust_file;
        do kd <- parse_kust (ev_bytes ke);
        do r <- (fix go (ps : list string) : res (list T * list read_ev) :=
                   match ps with
                   | [] => Ok ([], [])
                   | p :: t =>
                       do here <-
                         match load_ev fs l p with
                         | Ok e => do docs <- parse_docs (ev_bytes e); Ok (mk_file docs, [e])
                         | Err =>                           (* not loadable as a file: a base *)
                             match new_root is_repo git_new fs l p with
                             | Ok l2 => load_tree_gen f fs l2
                             | Err => Err
                             | Panic => Panic
                             | Diverge => Diverge
                             end
                         | Panic => Panic
                         | Diverge => Diverge
                         end;
                       do rest <- go t;
                       Ok (fst here :: fst rest, (snd here ++ snd rest)%list)
                   end) (snd kd);
        Ok (mk_dir (l_root l) (fst kd) (fst r), ke :: snd r)
    end.
End LoadTree.
