(* kyaml/filesys/fsondisk.go over a model of the operating system's file tree:
   regular files, directories and symbolic links (no hard links, no mount points, no permissions,
   nothing changes while a load runs).  Definitions only; proofs are in Fs/DiskFsProofs.v.

   [eval_links] follows Go's path/filepath.walkSymlinks (symlink.go):
   components are consumed left to right, "" and "." are skipped, ".." backs up, every other
   component is Lstat'ed; a link is replaced by its target text followed by the unconsumed rest;
   the 256th link is the error "EvalSymlinks: too many links" (budget 255, explicit fuel).
   Go keeps the resolved prefix as a string [dest] (which may contain "x/.." right under the root);
   the model keeps the physical directory as a stack of names, which denotes the same directory
   because every name already on the stack was Lstat'ed as a real directory. *)
From KV Require Export Fs.Path.

Inductive dnode : Type :=
| DFile (content : string)
| DDir (entries : list (string * dnode))
| DLink (target : string).

Fixpoint d_lookup (name : string) (es : list (string * dnode)) : option dnode :=
  match es with
  | [] => None
  | (k, n) :: t => if String.eqb k name then Some n else d_lookup name t
  end.

(* the node at a physical path (list of names from "/"): only directories are traversed,
   the last node is returned as it is (a link is not followed) — os.Lstat of a link-free prefix *)
Fixpoint d_at (cur : dnode) (cs : list string) : option dnode :=
  match cs with
  | [] => Some cur
  | c :: cs' =>
      match cur with
      | DDir es => match d_lookup c es with Some n => d_at n cs' | None => None end
      | _ => None
      end
  end.

(* walkSymlinks.  [stk]: resolved physical directory, innermost name first.  [todo]: raw components
   still to consume.  Result: the physical location as a list of names from "/". *)
Fixpoint eval_links (root : dnode) (budget : nat) : list string -> list string -> res (list string) :=
  fix go (stk todo : list string) {struct todo} : res (list string) :=
    match todo with
    | [] => Ok (rev stk)
    | c :: rest =>
        if is_skip c then go stk rest
        else if is_dotdot c then go (tl stk) rest
        else
          match d_at root (rev (c :: stk)) with
          | None => Err                                         (* lstat: ENOENT / ENOTDIR *)
          | Some (DDir _) => go (c :: stk) rest
          | Some (DFile _) =>
              match rest with
              | [] => Ok (rev (c :: stk))
              | _ :: _ => Err                                   (* ENOTDIR: more path after a file *)
              end
          | Some (DLink t) =>
              match budget with
              | O => Err                                        (* too many links *)
              | S b => eval_links root b (if is_abs t then [] else stk) (raw_comps t ++ rest)
              end
          end
    end.

Definition go_link_budget : nat := 255.    (* filepath.EvalSymlinks *)
Definition os_link_budget : nat := 40.     (* Linux MAXSYMLINKS, path resolution inside a system call *)

(* filepath.Abs *)
Definition abs_path (cwd p : string) : string :=
  if is_abs p then clean p else join2 cwd p.

(* filepath.EvalSymlinks(abs): Clean(dest) *)
Definition eval_symlinks (root : dnode) (p : string) : res string :=
  match eval_links root go_link_budget [] (raw_comps p) with
  | Ok phys => Ok (clean (abs_of phys))
  | Err => Err
  | Panic => Panic
  | Diverge => Diverge
  end.

(* walkSymlinks on a RELATIVE path (filepath.EvalSymlinks does not make its argument absolute): the
   resolved prefix [dest] is relative to the working directory and may start with ".." components; Lstat
   resolves it from the working directory.  [rel]: dest as a stack, innermost first — names on top of
   kept ".." components.  An absolute link switches to the absolute walk.
   Result: (absolute?, components); the relative result may start with "..". *)
Fixpoint count_dotdot (rel : list string) : nat :=
  match rel with
  | [] => O
  | c :: t => if is_dotdot c then S (count_dotdot t) else count_dotdot t
  end.

(* physical location (stack, innermost first) of the relative dest, from the working directory *)
Definition rel_phys (cwd_stk rel : list string) : list string :=
  filter (fun c => negb (is_dotdot c)) rel ++ skipn (count_dotdot rel) cwd_stk.

Fixpoint eval_links_rel (root : dnode) (cwd_stk : list string) (budget : nat)
  : list string -> list string -> res (bool * list string) :=
  fix go (rel todo : list string) {struct todo} : res (bool * list string) :=
    match todo with
    | [] => Ok (false, rev rel)
    | c :: rest =>
        if is_skip c then go rel rest
        else if is_dotdot c then
          match rel with
          | top :: rel' => if is_dotdot top then go (c :: rel) rest else go rel' rest
          | [] => go [c] rest
          end
        else
          match d_at root (rev (rel_phys cwd_stk (c :: rel))) with
          | None => Err
          | Some (DDir _) => go (c :: rel) rest
          | Some (DFile _) =>
              match rest with
              | [] => Ok (false, rev (c :: rel))
              | _ :: _ => Err
              end
          | Some (DLink t) =>
              match budget with
              | O => Err
              | S b =>
                  if is_abs t then
                    match eval_links root b [] (raw_comps t ++ rest) with
                    | Ok phys => Ok (true, phys)
                    | Err => Err
                    | Panic => Panic
                    | Diverge => Diverge
                    end
                  else eval_links_rel root cwd_stk b rel (raw_comps t ++ rest)
              end
          end
    end.

(* filepath.EvalSymlinks(p) with the process in directory cwd *)
Definition eval_symlinks_at (root : dnode) (cwd p : string) : res string :=
  if is_abs p then eval_symlinks root p
  else
    match eval_links_rel root (rev (comps cwd)) go_link_budget [] (raw_comps p) with
    | Ok (true, phys) => Ok (clean (abs_of phys))
    | Ok (false, rel) => Ok (clean (join_with sep rel))
    | Err => Err
    | Panic => Panic
    | Diverge => Diverge
    end.

(* path resolution done by the kernel for stat/open (all links followed, also the last one) *)
Definition os_resolve (root : dnode) (cwd p : string) : option (list string * dnode) :=
  match p with
  | EmptyString => None                                          (* ENOENT *)
  | _ =>
      let start := if is_abs p then [] else rev (comps cwd) in
      match eval_links root os_link_budget start (raw_comps p) with
      | Ok phys => match d_at root phys with Some n => Some (phys, n) | None => None end
      | _ => None
      end
  end.

(* fsOnDisk.IsDir: os.Stat(name) succeeds and IsDir *)
Definition d_is_dir (root : dnode) (cwd p : string) : bool :=
  match os_resolve root cwd p with Some (_, DDir _) => true | _ => false end.

(* fsOnDisk.CleanedAbs *)
Definition d_cleaned_abs (root : dnode) (cwd p : string) : res (string * string) :=
  let a := abs_path cwd p in
  match eval_symlinks root a with
  | Ok de =>
      if d_is_dir root cwd de then Ok (de, "")
      else
        let d := dir_of de in
        if negb (d_is_dir root cwd d) then Panic               (* log.Fatalf: first part not a directory *)
        else if String.eqb d de then Panic                      (* log.Fatalf: d should be a subset *)
        else
          let f := base_of de in
          if negb (String.eqb (join2 d f) de) then Panic        (* log.Fatalf: these should be equal *)
          else Ok (d, f)
  | Err => Err
  | Panic => Panic
  | Diverge => Diverge
  end.

(* fsOnDisk.ReadFile: os.ReadFile *)
Definition d_read_file (root : dnode) (cwd p : string) : res string :=
  match os_resolve root cwd p with
  | Some (_, DFile c) => Ok c
  | _ => Err
  end.

(* ---- vocabulary of the theorems ---- *)

(* all real directories of the tree (reached without following a link), as name lists from "/" *)
Fixpoint d_dirs (n : dnode) : list (list string) :=
  match n with
  | DDir es =>
      [] :: (fix go (l : list (string * dnode)) : list (list string) :=
               match l with
               | [] => []
               | (k, x) :: t => (map (cons k) (d_dirs x) ++ go t)%list
               end) es
  | _ => []
  end.


Fixpoint wf_dnode (n : dnode) : bool :=
  match n with
  | DFile _ => true
  | DLink _ => true
  | DDir es =>
      (fix go (l : list (string * dnode)) : bool :=
         match l with
         | [] => true
         | (k, x) :: t => good_name k && wf_dnode x && go t
         end) es
  end.

(* same shape, names and link targets; file contents arbitrary *)
Fixpoint d_same_shape (a b : dnode) {struct a} : bool :=
  match a, b with
  | DFile _, DFile _ => true
  | DLink t, DLink t' => String.eqb t t'
  | DDir es, DDir es' =>
      (fix go (l l' : list (string * dnode)) : bool :=
         match l, l' with
         | [], [] => true
         | (k, x) :: t, (k', x') :: t' => String.eqb k k' && d_same_shape x x' && go t t'
         | _, _ => false
         end) es es'
  | _, _ => false
  end.

(* Declarative path resolution (POSIX path_resolution(7) restricted to files, directories and links),
   independent of budgets: [resolves root n cur todo r] — starting in the physical directory [cur]
   (names from "/"), consuming the raw components [todo] and following [n] links ends at the physical
   location [r].  This is the specification the functional [eval_links] is proved against. *)
Inductive resolves (root : dnode) : nat -> list string -> list string -> list string -> Prop :=
| R_done : forall cur, resolves root 0 cur [] cur
| R_skip : forall n cur c rest r,
    is_skip c = true -> resolves root n cur rest r -> resolves root n cur (c :: rest) r
| R_up : forall n cur c rest r,
    is_skip c = false -> is_dotdot c = true ->
    resolves root n (removelast cur) rest r -> resolves root n cur (c :: rest) r
| R_dir : forall n cur c rest r es,
    is_skip c = false -> is_dotdot c = false ->
    d_at root (cur ++ [c]) = Some (DDir es) ->
    resolves root n (cur ++ [c]) rest r -> resolves root n cur (c :: rest) r
| R_file : forall cur c content,
    is_skip c = false -> is_dotdot c = false ->
    d_at root (cur ++ [c]) = Some (DFile content) ->
    resolves root 0 cur [c] (cur ++ [c])
| R_link : forall n cur c rest r t,
    is_skip c = false -> is_dotdot c = false ->
    d_at root (cur ++ [c]) = Some (DLink t) ->
    resolves root n (if is_abs t then [] else cur) (raw_comps t ++ rest) r ->
    resolves root (S n) cur (c :: rest) r.
