(* Obligations over the generated site table Gen/RawReads.v (regenerated from /repo on every run). *)
From KV Require Import Base.Prelude Gen.RawReads Fs.RawReadAllow.

(* every raw file-system access in the packages reachable from api/krusty is allow-listed *)
Lemma rawreads_ok : forallb site_allowed raw_read_sites = true.
Proof. vm_compute. reflexivity. Qed.

(* the sanctioned read is still where the loader model says it is: exactly one, in FileLoader.Load *)
Lemma rawreads_loader_present :
  existsb (fun s => site_eqb s ("api/internal/loader", "FileLoader.Load", "filesys.FileSystem.ReadFile", 1%N, Loader))
          raw_read_sites = true /\ List.length loader_sites = 1%nat.
Proof. split; vm_compute; reflexivity. Qed.

(* the scan covered the packages the argument is about *)
Lemma rawreads_scanned_core :
  forallb (fun p => str_in p raw_read_packages)
          ["api/krusty"; "api/internal/target"; "api/internal/loader"; "api/internal/builtins"; "api/kv";
           "api/internal/accumulator"; "api/internal/plugins/builtinconfig"; "api/resource"; "api/resmap";
           "api/types"; "kyaml/filesys"; "kyaml/kio"; "kyaml/openapi"; "kyaml/yaml"] = true.
Proof. vm_compute. reflexivity. Qed.
