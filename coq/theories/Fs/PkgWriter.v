(* kyaml/kio/pkgio_writer.go (LocalPackageWriter: indexByFilePath, output paths) and
   pkgio_reader.go (LocalPackageReadWriter: the set of files to delete).
   Definitions only; proofs are in Fs/PkgWriterProofs.v. *)
From KV Require Export Fs.Path.

(* strings.Contains *)
Fixpoint str_contains (needle s : string) : bool :=
  has_prefix needle s ||
  match s with
  | EmptyString => false
  | String _ s' => str_contains needle s'
  end.

(* indexByFilePath's checks on one path annotation, then filepath.Join(PackagePath, path) *)
Definition pkg_out_path (pkg ann : string) : res string :=
  if is_abs ann then Err                                   (* package paths may not be absolute paths *)
  else if str_contains ".." (clean ann) then Err           (* resource must be written under package *)
  else Ok (join2 pkg ann).

(* One resource written into a package directory that holds no entry of the written name yet
   (errorIfMissingRequiredAnnotation, indexByFilePath, the "cannot be a directory" validation):
   the directory handed to MkdirAll and the file handed to WriteFile. *)
Definition pkg_write1 (pkg ann : string) : res (string * string) :=
  if String.eqb ann "" then Err                            (* resources must be annotated with …/path *)
  else
    match pkg_out_path pkg ann with
    | Ok out =>
        if String.eqb out (clean pkg) then Err             (* path cannot be a directory (the package itself) *)
        else Ok (dir_of out, out)
    | Err => Err
    | Panic => Panic
    | Diverge => Diverge
    end.

(* all the targets of a batch; the first rejected annotation rejects the batch before any file is touched *)
Fixpoint pkg_targets (pkg : string) (anns : list string) : res (list string) :=
  match anns with
  | [] => Ok []
  | a :: t =>
      match pkg_out_path pkg a with
      | Ok p => match pkg_targets pkg t with Ok ps => Ok (p :: ps) | r => r end
      | Err => Err
      | Panic => Panic
      | Diverge => Diverge
      end
  end.

(* LocalPackageReadWriter.Write: r.files.Difference(newFiles), each joined to the package path *)
Definition pkg_delete_set (pkg : string) (read_files new_files : list string) : list string :=
  map (join2 pkg) (filter (fun f => negb (str_in f new_files)) read_files).

(* a relative path as LocalPackageReader records it (filepath.Rel of a walked file): good names only *)
Definition rel_canon (f : string) : Prop :=
  exists cs, cs <> [] /\ canon_comps cs = true /\ f = join_with sep cs.
