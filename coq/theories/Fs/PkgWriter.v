(* kyaml/kio/pkgio_writer.go (LocalPackageWriter: indexByFilePath, output paths) and
   pkgio_reader.go (LocalPackageReadWriter: the set of files to delete).
   Definitions only; proofs are in Fs/PkgWriterProofs.v. *)
From KV Require Export Fs.Path.

(* strings.Contains *)
Fixpoint str_contains (needle s : string) : bool :=
  has_prefix needle s ||
  match s with
  | EmptyString => false
  | String _ s' => str_contains needle s'
  end.

(* indexByFilePath's checks on one path annotation, then filepath.Join(PackagePath, path) *)
Definition pkg_out_path (pkg ann : string) : res string :=
  if is_abs ann then Err                                   (* package paths may not be absolute paths *)
  else if str_contains ".." (clean ann) then Err           (* resource must be written under package *)
  else Ok (join2 pkg ann).

(* One resource written into a package directory that holds no entry of the written name yet
   (errorIfMissingRequiredAnnotation, indexByFilePath, the "cannot be a directory" validation):
   the directory handed to MkdirAll and the file handed to WriteFile. *)
Definition pkg_write1 (pkg ann : string) : res (string * string) :=
  if String.eqb ann "" then Err                            (* resources must be annotated with …/path *)
  else
    match pkg_out_path pkg ann with
    | Ok out =>
        if String.eqb out (clean pkg) then Err             (* path cannot be a directory (the package itself) *)
        else Ok (dir_of out, out)
    | Err => Err
    | Panic => Panic
    | Diverge => Diverge
    end.

(* ---- the path a resource is finally written to (kioutil.DefaultPathAndIndexAnnotation, run by
   LocalPackageWriter.Write before any check) ---- *)

(* strings.ToLower, ASCII (the harness keeps kinds ASCII) *)
Definition lower_ascii (c : ascii) : ascii :=
  let n := N_of_ascii c in
  if (65 <=? n)%N && (n <=? 90)%N then ascii_of_N (n + 32) else c.
Fixpoint str_lower (s : string) : string :=
  match s with
  | EmptyString => EmptyString
  | String c s' => String (lower_ascii c) (str_lower s')
  end.

(* kioutil.CreatePathAnnotationValue("", meta): path.Join("", namespace, lower(kind) + "_" + name + ".yaml") *)
Definition default_path (ns kind name : string) : string :=
  join2 ns (str_lower kind ++ "_" ++ name ++ ".yaml").

(* what the writer looks at in a resource: the internal and the legacy path annotation and the index
   annotation (None = absent), and the metadata the default path is made from *)
Record pkg_res : Type := mkRes {
  r_internal : option string;     (* internal.config.kubernetes.io/path *)
  r_legacy : option string;       (* config.kubernetes.io/path *)
  r_index : option string;        (* internal.config.kubernetes.io/index *)
  r_ns : string;
  r_kind : string;
  r_name : string
}.

Definition opt_str (o : option string) : string := match o with Some s => s | None => EmptyString end.

(* CopyLegacyAnnotations (a non-empty value wins over an empty or missing one), then: an internal path
   annotation that is present (even empty) is kept, otherwise the default path is set *)
Definition effective_path (r : pkg_res) : string :=
  let nv := opt_str (r_internal r) in
  let lv := opt_str (r_legacy r) in
  if negb (String.eqb nv "") then nv
  else if negb (String.eqb lv "") then lv
  else match r_internal r with
       | Some _ => EmptyString
       | None => default_path (r_ns r) (r_kind r) (r_name r)
       end.

(* LocalPackageWriter.Write of one resource into a fresh package: a present-but-empty index annotation
   is rejected like an empty path; a missing one is defaulted *)
Definition pkg_write_res (pkg : string) (r : pkg_res) : res (string * string) :=
  match r_index r with
  | Some EmptyString => Err
  | _ => pkg_write1 pkg (effective_path r)
  end.

(* all the targets of a batch; the first rejected annotation rejects the batch before any file is touched *)
Fixpoint pkg_targets (pkg : string) (anns : list string) : res (list string) :=
  match anns with
  | [] => Ok []
  | a :: t =>
      match pkg_out_path pkg a with
      | Ok p => match pkg_targets pkg t with Ok ps => Ok (p :: ps) | r => r end
      | Err => Err
      | Panic => Panic
      | Diverge => Diverge
      end
  end.

(* LocalPackageReadWriter.Write: r.files.Difference(newFiles), each joined to the package path *)
Definition pkg_delete_set (pkg : string) (read_files new_files : list string) : list string :=
  map (join2 pkg) (filter (fun f => negb (str_in f new_files)) read_files).

(* ---- sequences of Writes on one LocalPackageReadWriter ----
   The set of files belonging to the package is fixed by Read (r.files); a Write — accepted or refused —
   does not change it.  A Write is refused as a whole (nothing is deleted) when the package writer refuses
   one of the path annotations; otherwise the tracked files that no written resource names are deleted. *)
Definition rw_accepts (pkg : string) (anns : list string) : bool :=
  forallb (fun a => is_ok (pkg_write1 pkg a)) anns.

Definition rw_step (pkg : string) (files anns : list string) : res (list string) :=
  if rw_accepts pkg anns then Ok (pkg_delete_set pkg files anns) else Err.

Definition rw_run (pkg : string) (files : list string) (steps : list (list string)) : list (res (list string)) :=
  map (rw_step pkg files) steps.

(* ---- LocalPackageReadWriter with its options ----
   Read: LocalPackageReader walks the package and, for every file it opens, stamps the file's path relative
   to the package onto every resource of that file (internal and legacy path annotation, SetAnnotation:
   an annotation of that name CARRIED IN THE FILE'S CONTENT is overwritten).  The read-writer does not pass
   its OmitReaderAnnotations on, so this happens whatever that option says.  r.files = the set of those paths,
   unless NoDeleteFiles.  KeepReaderAnnotations only affects what the writer leaves in the files. *)
Record rw_opts : Type := mkRwOpts {
  o_omit : bool;          (* OmitReaderAnnotations *)
  o_keep : bool;          (* KeepReaderAnnotations *)
  o_nodelete : bool       (* NoDeleteFiles *)
}.

(* the path annotation of a resource after Read: the stamped one, whatever it carried *)
Definition stamped_path (o : rw_opts) (relpath carried : string) : string := relpath.

(* a file as Read sees it: its path relative to the package and, per resource, the path annotation the
   content carries ("" = none) *)
Definition pkg_file : Type := (string * list string)%type.

(* path annotations of the resources Read returns, file by file *)
Definition rw_read_paths (o : rw_opts) (files : list pkg_file) : list string :=
  flat_map (fun f => map (stamped_path o (fst f)) (snd f)) files.

Fixpoint dedup (l : list string) : list string :=
  match l with
  | [] => []
  | x :: t => if str_in x t then dedup t else x :: dedup t
  end.

(* r.files after Read *)
Definition rw_tracked (o : rw_opts) (files : list pkg_file) : list string :=
  if o_nodelete o then [] else dedup (rw_read_paths o files).

Definition rw_step_o (o : rw_opts) (pkg : string) (files : list pkg_file) (anns : list string) : res (list string) :=
  rw_step pkg (rw_tracked o files) anns.

Definition rw_run_o (o : rw_opts) (pkg : string) (files : list pkg_file) (steps : list (list string))
  : list (res (list string)) :=
  map (rw_step_o o pkg files) steps.

(* a relative path as LocalPackageReader records it (filepath.Rel of a walked file): good names only *)
Definition rel_canon (f : string) : Prop :=
  exists cs, cs <> [] /\ canon_comps cs = true /\ f = join_with sep cs.
