(* C05 at build level: the loading front-end of the pipeline model (Res/Pipeline.v).
   Res.Pipeline.build works on a [ptree] whose files are already read: it has no access to a file system.
   [load_tree] is the only place where the model build touches one: starting from a loader it reads the
   kustomization file of the root, then every `resources:` entry — as a file through FileLoader.Load, else as
   a directory through FileLoader.New, recursively (accumulateResources / accumulateFile /
   accumulateDirectory) — and records every read.  Decoding bytes into directives and documents is external
   (parameters).  Definitions only; proofs are in Fs/BuildLoadProofs.v.

   Scope: the path-bearing fields of the pipeline model are the kustomization file and `resources:`;
   generators take literal sources only.  The fields outside the model are tied by Gen_rawreads_ok: they
   can reach the file system through FileLoader.Load only. *)
From KV Require Export Fs.LoadTree Res.Pipeline.

Section BuildLoad.
  Variable is_repo : string -> bool.
  Variable git_new : loader -> string -> res loader.
  (* YAML decoding (external): a kustomization file -> its directives and its resources: entries *)
  Variable parse_kust : string -> res (pdirs * list string).
  (* … a resource file -> its documents *)
  Variable parse_docs : string -> res (list node).

  Definition load_tree : nat -> fsops -> loader -> res (ptree * list read_ev) :=
    load_tree_gen ptree pdirs (list node) PFile PDir is_repo git_new parse_kust parse_docs.

  (* the model build from a file system: load, then the (file-system free) pipeline *)
  Definition model_build (nonstr : string -> bool) (o : psort) (fuel : nat) (fs : fsops) (target : string)
    : res (list node * list read_ev) :=
    do l <- new_loader is_repo git_new fs RootOnly target;
    do te <- load_tree fuel fs l;
    do out <- build nonstr o (fst te);
    Ok (out, snd te).
End BuildLoad.
