(* C05 at build level: the loading front-end of the pipeline model (Res/Pipeline.v).
   Res.Pipeline.build works on a [ptree] whose files are already read: it has no access to a file system.
   [load_tree] is the only place where the model build touches one: starting from a loader it reads the
   kustomization file of the root, then every `resources:` entry — as a file through FileLoader.Load, else as
   a directory through FileLoader.New, recursively (accumulateResources / accumulateFile /
   accumulateDirectory) — and records every read.  Decoding bytes into directives and documents is external
   (parameters).  Definitions only; proofs are in Fs/BuildLoadProofs.v.

   Scope: the path-bearing fields of the pipeline model are the kustomization file and `resources:`;
   generators take literal sources only.  The fields outside the model are tied by Gen_rawreads_ok: they
   can reach the file system through FileLoader.Load only. *)
From KV Require Export Fs.Loader Res.Pipeline.

Record read_ev : Type := mkEv {
  ev_root : string;     (* root of the loader (layer) that issued the read *)
  ev_ref : string;      (* the reference as written in the kustomization *)
  ev_path : string;     (* the path handed to FileSystem.ReadFile *)
  ev_bytes : string     (* what was read *)
}.

Section BuildLoad.
  Variable is_repo : string -> bool.
  Variable git_new : loader -> string -> res loader.
  (* YAML decoding (external): a kustomization file -> its directives and its resources: entries *)
  Variable parse_kust : string -> res (pdirs * list string).
  (* … a resource file -> its documents *)
  Variable parse_docs : string -> res (list node).

  (* loadKustFile: the model knows the file name kustomization.yaml only *)
  Definition kust_file : string := "kustomization.yaml".

  (* FileLoader.Load of a local reference, keeping the path it hands to ReadFile *)
  Definition load_ev (fs : fsops) (l : loader) (p : string) : res read_ev :=
    match restrict fs l (load_path l p) with
    | Ok q =>
        match f_read_file fs q with
        | Ok b => Ok (mkEv (l_root l) p q b)
        | Err => Err
        | Panic => Panic
        | Diverge => Diverge
        end
    | Err => Err
    | Panic => Panic
    | Diverge => Diverge
    end.

  Fixpoint load_tree (fuel : nat) (fs : fsops) (l : loader) : res (ptree * list read_ev) :=
    match fuel with
    | O => Diverge
    | S f =>
        do ke <- load_ev fs l kust_file;
        do kd <- parse_kust (ev_bytes ke);
        do r <- (fix go (ps : list string) : res (list ptree * list read_ev) :=
                   match ps with
                   | [] => Ok ([], [])
                   | p :: t =>
                       do here <-
                         match load_ev fs l p with
                         | Ok e => do docs <- parse_docs (ev_bytes e); Ok (PFile docs, [e])
                         | Err =>                           (* not loadable as a file: a base *)
                             match new_root is_repo git_new fs l p with
                             | Ok l2 => load_tree f fs l2
                             | Err => Err
                             | Panic => Panic
                             | Diverge => Diverge
                             end
                         | Panic => Panic
                         | Diverge => Diverge
                         end;
                       do rest <- go t;
                       Ok (fst here :: fst rest, (snd here ++ snd rest)%list)
                   end) (snd kd);
        Ok (PDir (l_root l) (fst kd) (fst r), ke :: snd r)
    end.

  (* the model build from a file system: load, then the (file-system free) pipeline *)
  Definition model_build (nonstr : string -> bool) (o : psort) (fuel : nat) (fs : fsops) (target : string)
    : res (list node * list read_ev) :=
    do l <- new_loader is_repo git_new fs RootOnly target;
    do te <- load_tree fuel fs l;
    do out <- build nonstr o (fst te);
    Ok (out, snd te).
End BuildLoad.
