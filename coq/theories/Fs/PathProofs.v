(* Proofs about KV.Fs.Path (kept out of the model file). *)
From KV Require Import Fs.Path.
From Coq Require Import ZifyNat ZifyBool.

Ltac inv H := inversion H; subst; clear H.
Local Open Scope list_scope.

(* ---------- strings ---------- *)

Lemma str_eqb_refl s : String.eqb s s = true.
Proof. apply String.eqb_refl. Qed.

Lemma app_empty_r (s : string) : (s ++ "")%string = s.
Proof. induction s; cbn; congruence. Qed.

Lemma app_assoc_s (a b c : string) : ((a ++ b) ++ c)%string = (a ++ (b ++ c))%string.
Proof. induction a; cbn; congruence. Qed.

Lemma has_prefix_app p s : has_prefix p (p ++ s)%string = true.
Proof. induction p; cbn; auto. rewrite Ascii.eqb_refl. auto. Qed.

Lemma has_prefix_inv p s : has_prefix p s = true -> exists t, s = (p ++ t)%string.
Proof.
  revert s; induction p as [|a p IH]; intros s H; cbn in *.
  - exists s; reflexivity.
  - destruct s as [|b s]; [discriminate|].
    apply andb_true_iff in H as [E H]. apply Ascii.eqb_eq in E; subst.
    destruct (IH _ H) as [t ->]. exists t; reflexivity.
Qed.

(* ---------- split_on / join_with ---------- *)

Lemma split_on_cons c s : exists h t, split_on c s = h :: t.
Proof.
  induction s as [|a s IH]; cbn; eauto.
  destruct IH as (h & t & ->). destruct (Ascii.eqb a c); eauto.
Qed.

Lemma split_on_nosep s : no_slash s = true -> split_on slash s = [s].
Proof.
  induction s as [|a s IH]; cbn; intros H; auto.
  apply andb_true_iff in H as [Ha Hs]. rewrite (IH Hs).
  destruct (Ascii.eqb a slash); [discriminate|reflexivity].
Qed.

Lemma split_on_app_sep a b :
  split_on slash (a ++ String slash b)%string = (split_on slash a ++ split_on slash b)%list.
Proof.
  induction a as [|x a IH]; cbn.
  - destruct (split_on_cons slash b) as (h & t & ->). reflexivity.
  - rewrite IH. destruct (split_on_cons slash a) as (h & t & ->). cbn.
    destruct (Ascii.eqb x slash); reflexivity.
Qed.

Lemma split_on_slash_cons s : split_on slash (String slash s) = "" :: split_on slash s.
Proof. cbn. destruct (split_on_cons slash s) as (h & t & ->). reflexivity. Qed.

Lemma split_on_no_slash s : Forall (fun c => no_slash c = true) (split_on slash s).
Proof.
  induction s as [|a s IH]; cbn.
  - constructor; auto.
  - destruct (split_on_cons slash s) as (h & t & E). rewrite E in *. inv IH.
    destruct (Ascii.eqb a slash) eqn:Ea.
    + constructor; [reflexivity|]. constructor; auto.
    + constructor; auto. cbn. rewrite Ea. auto.
Qed.

Lemma join_cons2 x y l : join_with sep (x :: y :: l) = (x ++ String slash (join_with sep (y :: l)))%string.
Proof. reflexivity. Qed.

Lemma split_join cs :
  cs <> [] -> Forall (fun c => no_slash c = true) cs -> split_on slash (join_with sep cs) = cs.
Proof.
  induction cs as [|x l IH]; intros Hne Hf; [congruence|].
  inv Hf. destruct l as [|y l].
  - cbn. apply split_on_nosep; auto.
  - rewrite join_cons2, split_on_app_sep, split_on_nosep by auto.
    rewrite IH; auto. congruence.
Qed.

Lemma join_app (a b : list string) :
  a <> [] -> b <> [] ->
  join_with sep (a ++ b)%list = (join_with sep a ++ String slash (join_with sep b))%string.
Proof.
  induction a as [|x l IH]; intros Ha Hb; [congruence|].
  destruct l as [|y l].
  - cbn. destruct b; [congruence|]. reflexivity.
  - assert (E : ((x :: y :: l) ++ b)%list = x :: y :: (l ++ b)%list) by reflexivity.
    rewrite E. rewrite !join_cons2.
    assert (E2 : (y :: (l ++ b))%list = ((y :: l) ++ b)%list) by reflexivity.
    rewrite E2, IH by (auto; congruence).
    rewrite app_assoc_s. reflexivity.
Qed.

(* ---------- names ---------- *)

Lemma good_name_no_slash c : good_name c = true -> no_slash c = true.
Proof. unfold good_name. intros H. repeat (apply andb_true_iff in H as [H ?]). auto. Qed.

Lemma good_name_not_skip c : good_name c = true -> is_skip c = false.
Proof. unfold good_name. intros H. repeat (apply andb_true_iff in H as [H ?]). apply negb_true_iff in H. auto. Qed.

Lemma good_name_not_dotdot c : good_name c = true -> is_dotdot c = false.
Proof.
  unfold good_name. intros H. apply andb_true_iff in H as [H _].
  apply andb_true_iff in H as [_ H]. apply negb_true_iff in H. auto.
Qed.

Lemma good_name_nonempty c : good_name c = true -> c <> "".
Proof. intros H E; subst. discriminate. Qed.

Lemma canon_no_slash cs : canon_comps cs = true -> Forall (fun c => no_slash c = true) cs.
Proof.
  unfold canon_comps. rewrite forallb_forall, Forall_forall. intros H x Hx.
  apply good_name_no_slash; auto.
Qed.

Lemma canon_app a b : canon_comps (a ++ b) = canon_comps a && canon_comps b.
Proof. unfold canon_comps. apply forallb_app. Qed.

Lemma canon_cons a l : canon_comps (a :: l) = good_name a && canon_comps l.
Proof. reflexivity. Qed.

(* a good name does not start with a slash *)
Lemma good_name_first c : good_name c = true -> exists a s, c = String a s /\ Ascii.eqb a slash = false.
Proof.
  intros H. destruct c as [|a s]; [discriminate|].
  exists a, s. split; auto. apply good_name_no_slash in H. cbn in H.
  apply andb_true_iff in H as [H _]. apply negb_true_iff in H. auto.
Qed.

(* ---------- clean ---------- *)

Lemma clean_stack_good r stk cs :
  canon_comps cs = true -> clean_stack r stk cs = rev cs ++ stk.
Proof.
  revert stk; induction cs as [|c cs IH]; intros stk H; cbn; auto.
  rewrite canon_cons in H. apply andb_true_iff in H as [Hc Hcs].
  rewrite (good_name_not_skip _ Hc), (good_name_not_dotdot _ Hc), IH by auto.
  rewrite <- app_assoc. reflexivity.
Qed.

Lemma raw_comps_abs_of cs :
  canon_comps cs = true -> cs <> [] -> raw_comps (abs_of cs) = "" :: cs.
Proof.
  intros H Hne. unfold raw_comps, abs_of.
  change (String slash (join_with sep cs)) with ("" ++ String slash (join_with sep cs))%string.
  rewrite split_on_app_sep. cbn [split_on app]. rewrite split_join; auto using canon_no_slash.
Qed.

Lemma is_abs_abs_of cs : is_abs (abs_of cs) = true.
Proof. reflexivity. Qed.

Lemma clean_abs_of cs : canon_comps cs = true -> clean (abs_of cs) = abs_of cs.
Proof.
  intros H. destruct cs as [|c cs'] eqn:E; [reflexivity|]. rewrite <- E in *.
  assert (Hne : cs <> []) by (subst; congruence).
  unfold clean. rewrite is_abs_abs_of.
  replace (match abs_of cs with EmptyString => "." | String _ _ => render true (rev (clean_stack true [] (raw_comps (abs_of cs)))) end)
    with (render true (rev (clean_stack true [] (raw_comps (abs_of cs))))) by reflexivity.
  rewrite raw_comps_abs_of by auto.
  cbn [clean_stack is_skip String.eqb orb]. rewrite clean_stack_good by auto.
  rewrite app_nil_r, rev_involutive. reflexivity.
Qed.

(* the stack of a rooted clean holds good names only *)
Lemma clean_stack_rooted_good stk cs :
  canon_comps stk = true -> Forall (fun c => no_slash c = true) cs ->
  canon_comps (clean_stack true stk cs) = true.
Proof.
  revert stk; induction cs as [|c cs IH]; intros stk Hs Hc; cbn; auto.
  inv Hc. destruct (is_skip c) eqn:Sk; auto.
  destruct (is_dotdot c) eqn:Dd.
  - destruct stk as [|top stk']; auto.
    rewrite canon_cons in Hs. apply andb_true_iff in Hs as [Ht Hs'].
    rewrite (good_name_not_dotdot _ Ht). auto.
  - apply IH; auto. rewrite canon_cons. apply andb_true_iff; split; auto.
    unfold good_name. rewrite Sk, Dd. cbn. auto.
Qed.

Lemma canon_rev cs : canon_comps (rev cs) = canon_comps cs.
Proof.
  unfold canon_comps. induction cs; cbn; auto.
  rewrite forallb_app. cbn. rewrite IHcs. rewrite andb_true_r. apply andb_comm.
Qed.

(* an absolute path cleans to a canonical path: no "", ".", ".." is left *)
Lemma clean_abs_canonical p :
  is_abs p = true -> exists cs, clean p = abs_of cs /\ canon_comps cs = true.
Proof.
  intros H. destruct p as [|a p']; [discriminate|].
  unfold clean. rewrite H. cbn [render].
  eexists; split; [reflexivity|].
  rewrite canon_rev. apply clean_stack_rooted_good; auto. apply split_on_no_slash.
Qed.

Lemma clean_idem_abs p : is_abs p = true -> clean (clean p) = clean p.
Proof.
  intros H. destruct (clean_abs_canonical p H) as (cs & -> & Hc). apply clean_abs_of; auto.
Qed.

(* ---------- comps and injectivity ---------- *)

Lemma filter_nonempty_canon cs :
  canon_comps cs = true -> filter (fun c => negb (String.eqb c "")) cs = cs.
Proof.
  induction cs as [|c cs IH]; cbn; auto. intros H.
  apply andb_true_iff in H as [Hc Hcs].
  destruct c; [discriminate|]. cbn. rewrite IH; auto.
Qed.

Lemma comps_abs_of cs : canon_comps cs = true -> comps (abs_of cs) = cs.
Proof.
  intros H. unfold comps. destruct cs as [|c cs'] eqn:E; [reflexivity|]. rewrite <- E in *.
  rewrite raw_comps_abs_of by (auto; subst; congruence). cbn. apply filter_nonempty_canon; auto.
Qed.

Lemma abs_of_inj a b :
  canon_comps a = true -> canon_comps b = true -> abs_of a = abs_of b -> a = b.
Proof. intros Ha Hb E. rewrite <- (comps_abs_of a Ha), <- (comps_abs_of b Hb), E. reflexivity. Qed.

(* ---------- list_prefix ---------- *)

Lemma list_prefix_iff p l : list_prefix p l = true <-> exists rest, l = p ++ rest.
Proof.
  revert l; induction p as [|a p IH]; intros l; cbn.
  - split; eauto.
  - destruct l as [|b l].
    + split; [discriminate|]. intros [r E]. discriminate.
    + split.
      * intros H. apply andb_true_iff in H as [E H]. apply String.eqb_eq in E; subst.
        apply IH in H as [r ->]. eauto.
      * intros [r E]. inv E. rewrite String.eqb_refl. cbn. apply IH. eauto.
Qed.

(* ---------- ConfirmedDir.HasPrefix is component-wise containment ---------- *)

Lemma abs_of_snoc_sep cs :
  cs <> [] -> (abs_of cs ++ sep)%string = String slash (join_with sep cs ++ String slash "")%string.
Proof. intros _. reflexivity. Qed.

Lemma cd_has_prefix_canon d r :
  canon_comps d = true -> canon_comps r = true ->
  cd_has_prefix (abs_of d) (abs_of r) = list_prefix r d.
Proof.
  intros Hd Hr. unfold cd_has_prefix.
  destruct r as [|r0 r'] eqn:Er.
  { reflexivity. }
  rewrite <- Er in *. assert (Hrne : r <> []) by (subst; congruence).
  clear Er r0 r'.
  assert (E1 : String.eqb (abs_of r) sep = false).
  { apply String.eqb_neq. intros E. change sep with (abs_of []) in E.
    apply abs_of_inj in E; auto. }
  rewrite E1. cbn [orb].
  destruct (list_prefix r d) eqn:LP.
  - apply list_prefix_iff in LP as [rest ->].
    destruct rest as [|x rest].
    + rewrite app_nil_r, String.eqb_refl. reflexivity.
    + apply orb_true_iff; right.
      unfold abs_of. rewrite join_app by (auto; congruence).
      replace (String slash (join_with sep r ++ String slash (join_with sep (x :: rest)))%string)
        with (((String slash (join_with sep r) ++ sep) ++ join_with sep (x :: rest))%string).
      * apply has_prefix_app.
      * rewrite app_assoc_s. reflexivity.
  - apply orb_false_iff; split.
    + apply String.eqb_neq. intros E. apply abs_of_inj in E; auto. subst r.
      assert (list_prefix d d = true) by (apply list_prefix_iff; exists []; rewrite app_nil_r; auto).
      congruence.
    + destruct (has_prefix (abs_of r ++ sep) (abs_of d)) eqn:HP; auto.
      apply has_prefix_inv in HP as [t Et].
      exfalso. rewrite <- not_true_iff_false in LP. apply LP.
      apply list_prefix_iff.
      (* abs_of d = abs_of r ++ "/" ++ t : split both sides *)
      assert (Hdne : d <> []).
      { intros ->. unfold abs_of in Et. cbn in Et. inv Et.
        destruct (join_with sep r); discriminate. }
      assert (Es : raw_comps (abs_of d) = raw_comps ((abs_of r ++ sep) ++ t)%string) by congruence.
      rewrite raw_comps_abs_of in Es by auto.
      rewrite app_assoc_s in Es. cbn [sep append] in Es.
      unfold raw_comps in Es. rewrite split_on_app_sep in Es.
      fold (raw_comps (abs_of r)) in Es. rewrite raw_comps_abs_of in Es by auto.
      cbn [app] in Es. inv Es. eauto.
Qed.

Lemma cd_has_prefix_containment d r :
  canon_comps d = true -> canon_comps r = true ->
  (cd_has_prefix (abs_of d) (abs_of r) = true <-> exists rest, d = r ++ rest).
Proof. intros Hd Hr. rewrite cd_has_prefix_canon by auto. apply list_prefix_iff. Qed.

(* the classic: "/root-evil" is not below "/root" *)
Example root_evil_not_below_root : cd_has_prefix "/root-evil" "/root" = false.
Proof. reflexivity. Qed.
Example root_sub_below_root : cd_has_prefix "/root/sub" "/root" = true.
Proof. reflexivity. Qed.

(* ---------- more facts about canonical paths ---------- *)

Lemma clean_stack_app r stk a b :
  clean_stack r stk (a ++ b) = clean_stack r (clean_stack r stk a) b.
Proof.
  revert stk; induction a as [|c a IH]; intros stk; cbn; auto.
  destruct (is_skip c); auto. destruct (is_dotdot c); auto.
  destruct stk as [|t s]; [destruct r; auto|]. destruct (is_dotdot t); auto.
Qed.

(* the text of a non-empty list of good names starts with a non-slash byte *)
Lemma join_first cs :
  canon_comps cs = true -> cs <> [] ->
  exists a s, join_with sep cs = String a s /\ Ascii.eqb a slash = false.
Proof.
  intros H Hne. destruct cs as [|c l]; [congruence|].
  rewrite canon_cons in H. apply andb_true_iff in H as [Hc _].
  destruct (good_name_first _ Hc) as (a & s & -> & Ha).
  destruct l; cbn; eauto.
Qed.

Lemma clean_rel_canon cs :
  canon_comps cs = true -> cs <> [] -> clean (join_with sep cs) = join_with sep cs.
Proof.
  intros H Hne. destruct (join_first cs H Hne) as (a & s & E & Ha).
  unfold clean. rewrite E. cbn [is_abs]. rewrite Ha. rewrite <- E.
  unfold raw_comps. rewrite split_join by (auto using canon_no_slash).
  rewrite clean_stack_good by auto. rewrite app_nil_r, rev_involutive.
  destruct cs; [congruence|reflexivity].
Qed.

Lemma strip_leading_abs_of cs :
  canon_comps cs = true -> cs <> [] -> strip_leading_seps (abs_of cs) = join_with sep cs.
Proof.
  intros H Hne. destruct (join_first cs H Hne) as (a & s & E & Ha).
  change (strip_leading_seps (abs_of cs)) with (strip_leading_seps (join_with sep cs)).
  rewrite E. cbn [strip_leading_seps]. rewrite Ha. reflexivity.
Qed.

Lemma abs_of_snoc d f :
  d <> [] -> abs_of (d ++ [f]) = (abs_of d ++ String slash f)%string.
Proof. intros H. unfold abs_of. rewrite join_app by (auto; congruence). reflexivity. Qed.

Lemma clean_abs_unfold p :
  clean (String slash p) = abs_of (rev (clean_stack true [] (raw_comps (String slash p)))).
Proof. reflexivity. Qed.

(* filepath.Join(dir, name) of a canonical directory and a good name *)
Lemma join2_canon d f :
  canon_comps d = true -> good_name f = true -> join2 (abs_of d) f = abs_of (d ++ [f]).
Proof.
  intros Hd Hf. unfold join2, abs_of at 1.
  assert (Hc : canon_comps (d ++ [f]) = true).
  { rewrite canon_app, Hd. cbn. rewrite Hf. reflexivity. }
  destruct d as [|c d'] eqn:E.
  - (* "/" ++ "/" ++ f *)
    change (abs_of [] ++ sep ++ f)%string with (String slash (String slash f)).
    change (clean (String slash (String slash f)))
      with (render true (rev (clean_stack true [] (raw_comps (String slash (String slash f)))))).
    unfold raw_comps. rewrite !split_on_slash_cons.
    rewrite split_on_nosep by (apply good_name_no_slash; auto).
    cbn [clean_stack is_skip String.eqb orb].
    rewrite (good_name_not_skip _ Hf), (good_name_not_dotdot _ Hf). reflexivity.
  - rewrite <- E in *. assert (Hne : d <> []) by (subst; congruence).
    change (String slash (join_with sep d)) with (abs_of d).
    replace (abs_of d ++ sep ++ f)%string with (abs_of (d ++ [f])).
    + apply clean_abs_of; auto.
    + rewrite abs_of_snoc by auto. reflexivity.
Qed.

(* ---------- str_rev, trailing separators ---------- *)

Lemma str_rev_acc_app s acc : str_rev_acc s acc = (str_rev s ++ acc)%string.
Proof.
  unfold str_rev. revert acc. induction s as [|c s IH]; intros acc; cbn; auto.
  rewrite IH. rewrite (IH (String c "")). rewrite app_assoc_s. reflexivity.
Qed.

Lemma str_rev_cons c s : str_rev (String c s) = (str_rev s ++ String c "")%string.
Proof. unfold str_rev at 1. cbn. apply str_rev_acc_app. Qed.

Lemma str_rev_snoc s c : str_rev (s ++ String c "")%string = String c (str_rev s).
Proof.
  induction s as [|a s IH]; [reflexivity|].
  cbn [append]. rewrite !str_rev_cons, IH. reflexivity.
Qed.

Lemma str_rev_involutive s : str_rev (str_rev s) = s.
Proof.
  induction s as [|a s IH]; [reflexivity|].
  rewrite str_rev_cons, str_rev_snoc, IH. reflexivity.
Qed.

Lemma string_snoc s : s <> "" -> exists s' c, s = (s' ++ String c "")%string.
Proof.
  induction s as [|a s IH]; [congruence|]. intros _.
  destruct s as [|b s'].
  - exists "", a. reflexivity.
  - destruct IH as (t & c & E); [congruence|]. exists (String a t), c. cbn. rewrite <- E. reflexivity.
Qed.

Lemma no_slash_app a b : no_slash (a ++ b)%string = no_slash a && no_slash b.
Proof. induction a; cbn; auto. rewrite IHa. rewrite andb_assoc. reflexivity. Qed.

Lemma strip_trailing_last_not_slash s c :
  Ascii.eqb c slash = false -> strip_trailing_seps (s ++ String c "")%string = (s ++ String c "")%string.
Proof.
  intros H. unfold strip_trailing_seps. rewrite str_rev_snoc. cbn [strip_leading_seps]. rewrite H.
  rewrite <- str_rev_snoc. apply str_rev_involutive.
Qed.

(* ---------- Split / Dir / Base on canonical paths ---------- *)

Lemma split_path_nosep f : no_slash f = true -> split_path f = ("", f).
Proof.
  induction f as [|a f IH]; cbn; auto. intros H.
  apply andb_true_iff in H as [Ha Hf]. rewrite (IH Hf).
  apply negb_true_iff in Ha. rewrite Ha. reflexivity.
Qed.

Lemma split_path_app_sep x f :
  no_slash f = true -> split_path (x ++ String slash f)%string = ((x ++ sep)%string, f).
Proof.
  intros Hf. induction x as [|c x IH].
  - cbn. rewrite (split_path_nosep _ Hf). reflexivity.
  - cbn [append split_path]. rewrite IH.
    destruct (x ++ sep)%string eqn:E.
    + destruct x; discriminate.
    + reflexivity.
Qed.

Lemma split_path_canon d f :
  canon_comps d = true -> good_name f = true ->
  split_path (abs_of (d ++ [f])) = ((match d with [] => "" | _ => abs_of d end ++ sep)%string, f).
Proof.
  intros Hd Hf. pose proof (good_name_no_slash _ Hf) as Hs.
  destruct d as [|c d'] eqn:E.
  - cbn [app]. unfold abs_of. cbn [join_with].
    change (String slash f) with ("" ++ String slash f)%string. apply split_path_app_sep; auto.
  - rewrite <- E. assert (Hne : d <> []) by (subst; congruence).
    rewrite abs_of_snoc by auto. rewrite split_path_app_sep by auto. subst; reflexivity.
Qed.

Lemma dir_of_canon d f :
  canon_comps d = true -> good_name f = true -> dir_of (abs_of (d ++ [f])) = abs_of d.
Proof.
  intros Hd Hf. unfold dir_of. rewrite split_path_canon by auto. cbn [fst].
  destruct d as [|c d'] eqn:E; [reflexivity|]. rewrite <- E in *.
  assert (Hne : d <> []) by (subst; congruence).
  change (match d with [] => "" | _ :: _ => abs_of d end ++ sep)%string
    with (match d with [] => sep | _ :: _ => (abs_of d ++ sep)%string end).
  rewrite E at 1. rewrite <- E.
  change (abs_of d ++ sep)%string with (String slash (join_with sep d ++ sep)).
  rewrite clean_abs_unfold.
  change (String slash (join_with sep d ++ sep)%string) with (abs_of d ++ String slash "")%string.
  unfold raw_comps. rewrite split_on_app_sep. fold (raw_comps (abs_of d)).
  rewrite raw_comps_abs_of by auto. cbn [split_on].
  change (("" :: d) ++ [""]) with ("" :: (d ++ [""])).
  cbn [clean_stack is_skip String.eqb orb].
  rewrite clean_stack_app. rewrite (clean_stack_good true [] d) by auto. cbn. rewrite app_nil_r, rev_involutive. reflexivity.
Qed.

Lemma base_of_canon d f :
  canon_comps d = true -> good_name f = true -> base_of (abs_of (d ++ [f])) = f.
Proof.
  intros Hd Hf. pose proof (good_name_no_slash _ Hf) as Hs.
  unfold base_of. unfold abs_of at 1.
  destruct (string_snoc f (good_name_nonempty _ Hf)) as (f' & c & Ef).
  assert (Hc : Ascii.eqb c slash = false).
  { rewrite Ef, no_slash_app in Hs. apply andb_true_iff in Hs as [_ Hs]. cbn in Hs.
    rewrite andb_true_r in Hs. apply negb_true_iff in Hs. auto. }
  assert (Ea : exists x, abs_of (d ++ [f]) = (x ++ String c "")%string).
  { destruct d as [|c0 d'].
    - exists (String slash f'). cbn. rewrite Ef. reflexivity.
    - rewrite abs_of_snoc by congruence. rewrite Ef.
      exists (abs_of (c0 :: d') ++ String slash f')%string. rewrite app_assoc_s. reflexivity. }
  destruct Ea as [x Ex]. fold (abs_of (d ++ [f])). rewrite Ex at 1.
  rewrite strip_trailing_last_not_slash by auto. rewrite <- Ex.
  rewrite split_path_canon by auto. cbn [snd].
  destruct f; [discriminate|reflexivity].
Qed.

(* ---------- Clean is idempotent (all paths) ---------- *)

(* shape of a relative clean: kept ".." components first, then good names *)
Definition rel_shape (out : list string) : Prop :=
  exists k good, out = repeat ".." k ++ good /\ canon_comps good = true.

Lemma repeat_snoc {A} (x : A) k : repeat x k ++ [x] = x :: repeat x k.
Proof. induction k; cbn; congruence. Qed.

Lemma clean_stack_rel_shape stk cs :
  rel_shape (rev stk) -> Forall (fun c => no_slash c = true) cs ->
  rel_shape (rev (clean_stack false stk cs)).
Proof.
  revert stk; induction cs as [|c cs IH]; intros stk Hs Hc; cbn; auto.
  inv Hc. destruct (is_skip c) eqn:Sk; auto.
  destruct (is_dotdot c) eqn:Dd.
  - apply String.eqb_eq in Dd; subst c.
    destruct stk as [|top stk'].
    + apply IH; auto. exists 1, []. split; reflexivity.
    + destruct (is_dotdot top) eqn:Dt.
      * apply String.eqb_eq in Dt; subst top. apply IH; auto.
        destruct Hs as (k & good & E & Hg). cbn [rev] in E.
        (* the top is "..": no good names yet *)
        destruct good as [|g good'] using rev_ind.
        -- rewrite app_nil_r in E. exists (S k), []. split; auto. cbn [rev].
           rewrite E, app_nil_r, repeat_snoc. reflexivity.
        -- clear IHgood'. rewrite app_assoc in E. apply app_inj_tail in E as [_ E]. subst g.
           rewrite canon_app in Hg. apply andb_true_iff in Hg as [_ Hg]. discriminate.
      * apply IH; auto.
        destruct Hs as (k & good & E & Hg). cbn [rev] in E.
        destruct good as [|g good'] using rev_ind.
        -- rewrite app_nil_r in E. destruct k; [destruct (rev stk'); discriminate|].
           cbn [repeat] in E. rewrite <- repeat_snoc in E. apply app_inj_tail in E as [_ E]. subst top. discriminate.
        -- clear IHgood'. rewrite app_assoc in E. apply app_inj_tail in E as [E _].
           exists k, good'. split; auto. rewrite canon_app in Hg. apply andb_true_iff in Hg as [Hg _]. auto.
  - apply IH; auto. destruct Hs as (k & good & E & Hg). cbn [rev]. rewrite E.
    exists k, (good ++ [c]). split; [rewrite app_assoc; reflexivity|].
    rewrite canon_app, Hg. cbn. unfold good_name. rewrite Sk, Dd, H1. reflexivity.
Qed.

Lemma clean_stack_dotdots k stk cs :
  (stk = [] \/ exists s, stk = ".." :: s) ->
  clean_stack false stk (repeat ".." k ++ cs) = clean_stack false (repeat ".." k ++ stk) cs.
Proof.
  revert stk; induction k as [|k IH]; intros stk Hs; [reflexivity|].
  assert (Hstep : clean_stack false stk (repeat ".." (S k) ++ cs) =
                  clean_stack false (".." :: stk) (repeat ".." k ++ cs)).
  { destruct Hs as [->|[s ->]]; reflexivity. }
  rewrite Hstep, IH by eauto.
  f_equal. change (repeat ".." (S k)) with (".." :: repeat ".." k).
  rewrite <- (repeat_snoc ".." k). rewrite <- app_assoc. reflexivity.
Qed.

Lemma rel_shape_no_slash out : rel_shape out -> Forall (fun c => no_slash c = true) out.
Proof.
  intros (k & good & -> & Hg). apply Forall_app; split.
  - apply Forall_forall. intros x Hx. apply repeat_spec in Hx. subst. reflexivity.
  - apply canon_no_slash; auto.
Qed.

Lemma rel_shape_first out :
  rel_shape out -> out <> [] -> exists a s, join_with sep out = String a s /\ Ascii.eqb a slash = false.
Proof.
  intros (k & good & -> & Hg) Hne. destruct k as [|k].
  - cbn in *. apply join_first; auto.
  - cbn [repeat app]. destruct (repeat ".." k ++ good); cbn; eauto.
Qed.

Lemma clean_rel_shape out :
  rel_shape out -> out <> [] -> clean (join_with sep out) = join_with sep out.
Proof.
  intros Hs Hne. destruct (rel_shape_first out Hs Hne) as (a & s & E & Ha).
  unfold clean. rewrite E. cbn [is_abs]. rewrite Ha. rewrite <- E.
  unfold raw_comps. rewrite split_join by (auto using rel_shape_no_slash).
  destruct Hs as (k & good & -> & Hg).
  rewrite clean_stack_dotdots by auto. rewrite app_nil_r.
  rewrite clean_stack_good by auto.
  assert (Er : rev (rev good ++ repeat ".." k) = repeat ".." k ++ good).
  { rewrite rev_app_distr, rev_involutive. f_equal.
    clear. induction k; cbn; auto. rewrite IHk. apply repeat_snoc. }
  rewrite Er. cbn [render]. destruct (repeat ".." k ++ good); [congruence|reflexivity].
Qed.

Theorem clean_idempotent p : clean (clean p) = clean p.
Proof.
  destruct (is_abs p) eqn:A; [apply clean_idem_abs; auto|].
  destruct p as [|a p']; [reflexivity|].
  pose (out := rev (clean_stack false [] (raw_comps (String a p')))).
  assert (Hc : clean (String a p') = match out with [] => "." | _ => join_with sep out end).
  { unfold clean. rewrite A. reflexivity. }
  assert (Hs : rel_shape out).
  { apply clean_stack_rel_shape; [exists 0, []; split; reflexivity|apply split_on_no_slash]. }
  rewrite Hc. destruct out as [|o out']; [reflexivity|].
  apply clean_rel_shape; auto. congruence.
Qed.
