(* Proofs about KV.Fs.DiskFs (kept out of the model file). *)
From KV Require Import Fs.Path Fs.PathProofs Fs.DiskFs.
From Coq Require Import ZifyNat Wf_nat.
Local Open Scope list_scope.

Ltac inv H := inversion H; subst; clear H.

(* ---------- the tree ---------- *)

Lemma wf_ddir_cons k x es :
  wf_dnode (DDir ((k, x) :: es)) = good_name k && wf_dnode x && wf_dnode (DDir es).
Proof. reflexivity. Qed.

Lemma d_lookup_wf name es x :
  wf_dnode (DDir es) = true -> d_lookup name es = Some x ->
  good_name name = true /\ wf_dnode x = true.
Proof.
  induction es as [|[k n] es IH]; intros Hw Hl; [discriminate|].
  rewrite wf_ddir_cons in Hw. apply andb_true_iff in Hw as [Hw Hes]. apply andb_true_iff in Hw as [Hk Hn].
  cbn in Hl. destruct (String.eqb k name) eqn:E.
  - apply String.eqb_eq in E; subst. inv Hl. auto.
  - apply IH; auto.
Qed.

Lemma d_at_wf n cs x :
  wf_dnode n = true -> d_at n cs = Some x -> canon_comps cs = true /\ wf_dnode x = true.
Proof.
  revert n; induction cs as [|c cs IH]; intros n Hw H; cbn in H.
  - inv H. auto.
  - destruct n as [|es|]; try discriminate.
    destruct (d_lookup c es) as [y|] eqn:L; [|discriminate].
    destruct (d_lookup_wf _ _ _ Hw L) as [Hc Hy].
    destruct (IH _ Hy H) as [Hcs Hx]. split; auto. rewrite canon_cons, Hc, Hcs. reflexivity.
Qed.

Lemma d_at_app n a b :
  d_at n (a ++ b) = match d_at n a with Some x => d_at x b | None => None end.
Proof.
  revert n; induction a as [|c a IH]; intros n; cbn; auto.
  destruct n as [|es|]; auto. destruct (d_lookup c es); auto.
Qed.

Lemma d_at_cons_dir x c rest y : d_at x (c :: rest) = Some y -> exists es, x = DDir es.
Proof. destruct x; cbn; try discriminate. eauto. Qed.

Definition is_dir_node (n : dnode) : Prop := exists es, n = DDir es.
Definition not_link (n : dnode) : Prop := forall t, n <> DLink t.

(* a prefix of a path that reaches a directory reaches a directory *)
Lemma d_at_removelast_dir root cur es :
  d_at root cur = Some (DDir es) -> exists es', d_at root (removelast cur) = Some (DDir es').
Proof.
  intros H. destruct cur as [|c cur'] eqn:E; [eauto|]. rewrite <- E in *.
  assert (Hne : cur <> []) by (subst; congruence).
  rewrite (app_removelast_last "" Hne) in H. rewrite d_at_app in H.
  destruct (d_at root (removelast cur)) as [x|]; [|discriminate].
  destruct (d_at_cons_dir _ _ _ _ H) as [es' ->]. eauto.
Qed.

Lemma rev_tl_removelast {A} (l : list A) : rev (tl l) = removelast (rev l).
Proof.
  destruct l as [|a l]; [reflexivity|]. cbn [tl rev].
  rewrite removelast_app by congruence. cbn. rewrite app_nil_r. reflexivity.
Qed.

(* ---------- equations of eval_links ---------- *)

Lemma eval_links_nil root b stk : eval_links root b stk [] = Ok (rev stk).
Proof. destruct b; reflexivity. Qed.

Lemma eval_links_cons root b stk c rest :
  eval_links root b stk (c :: rest) =
  if is_skip c then eval_links root b stk rest
  else if is_dotdot c then eval_links root b (tl stk) rest
  else
    match d_at root (rev (c :: stk)) with
    | None => Err
    | Some (DDir _) => eval_links root b (c :: stk) rest
    | Some (DFile _) => match rest with [] => Ok (rev (c :: stk)) | _ :: _ => Err end
    | Some (DLink t) =>
        match b with
        | O => Err
        | S b' => eval_links root b' (if is_abs t then [] else stk) (raw_comps t ++ rest)
        end
    end.
Proof. destruct b; reflexivity. Qed.

(* ---------- eval_links against the declarative resolution ---------- *)

Lemma eval_links_sound root b :
  forall todo stk r,
    eval_links root b stk todo = Ok r -> exists k, k <= b /\ resolves root k (rev stk) todo r.
Proof.
  induction b as [b IHb] using lt_wf_ind.
  induction todo as [|c rest IHt]; intros stk r H.
  - rewrite eval_links_nil in H. inv H. exists 0. split; [lia|constructor].
  - rewrite eval_links_cons in H.
    destruct (is_skip c) eqn:Sk.
    { destruct (IHt _ _ H) as (k & Hk & R). exists k. split; auto. apply R_skip; auto. }
    destruct (is_dotdot c) eqn:Dd.
    { destruct (IHt _ _ H) as (k & Hk & R). exists k. split; auto.
      apply R_up; auto. rewrite <- rev_tl_removelast. auto. }
    change (rev (c :: stk)) with (rev stk ++ [c]) in H.
    destruct (d_at root (rev stk ++ [c])) as [[content|es|t]|] eqn:A; try discriminate.
    + destruct rest; [|discriminate]. inv H. exists 0. split; [lia|].
      eapply R_file; eauto.
    + destruct (IHt _ _ H) as (k & Hk & R). exists k. split; auto.
      eapply R_dir; eauto.
    + destruct b as [|b']; [discriminate|].
      destruct (IHb b' (Nat.lt_succ_diag_r b') _ _ _ H) as (k & Hk & R).
      exists (S k). split; [lia|]. eapply R_link; eauto.
      destruct (is_abs t); auto.
Qed.

Lemma eval_links_complete root k cur todo r :
  resolves root k cur todo r -> forall b, k <= b -> eval_links root b (rev cur) todo = Ok r.
Proof.
  induction 1; intros b Hb.
  - rewrite eval_links_nil, rev_involutive. reflexivity.
  - rewrite eval_links_cons, H. auto.
  - rewrite eval_links_cons, H, H0. rewrite <- (rev_involutive (tl (rev cur))).
    rewrite rev_tl_removelast, rev_involutive. auto.
  - rewrite eval_links_cons, H, H0. change (rev (c :: rev cur)) with (rev (rev cur) ++ [c]).
    rewrite rev_involutive, H1. specialize (IHresolves b Hb). rewrite rev_app_distr in IHresolves. auto.
  - rewrite eval_links_cons, H, H0. change (rev (c :: rev cur)) with (rev (rev cur) ++ [c]).
    rewrite rev_involutive, H1. reflexivity.
  - rewrite eval_links_cons, H, H0. change (rev (c :: rev cur)) with (rev (rev cur) ++ [c]).
    rewrite rev_involutive, H1. destruct b as [|b']; [lia|].
    specialize (IHresolves b' ltac:(lia)). destruct (is_abs t); auto.
Qed.

(* resolution is a function of the tree, the start and the path *)
Lemma resolves_deterministic root k k' cur todo r r' :
  resolves root k cur todo r -> resolves root k' cur todo r' -> r = r'.
Proof.
  intros H H'.
  pose proof (eval_links_complete _ _ _ _ _ H (Nat.max k k') (Nat.le_max_l _ _)) as E.
  pose proof (eval_links_complete _ _ _ _ _ H' (Nat.max k k') (Nat.le_max_r _ _)) as E'.
  congruence.
Qed.

(* what a resolution ends at: an existing file or directory *)
Lemma resolves_lands root k cur todo r :
  is_dir_node root ->
  resolves root k cur todo r ->
  (exists es, d_at root cur = Some (DDir es)) ->
  exists n, d_at root r = Some n /\ not_link n.
Proof.
  intros Hroot. induction 1; intros Hcur; auto.
  - destruct Hcur as [es E]. exists (DDir es). split; auto. intros t; congruence.
  - apply IHresolves. destruct Hcur as [es E]. eapply d_at_removelast_dir; eauto.
  - apply IHresolves. eauto.
  - exists (DFile content). split; auto. intros t; congruence.
  - apply IHresolves. destruct (is_abs t); auto. destruct Hroot as [es ->]. exists es. reflexivity.
Qed.

(* resolving a physical location is the identity *)
Lemma eval_links_phys root b rest :
  forall stk n,
    canon_comps rest = true ->
    d_at root (rev stk ++ rest) = Some n -> not_link n ->
    eval_links root b stk rest = Ok (rev stk ++ rest).
Proof.
  induction rest as [|c rest IH]; intros stk n Hc Ha Hn.
  - rewrite eval_links_nil, app_nil_r. reflexivity.
  - rewrite canon_cons in Hc. apply andb_true_iff in Hc as [Hgc Hcr].
    rewrite eval_links_cons, (good_name_not_skip _ Hgc), (good_name_not_dotdot _ Hgc).
    change (rev (c :: stk)) with (rev stk ++ [c]).
    assert (E : rev stk ++ c :: rest = (rev stk ++ [c]) ++ rest) by (rewrite <- app_assoc; reflexivity).
    rewrite E in Ha. rewrite d_at_app in Ha.
    destruct (d_at root (rev stk ++ [c])) as [y|] eqn:A; [|discriminate].
    destruct rest as [|c' rest'].
    + cbn in Ha. inv Ha. destruct n as [content|es|t].
      * rewrite E, app_nil_r. reflexivity.
      * rewrite eval_links_nil. reflexivity.
      * exfalso. eapply Hn; eauto.
    + destruct (d_at_cons_dir _ _ _ _ Ha) as [es ->].
      rewrite (IH (c :: stk) n); auto.
      * cbn [rev]. rewrite <- app_assoc. reflexivity.
      * cbn [rev]. rewrite d_at_app, A. auto.
Qed.

Lemma eval_links_abs_of_phys root b phys n :
  canon_comps phys = true -> d_at root phys = Some n -> not_link n ->
  eval_links root b [] (raw_comps (abs_of phys)) = Ok phys.
Proof.
  intros Hc Ha Hn. destruct phys as [|c ph] eqn:E.
  - cbn. rewrite !eval_links_cons. cbn. apply eval_links_nil.
  - rewrite <- E in *. rewrite raw_comps_abs_of by (auto; subst; congruence).
    rewrite eval_links_cons. cbn [is_skip String.eqb orb].
    erewrite eval_links_phys; eauto.
Qed.

(* eval_links only succeeds or fails: no crash, and the explicit fuel shows up as the ELOOP error *)
Lemma eval_links_ok_or_err root b :
  forall todo stk, (exists r, eval_links root b stk todo = Ok r) \/ eval_links root b stk todo = Err.
Proof.
  induction b as [b IHb] using lt_wf_ind.
  induction todo as [|c rest IHt]; intros stk.
  - rewrite eval_links_nil. eauto.
  - rewrite eval_links_cons.
    destruct (is_skip c); auto. destruct (is_dotdot c); auto.
    destruct (d_at root (rev (c :: stk))) as [[content|es|t]|]; auto.
    + destruct rest; eauto.
    + destruct b as [|b']; auto.
Qed.

(* ---------- file contents do not influence path resolution ---------- *)

Lemma same_shape_ddir_cons k x es k' x' es' :
  d_same_shape (DDir ((k, x) :: es)) (DDir ((k', x') :: es')) =
  String.eqb k k' && d_same_shape x x' && d_same_shape (DDir es) (DDir es').
Proof. reflexivity. Qed.

Lemma d_lookup_shape name es es' :
  d_same_shape (DDir es) (DDir es') = true ->
  match d_lookup name es, d_lookup name es' with
  | Some x, Some x' => d_same_shape x x' = true
  | None, None => True
  | _, _ => False
  end.
Proof.
  revert es'; induction es as [|[k x] es IH]; intros [|[k' x'] es'] H; try discriminate; cbn; auto.
  rewrite same_shape_ddir_cons in H. apply andb_true_iff in H as [H Hes]. apply andb_true_iff in H as [Hk Hx].
  apply String.eqb_eq in Hk; subst k'. destruct (String.eqb k name); auto.
  apply IH; auto.
Qed.

Lemma d_at_shape cs : forall n n',
  d_same_shape n n' = true ->
  match d_at n cs, d_at n' cs with
  | Some x, Some x' => d_same_shape x x' = true
  | None, None => True
  | _, _ => False
  end.
Proof.
  induction cs as [|c cs IH]; intros n n' H; cbn; auto.
  destruct n as [|es|t], n' as [|es'|t']; try discriminate; auto.
  pose proof (d_lookup_shape c es es' H) as L.
  destruct (d_lookup c es), (d_lookup c es'); try contradiction; auto.
  apply IH; auto.
Qed.

Lemma eval_links_shape root root' b :
  d_same_shape root root' = true ->
  forall todo stk, eval_links root b stk todo = eval_links root' b stk todo.
Proof.
  intros Hs. induction b as [b IHb] using lt_wf_ind.
  induction todo as [|c rest IHt]; intros stk.
  - rewrite !eval_links_nil. reflexivity.
  - rewrite !eval_links_cons.
    destruct (is_skip c); auto. destruct (is_dotdot c); auto.
    pose proof (d_at_shape (rev (c :: stk)) root root' Hs) as A.
    destruct (d_at root (rev (c :: stk))) as [[x|es|t]|], (d_at root' (rev (c :: stk))) as [[x'|es'|t']|];
      try contradiction; try discriminate; auto.
    cbn in A. apply String.eqb_eq in A; subst t'.
    destruct b as [|b']; auto.
Qed.

Lemma d_at_in_dirs cs : forall n es, d_at n cs = Some (DDir es) -> In cs (d_dirs n).
Proof.
  induction cs as [|c cs IH]; intros n es H.
  - cbn in H. inv H. cbn. auto.
  - destruct n as [|es0|]; try discriminate. cbn [d_at] in H. cbn [d_dirs]. right.
    induction es0 as [|[k x] t IHt]; [discriminate|].
    cbn [d_lookup] in H. destruct (String.eqb k c) eqn:E.
    + apply String.eqb_eq in E; subst k. apply in_or_app. left.
      apply in_map. eapply IH; eauto.
    + apply in_or_app. right. apply IHt. exact H.
Qed.
