(* Proofs about KV.Fs.MemFs (kept out of the model file). *)
From KV Require Import Fs.Path Fs.PathProofs Fs.MemFs.
Local Open Scope list_scope.

Ltac inv H := inversion H; subst; clear H.

Lemma wf_mdir_cons k x es :
  wf_mnode (MDir ((k, x) :: es)) = good_name k && wf_mnode x && wf_mnode (MDir es).
Proof. reflexivity. Qed.

Lemma m_lookup_wf name es x :
  wf_mnode (MDir es) = true -> m_lookup name es = Some x ->
  good_name name = true /\ wf_mnode x = true.
Proof.
  induction es as [|[k n] es IH]; intros Hw Hl; [discriminate|].
  rewrite wf_mdir_cons in Hw. apply andb_true_iff in Hw as [Hw Hes]. apply andb_true_iff in Hw as [Hk Hn].
  cbn in Hl. destruct (String.eqb k name) eqn:E.
  - apply String.eqb_eq in E; subst. inv Hl. auto.
  - apply IH; auto.
Qed.

Lemma m_walk_at n cs x : m_walk n cs = Ok (Some x) -> m_at n cs = Some x.
Proof.
  revert n; induction cs as [|c cs IH]; intros n H; cbn in *.
  - inv H; reflexivity.
  - destruct n as [|es]; [discriminate|]. destruct (m_lookup c es); [auto|discriminate].
Qed.

Lemma m_at_walk n cs x : m_at n cs = Some x -> m_walk n cs = Ok (Some x).
Proof.
  revert n; induction cs as [|c cs IH]; intros n H; cbn in *.
  - inv H; reflexivity.
  - destruct n as [|es]; [discriminate|]. destruct (m_lookup c es); [auto|discriminate].
Qed.

Lemma m_at_wf n cs x :
  wf_mnode n = true -> m_at n cs = Some x -> canon_comps cs = true /\ wf_mnode x = true.
Proof.
  revert n; induction cs as [|c cs IH]; intros n Hw H; cbn in H.
  - inv H. auto.
  - destruct n as [|es]; [discriminate|].
    destruct (m_lookup c es) as [y|] eqn:L; [|discriminate].
    destruct (m_lookup_wf _ _ _ Hw L) as [Hc Hy].
    destruct (IH _ Hy H) as [Hcs Hx]. split; auto. rewrite canon_cons, Hc, Hcs. reflexivity.
Qed.

Lemma m_at_app n a b x y :
  m_at n a = Some x -> m_at x b = Some y -> m_at n (a ++ b) = Some y.
Proof.
  revert n; induction a as [|c a IH]; intros n Ha Hb; cbn in *.
  - inv Ha. auto.
  - destruct n as [|es]; [discriminate|]. destruct (m_lookup c es); [eauto|discriminate].
Qed.

(* a successful Find of a file: the node sits at the returned component list, which is canonical *)
Lemma m_find_some root p cs n :
  wf_mnode root = true -> m_find root p = Ok (Some (cs, n)) ->
  m_at root cs = Some n /\ canon_comps cs = true.
Proof.
  intros Hw H. unfold m_find in H.
  destruct (m_is_dir root) eqn:D; cbn [negb] in H; [|discriminate].
  destruct (String.eqb p ""); [discriminate|].
  destruct (String.eqb p sep || String.eqb p ".").
  - inv H. split; reflexivity.
  - destruct (m_walk root (raw_comps (clean_query p))) as [[x|]| | |] eqn:W; try discriminate.
    inv H. apply m_walk_at in W. split; auto. eapply m_at_wf; eauto.
Qed.

Lemma abs_of_not_sep cs : canon_comps cs = true -> cs <> [] -> String.eqb (abs_of cs) sep = false.
Proof.
  intros H Hne. apply String.eqb_neq. intros E. change sep with (abs_of []) in E.
  apply abs_of_inj in E; auto.
Qed.

(* finding a canonical absolute path walks exactly its components *)
Lemma m_find_abs_of root cs n :
  m_is_dir root = true -> canon_comps cs = true -> cs <> [] -> m_at root cs = Some n ->
  m_find root (abs_of cs) = Ok (Some (cs, n)).
Proof.
  intros D Hc Hne Ha. unfold m_find. rewrite D. cbn [negb].
  change (String.eqb (abs_of cs) "") with false. cbn match.
  rewrite abs_of_not_sep by auto.
  change (String.eqb (abs_of cs) ".") with false. cbn [orb].
  unfold clean_query. rewrite strip_leading_abs_of, clean_rel_canon by auto.
  unfold raw_comps. rewrite split_join by (auto using canon_no_slash).
  rewrite (m_at_walk _ _ _ Ha). reflexivity.
Qed.

Lemma removelast_last_canon cs :
  canon_comps cs = true -> cs <> [] ->
  canon_comps (removelast cs) = true /\ good_name (last cs "") = true.
Proof.
  intros H Hne. rewrite (app_removelast_last "" Hne) in H at 1.
  rewrite canon_app in H. apply andb_true_iff in H as [H1 H2]. split; auto.
  cbn in H2. rewrite andb_true_r in H2. auto.
Qed.

Lemma m_find_ok_dir root p x : m_find root p = Ok x -> m_is_dir root = true.
Proof. unfold m_find. destruct (m_is_dir root); auto. discriminate. Qed.

Lemma m_find_file_nonempty root p cs c :
  m_find root p = Ok (Some (cs, MFile c)) -> wf_mnode root = true -> cs <> [].
Proof.
  intros H Hw Hcs. subst. pose proof (m_find_ok_dir _ _ _ H) as D.
  destruct (m_find_some _ _ _ _ Hw H) as [Ha _]. cbn in Ha. inv Ha. discriminate.
Qed.

(* every directory reachable by a name list is in the enumeration *)
Lemma m_at_in_dirs cs : forall n es, m_at n cs = Some (MDir es) -> In cs (m_dirs n).
Proof.
  induction cs as [|c cs IH]; intros n es H.
  - cbn in H. inv H. cbn. auto.
  - destruct n as [|es0]; [discriminate|]. cbn [m_at] in H. cbn [m_dirs]. right.
    induction es0 as [|[k x] t IHt]; [discriminate|].
    cbn [m_lookup] in H. destruct (String.eqb k c) eqn:E.
    + apply String.eqb_eq in E; subst k. apply in_or_app. left.
      apply in_map. eapply IH; eauto.
    + apply in_or_app. right. apply IHt. exact H.
Qed.
