(* Lemmas about the lexical path helpers of Fs/LocPath.v (used by the C18 proofs). *)
From KV Require Import Fs.LocPath.
From Coq Require Import Lia.

Local Open Scope list_scope.

(* a component a cleaned path is made of: not "", ".", "..", and without a separator inside *)
Definition good_comp (c : string) : bool :=
  normal_comp c && negb (str_contains_char slash c).
Definition good_path (p : cpath) : bool := forallb good_comp p.

Lemma good_comp_normal c : good_comp c = true -> normal_comp c = true.
Proof. unfold good_comp; intros H; apply andb_prop in H; tauto. Qed.

Lemma good_path_app a b : good_path (a ++ b) = good_path a && good_path b.
Proof. unfold good_path; apply forallb_app. Qed.

Lemma good_path_rev a : good_path (rev a) = good_path a.
Proof.
  induction a as [|x a IH]; cbn; auto.
  rewrite good_path_app, IH; cbn. rewrite andb_true_r, andb_comm. reflexivity.
Qed.

(* ---------- is_prefix ---------- *)

Lemma cpath_eqb_refl a : cpath_eqb a a = true.
Proof. induction a; cbn; auto. rewrite String.eqb_refl; auto. Qed.

Lemma cpath_eqb_eq a b : cpath_eqb a b = true <-> a = b.
Proof.
  split.
  - revert b; induction a as [|x a IH]; destruct b as [|y b]; cbn; intros H; try discriminate; auto.
    apply andb_prop in H; destruct H as [H1 H2]. apply String.eqb_eq in H1; subst.
    f_equal; auto.
  - intros ->; apply cpath_eqb_refl.
Qed.

Lemma is_prefix_app p r : is_prefix p (p ++ r) = true.
Proof. induction p; cbn; auto. rewrite String.eqb_refl; auto. Qed.

Lemma is_prefix_refl p : is_prefix p p = true.
Proof. rewrite <- (app_nil_r p) at 2. apply is_prefix_app. Qed.

Lemma is_prefix_inv p d : is_prefix p d = true -> exists r, d = p ++ r.
Proof.
  revert d; induction p as [|x p IH]; intros d H; cbn in H.
  - exists d; reflexivity.
  - destruct d as [|y d]; [discriminate|].
    apply andb_prop in H; destruct H as [H1 H2]. apply String.eqb_eq in H1; subst.
    destruct (IH _ H2) as [r ->]. exists r; reflexivity.
Qed.

Lemma is_prefix_trans a b c : is_prefix a b = true -> is_prefix b c = true -> is_prefix a c = true.
Proof.
  intros H1 H2. destruct (is_prefix_inv _ _ H1) as [r ->]. destruct (is_prefix_inv _ _ H2) as [r' ->].
  rewrite <- app_assoc. apply is_prefix_app.
Qed.

Lemma is_prefix_app_r p a b : is_prefix p a = true -> is_prefix p (a ++ b) = true.
Proof. intros H. eapply is_prefix_trans; eauto. apply is_prefix_app. Qed.

(* prefixes of a common path are comparable *)
Lemma is_prefix_comparable a b q :
  is_prefix a q = true -> is_prefix b q = true -> is_prefix a b = true \/ is_prefix b a = true.
Proof.
  revert b q; induction a as [|x a IH]; intros b q Ha Hb; cbn; auto.
  destruct b as [|y b]; cbn; auto.
  destruct q as [|z q]; cbn in *; try discriminate.
  apply andb_prop in Ha; destruct Ha as [Ha1 Ha2]. apply andb_prop in Hb; destruct Hb as [Hb1 Hb2].
  apply String.eqb_eq in Ha1, Hb1; subst. rewrite String.eqb_refl; cbn. eauto.
Qed.

Lemma is_prefix_length a b : is_prefix a b = true -> List.length a <= List.length b.
Proof. intros H. destruct (is_prefix_inv _ _ H) as [r ->]. rewrite app_length; lia. Qed.

Lemma is_prefix_antisym a b : is_prefix a b = true -> is_prefix b a = true -> a = b.
Proof.
  intros H1 H2. destruct (is_prefix_inv _ _ H1) as [r ->].
  apply is_prefix_length in H2. rewrite app_length in H2.
  destruct r; [rewrite app_nil_r; auto | cbn in H2; lia].
Qed.

(* ---------- strip_common / rel_comps ---------- *)

Lemma strip_common_app s a b : strip_common (s ++ a) (s ++ b) = strip_common a b.
Proof. induction s; cbn; auto. rewrite String.eqb_refl; auto. Qed.

Lemma rel_comps_below s r : rel_comps s (s ++ r) = r.
Proof.
  unfold rel_comps. rewrite <- (app_nil_r s) at 1. rewrite strip_common_app.
  destruct r; reflexivity.
Qed.

Lemma strip_common_spec a b :
  exists c a' b', a = c ++ a' /\ b = c ++ b' /\ strip_common a b = (a', b').
Proof.
  revert b; induction a as [|x a IH]; intros b.
  - exists [], [], b; auto.
  - destruct b as [|y b].
    + exists [], (x :: a), []; auto.
    + cbn. destruct (String.eqb x y) eqn:E.
      * apply String.eqb_eq in E; subst. destruct (IH b) as (c & a' & b' & -> & -> & H).
        exists (y :: c), a', b'; auto.
      * exists [], (x :: a), (y :: b); auto.
Qed.

(* ---------- clean_rev ---------- *)

Lemma clean_step_normal abs acc c : normal_comp c = true -> clean_step abs acc c = c :: acc.
Proof.
  unfold normal_comp, clean_step. intros H.
  destruct (String.eqb c ""); [discriminate|]. destruct (String.eqb c "."); [discriminate|].
  destruct (String.eqb c ".."); [discriminate|]. reflexivity.
Qed.

Lemma clean_rev_normal abs l : forall acc, forallb normal_comp l = true -> clean_rev abs acc l = rev l ++ acc.
Proof.
  unfold clean_rev. induction l as [|c l IH]; intros acc H; cbn in *; auto.
  apply andb_prop in H; destruct H as [H1 H2].
  rewrite clean_step_normal by auto. rewrite IH by auto. rewrite <- app_assoc. reflexivity.
Qed.

Lemma good_path_normal p : good_path p = true -> forallb normal_comp p = true.
Proof.
  unfold good_path. induction p; cbn; auto. intros H; apply andb_prop in H; destruct H as [H1 H2].
  rewrite (good_comp_normal _ H1); auto.
Qed.

Lemma clean_rev_app abs acc a b : clean_rev abs acc (a ++ b) = clean_rev abs (clean_rev abs acc a) b.
Proof. unfold clean_rev. apply fold_left_app. Qed.

(* pops: each ".." removes the head when the head is a normal component *)
Lemma clean_rev_ups_gen abs : forall (n : nat) (top acc : list string),
  List.length top = n -> forallb normal_comp top = true ->
  clean_rev abs (top ++ acc) (repeat ".." n) = acc.
Proof.
  induction n as [|n IH]; intros top acc HL HN.
  - destruct top; [reflexivity | discriminate].
  - destruct top as [|h top]; [discriminate|]. cbn in HL. injection HL as HL.
    cbn in HN. apply andb_prop in HN; destruct HN as [Hh HN].
    cbn [repeat]. unfold clean_rev; cbn [fold_left app].
    unfold clean_step at 2. cbn [String.eqb].
    replace (String.eqb ".." "") with false by reflexivity.
    replace (String.eqb ".." ".") with false by reflexivity.
    replace (String.eqb ".." "..") with true by reflexivity.
    assert (Eh : String.eqb h ".." = false).
    { unfold normal_comp in Hh. destruct (String.eqb h ".."); auto.
      rewrite !andb_false_r in Hh; discriminate. }
    rewrite Eh. apply (IH top acc HL HN).
Qed.

Lemma map_dotdot_repeat (a : list string) : List.map (fun _ => "..") a = repeat ".." (List.length a).
Proof. induction a; cbn; auto. f_equal; auto. Qed.

(* filepath.Join(n/a, Rel(s/a, s/b)) = n/b *)
Lemma join_rel_mirror n s a b :
  forallb normal_comp a = true -> forallb normal_comp b = true ->
  join_comps (n ++ a) (rel_comps (s ++ a) (s ++ b)) = n ++ b.
Proof.
  intros Ha Hb. unfold join_comps, rel_comps.
  rewrite strip_common_app.
  destruct (strip_common_spec a b) as (c & a' & b' & -> & -> & E). rewrite E.
  rewrite forallb_app in Ha, Hb. apply andb_prop in Ha, Hb. destruct Ha as [Hc Ha'], Hb as [_ Hb'].
  rewrite clean_rev_app. rewrite map_dotdot_repeat.
  rewrite !rev_app_distr. rewrite <- app_assoc.
  rewrite (clean_rev_ups_gen true (List.length a') (rev a')).
  - rewrite clean_rev_normal by auto. rewrite rev_app_distr, rev_involutive.
    rewrite <- rev_app_distr. rewrite rev_involutive. rewrite app_assoc. reflexivity.
  - apply rev_length.
  - rewrite forallb_forall in *. intros x Hx. apply Ha'. apply in_rev; auto.
Qed.

Lemma join_comps_normal d r : forallb normal_comp r = true -> join_comps d r = d ++ r.
Proof.
  intros H. unfold join_comps. rewrite clean_rev_normal by auto.
  rewrite rev_app_distr, !rev_involutive. reflexivity.
Qed.

(* ---------- split / join round trip ---------- *)

Lemma split_on_noslash s : str_contains_char slash s = false -> split_on slash s = [s].
Proof.
  induction s as [|a s IH]; cbn; auto. intros H.
  apply orb_false_iff in H; destruct H as [H1 H2]. rewrite IH by auto. rewrite H1. reflexivity.
Qed.

Lemma split_on_cons_slash s : split_on slash (String slash s) = "" :: split_on slash s.
Proof.
  cbn. destruct (split_on slash s) eqn:E.
  - destruct s; cbn in E; try discriminate. destruct (split_on slash s); destruct (Ascii.eqb a slash); discriminate.
  - reflexivity.
Qed.

Lemma split_on_app_slash (x t : string) :
  str_contains_char slash x = false ->
  split_on slash (x ++ String slash t)%string = x :: split_on slash t.
Proof.
  induction x as [|a x IH]; intros H.
  - cbn [String.append]. rewrite split_on_cons_slash. reflexivity.
  - cbn in H. apply orb_false_iff in H; destruct H as [H1 H2].
    cbn [String.append]. cbn [split_on]. rewrite IH by auto. rewrite H1. reflexivity.
Qed.

Lemma split_join (l : list string) :
  l <> [] -> forallb (fun c => negb (str_contains_char slash c)) l = true ->
  split_on slash (join_with "/" l) = l.
Proof.
  induction l as [|x l IH]; intros Hne H; [congruence|].
  cbn in H. apply andb_prop in H; destruct H as [Hx Hl]. apply negb_true_iff in Hx.
  destruct l as [|y l].
  - cbn. apply split_on_noslash; auto.
  - assert (E : join_with "/" (x :: y :: l) = (x ++ String slash (join_with "/" (y :: l)))%string) by reflexivity.
    rewrite E. rewrite split_on_app_slash by auto. rewrite IH; auto. discriminate.
Qed.

Lemma good_comp_noslash c : good_comp c = true -> str_contains_char slash c = false.
Proof. unfold good_comp. intros H; apply andb_prop in H; destruct H as [_ H]. apply negb_true_iff in H; auto. Qed.

Lemma good_path_noslash p : good_path p = true -> forallb (fun c => negb (str_contains_char slash c)) p = true.
Proof.
  unfold good_path. induction p; cbn; auto. intros H; apply andb_prop in H; destruct H as [H1 H2].
  rewrite (good_comp_noslash _ H1); cbn; auto.
Qed.

Lemma strip_leading_noslash_head (x : string) t :
  good_comp x = true -> strip_leading_seps (x ++ t)%string = (x ++ t)%string.
Proof.
  intros H. destruct x as [|a x].
  - discriminate.
  - cbn. pose proof (good_comp_noslash _ H) as N. cbn in N. apply orb_false_iff in N; destruct N as [N _].
    rewrite N. reflexivity.
Qed.

Lemma join_with_head (x : string) l : exists t, join_with "/" (x :: l) = (x ++ t)%string.
Proof.
  destruct l; cbn.
  - exists ""%string. induction x; cbn; congruence.
  - eexists; reflexivity.
Qed.

(* what the in-memory file system makes of the printed form of a cleaned absolute path *)
Lemma query_show q : good_path q = true -> query_comps (show_abs q) = q.
Proof.
  intros H. unfold query_comps, show_abs.
  destruct q as [|x q].
  - reflexivity.
  - change ("/" ++ join_with "/" (x :: q))%string with (String slash (join_with "/" (x :: q))).
    cbn [strip_leading_seps]. rewrite Ascii.eqb_refl.
    destruct (join_with_head x q) as [t Et]. rewrite Et.
    cbn in H. apply andb_prop in H; destruct H as [Hx Hq].
    rewrite strip_leading_noslash_head by auto. rewrite <- Et.
    unfold split_path. rewrite split_join.
    + unfold clean_comps. rewrite clean_rev_normal.
      * rewrite app_nil_r, rev_involutive; reflexivity.
      * apply good_path_normal. cbn. rewrite Hx; auto.
    + discriminate.
    + apply good_path_noslash. cbn. rewrite Hx; auto.
Qed.

(* ---------- components produced by cleaning ---------- *)

Lemma split_on_noslash_all s : forallb (fun c => negb (str_contains_char slash c)) (split_on slash s) = true.
Proof.
  induction s as [|a s IH]; cbn; auto.
  destruct (split_on slash s) as [|h t] eqn:E; cbn; auto.
  cbn in IH. apply andb_prop in IH; destruct IH as [Hh Ht].
  destruct (Ascii.eqb a slash) eqn:Ea; cbn.
  - rewrite Hh, Ht; auto.
  - rewrite Ea. cbn. rewrite Hh, Ht. auto.
Qed.

(* absolute cleaning only ever keeps good components (given slash-free input components) *)
Lemma clean_step_good acc c :
  good_path acc = true -> str_contains_char slash c = false -> good_path (clean_step true acc c) = true.
Proof.
  intros Ha Hc. unfold clean_step.
  destruct (String.eqb c "") eqn:E1; auto. destruct (String.eqb c ".") eqn:E2; auto.
  destruct (String.eqb c "..") eqn:E3.
  - destruct acc as [|h t]; auto. destruct (String.eqb h "..") eqn:E4.
    + cbn in Ha. apply andb_prop in Ha; destruct Ha as [Hh _].
      unfold good_comp, normal_comp in Hh. rewrite E4 in Hh. rewrite !andb_false_r in Hh. discriminate.
    + cbn in Ha. apply andb_prop in Ha; tauto.
  - change (good_comp c && good_path acc = true). rewrite Ha.
    unfold good_comp, normal_comp. rewrite E1, E2, E3, Hc. reflexivity.
Qed.

Lemma clean_rev_good l : forall acc,
  good_path acc = true -> forallb (fun c => negb (str_contains_char slash c)) l = true ->
  good_path (clean_rev true acc l) = true.
Proof.
  unfold clean_rev. induction l as [|c l IH]; intros acc Ha Hl; cbn; auto.
  cbn in Hl. apply andb_prop in Hl; destruct Hl as [Hc Hl]. apply negb_true_iff in Hc.
  apply IH; auto. apply clean_step_good; auto.
Qed.

Lemma join_abs_good d p : good_path d = true -> good_path (join_abs d p) = true.
Proof.
  intros H. unfold join_abs. rewrite good_path_rev. apply clean_rev_good.
  - rewrite good_path_rev; auto.
  - apply split_on_noslash_all.
Qed.

Lemma join_abs_empty d : join_abs d "" = d.
Proof. unfold join_abs. cbn. apply rev_involutive. Qed.

Lemma join_abs_name d f : good_comp f = true -> join_abs d f = d ++ [f].
Proof.
  intros H. unfold join_abs, split_path. rewrite split_on_noslash by (apply good_comp_noslash; auto).
  rewrite clean_rev_normal by (cbn; rewrite (good_comp_normal _ H); auto).
  cbn. rewrite rev_involutive. reflexivity.
Qed.

(* relative cleaning: no "" or "." components, and no separator inside *)
Definition semi_comp (c : string) : bool :=
  negb (String.eqb c "") && negb (String.eqb c ".") && negb (str_contains_char slash c).

Lemma clean_step_semi abs acc c :
  forallb semi_comp acc = true -> str_contains_char slash c = false ->
  forallb semi_comp (clean_step abs acc c) = true.
Proof.
  intros Ha Hc. unfold clean_step.
  destruct (String.eqb c "") eqn:E1; auto. destruct (String.eqb c ".") eqn:E2; auto.
  destruct (String.eqb c "..") eqn:E3.
  - apply String.eqb_eq in E3; subst.
    destruct acc as [|h t].
    + destruct abs; reflexivity.
    + destruct (String.eqb h "..").
      * change (semi_comp ".." && forallb semi_comp (h :: t) = true). rewrite Ha. reflexivity.
      * cbn in Ha. apply andb_prop in Ha; tauto.
  - change (semi_comp c && forallb semi_comp acc = true). rewrite Ha.
    unfold semi_comp. rewrite E1, E2, Hc. reflexivity.
Qed.

Lemma clean_rev_semi abs l : forall acc,
  forallb semi_comp acc = true -> forallb (fun c => negb (str_contains_char slash c)) l = true ->
  forallb semi_comp (clean_rev abs acc l) = true.
Proof.
  unfold clean_rev. induction l as [|c l IH]; intros acc Ha Hl; cbn; auto.
  cbn in Hl. apply andb_prop in Hl; destruct Hl as [Hc Hl]. apply negb_true_iff in Hc.
  apply IH; auto. apply clean_step_semi; auto.
Qed.

Lemma query_comps_semi p : forallb semi_comp (query_comps p) = true.
Proof.
  unfold query_comps, clean_comps.
  assert (H : forallb semi_comp (clean_rev false [] (split_path (strip_leading_seps p))) = true).
  { apply clean_rev_semi; auto. apply split_on_noslash_all. }
  rewrite forallb_forall in *. intros x Hx. apply H. apply in_rev; auto.
Qed.

Lemma legal_char_not_slash c : legal_char c = true -> Ascii.eqb c slash = false.
Proof.
  intros H. destruct (Ascii.eqb c slash) eqn:E; auto.
  apply Ascii.eqb_eq in E; subst. vm_compute in H. discriminate.
Qed.

Lemma all_legal_noslash s : all_legal s = true -> str_contains_char slash s = false.
Proof.
  induction s as [|a s IH]; cbn; auto. intros H. apply andb_prop in H; destruct H as [H1 H2].
  rewrite (legal_char_not_slash _ H1), IH; auto.
Qed.

Lemma legal_name_good x : legal_name x = true -> good_comp x = true.
Proof.
  unfold legal_name, good_comp, normal_comp. intros H.
  apply andb_prop in H; destruct H as [H H4]. apply andb_prop in H; destruct H as [H H3].
  apply andb_prop in H; destruct H as [H1 H2].
  rewrite H1, H2, (all_legal_noslash _ H3). cbn.
  destruct (String.eqb x "..") eqn:E; auto.
  apply String.eqb_eq in E; subst. vm_compute in H4. discriminate.
Qed.
