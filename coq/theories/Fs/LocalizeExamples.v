(* C18 — concrete witnesses: the faithful model violates all-or-nothing (process exit / panic), and the
   hypotheses of the proved theorems are satisfiable (non-vacuity).
   The tree is corpus/C18/two-roots.json (the correspondence check runs it first, for every fault
   index, so model and implementation are known to agree on exactly these runs). *)
From KV Require Import Fs.LocPath Fs.LocPathProofs Fs.Localize Fs.LocalizeProofs.

Local Open Scope list_scope.

Definition ex_k_target : kust :=
  mkKust None [] [] [] [] ["dep.yaml"; "../base"]
         [mkGen "" ["e.env"] ["k=data.txt"]] [] [] [] None ["sub/../p.yaml"] [] [] [] [] [] [].

Definition ex_k_base : kust :=
  mkKust None [] [] [] [] ["cm.yaml"] [] [] [] [] None [] [] [] [] [] [] [].

Definition ex_fs : fs :=
  [ (["s"], EDir);
    (["s"; "base"], EDir);
    (["s"; "base"; "cm.yaml"], EFile (CRaw 1));
    (["s"; "base"; "kustomization.yaml"], EFile (CRaw 2));
    (["s"; "t"], EDir);
    (["s"; "t"; "data.txt"], EFile (CRaw 3));
    (["s"; "t"; "dep.yaml"], EFile (CRaw 4));
    (["s"; "t"; "e.env"], EFile (CRaw 5));
    (["s"; "t"; "kustomization.yaml"], EFile (CRaw 6));
    (["s"; "t"; "p.yaml"], EFile (CRaw 7));
    (["s"; "t"; "sub"], EDir) ].

Definition ex_orc : oracles :=
  mkOrc (fun id => if N.eqb id 6 then Some ex_k_target else if N.eqb id 2 then Some ex_k_base else None)
        (fun id => N.eqb id 1 || N.eqb id 4 || N.eqb id 7)
        (fun _ => [])
        (fun _ => false).

Definition first_chooser : chooser :=
  fun _ cands => match cands with c :: _ => fst c | [] => 0 end.

Definition ex_run (fault : option nat) : world * outcome string :=
  run_localize ex_orc first_chooser 8 "/s/t" "/s" "/new" fault ex_fs.

Definition ex_nd : cpath := newdir_path "/s/t" "/new".

(* boolean forms of the hypotheses, so that the witnesses are checked by computation *)
Definition fs_wfb (s : fs) : bool := forallb (fun pe => good_path (fst pe)) s.

Lemma fs_wfb_spec s : fs_wfb s = true -> fs_wf s.
Proof.
  unfold fs_wfb, fs_wf. rewrite forallb_forall. intros H p e Hin. apply (H (p, e) Hin).
Qed.

Definition opcode_is_remove (o : opcode) : bool := match o with ORemoveAll => true | _ => false end.
Definition opcode_is_mkdirall (o : opcode) : bool := match o with OMkdirAll => true | _ => false end.

Definition removes_okb (tr : list event) : bool :=
  forallb (fun e => if opcode_is_remove (ev_op e) then ev_ok e else true) tr.

Lemma removes_okb_spec tr :
  removes_okb tr = true -> forall e, In e tr -> ev_op e = ORemoveAll -> ev_ok e = true.
Proof.
  unfold removes_okb. rewrite forallb_forall. intros H e Hin Hop. specialize (H e Hin).
  rewrite Hop in H. exact H.
Qed.

Definition has_mkdirall_okb (tr : list event) : bool :=
  existsb (fun e => opcode_is_mkdirall (ev_op e) && ev_ok e) tr.

Lemma has_mkdirall_okb_spec tr :
  has_mkdirall_okb tr = true -> exists e, In e tr /\ ev_op e = OMkdirAll /\ ev_ok e = true.
Proof.
  unfold has_mkdirall_okb. rewrite existsb_exists. intros (e & Hin & H).
  apply andb_prop in H. destruct H as [H1 H2]. exists e. repeat split; auto.
  destruct (ev_op e); try discriminate. reflexivity.
Qed.

Lemma ex_fs_wf : fs_wf ex_fs.
Proof. apply fs_wfb_spec. vm_compute. reflexivity. Qed.

Lemma ex_ancestors : ancestors_dirs ex_nd ex_fs.
Proof. intros k Hk. vm_compute in Hk. lia. Qed.

(* The full law, as the property states it: if localization fails in any way, newDir is not left
   behind (domain: newDir did not exist before; the cleanup call itself did not fail). *)
Definition all_or_nothing_law : Prop :=
  forall orc ch fuel target scope newdir fault s w out,
    fs_wf s ->
    exists_path s (newdir_path target newdir) = false ->
    run_localize orc ch fuel target scope newdir fault s = (w, out) ->
    (forall a, out <> OOk a) ->
    (forall e, In e (w_trace w) -> ev_op e = ORemoveAll -> ev_ok e = true) ->
    exists_path (w_fs w) (newdir_path target newdir) = false.

(* a counterexample to the law at the given fault index and with the given outcome *)
Definition leftover_at (i : nat) (x : exn) : Prop :=
  fs_wf ex_fs /\
  exists_path ex_fs ex_nd = false /\
  snd (ex_run (Some i)) = OExn x /\
  (forall e, In e (w_trace (fst (ex_run (Some i)))) -> ev_op e = ORemoveAll -> ev_ok e = true) /\
  exists_path (w_fs (fst (ex_run (Some i)))) ex_nd = true.

Lemma leftover_refutes i x : leftover_at i x -> ~ all_or_nothing_law.
Proof.
  intros (W & Fr & Out & Rm & Left) Law. unfold ex_nd in *.
  specialize (Law ex_orc first_chooser 8 "/s/t" "/s" "/new" (Some i) ex_fs
                  (fst (ex_run (Some i))) (snd (ex_run (Some i))) W Fr).
  rewrite Law in Left; try discriminate; auto.
  - unfold ex_run. destruct (run_localize _ _ _ _ _ _ _ _); reflexivity.
  - rewrite Out. discriminate.
Qed.

Ltac leftover := unfold leftover_at; split; [exact ex_fs_wf|]; split; [vm_compute; reflexivity|];
                 split; [vm_compute; reflexivity|]; split; [apply removes_okb_spec; vm_compute; reflexivity|];
                 vm_compute; reflexivity.

(* Shapes (a) "ConfirmDir fails right after Mkdir(newDir)" and (b) "MkdirAll(dst) fails" were
   repaired in /repo by d268200: both now clean up.  Regression examples on the same inputs: *)
Example repaired_a :
  snd (ex_run (Some 4)) = OExn XErr /\ exists_path (w_fs (fst (ex_run (Some 4)))) ex_nd = false.
Proof. vm_compute. split; reflexivity. Qed.
Example repaired_b :
  snd (ex_run (Some 5)) = OExn XErr /\ exists_path (w_fs (fst (ex_run (Some 5)))) ex_nd = false.
Proof. vm_compute. split; reflexivity. Qed.

(* (c) CleanedAbs fails inside cleanedRelativePath: log.Fatalf, the process exits *)
Lemma leftover_3 : leftover_at 8 XFatal.
Proof. leftover. Qed.
(* (d) ConfirmDir fails inside localizeRoot: log.Panicf — repaired in /repo by 113a8f3 (deferred
   recover in Run): the panic is still raised, but the destination is cleaned up first *)
Example repaired_d :
  snd (ex_run (Some 19)) = OExn XPanic /\ exists_path (w_fs (fst (ex_run (Some 19)))) ex_nd = false.
Proof. vm_compute. split; reflexivity. Qed.

Lemma all_or_nothing_refuted_3 : exists i, leftover_at i XFatal.
Proof. exists 8. exact leftover_3. Qed.
Lemma all_or_nothing_law_false : ~ all_or_nothing_law.
Proof. exact (leftover_refutes _ _ leftover_3). Qed.

(* ---- non-vacuity ---- *)

(* the fault-free run succeeds, writes seven files below /new and leaves the rest alone *)
Example ex_success :
  snd (ex_run None) = OOk "/new" /\
  List.length (filter (fun e => match ev_op e with OWriteFile => ev_ok e | _ => false end)
                      (w_trace (fst (ex_run None)))) = 7 /\
  lookup ["new"; "base"; "cm.yaml"] (w_fs (fst (ex_run None))) = Some (EFile (CRaw 1)) /\
  lookup ["new"; "t"; "p.yaml"] (w_fs (fst (ex_run None))) = Some (EFile (CRaw 7)).
Proof. vm_compute. repeat split; reflexivity. Qed.

(* the hypotheses of all_or_nothing_partial are met by a fault on ReadFile(dep.yaml) (call 12),
   and by the early ones (3: ConfirmDir of newDir, 4: MkdirAll(dst)) *)
Example ex_partial_hyps :
  exists_path ex_fs ex_nd = false /\
  snd (ex_run (Some 12)) = OExn XErr /\
  snd (ex_run (Some 19)) = OExn XPanic /\
  removes_okb (w_trace (fst (ex_run (Some 19)))) = true /\
  removes_okb (w_trace (fst (ex_run (Some 12)))) = true /\
  removes_okb (w_trace (fst (ex_run (Some 4)))) = true /\
  removes_okb (w_trace (fst (ex_run (Some 5)))) = true /\
  exists_path (w_fs (fst (ex_run (Some 12)))) ex_nd = false.
Proof. vm_compute. repeat split; reflexivity. Qed.

(* the hypotheses of loc_file_copies are met: a reference that needs cleaning is copied and rewritten *)
Example ex_loc_file :
  let r := run first_chooser None
               (loc_file (mkArgs ["s"] ["new"]) (mkLc ["s"; "t"] [] ["new"; "t"]) "zz/../dep.yaml")
               (world0 ex_fs) in
  snd r = OOk "dep.yaml" /\
  lookup ["new"; "t"; "dep.yaml"] (w_fs (fst r)) = Some (EFile (CRaw 4)).
Proof. vm_compute. split; reflexivity. Qed.

(* the hypothesis of nothing_created_nothing_left is met by a fault on Mkdir("/new") (call 3) *)
Definition quiet_evb (e : event) : bool :=
  (if mutating (ev_op e) then negb (ev_ok e) else true) &&
  (if opcode_is_remove (ev_op e) then String.eqb (ev_path e) "" || negb (ev_ok e) else true).

Lemma quiet_evb_spec e : quiet_evb e = true -> quiet_ev e.
Proof.
  unfold quiet_evb, quiet_ev. intros H. apply andb_prop in H. destruct H as [H1 H2]. split.
  - intros M. rewrite M in H1. apply negb_true_iff in H1. exact H1.
  - intros R. rewrite R in H2. cbn in H2. apply orb_prop in H2. destruct H2 as [H2|H2].
    + left. apply String.eqb_eq; auto.
    + right. apply negb_true_iff in H2. exact H2.
Qed.

Example ex_early :
  snd (ex_run (Some 3)) = OExn XErr /\ Forall quiet_ev (w_trace (fst (ex_run (Some 3)))).
Proof.
  split; [vm_compute; reflexivity|].
  apply Forall_forall. intros e Hin. apply quiet_evb_spec.
  assert (F : forallb quiet_evb (w_trace (fst (ex_run (Some 3)))) = true) by (vm_compute; reflexivity).
  rewrite forallb_forall in F. auto.
Qed.

(* ------------------------------------------------------------------ helm: local chart homes *)

(* corpus/C18/helm-chart-home.json *)
Definition ex2_kust : kust :=
  mkKust None [] [] [] [] ["cm.yaml"] [] [] [] [("hv.yaml", [])] None [] [] [] [] [] [] [].

Definition ex2_fs : fs :=
  [ (["s"], EDir); (["s"; "t"], EDir);
    (["s"; "t"; "charts"], EDir); (["s"; "t"; "charts"; "app"], EDir);
    (["s"; "t"; "charts"; "app"; "Chart.yaml"], EFile (CRaw 1));
    (["s"; "t"; "charts"; "app"; "crds"], EDir);
    (["s"; "t"; "charts"; "app"; "templates"], EDir);
    (["s"; "t"; "charts"; "app"; "templates"; "cm.yaml"], EFile (CRaw 2));
    (["s"; "t"; "charts"; "app"; "templates"; "sub"], EDir);
    (["s"; "t"; "charts"; "app"; "templates"; "sub"; "extra.yaml"], EFile (CRaw 3));
    (["s"; "t"; "charts"; "app"; "values.yaml"], EFile (CRaw 4));
    (["s"; "t"; "cm.yaml"], EFile (CRaw 5));
    (["s"; "t"; "hv.yaml"], EFile (CRaw 6));
    (["s"; "t"; "kustomization.yaml"], EFile (CRaw 7)) ].

Definition ex2_orc : oracles :=
  mkOrc (fun id => if N.eqb id 7 then Some ex2_kust else None)
        (fun id => N.eqb id 2 || N.eqb id 3 || N.eqb id 5) (fun _ => []) (fun _ => false).

Definition ex2_run (fault : option nat) : world * outcome string :=
  run_localize ex2_orc first_chooser 8 "/s/t" "/s" "/new" fault ex2_fs.

(* the fault-free run mirrors the whole chart home: 8 files written, the chart's files among them *)
Example ex2_success :
  snd (ex2_run None) = OOk "/new" /\
  lookup ["new"; "t"; "charts"; "app"; "templates"; "sub"; "extra.yaml"] (w_fs (fst (ex2_run None)))
    = Some (EFile (CRaw 3)) /\
  lookup ["new"; "t"; "charts"; "app"; "crds"] (w_fs (fst (ex2_run None))) = Some EDir.
Proof. vm_compute. repeat split; reflexivity. Qed.

(* (e) ConfirmDir fails inside copyChartHome: log.Panicf — repaired by 113a8f3 as well *)
Example repaired_e :
  snd (ex2_run (Some 25)) = OExn XPanic /\ exists_path (w_fs (fst (ex2_run (Some 25)))) ex_nd = false.
Proof. vm_compute. split; reflexivity. Qed.

(* corpus/C18/helm-values-inside-home.json: the values file lives inside the chart home *)
Definition ex3_kust : kust :=
  mkKust None [] [] [] [] [] [] [] [] [("charts/app/values.yaml", [])] None [] [] [] [] [] [] [].

Definition ex3_fs : fs :=
  [ (["s"], EDir); (["s"; "t"], EDir);
    (["s"; "t"; "charts"], EDir); (["s"; "t"; "charts"; "app"], EDir);
    (["s"; "t"; "charts"; "app"; "Chart.yaml"], EFile (CRaw 1));
    (["s"; "t"; "charts"; "app"; "templates"], EDir);
    (["s"; "t"; "charts"; "app"; "templates"; "cm.yaml"], EFile (CRaw 2));
    (["s"; "t"; "charts"; "app"; "templates"; "sub"], EDir);
    (["s"; "t"; "charts"; "app"; "templates"; "sub"; "extra.yaml"], EFile (CRaw 3));
    (["s"; "t"; "charts"; "app"; "values.yaml"], EFile (CRaw 4));
    (["s"; "t"; "kustomization.yaml"], EFile (CRaw 5)) ].

Definition ex3_orc : oracles :=
  mkOrc (fun id => if N.eqb id 5 then Some ex3_kust else None)
        (fun id => N.eqb id 2 || N.eqb id 3) (fun _ => []) (fun _ => false).

Definition ex3_run : world * outcome string :=
  run_localize ex3_orc first_chooser 8 "/s/t" "/s" "/new" None ex3_fs.

(* WITHOUT any fault: localize reports success, yet the chart home was not copied — the values file,
   localized first, created newDir/t/charts, and copyChartHome skips a destination that exists. *)
Lemma incomplete_copy_witness :
  fs_wf ex3_fs /\
  snd ex3_run = OOk "/new" /\
  lookup ["s"; "t"; "charts"; "app"; "Chart.yaml"] ex3_fs = Some (EFile (CRaw 1)) /\
  lookup ["new"; "t"; "charts"; "app"; "values.yaml"] (w_fs (fst ex3_run)) = Some (EFile (CRaw 4)) /\
  lookup ["new"; "t"; "charts"; "app"; "Chart.yaml"] (w_fs (fst ex3_run)) = None.
Proof.
  split; [apply fs_wfb_spec; vm_compute; reflexivity|]. vm_compute. repeat split; reflexivity.
Qed.
