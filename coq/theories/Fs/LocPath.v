(* Lexical path helpers for the localize model (C18).  Definitions only.

   Go strings are kept as [string] at the boundary (what the user / the kustomization file says and
   what is passed to the file system); cleaned absolute paths (filesys.ConfirmedDir and everything
   derived from it) are component lists [cpath] ("/" = []).  The functions follow
   path/filepath on a '/'-separated system:

     clean_comps abs   = the component walk of filepath.Clean
     join_abs d p      = filepath.Join(d, p) for a cleaned absolute d   (ConfirmedDir.Join)
     rel_comps b t     = filepath.Rel(b, t) for cleaned absolute b, t   (cannot fail there)
     has_prefix_c d p  = ConfirmedDir.HasPrefix
     query_comps p     = kyaml/filesys cleanQueryPath (in-memory FS): Clean(StripLeadingSeps(p)) *)
From KV Require Export Base.Prelude.

Definition cpath := list string.

Definition slash : ascii := "/"%char.

Definition is_abs (s : string) : bool :=
  match s with String c _ => Ascii.eqb c slash | EmptyString => false end.

Fixpoint strip_leading_seps (s : string) : string :=
  match s with
  | String c s' => if Ascii.eqb c slash then strip_leading_seps s' else s
  | EmptyString => EmptyString
  end.

Definition split_path (s : string) : list string := split_on slash s.

(* one step of filepath.Clean's component walk; [acc] is the reversed output so far *)
Definition clean_step (abs : bool) (acc : list string) (c : string) : list string :=
  if String.eqb c "" then acc
  else if String.eqb c "." then acc
  else if String.eqb c ".." then
    match acc with
    | [] => if abs then [] else [".."]
    | h :: t => if String.eqb h ".." then ".." :: acc else t
    end
  else c :: acc.

Definition clean_rev (abs : bool) (acc : list string) (l : list string) : list string :=
  fold_left (clean_step abs) l acc.

Definition clean_comps (abs : bool) (l : list string) : list string :=
  rev (clean_rev abs [] l).

(* filepath.Clean of an absolute path string, as components *)
Definition clean_abs_str (s : string) : cpath := clean_comps true (split_path s).

(* ConfirmedDir.Join / filepath.Join(d, p) for cleaned absolute d *)
Definition join_abs (d : cpath) (p : string) : cpath :=
  rev (clean_rev true (rev d) (split_path p)).

(* filepath.Join(d, rel) where rel is already a component list (result of Rel) *)
Definition join_comps (d : cpath) (r : list string) : cpath :=
  rev (clean_rev true (rev d) r).

Definition show_abs (c : cpath) : string := "/" ++ join_with "/" c.

(* a relative result of filepath.Rel / Clean: "." when empty *)
Definition show_rel (c : list string) : string :=
  match c with [] => "." | _ => join_with "/" c end.

Fixpoint cpath_eqb (a b : cpath) : bool :=
  match a, b with
  | [], [] => true
  | x :: a', y :: b' => String.eqb x y && cpath_eqb a' b'
  | _, _ => false
  end.

(* [is_prefix p d]: p is a (not necessarily proper) component prefix of d *)
Fixpoint is_prefix (p d : cpath) : bool :=
  match p, d with
  | [], _ => true
  | x :: p', y :: d' => String.eqb x y && is_prefix p' d'
  | _ :: _, [] => false
  end.

(* ConfirmedDir.HasPrefix: path == "/" || path == d || strings.HasPrefix(d, path + "/") *)
Definition has_prefix_c (d p : cpath) : bool := is_prefix p d.

Fixpoint strip_common (b t : cpath) : cpath * cpath :=
  match b, t with
  | x :: b', y :: t' => if String.eqb x y then strip_common b' t' else (b, t)
  | _, _ => (b, t)
  end.

(* filepath.Rel for cleaned absolute paths *)
Definition rel_comps (b t : cpath) : list string :=
  let '(b', t') := strip_common b t in
  List.map (fun _ => "..") b' ++ t'.

(* filepath.Dir / filepath.Base of a cleaned absolute path *)
Definition dir_c (c : cpath) : cpath := removelast c.
Definition base_c (c : cpath) : string := last c "/".

(* in-memory file system query normalisation *)
Definition query_comps (p : string) : list string :=
  clean_comps false (split_path (strip_leading_seps p)).

(* kyaml/filesys isLegalFileNameForCreation: ^[a-zA-Z0-9-_.:]+$, not "." and no ".." inside *)
Definition legal_char (c : ascii) : bool :=
  let n := N_of_ascii c in
  ((97 <=? n) && (n <=? 122) || (65 <=? n) && (n <=? 90) || (48 <=? n) && (n <=? 57)
   || (n =? 45) || (n =? 95) || (n =? 46) || (n =? 58))%N.

Fixpoint all_legal (s : string) : bool :=
  match s with EmptyString => true | String c s' => legal_char c && all_legal s' end.

Fixpoint has_dotdot (s : string) : bool :=
  match s with
  | String a ((String b _) as s') =>
      (Ascii.eqb a "."%char && Ascii.eqb b "."%char) || has_dotdot s'
  | _ => false
  end.

Definition legal_name (s : string) : bool :=
  negb (String.eqb s "") && negb (String.eqb s ".") && all_legal s && negb (has_dotdot s).

Fixpoint str_contains_char (c : ascii) (s : string) : bool :=
  match s with EmptyString => false | String a s' => Ascii.eqb a c || str_contains_char c s' end.

Fixpoint str_contains (p s : string) : bool :=
  has_prefix p s || match s with EmptyString => false | String _ s' => str_contains p s' end.

Fixpoint count_char (c : ascii) (s : string) : nat :=
  match s with
  | EmptyString => 0
  | String a s' => (if Ascii.eqb a c then 1 else 0) + count_char c s'
  end.

(* a "normal" component: what a cleaned path is made of *)
Definition normal_comp (c : string) : bool :=
  negb (String.eqb c "") && negb (String.eqb c ".") && negb (String.eqb c "..").
Definition normal_path (c : cpath) : bool := forallb normal_comp c.
