(* Lexical paths, Unix flavour: Go's path/filepath (Clean, Join, Split, Dir, Base, IsAbs) and
   kyaml/filesys (ConfirmedDir.HasPrefix/Join, StripLeadingSeps/StripTrailingSeps).
   Definitions only; proofs are in Fs/PathProofs.v.

   A path is a Go string (byte string).  [clean] is written over the list of raw components
   (strings.Split(p, "/")) instead of Go's byte-level lazybuf loop; the two are compared on every
   run by the C05 correspondence check (filepath.Clean on generated and adversarial strings). *)
From KV Require Export Base.Prelude.

Definition slash : ascii := "/"%char.
Definition sep : string := "/".

(* filepath.IsAbs (Unix): strings.HasPrefix(path, "/") *)
Definition is_abs (p : string) : bool :=
  match p with
  | String c _ => Ascii.eqb c slash
  | EmptyString => false
  end.

(* strings.Split(p, "/"): never empty; "" -> [""], "/" -> ["";""], "a//b" -> ["a";"";"b"] *)
Definition raw_comps (p : string) : list string := split_on slash p.

Definition is_dotdot (c : string) : bool := String.eqb c "..".
Definition is_skip (c : string) : bool := String.eqb c "" || String.eqb c ".".

(* The component stack of Clean.  [stk] is the output so far, most recent component first.
   rooted:   ".." at the root is dropped;
   relative: leading ".." components are kept (and a ".." never cancels a kept ".."). *)
Fixpoint clean_stack (rooted : bool) (stk cs : list string) : list string :=
  match cs with
  | [] => stk
  | c :: cs' =>
      if is_skip c then clean_stack rooted stk cs'
      else if is_dotdot c then
        match stk with
        | top :: stk' =>
            if is_dotdot top then clean_stack rooted (c :: stk) cs'
            else clean_stack rooted stk' cs'
        | [] => if rooted then clean_stack rooted [] cs' else clean_stack rooted [c] cs'
        end
      else clean_stack rooted (c :: stk) cs'
  end.

(* "/" ++ a/b/c *)
Definition abs_of (cs : list string) : string := String slash (join_with sep cs).

Definition render (rooted : bool) (out : list string) : string :=
  if rooted then abs_of out
  else match out with [] => "." | _ => join_with sep out end.

(* filepath.Clean *)
Definition clean (p : string) : string :=
  match p with
  | EmptyString => "."
  | _ => let r := is_abs p in render r (rev (clean_stack r [] (raw_comps p)))
  end.

(* filepath.Join(a, b): the first non-empty element and everything after it, joined by "/" and cleaned *)
Definition join2 (a b : string) : string :=
  match a with
  | EmptyString => match b with EmptyString => "" | _ => clean b end
  | _ => clean (a ++ sep ++ b)
  end.

(* filepath.Split: (everything up to and including the last "/", the rest) *)
Fixpoint split_path (p : string) : string * string :=
  match p with
  | EmptyString => (EmptyString, EmptyString)
  | String c p' =>
      let (d, f) := split_path p' in
      match d with
      | EmptyString =>
          if Ascii.eqb c slash then (String c EmptyString, f) else (EmptyString, String c f)
      | _ => (String c d, f)
      end
  end.

(* filesys.StripLeadingSeps / StripTrailingSeps *)
Fixpoint strip_leading_seps (s : string) : string :=
  match s with
  | String c s' => if Ascii.eqb c slash then strip_leading_seps s' else s
  | EmptyString => EmptyString
  end.
Definition strip_trailing_seps (s : string) : string :=
  str_rev (strip_leading_seps (str_rev s)).

(* fsnode.go mySplit *)
Definition my_split (p : string) : string * string :=
  let (d, f) := split_path p in (strip_trailing_seps d, f).

(* filepath.Dir (Unix): Clean of everything up to and including the last "/" *)
Definition dir_of (p : string) : string := clean (fst (split_path p)).

(* filepath.Base *)
Definition base_of (p : string) : string :=
  match p with
  | EmptyString => "."
  | _ =>
      let q := strip_trailing_seps p in
      match snd (split_path q) with
      | EmptyString => sep            (* only slashes *)
      | b => b
      end
  end.

(* ConfirmedDir.HasPrefix(path):  path == "/" || path == d || strings.HasPrefix(d, path + "/") *)
Definition cd_has_prefix (d path : string) : bool :=
  String.eqb path sep || String.eqb path d || has_prefix (path ++ sep) d.

(* ConfirmedDir.Join *)
Definition cd_join (d p : string) : string := join2 d p.

(* components of a path, empty ones dropped: the reading of a ConfirmedDir as a list of names *)
Definition comps (p : string) : list string :=
  filter (fun c => negb (String.eqb c "")) (raw_comps p).

(* ---- vocabulary of the theorems ---- *)

(* no "/" inside *)
Fixpoint no_slash (s : string) : bool :=
  match s with
  | EmptyString => true
  | String c s' => negb (Ascii.eqb c slash) && no_slash s'
  end.

(* a directory-entry name: non-empty, not "." or "..", without "/" *)
Definition good_name (c : string) : bool :=
  negb (is_skip c) && negb (is_dotdot c) && no_slash c.

(* a ConfirmedDir: absolute, clean.  Canonical paths are exactly [abs_of cs] for good names [cs]. *)
Definition canon_comps (cs : list string) : bool := forallb good_name cs.

(* list prefix *)
Fixpoint list_prefix (p l : list string) : bool :=
  match p, l with
  | [], _ => true
  | a :: p', b :: l' => String.eqb a b && list_prefix p' l'
  | _, _ => false
  end.
