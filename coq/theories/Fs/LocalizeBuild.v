(* C18 — "building the localized copy equals building the original", for the directive set the
   localize model shares with the integrated build model Res/Pipeline.v: `resources` (files and
   nested kustomization roots) plus every non-path directive (carried opaquely).  Definitions only.

   [read_tree]   resolves a kustomization root of a file-system state into an abstract tree, the way
                 a build loads it: the unique kustomization file of the directory, its `resources`
                 entries joined to the root and looked up — a file inside the root that is a
                 resource, or a directory read recursively.  Files are identified by the id of their
                 bytes; a localized kustomization [CKust id k'] is kustomization #id with the path
                 fields k'.
   [to_ptree]    turns the abstract tree into Pipeline's [ptree], given what YAML parsing yields for
                 file #id ([docs]) and the non-path directives of kustomization #id ([dirs]).
   [mirror_ok]   the decidable relation "the destination is a faithful image of the source": every
                 binding below newDir is a directory that exists at the mirrored source path, a
                 byte-identical copy of the file at the mirrored source path, a localized plugin, or
                 a localized kustomization whose `resources` are the cleaned references of the
                 source's (each resolving inside the scope) and which has no other path field iff
                 the source has none.  Evaluated on the final state of every successful run by the
                 correspondence check (Corr/C18.v). *)
From KV Require Export Fs.Localize.
From KV Require Res.Pipeline.

Local Open Scope list_scope.

Inductive rtree :=
| RFile (id : N)
| RDir (kid : N) (ents : list rtree).

(* no path-bearing field besides `resources` *)
Definition resources_only (k : kust) : bool :=
  match k_openapi k, k_bases k, k_components k, k_configurations k, k_crds k with
  | None, [], [], [], [] =>
      match k_cmgens k, k_secgens k, k_helminfl k, k_helmcharts k, k_helmglobals k with
      | [], [], [], [], None =>
          match k_patches k, k_patches6902 k, k_psm k, k_replacements k with
          | [], [], [], [] =>
              match k_generators k, k_transformers k, k_validators k with
              | [], [], [] => true
              | _, _, _ => false
              end
          | _, _, _, _ => false
          end
      | _, _, _, _, _ => false
      end
  | _, _, _, _, _ => false
  end.

Section Read.
  Variable orc : oracles.

  (* what a build parses out of a kustomization file *)
  Definition kust_view (c : content) : option (N * kust) :=
    match c with
    | CRaw id => match o_kust orc id with Some k => Some (id, k) | None => None end
    | CKust id k => Some (id, k)
    | CPlug _ _ => None
    end.

  Definition kust_files (s : fs) (root : cpath) : list (string * content) :=
    flat_map (fun n => match lookup (root ++ [n]) s with
                       | Some (EFile c) => [(n, c)]
                       | _ => []
                       end) kust_names.

  (* where a `resources` entry of the kustomization at [root] points *)
  Definition resolve (root : cpath) (e : string) : cpath := query_comps (abs_of root e).

  (* one `resources` entry: a resource file inside the root, or a kustomization directory *)
  Definition read_entry (rd : cpath -> option rtree) (s : fs) (root : cpath) (e : string) : option rtree :=
    if String.eqb e "" then None
    else
      let p := resolve root e in
      match lookup p s with
      | Some (EFile (CRaw fid)) =>
          if is_prefix root p && o_res orc fid then Some (RFile fid) else None
      | Some (EFile _) => None
      | Some EDir => rd p
      | None => None
      end.

  Fixpoint read_entries (rd : cpath -> option rtree) (s : fs) (root : cpath) (l : list string)
    : option (list rtree) :=
    match l with
    | [] => Some []
    | e :: t =>
        match read_entry rd s root e, read_entries rd s root t with
        | Some x, Some xs => Some (x :: xs)
        | _, _ => None
        end
    end.

  Fixpoint read_tree (fuel : nat) (s : fs) (root : cpath) : option rtree :=
    match fuel with
    | O => None
    | S fuel' =>
        match kust_files s root with
        | [(_, c)] =>
            match kust_view c with
            | Some (kid, k) =>
                if resources_only k then
                  match read_entries (read_tree fuel' s) s root (k_resources k) with
                  | Some l => Some (RDir kid l)
                  | None => None
                  end
                else None
            | None => None
            end
        | _ => None
        end
    end.

  (* the reference the localizer writes for entry [e] of the kustomization at [root] *)
  Definition clean_ref (root : cpath) (e : string) : string :=
    if String.eqb e "" then "" else show_rel (rel_comps root (resolve root e)).

  Definition opt_entry_eq (a b : option entry) : bool :=
    match a, b with
    | Some EDir, Some EDir => true
    | Some (EFile (CRaw x)), Some (EFile (CRaw y)) => N.eqb x y
    | _, _ => false
    end.

  Fixpoint str_list_eqb (a b : list string) : bool :=
    match a, b with
    | [], [] => true
    | x :: a', y :: b' => String.eqb x y && str_list_eqb a' b'
    | _, _ => false
    end.

  (* the binding (nd ++ x |-> e) of the destination is a faithful image of the source *)
  Definition image_ok (scope nd : cpath) (s0 : fs) (x : cpath) (e : entry) : bool :=
    match e with
    | EDir =>
        match lookup (scope ++ x) s0 with
        | Some EDir => true
        | None => match scope ++ x with [] => true | _ => false end    (* "/" itself has no binding *)
        | _ => false
        end
    | EFile (CRaw id) =>
        opt_entry_eq (lookup (scope ++ x) s0) (Some (EFile (CRaw id)))
        && (if str_in (last x "") kust_names then
              match o_kust orc id with Some _ => false | None => true end
            else true)
    | EFile (CKust id k') =>
        opt_entry_eq (lookup (scope ++ x) s0) (Some (EFile (CRaw id)))
        && match o_kust orc id with
           | Some k =>
               let root := removelast (scope ++ x) in
               str_list_eqb (k_resources k') (List.map (clean_ref root) (k_resources k))
               && forallb (fun e => String.eqb e "" || is_prefix scope (resolve root e)) (k_resources k)
               && Bool.eqb (resources_only k') (resources_only k)
           | None => false
           end
    | EFile (CPlug _ _) => true
    end.

  Fixpoint drop_prefix (p q : cpath) : option cpath :=
    match p, q with
    | [], _ => Some q
    | a :: p', b :: q' => if String.eqb a b then drop_prefix p' q' else None
    | _ :: _, [] => None
    end.

  Definition mirror_ok (scope nd : cpath) (s0 s' : fs) : bool :=
    forallb (fun pe =>
               match drop_prefix nd (fst pe) with
               | Some x =>
                   match lookup (fst pe) s' with
                   | Some e => image_ok scope nd s0 x e      (* the effective binding *)
                   | None => true
                   end
               | None => true
               end) s'.
End Read.

(* into the syntax of the integrated build model *)
Section ToPtree.
  Variable docs : N -> list KV.Yaml.Node.node.
  Variable dirs : N -> Pipeline.pdirs.

  Fixpoint to_ptree (t : rtree) : Pipeline.ptree :=
    match t with
    | RFile id => Pipeline.PFile (docs id)
    | RDir kid ents => Pipeline.PDir "" (dirs kid) (List.map to_ptree ents)
    end.
End ToPtree.
