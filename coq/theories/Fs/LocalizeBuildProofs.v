(* C18 — soundness of [mirror_ok]: a destination that is a faithful image of the source reads to the
   same abstract tree, hence builds to the same output in the integrated build model. *)
From KV Require Import Fs.LocPath Fs.LocPathProofs Fs.Localize Fs.LocalizeProofs Fs.LocalizeBuild.
From KV Require Res.Pipeline.
From Coq Require Import Lia.

Local Open Scope list_scope.

Lemma drop_prefix_app p x : drop_prefix p (p ++ x) = Some x.
Proof. induction p; cbn; auto. rewrite String.eqb_refl; auto. Qed.

Lemma is_prefix_app_cancel a r y : is_prefix (a ++ r) (a ++ y) = is_prefix r y.
Proof. induction a; cbn; auto. rewrite String.eqb_refl; auto. Qed.

Lemma str_in_spec s l : In s l -> str_in s l = true.
Proof.
  induction l as [|x t IH]; cbn; intros H; [contradiction|].
  destruct H as [->|H]; [rewrite String.eqb_refl; reflexivity|]. rewrite IH by auto. apply orb_true_r.
Qed.

Lemma str_list_eqb_eq a b : str_list_eqb a b = true -> a = b.
Proof.
  revert b; induction a as [|x a IH]; destruct b as [|y b]; cbn; intros H; try discriminate; auto.
  apply andb_prop in H. destruct H as [H1 H2]. apply String.eqb_eq in H1. subst. f_equal; auto.
Qed.

Section Sound.
  Variable orc : oracles.
  Variable scope nd : cpath.
  Variable s0 s' : fs.
  Hypothesis Gsc : good_path scope = true.
  Hypothesis Gnd : good_path nd = true.
  Hypothesis W0 : fs_wf s0.
  Hypothesis W' : fs_wf s'.
  Hypothesis M : mirror_ok orc scope nd s0 s' = true.

  Lemma mirror_lookup x e : lookup (nd ++ x) s' = Some e -> image_ok orc scope nd s0 x e = true.
  Proof.
    intros L. pose proof (lookup_in _ _ _ L) as Hin. unfold mirror_ok in M.
    rewrite forallb_forall in M. specialize (M _ Hin). cbn [fst] in M.
    rewrite drop_prefix_app, L in M. exact M.
  Qed.

  Lemma opt_entry_eq_file a id : opt_entry_eq a (Some (EFile (CRaw id))) = true -> a = Some (EFile (CRaw id)).
  Proof.
    destruct a as [[|[x| |]]|]; cbn; intros H; try discriminate.
    apply N.eqb_eq in H. subst. reflexivity.
  Qed.

  Lemma in_kust_files s root n c :
    In (n, c) (kust_files s root) <-> In n kust_names /\ lookup (root ++ [n]) s = Some (EFile c).
  Proof.
    unfold kust_files. rewrite in_flat_map. split.
    - intros (m & Hm & Hin). destruct (lookup (root ++ [m]) s) as [[|c']|] eqn:L; try contradiction.
      destruct Hin as [E|[]]. inv E. auto.
    - intros [Hn L]. exists n. split; auto. rewrite L. left. reflexivity.
  Qed.

  (* a relative reference printed by the localizer is never empty and never absolute *)
  Lemma show_rel_shape lp :
    forallb (fun c => negb (String.eqb c "") && negb (str_contains_char slash c)) lp = true ->
    String.eqb (show_rel lp) "" = false /\ is_abs (show_rel lp) = false.
  Proof.
    intros H. destruct lp as [|x lp]; [split; reflexivity|].
    cbn in H. apply andb_prop in H. destruct H as [Hx _]. apply andb_prop in Hx. destruct Hx as [Hne Hns].
    destruct (join_with_head x lp) as [t Et]. unfold show_rel. rewrite Et.
    destruct x as [|a x]; [discriminate|]. cbn. split; auto.
    cbn in Hns. apply negb_true_iff in Hns. apply orb_false_iff in Hns. destruct Hns as [Ha _]. exact Ha.
  Qed.

  Lemma rel_comps_shape a b :
    good_path a = true -> good_path b = true ->
    forallb (fun c => negb (String.eqb c "") && negb (str_contains_char slash c)) (rel_comps a b) = true.
  Proof.
    intros Ga Gb. unfold rel_comps. destruct (strip_common_spec a b) as (c & a' & b' & -> & -> & E). rewrite E.
    rewrite forallb_app. apply andb_true_intro. split.
    - apply forallb_forall. intros x Hx. apply in_map_iff in Hx. destruct Hx as (? & <- & _). reflexivity.
    - rewrite good_path_app in Gb. apply andb_prop in Gb. destruct Gb as [_ Gb].
      apply forallb_forall. intros x Hx. unfold good_path in Gb. rewrite forallb_forall in Gb.
      specialize (Gb _ Hx). unfold good_comp, normal_comp in Gb.
      apply andb_prop in Gb. destruct Gb as [G1 G2]. apply andb_prop in G1. destruct G1 as [G1 _].
      apply andb_prop in G1. destruct G1 as [G1 _]. rewrite G1, G2. reflexivity.
  Qed.

  (* the cleaned reference, resolved from the mirrored root, is the mirrored path *)
  Lemma resolve_clean_ref r y e :
    good_path r = true -> good_path y = true ->
    resolve (scope ++ r) e = scope ++ y -> String.eqb e "" = false ->
    String.eqb (clean_ref (scope ++ r) e) "" = false /\
    resolve (nd ++ r) (clean_ref (scope ++ r) e) = nd ++ y.
  Proof.
    intros Gr Gy Q Ne. unfold clean_ref. rewrite Ne, Q.
    assert (Sh : forallb (fun c => negb (String.eqb c "") && negb (str_contains_char slash c))
                         (rel_comps (scope ++ r) (scope ++ y)) = true).
    { apply rel_comps_shape; rewrite good_path_app, Gsc; auto. }
    destruct (show_rel_shape _ Sh) as [E1 E2]. split; auto.
    unfold resolve, abs_of. rewrite E2.
    rewrite rewritten_path_resolves.
    - rewrite join_rel_mirror by (apply good_path_normal; auto).
      apply query_show. rewrite good_path_app, Gnd, Gy. reflexivity.
    - apply forallb_forall. intros x Hx. rewrite forallb_forall in Sh. specialize (Sh _ Hx).
      apply andb_prop in Sh. tauto.
  Qed.

  Theorem mirror_read_eq : forall fuel fuel' r t t',
    good_path r = true ->
    read_tree orc fuel s' (nd ++ r) = Some t' ->
    read_tree orc fuel' s0 (scope ++ r) = Some t ->
    t' = t.
  Proof.
    induction fuel as [|fuel IH]; intros fuel' r t t' Gr H' H; [discriminate|].
    destruct fuel' as [|fuel']; [discriminate|]. cbn [read_tree] in H', H.
    destruct (kust_files s' (nd ++ r)) as [|[n' c'] [|? ?]] eqn:K'; try discriminate.
    destruct (kust_files s0 (scope ++ r)) as [|[n c] [|? ?]] eqn:K; try discriminate.
    assert (In' : In (n', c') (kust_files s' (nd ++ r))) by (rewrite K'; left; reflexivity).
    apply in_kust_files in In'. destruct In' as [Hn' L'].
    rewrite <- app_assoc in L'. pose proof (mirror_lookup _ _ L') as Img.
    destruct c' as [id'|id' k'|? ?]; cbn [kust_view] in H'; try discriminate.
    - (* a verbatim copy at a kustomization name: by the image relation it is not a kustomization *)
      cbn [image_ok] in Img. apply andb_prop in Img. destruct Img as [_ Img].
      rewrite last_last, (str_in_spec _ _ Hn') in Img.
      destruct (o_kust orc id'); discriminate.
    - cbn [image_ok] in Img. apply andb_prop in Img. destruct Img as [Ls Img].
      apply opt_entry_eq_file in Ls. rewrite app_assoc in Ls.
      assert (In0 : In (n', CRaw id') (kust_files s0 (scope ++ r))) by (apply in_kust_files; auto).
      rewrite K in In0. destruct In0 as [E|[]]. inv E.
      cbn [kust_view] in H. destruct (o_kust orc id') as [k|] eqn:Ok; [|discriminate].
      apply andb_prop in Img. destruct Img as [Img Ro]. apply andb_prop in Img. destruct Img as [Rs Sc].
      apply str_list_eqb_eq in Rs. rewrite app_assoc, removelast_last in Rs, Sc.
      apply Bool.eqb_prop in Ro. rewrite Ro in H'.
      destruct (resources_only k); [|discriminate].
      destruct (read_entries orc (read_tree orc fuel s') s' (nd ++ r) (k_resources k')) as [xs'|] eqn:R'; [|discriminate].
      destruct (read_entries orc (read_tree orc fuel' s0) s0 (scope ++ r) (k_resources k)) as [xs|] eqn:R; [|discriminate].
      inv H'. inv H. f_equal.
      rewrite Rs in R'. clear Rs Ro Ok K K' L' Ls Hn'.
      revert xs xs' R R' Sc. generalize (k_resources k) as l.
      induction l as [|e l IHl]; intros xs xs' R R' Sc; cbn in R, R'.
      + inv R. inv R'. reflexivity.
      + cbn in Sc. apply andb_prop in Sc. destruct Sc as [Se Sc].
        destruct (read_entry orc (read_tree orc fuel' s0) s0 (scope ++ r) e) as [x|] eqn:Ex; [|discriminate].
        destruct (read_entries orc (read_tree orc fuel' s0) s0 (scope ++ r) l) as [xt|] eqn:Rt; [|discriminate].
        destruct (read_entry orc (read_tree orc fuel s') s' (nd ++ r) (clean_ref (scope ++ r) e)) as [x'|] eqn:Ex'; [|discriminate].
        destruct (read_entries orc (read_tree orc fuel s') s' (nd ++ r) (List.map (clean_ref (scope ++ r)) l)) as [xt'|] eqn:Rt'; [|discriminate].
        inv R. inv R'. f_equal; [|eapply IHl; eauto].
        unfold read_entry in Ex, Ex'.
        destruct (String.eqb e "") eqn:Ne; [discriminate|]. cbn [orb] in Se.
        destruct (is_prefix_inv _ _ Se) as [y Q].
        destruct (lookup (resolve (scope ++ r) e) s0) as [e0|] eqn:L0; [|discriminate].
        assert (Gq : good_path (scope ++ y) = true).
        { rewrite <- Q. eapply W0. eapply lookup_in; eauto. }
        assert (Gy : good_path y = true) by (rewrite good_path_app in Gq; apply andb_prop in Gq; tauto).
        destruct (resolve_clean_ref r y e Gr Gy Q Ne) as [Ne' Q'].
        rewrite Ne', Q' in Ex'. rewrite Q in L0.
        destruct (lookup (nd ++ y) s') as [e1|] eqn:L1; [|discriminate].
        pose proof (mirror_lookup _ _ L1) as Img1.
        destruct e1 as [|[fid| |]]; try discriminate.
        * (* a directory in the copy *)
          cbn [image_ok] in Img1. rewrite L0 in Img1.
          destruct e0 as [|c0]; [|discriminate].
          rewrite Q in Ex. eapply IH; eauto.
        * (* a verbatim copy *)
          cbn [image_ok] in Img1. apply andb_prop in Img1. destruct Img1 as [Img1 _].
          apply opt_entry_eq_file in Img1. rewrite L0 in Img1. inv Img1.
          rewrite is_prefix_app_cancel in Ex'. rewrite Q, is_prefix_app_cancel in Ex.
          destruct (is_prefix r y && o_res orc fid)%bool; congruence.
  Qed.
End Sound.

(* Build equivalence in the integrated build model, for every final state that is a faithful image:
   whatever YAML parsing yields for the files ([docs]) and whatever the non-path directives of the
   kustomization files are ([dirs]), the tree read from the destination builds to the same output as
   the tree read from the source. *)
Theorem mirror_build_eq orc scope nd s0 s' :
  good_path scope = true -> good_path nd = true -> fs_wf s0 -> fs_wf s' ->
  mirror_ok orc scope nd s0 s' = true ->
  forall fuel fuel' r t t', good_path r = true ->
    read_tree orc fuel s' (nd ++ r) = Some t' ->
    read_tree orc fuel' s0 (scope ++ r) = Some t ->
    forall nonstr docs dirs o,
      Pipeline.build nonstr o (to_ptree docs dirs t') = Pipeline.build nonstr o (to_ptree docs dirs t).
Proof.
  intros Gsc Gnd W0 W' M fuel fuel' r t t' Gr H' H nonstr docs dirs o.
  rewrite (mirror_read_eq orc scope nd s0 s' Gsc Gnd W0 M fuel fuel' r t t' Gr H' H). reflexivity.
Qed.

(* ---- non-vacuity: corpus/C18/file-before-root.json ---- *)
Definition ex4_fs : fs :=
  [ (["s"], EDir); (["s"; "t"], EDir); (["s"; "t"; "base"], EDir);
    (["s"; "t"; "base"; "b.yaml"], EFile (CRaw 1));
    (["s"; "t"; "base"; "extra"], EDir);
    (["s"; "t"; "base"; "extra"; "ns.yaml"], EFile (CRaw 2));
    (["s"; "t"; "base"; "kustomization.yaml"], EFile (CRaw 3));
    (["s"; "t"; "kustomization.yaml"], EFile (CRaw 4)) ].

Definition ex4_res (l : list string) : kust :=
  mkKust None [] [] [] [] l [] [] [] [] None [] [] [] [] [] [] [].

Definition ex4_orc : oracles :=
  mkOrc (fun id => if N.eqb id 4 then Some (ex4_res ["base/extra/ns.yaml"; "base"])
                   else if N.eqb id 3 then Some (ex4_res ["b.yaml"]) else None)
        (fun id => N.eqb id 1 || N.eqb id 2) (fun _ => []) (fun _ => false).

Definition ex4_final : fs :=
  w_fs (fst (run_localize ex4_orc (fun _ c => match c with x :: _ => fst x | [] => 0 end) 8
                          "/s/t" "/s" "/new" None ex4_fs)).

Example ex4_equiv :
  mirror_ok ex4_orc ["s"] ["new"] ex4_fs ex4_final = true /\
  read_tree ex4_orc 8 ex4_fs ["s"; "t"] = Some (RDir 4 [RFile 2; RDir 3 [RFile 1]]) /\
  read_tree ex4_orc 8 ex4_final ["new"; "t"] = Some (RDir 4 [RFile 2; RDir 3 [RFile 1]]).
Proof. vm_compute. repeat split; reflexivity. Qed.
