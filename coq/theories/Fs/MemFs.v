(* kyaml/filesys/fsnode.go: the in-memory file system (a tree without links).
   Definitions only; proofs are in Fs/MemFsProofs.v.

   A directory is an association list name -> node (Go: map[string]*fsNode; names are unique
   there, the model takes the first match).  Names are legal file names (isLegalFileNameForCreation:
   [a-zA-Z0-9-_.:]+, not ".", no ".." inside); theorems state this as [wf_mnode]. *)
From KV Require Export Fs.Path.

Inductive mnode : Type :=
| MFile (content : string)
| MDir (entries : list (string * mnode)).

Fixpoint m_lookup (name : string) (es : list (string * mnode)) : option mnode :=
  match es with
  | [] => None
  | (k, n) :: t => if String.eqb k name then Some n else m_lookup name t
  end.

Definition m_is_dir (n : mnode) : bool := match n with MDir _ => true | _ => false end.

(* findIt on the components of the cleaned query path, left to right:
   - a missing entry makes every later step return (nil, nil)           -> Ok None
   - a step taken from a file is the error "'%s' is not a directory"    -> Err *)
Fixpoint m_walk (cur : mnode) (cs : list string) : res (option mnode) :=
  match cs with
  | [] => Ok (Some cur)
  | c :: cs' =>
      match cur with
      | MFile _ => Err
      | MDir es =>
          match m_lookup c es with
          | None => Ok None
          | Some n => m_walk n cs'
          end
      end
  end.

(* cleanQueryPath: filepath.Clean(StripLeadingSeps(path)) *)
Definition clean_query (p : string) : string := clean (strip_leading_seps p).

(* fsNode.Find on the root node of MakeFsInMemory() (nilParentName = "/").
   Result: the node together with the component list that reached it (= node.Path()). *)
Definition m_find (root : mnode) (p : string) : res (option (list string * mnode)) :=
  if negb (m_is_dir root) then Err
  else if String.eqb p "" then Ok None
  else if String.eqb p sep || String.eqb p "." then Ok (Some ([], root))
  else
    let cs := raw_comps (clean_query p) in
    match m_walk root cs with
    | Ok (Some n) => Ok (Some (cs, n))
    | Ok None => Ok None
    | Err => Err
    | Panic => Panic
    | Diverge => Diverge
    end.

(* fsNode.CleanedAbs: (ConfirmedDir, file name) *)
Definition m_cleaned_abs (root : mnode) (p : string) : res (string * string) :=
  match m_find root p with
  | Ok (Some (cs, MDir _)) => Ok (abs_of cs, "")
  | Ok (Some (cs, MFile _)) => Ok (abs_of (removelast cs), last cs "")
  | Ok None => Err                                    (* notExistError *)
  | Err => Err
  | Panic => Panic
  | Diverge => Diverge
  end.

(* fsNode.ReadFile *)
Definition m_read_file (root : mnode) (p : string) : res string :=
  match m_find root p with
  | Ok (Some (_, MFile c)) => Ok c
  | Ok (Some (_, MDir _)) => Err                      (* cannot read content from non-file *)
  | Ok None => Err
  | Err => Err
  | Panic => Panic
  | Diverge => Diverge
  end.

(* fsNode.IsDir / Exists *)
Definition m_is_dir_path (root : mnode) (p : string) : bool :=
  match m_find root p with Ok (Some (_, MDir _)) => true | _ => false end.
Definition m_exists (root : mnode) (p : string) : bool :=
  match m_find root p with Ok (Some _) => true | _ => false end.

(* ---- vocabulary of the theorems: the file system read directly by component lists ---- *)

(* the node at a list of names, walking through directories only *)
Fixpoint m_at (cur : mnode) (cs : list string) : option mnode :=
  match cs with
  | [] => Some cur
  | c :: cs' =>
      match cur with
      | MDir es => match m_lookup c es with Some n => m_at n cs' | None => None end
      | MFile _ => None
      end
  end.

(* all directories of the tree, as name lists from the top (the tree itself first) *)
Fixpoint m_dirs (n : mnode) : list (list string) :=
  match n with
  | MFile _ => []
  | MDir es =>
      [] :: (fix go (l : list (string * mnode)) : list (list string) :=
               match l with
               | [] => []
               | (k, x) :: t => (map (cons k) (m_dirs x) ++ go t)%list
               end) es
  end.

(* every entry name is a legal name (recursively) *)
Fixpoint wf_mnode (n : mnode) : bool :=
  match n with
  | MFile _ => true
  | MDir es =>
      (fix go (l : list (string * mnode)) : bool :=
         match l with
         | [] => true
         | (k, x) :: t => good_name k && wf_mnode x && go t
         end) es
  end.

(* same tree shape and names, file contents arbitrary *)
Fixpoint m_same_shape (a b : mnode) {struct a} : bool :=
  match a, b with
  | MFile _, MFile _ => true
  | MDir es, MDir es' =>
      (fix go (l l' : list (string * mnode)) : bool :=
         match l, l' with
         | [], [] => true
         | (k, x) :: t, (k', x') :: t' => String.eqb k k' && m_same_shape x x' && go t t'
         | _, _ => false
         end) es es'
  | _, _ => false
  end.
