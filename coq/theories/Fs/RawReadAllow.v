(* C05: the hand-justified allow-list for raw file-system access in the packages reachable from
   api/krusty (the generated table is Gen/RawReads.v, produced by translate/rawreads.go).

   A site is (package, enclosing function, callee, number of references).  Every generated site must
   appear here with the same count; a new raw read — or one more in a listed function — breaks
   [Gen_rawreads_ok].  Entries are keyed by function, not by line: moving code does not matter.

   Classes:
   - Loader      the one sanctioned read: FileLoader.Load, after the load restrictor (Fs/Loader.v).
   - FsImpl      kyaml/filesys itself: the implementations of FileSystem (fsOnDisk forwards to os.*,
                 FileSystemOrOnDisk forwards to the wrapped FileSystem).  They are what the interface
                 methods counted at the other sites resolve to.
   - NoCaller    a function that reads a file given by its caller, and that nothing in the scanned
                 packages references (the translator lists every reference to such a wrapper as a further
                 "via" site, transitively, so "no caller" is checked by the table itself):
                 types.Kustomization.FixKustomizationPreMarshalling (kustomize edit fix),
                 kyaml/openapi.parseOpenAPI <- SchemaFromFile / DefinitionRefs (cmd/config),
                 kyaml/yaml.ReadFile <- UpdateFile.
   - PkgIO       kyaml/kio's package reader (LocalPackageReader / LocalPackageReadWriter): used by
                 kyaml/runfn only when RunFns.Path / FunctionPaths are set; the function plugin of
                 kustomize (api/internal/plugins/fnplugin) runs RunFns on an in-memory Input, and only
                 when function plugins are enabled (PluginConfig, off in krusty.MakeDefaultOptions).
                 ("type …" sites: a value of the reader type is built there.)
   - Exec        program execution / Go plugin loading: git clone (only for resources that are remote
                 URLs), Helm (only with HelmConfig.Enabled), exec / Go / container function plugins
                 (only with PluginRestrictionsNone or enabled function plugins).  Generated trees of
                 the C05 search never enable them; they are outside the root-only guarantee by design. *)
From KV Require Import Base.Prelude.
Open Scope string_scope.

Inductive rr_class := Loader | FsImpl | NoCaller | PkgIO | Exec.

Definition raw_read_allowed : list (string * string * string * N * rr_class) := [
  ("api/internal/loader", "FileLoader.Load", "filesys.FileSystem.ReadFile", 1%N, Loader);

  ("kyaml/filesys", "FileSystemOrOnDisk.Glob", "filesys.FileSystem.Glob", 1%N, FsImpl);
  ("kyaml/filesys", "FileSystemOrOnDisk.Open", "filesys.FileSystem.Open", 1%N, FsImpl);
  ("kyaml/filesys", "FileSystemOrOnDisk.ReadDir", "filesys.FileSystem.ReadDir", 1%N, FsImpl);
  ("kyaml/filesys", "FileSystemOrOnDisk.ReadFile", "filesys.FileSystem.ReadFile", 1%N, FsImpl);
  ("kyaml/filesys", "FileSystemOrOnDisk.Walk", "filesys.FileSystem.Walk", 1%N, FsImpl);
  ("kyaml/filesys", "fsOnDisk.Glob", "path/filepath.Glob", 1%N, FsImpl);
  ("kyaml/filesys", "fsOnDisk.Open", "os.Open", 1%N, FsImpl);
  ("kyaml/filesys", "fsOnDisk.ReadDir", "os.ReadDir", 1%N, FsImpl);
  ("kyaml/filesys", "fsOnDisk.ReadFile", "os.ReadFile", 1%N, FsImpl);
  ("kyaml/filesys", "fsOnDisk.Walk", "path/filepath.Walk", 1%N, FsImpl);

  ("api/types", "Kustomization.FixKustomizationPreMarshalling", "filesys.FileSystem.ReadFile", 1%N, NoCaller);
  ("kyaml/openapi", "parseOpenAPI", "os.ReadFile", 1%N, NoCaller);
  ("kyaml/openapi", "DefinitionRefs", "via kyaml/openapi.parseOpenAPI", 1%N, NoCaller);
  ("kyaml/openapi", "SchemaFromFile", "via kyaml/openapi.parseOpenAPI", 1%N, NoCaller);
  ("kyaml/yaml", "ReadFile", "os.ReadFile", 1%N, NoCaller);
  ("kyaml/yaml", "UpdateFile", "via kyaml/yaml.ReadFile", 1%N, NoCaller);

  ("kyaml/kio", "<package-level>", "type kyaml/kio.LocalPackageReader", 1%N, PkgIO);
  ("kyaml/kio", "LocalPackageReadWriter.Read", "type kyaml/kio.LocalPackageReader", 1%N, PkgIO);
  ("kyaml/kio", "LocalPackageReadWriter.Read", "via kyaml/kio.LocalPackageReader.Read", 1%N, PkgIO);
  ("kyaml/kio", "LocalPackageReader.Read", "filesys.FileSystemOrOnDisk.Walk", 1%N, PkgIO);
  ("kyaml/kio", "LocalPackageReader.Read", "via kyaml/kio.LocalPackageReader.readFile", 1%N, PkgIO);
  ("kyaml/kio", "LocalPackageReader.Read", "via kyaml/kio.LocalPackageReader.shouldSkipDir", 1%N, PkgIO);
  ("kyaml/kio", "LocalPackageReader.Read", "via kyaml/kio.ignoreFilesMatcher.readIgnoreFile", 1%N, PkgIO);
  ("kyaml/kio", "LocalPackageReader.readFile", "filesys.FileSystemOrOnDisk.Open", 1%N, PkgIO);
  ("kyaml/kio", "LocalPackageReader.shouldSkipDir", "via kyaml/kio.ignoreFilesMatcher.readIgnoreFile", 1%N, PkgIO);
  ("kyaml/kio", "ignoreFilesMatcher.readIgnoreFile", "filesys.FileSystemOrOnDisk.Open", 1%N, PkgIO);
  ("kyaml/runfn", "RunFns.getFunctionsFromFunctionPaths", "type kyaml/kio.LocalPackageReader", 1%N, PkgIO);
  ("kyaml/runfn", "RunFns.getNodesAndFilters", "type kyaml/kio.LocalPackageReadWriter", 3%N, PkgIO);

  ("api/internal/builtins", "HelmChartInflationGeneratorPlugin.runHelmCommand", "os/exec.Command", 1%N, Exec);
  ("api/internal/git", "gitRunner.run", "os/exec.Command", 1%N, Exec);
  ("api/internal/plugins/execplugin", "ExecPlugin.invokePlugin", "os/exec.Command", 1%N, Exec);
  ("api/internal/plugins/loader", "Loader.loadGoPlugin", "plugin.Open", 1%N, Exec);
  ("kyaml/fn/runtime/exec", "Filter.Run", "os/exec.Command", 1%N, Exec)
].

Definition site_eqb (s : string * string * string * N) (a : string * string * string * N * rr_class) : bool :=
  match s, a with
  | (p, f, c, n), (p', f', c', n', _) =>
      String.eqb p p' && String.eqb f f' && String.eqb c c' && N.eqb n n'
  end.

Definition site_allowed (s : string * string * string * N) : bool :=
  existsb (site_eqb s) raw_read_allowed.

(* the sites of the sanctioned class *)
Definition loader_sites : list (string * string * string * N * rr_class) :=
  filter (fun a => match a with (_, _, _, _, Loader) => true | _ => false end) raw_read_allowed.
