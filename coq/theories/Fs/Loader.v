(* api/internal/loader: fileloader.go (FileLoader.Load / New / errIfArgEqualOrHigher, NewLoader),
   loadrestrictions.go (RestrictionRootOnly / RestrictionNone), kyaml/filesys.ConfirmDir.
   Definitions only; proofs are in Fs/LoaderProofs.v.

   The file system is a record of the two operations the loader uses; Fs/MemFs.v and Fs/DiskFs.v
   provide the two instances.  What the loader delegates to the network or to git is a parameter:
   [remote] = loader.IsRemoteFile, [http_get] the HTTP client, [is_repo] = "git.NewRepoSpecFromURL
   succeeds", [git_new] = newLoaderAtGitClone (with its cycle check).  The theorems are about paths
   for which [remote]/[is_repo] are false, i.e. about local files. *)
From KV Require Export Fs.Path Fs.MemFs Fs.DiskFs.

Record fsops : Type := mkFs {
  f_cleaned_abs : string -> res (string * string);   (* FileSystem.CleanedAbs *)
  f_read_file : string -> res string                 (* FileSystem.ReadFile *)
}.

Definition mem_ops (root : mnode) : fsops :=
  mkFs (m_cleaned_abs root) (m_read_file root).
Definition disk_ops (root : dnode) (cwd : string) : fsops :=
  mkFs (d_cleaned_abs root cwd) (d_read_file root cwd).

Inductive restriction := RootOnly | RestrNone.

(* FileLoader: root (a ConfirmedDir), the roots of the referrer chain (nearest first), the restrictor *)
Record loader : Type := mkLoader {
  l_root : string;
  l_refs : list string;
  l_restr : restriction
}.

Definition l_stack (l : loader) : list string := l_root l :: l_refs l.

(* filesys.ConfirmDir *)
Definition confirm_dir (fs : fsops) (p : string) : res string :=
  if String.eqb p "" then Err
  else
    match f_cleaned_abs fs p with
    | Ok (d, f) => if String.eqb f "" then Ok d else Err
    | Err => Err
    | Panic => Panic
    | Diverge => Diverge
    end.

(* RestrictionRootOnly: the path handed to ReadFile *)
Definition restrict_root_only (fs : fsops) (root p : string) : res string :=
  match f_cleaned_abs fs p with
  | Ok (d, f) =>
      if String.eqb f "" then Err                         (* must resolve to a file *)
      else if negb (cd_has_prefix d root) then Err        (* security; file is not in or below root *)
      else Ok (cd_join d f)
  | Err => Err
  | Panic => Panic
  | Diverge => Diverge
  end.

Definition restrict (fs : fsops) (l : loader) (p : string) : res string :=
  match l_restr l with
  | RootOnly => restrict_root_only fs (l_root l) p
  | RestrNone => Ok p
  end.

(* the path FileLoader.Load hands to the restrictor *)
Definition load_path (l : loader) (p : string) : string :=
  if is_abs p then p else cd_join (l_root l) p.

(* errIfArgEqualOrHigher over the whole referrer chain *)
Fixpoint arg_equal_or_higher (cand : string) (stack : list string) : bool :=
  match stack with
  | [] => false
  | r :: t => cd_has_prefix r cand || arg_equal_or_higher cand t
  end.

Section Loader.
  Variable remote : string -> bool.
  Variable http_get : string -> res string.
  Variable is_repo : string -> bool.
  Variable git_new : loader -> string -> res loader.

  (* FileLoader.Load *)
  Definition load (fs : fsops) (l : loader) (p : string) : res string :=
    if remote p then http_get p
    else
      match restrict fs l (load_path l p) with
      | Ok q => f_read_file fs q
      | Err => Err
      | Panic => Panic
      | Diverge => Diverge
      end.

  (* FileLoader.New (no git repository anywhere on the chain: errIfGitContainmentViolation is vacuous) *)
  Definition new_root (fs : fsops) (l : loader) (p : string) : res loader :=
    if String.eqb p "" then Err
    else if is_repo p then git_new l p
    else if is_abs p then Err
    else
      match confirm_dir fs (cd_join (l_root l) p) with
      | Ok d =>
          if arg_equal_or_higher d (l_stack l) then Err     (* cycle detected *)
          else Ok (mkLoader d (l_stack l) (l_restr l))
      | Err => Err
      | Panic => Panic
      | Diverge => Diverge
      end.

  (* The recursion of a build over bases (KustTarget.accumulateResources / accumulateComponents ->
     accumulateDirectory -> subKt … ): [bases root] are the directory references listed by the
     kustomization rooted at [root]; each is turned into a new loader by New and visited in turn.
     Explicit fuel (one unit per nesting level); result: the roots visited, in order.  A reference that
     New refuses fails the build. *)
  Fixpoint visit_roots (fuel : nat) (fs : fsops) (bases : string -> list string) (l : loader)
    : res (list string) :=
    match fuel with
    | O => Diverge
    | S f =>
        do rs <- (fix go (ps : list string) : res (list string) :=
                    match ps with
                    | [] => Ok []
                    | p :: t =>
                        match new_root fs l p with
                        | Ok l2 => do a <- visit_roots f fs bases l2; do b <- go t; Ok (a ++ b)%list
                        | Err => Err
                        | Panic => Panic
                        | Diverge => Diverge
                        end
                    end) (bases (l_root l));
        Ok (l_root l :: rs)
    end.

  (* the same recursion with its trace: the roots visited up to the first refusal, and the outcome class *)
  Fixpoint visit_trace (fuel : nat) (fs : fsops) (bases : string -> list string) (l : loader)
    : list string * oclass :=
    match fuel with
    | O => ([], CDiverge)
    | S f =>
        let (rs, c) :=
          (fix go (ps : list string) : list string * oclass :=
             match ps with
             | [] => ([], COk)
             | p :: t =>
                 match new_root fs l p with
                 | Ok l2 =>
                     let (a, ca) := visit_trace f fs bases l2 in
                     match ca with
                     | COk => let (b, cb) := go t in ((a ++ b)%list, cb)
                     | _ => (a, ca)
                     end
                 | r => ([], class_of r)
                 end
             end) (bases (l_root l)) in
        (l_root l :: rs, c)
    end.

  (* loader.NewLoader: the loader krusty.Run starts from *)
  Definition new_loader (fs : fsops) (r : restriction) (target : string) : res loader :=
    if is_repo target then git_new (mkLoader "" [] r) target
    else
      match confirm_dir fs target with
      | Ok d => Ok (mkLoader d [] r)
      | Err => Err
      | Panic => Panic
      | Diverge => Diverge
      end.
End Loader.
