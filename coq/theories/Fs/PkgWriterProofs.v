(* Proofs about KV.Fs.PkgWriter: package writes and deletions stay inside the package directory. *)
From KV Require Import Fs.Path Fs.PathProofs Fs.PkgWriter.
From Coq Require Import ZifyNat.
Local Open Scope list_scope.

Ltac inv H := inversion H; subst; clear H.

(* ---------- a ".." that is kept at the bottom of a relative clean stays there ---------- *)

Lemma clean_stack_bottom cs : forall s,
  exists s', clean_stack false (s ++ [".."]) cs = s' ++ [".."].
Proof.
  induction cs as [|c cs IH]; intros s; cbn [clean_stack]; [eauto|].
  destruct (is_skip c); [apply IH|].
  destruct (is_dotdot c) eqn:Dd.
  - apply String.eqb_eq in Dd; subst c.
    destruct s as [|t s1]; cbn [app].
    + change ([".."; ".."]) with ([".."] ++ [".."]). apply IH.
    + destruct (is_dotdot t).
      * change (".." :: t :: s1 ++ [".."]) with ((".." :: t :: s1) ++ [".."]). apply IH.
      * apply IH.
  - change (c :: s ++ [".."]) with ((c :: s) ++ [".."]). apply IH.
Qed.

Lemma canon_snoc_dotdot s : canon_comps (s ++ [".."]) = false.
Proof. rewrite canon_app. cbn. rewrite andb_false_r. reflexivity. Qed.

(* if the relative clean of [cs] on top of good names [s0] keeps no "..", the same components cleaned
   on top of any deeper stack give the same result on top of that stack *)
Lemma clean_stack_no_underflow r cs : forall s0 base,
  Forall (fun c => no_slash c = true) cs ->
  canon_comps s0 = true -> canon_comps (clean_stack false s0 cs) = true ->
  clean_stack r (s0 ++ base) cs = clean_stack false s0 cs ++ base.
Proof.
  induction cs as [|c cs IH]; intros s0 base Hns Hs0 Hres; [reflexivity|].
  inv Hns. cbn [clean_stack] in *.
  destruct (is_skip c) eqn:Sk; [apply IH; auto|].
  destruct (is_dotdot c) eqn:Dd.
  - destruct s0 as [|t s0'].
    + exfalso. destruct (clean_stack_bottom cs []) as [s' E]. cbn [app] in E.
      apply String.eqb_eq in Dd; subst c. rewrite E, canon_snoc_dotdot in Hres. discriminate.
    + rewrite canon_cons in Hs0. apply andb_true_iff in Hs0 as [Ht Hs0'].
      rewrite (good_name_not_dotdot _ Ht) in *. cbn [app]. rewrite (good_name_not_dotdot _ Ht).
      apply IH; auto.
  - change (c :: s0 ++ base) with ((c :: s0) ++ base). apply IH; auto.
    rewrite canon_cons, Hs0. unfold good_name. rewrite Sk, Dd, H1. reflexivity.
Qed.

(* ---------- no ".." in the cleaned annotation: nothing climbs ---------- *)

Lemma str_contains_prefix needle s : has_prefix needle s = true -> str_contains needle s = true.
Proof. intros H. destruct s; cbn; rewrite H; reflexivity. Qed.

Lemma join_dotdot_contains l : str_contains ".." (join_with sep (".." :: l)) = true.
Proof. apply str_contains_prefix. destruct l; reflexivity. Qed.

Lemma rel_clean_no_dotdot cs :
  Forall (fun c => no_slash c = true) cs ->
  str_contains ".." (render false (rev (clean_stack false [] cs))) = false ->
  canon_comps (clean_stack false [] cs) = true.
Proof.
  intros Hns Hc.
  assert (Hs : rel_shape (rev (clean_stack false [] cs))).
  { apply clean_stack_rel_shape; auto. exists 0, []. split; reflexivity. }
  destruct Hs as (k & good & E & Hg).
  destruct k as [|k].
  - cbn in E. rewrite <- (rev_involutive (clean_stack false [] cs)), E, canon_rev. auto.
  - exfalso. rewrite E in Hc. cbn [repeat app render] in Hc.
    rewrite join_dotdot_contains in Hc. discriminate.
Qed.

Lemma raw_comps_join_abs pc ann :
  canon_comps pc = true ->
  clean_stack true [] (raw_comps (abs_of pc ++ sep ++ ann)%string) = clean_stack true (rev pc) (raw_comps ann).
Proof.
  intros Hpc. unfold raw_comps. cbn [sep append]. rewrite split_on_app_sep, clean_stack_app.
  f_equal. destruct pc as [|c pc'] eqn:E; [reflexivity|]. rewrite <- E in *.
  fold (raw_comps (abs_of pc)). rewrite raw_comps_abs_of by (auto; subst; congruence).
  cbn [clean_stack is_skip String.eqb orb]. rewrite clean_stack_good by auto. apply app_nil_r.
Qed.

Lemma join2_abs_of pc b :
  join2 (abs_of pc) b = abs_of (rev (clean_stack true [] (raw_comps (abs_of pc ++ sep ++ b)%string))).
Proof. reflexivity. Qed.

(* the output path of an accepted annotation is the package path followed by good names *)
Theorem pkg_out_path_confined pc ann p :
  canon_comps pc = true ->
  pkg_out_path (abs_of pc) ann = Ok p ->
  exists rest, canon_comps rest = true /\ p = abs_of (pc ++ rest).
Proof.
  intros Hpc H. unfold pkg_out_path in H.
  destruct (is_abs ann) eqn:A; [discriminate|].
  destruct (str_contains ".." (clean ann)) eqn:C; [discriminate|]. injection H as <-.
  change (String slash (join_with sep pc ++ String "/" ann)) with (abs_of pc ++ sep ++ ann)%string.
  rewrite raw_comps_join_abs by auto.
  destruct ann as [|a ann'].
  - exists []. split; [reflexivity|]. cbn. rewrite rev_involutive, app_nil_r. reflexivity.
  - set (cs := raw_comps (String a ann')) in *.
    assert (Hns : Forall (fun c => no_slash c = true) cs) by apply split_on_no_slash.
    assert (Hc : canon_comps (clean_stack false [] cs) = true).
    { apply rel_clean_no_dotdot; auto. unfold clean in C. rewrite A in C. exact C. }
    pose proof (clean_stack_no_underflow true cs [] (rev pc) Hns eq_refl Hc) as E.
    cbn [app] in E. rewrite E. exists (rev (clean_stack false [] cs)).
    split; [rewrite canon_rev; auto|]. rewrite rev_app_distr, rev_involutive. reflexivity.
Qed.

(* one resource: the file written and the directory created are the package or below it *)
Theorem pkg_write1_confined pc ann d f :
  canon_comps pc = true ->
  pkg_write1 (abs_of pc) ann = Ok (d, f) ->
  exists rest, rest <> [] /\ canon_comps rest = true /\
               f = abs_of (pc ++ rest) /\ d = abs_of (pc ++ removelast rest).
Proof.
  intros Hpc H. unfold pkg_write1 in H.
  destruct (String.eqb ann ""); [discriminate|].
  destruct (pkg_out_path (abs_of pc) ann) as [out| | |] eqn:P; try discriminate.
  destruct (pkg_out_path_confined pc ann out Hpc P) as (rest & Hr & ->).
  rewrite clean_abs_of in H by auto.
  destruct (String.eqb (abs_of (pc ++ rest)) (abs_of pc)) eqn:E; [discriminate|]. inv H.
  assert (Hne : rest <> []).
  { intros ->. rewrite app_nil_r, String.eqb_refl in E. discriminate. }
  exists rest. repeat split; auto.
  assert (Hsplit : pc ++ rest = (pc ++ removelast rest) ++ [last rest ""]).
  { rewrite <- app_assoc, <- app_removelast_last; auto. }
  rewrite Hsplit. apply dir_of_canon.
  - rewrite canon_app, Hpc. rewrite (app_removelast_last "" Hne), canon_app in Hr.
    apply andb_true_iff in Hr as [Hr1 _]. rewrite Hr1. reflexivity.
  - rewrite (app_removelast_last "" Hne), canon_app in Hr.
    apply andb_true_iff in Hr as [_ Hr2]. cbn in Hr2. rewrite andb_true_r in Hr2. auto.
Qed.

(* the same for the path that is actually written: whatever the annotations (present, empty, legacy
   only, missing) and whatever namespace / kind / name the default path is made from *)
Theorem pkg_write_res_confined pc r d f :
  canon_comps pc = true ->
  pkg_write_res (abs_of pc) r = Ok (d, f) ->
  exists rest, rest <> [] /\ canon_comps rest = true /\
               f = abs_of (pc ++ rest) /\ d = abs_of (pc ++ removelast rest).
Proof.
  intros Hpc H. unfold pkg_write_res in H.
  destruct (r_index r) as [[|c s]|]; try discriminate; eapply pkg_write1_confined; eauto.
Qed.

(* a batch: every target is the package path followed by good names *)
Theorem pkg_targets_confined pc anns ps :
  canon_comps pc = true ->
  pkg_targets (abs_of pc) anns = Ok ps ->
  Forall (fun p => exists rest, canon_comps rest = true /\ p = abs_of (pc ++ rest)) ps.
Proof.
  intros Hpc. revert ps. induction anns as [|a t IH]; intros ps H; cbn in H.
  - inv H. constructor.
  - destruct (pkg_out_path (abs_of pc) a) as [p| | |] eqn:P; try discriminate.
    destruct (pkg_targets (abs_of pc) t) as [ps'| | |]; try discriminate. inv H.
    constructor; auto. eapply pkg_out_path_confined; eauto.
Qed.

(* deletions: only files that were read, and — for the relative paths the reader records — inside the package *)
Lemma join2_rel_canon pc cs :
  canon_comps pc = true -> canon_comps cs = true -> cs <> [] ->
  join2 (abs_of pc) (join_with sep cs) = abs_of (pc ++ cs).
Proof.
  intros Hpc Hcs Hne.
  rewrite join2_abs_of. rewrite raw_comps_join_abs by auto. unfold raw_comps. rewrite split_join by (auto using canon_no_slash).
  rewrite clean_stack_good by auto. rewrite rev_app_distr, !rev_involutive. reflexivity.
Qed.

Theorem pkg_delete_confined pc read_files new_files p :
  canon_comps pc = true ->
  Forall rel_canon read_files ->
  In p (pkg_delete_set (abs_of pc) read_files new_files) ->
  exists f cs, In f read_files /\ str_in f new_files = false /\
               cs <> [] /\ canon_comps cs = true /\ p = abs_of (pc ++ cs).
Proof.
  intros Hpc Hr Hin. unfold pkg_delete_set in Hin.
  apply in_map_iff in Hin as (f & <- & Hf). apply filter_In in Hf as [Hf Hn].
  apply negb_true_iff in Hn.
  rewrite Forall_forall in Hr. destruct (Hr f Hf) as (cs & Hne & Hc & ->).
  exists (join_with sep cs), cs. repeat split; auto. apply join2_rel_canon; auto.
Qed.

(* sequences of Writes on one read-writer: whatever was written or refused before, every path deleted by
   any step is a file that was read from the package, below the package *)
Theorem rw_run_deletes_confined pc files steps ds p :
  canon_comps pc = true -> Forall rel_canon files ->
  In (Ok ds) (rw_run (abs_of pc) files steps) -> In p ds ->
  exists f cs, In f files /\ cs <> [] /\ canon_comps cs = true /\ p = abs_of (pc ++ cs).
Proof.
  intros Hpc Hf Hin Hp. unfold rw_run in Hin. apply in_map_iff in Hin as (anns & E & _).
  unfold rw_step in E. destruct (rw_accepts (abs_of pc) anns); [|discriminate]. inv E.
  destruct (pkg_delete_confined pc files anns p Hpc Hf Hp) as (f & cs & H1 & _ & H2 & H3 & H4).
  eauto 10.
Qed.

(* a refused Write deletes nothing and leaves the tracked files as they were (they are not part of the
   step's result at all: [rw_run] maps every step over the same [files]) *)
Lemma rw_step_refused pkg files anns :
  rw_accepts pkg anns = false -> rw_step pkg files anns = Err.
Proof. intros H. unfold rw_step. rewrite H. reflexivity. Qed.

(* ---------- the read-writer with its options ---------- *)

Lemma in_dedup x l : In x (dedup l) -> In x l.
Proof.
  induction l as [|a t IH]; cbn; auto. destruct (str_in a t); cbn; intros H; auto. destruct H; auto.
Qed.

Lemma in_read_paths o files f :
  In f (rw_read_paths o files) -> exists pf, In pf files /\ f = fst pf /\ snd pf <> [].
Proof.
  unfold rw_read_paths. intros H. apply in_flat_map in H as (pf & Hin & Hm).
  apply in_map_iff in Hm as (c & <- & Hc). exists pf. repeat split; auto. destruct (snd pf); [contradiction|discriminate].
Qed.

(* Full strength over the options: whatever OmitReaderAnnotations / KeepReaderAnnotations say and whatever
   path annotations the file contents carry, every path a Write deletes is the package path followed by the
   relative path of a file the reader opened (and that still yielded a resource) — and there is none at all
   with NoDeleteFiles. *)
Theorem rw_deletes_confined_options o pc files steps ds p :
  canon_comps pc = true -> Forall (fun pf => rel_canon (fst pf)) files ->
  In (Ok ds) (rw_run_o o (abs_of pc) files steps) -> In p ds ->
  o_nodelete o = false /\
  exists pf cs, In pf files /\ cs <> [] /\ canon_comps cs = true /\ fst pf = join_with sep cs /\ p = abs_of (pc ++ cs).
Proof.
  intros Hpc Hf Hin Hp. unfold rw_run_o in Hin. apply in_map_iff in Hin as (anns & E & _).
  unfold rw_step_o, rw_step in E. destruct (rw_accepts (abs_of pc) anns); [|discriminate]. inv E.
  unfold rw_tracked in Hp. destruct (o_nodelete o) eqn:ND.
  - unfold pkg_delete_set in Hp. cbn in Hp. contradiction.
  - split; [reflexivity|].
    unfold pkg_delete_set in Hp. apply in_map_iff in Hp as (f & <- & Hfl). apply filter_In in Hfl as [Hfl _].
    apply in_dedup in Hfl. destruct (in_read_paths _ _ _ Hfl) as (pf & Hpf & -> & _).
    rewrite Forall_forall in Hf. destruct (Hf pf Hpf) as (cs & Hne & Hc & E).
    exists pf, cs. repeat split; auto. rewrite E. apply join2_rel_canon; auto.
Qed.

Lemma rw_nodelete_no_deletes o pkg files anns ds :
  o_nodelete o = true -> rw_step_o o pkg files anns = Ok ds -> ds = [].
Proof.
  intros ND H. unfold rw_step_o, rw_step, rw_tracked in H. rewrite ND in H.
  destruct (rw_accepts pkg anns); [|discriminate]. inv H. reflexivity.
Qed.

(* non-vacuity *)
Example rw_options_example :
  rw_run_o (mkRwOpts true false false) "/pkg" [("a.yaml", [""; "../outside/secret.yaml"]); ("d/b.yaml", ["/etc/passwd"])]
           [["../x.yaml"]; ["a.yaml"]; []] =
  [Err; Ok ["/pkg/d/b.yaml"]; Ok ["/pkg/a.yaml"; "/pkg/d/b.yaml"]].
Proof. reflexivity. Qed.
