(* C18 — `kustomize localize` for LOCAL targets as a program over a file-system effect signature.
   Definitions only (proofs: Fs/LocalizeProofs.v).

   Anchors: api/internal/localizer/{localizer.go, locloader.go, util.go, builtinplugins.go},
            api/internal/loader/{fileloader.go, loadrestrictions.go}, api/internal/target/kusttarget.go
            (LoadKustFile), kyaml/filesys/{fsnode.go, confirmeddir.go, filesystem.go}.

   * [prog A]      free monad over [eff]; [Throw] carries Go's failure modes (error return,
                   log.Fatalf = process exit, log.Panicf = Go panic, fuel, outside the model).
   * [run]         interprets a program on the in-memory file system model [fs] (kyaml fsNode
                   semantics, including its quirks), with [fault : option nat] failing the i-th
                   file-system CALL without touching the state (a call that returns an error
                   returns one; Exists, which cannot, answers false),
                   and records the trace of effects (op, path, ok).
   * [chooser]     resolves Go's randomised map iteration (localizeNativeFields ranges over a map of
                   five fields, localizeBuiltinPlugins over a map of three): an arbitrary function of
                   the trace so far and the candidates.  Theorems quantify over all choosers.
   * oracles       YAML parsing is outside the model: files are [CRaw id] and the case supplies
                   what (types.Kustomization).Unmarshal / resmap.Factory.NewResMapFromBytes /
                   the plugin filter see in them.

   Outside the model (the program throws [XUnsupported] before performing any effect for the entry):
   remote targets/roots/files, i.e. any entry containing ':' or '@' or "github.com" (everything
   git.NewRepoSpecFromURL or loader.IsRemoteFile could accept contains one of them).
   Helm: helmCharts / helmGlobals / helmChartInflationGenerator and the HelmChartInflationGenerator
   plugin are modelled with LOCAL chart homes (copyChartHomeEntry / copyChartHome / copyDir).
   FileSystem.Walk is one effect returning the pre-order listing of the start node at that moment
   (the real walk reads directories lazily: identical unless the copy destination lies inside the
   directory being walked — newDir inside a chart home — which the harness does not send). *)
From KV Require Export Fs.LocPath.
From KV Require Export Gen.LocalizeTables.

(* ------------------------------------------------------------------ kustomization (path-bearing fields) *)

Record genargs := mkGen {
  g_env : string;               (* GeneratorArgs.EnvSource *)
  g_envs : list string;         (* EnvSources *)
  g_files : list string         (* FileSources, "key=path" or "path" *)
}.

Record kust := mkKust {
  k_openapi : option string;    (* OpenAPI["path"] when the key exists *)
  k_bases : list string;
  k_components : list string;
  k_configurations : list string;
  k_crds : list string;
  k_resources : list string;
  k_cmgens : list genargs;
  k_secgens : list genargs;
  k_helminfl : list (string * string);            (* HelmChartInflationGenerator[i]: (Values, ChartHome) *)
  k_helmcharts : list (string * list string);     (* HelmCharts[i]: (ValuesFile, AdditionalValuesFiles) *)
  k_helmglobals : option string;                  (* HelmGlobals.ChartHome when HelmGlobals is set *)
  k_patches : list string;      (* Patches[i].Path *)
  k_patches6902 : list string;  (* PatchesJson6902[i].Path *)
  k_psm : list string;          (* PatchesStrategicMerge entries (inline or file) *)
  k_replacements : list string; (* Replacements[i].Path *)
  k_generators : list string;
  k_transformers : list string;
  k_validators : list string
}.

(* how a path inside a built-in plugin is localized (builtinplugins.go) *)
Inductive prefkind := PFile | PFileSource | PK8s
  | PHome            (* chartHome of a HelmChartInflationGenerator plugin: copyChartHomeEntry *)
  | PHomeDefault.    (* that plugin without a chartHome key: copyChartHomeEntry(""), nothing rewritten *)

Inductive content :=
| CRaw (id : N)                                  (* bytes of source file #id *)
| CKust (id : N) (k : kust)                      (* yaml.Marshal of kustomization file #id with its path fields replaced *)
| CPlug (id : N) (paths : list string).          (* AsYaml of plugin file #id with its paths replaced *)

Record oracles := mkOrc {
  o_kust : N -> option kust;                     (* Unmarshal succeeds on file #id *)
  o_res : N -> bool;                             (* NewResMapFromBytes succeeds on file #id *)
  o_plug : N -> list (prefkind * string);        (* path references of plugin file #id, in filter order *)
  o_inline : string -> bool                      (* NewResMapFromBytes succeeds on the entry text itself *)
}.

(* ------------------------------------------------------------------ file system state (kyaml fsNode) *)

Inductive entry := EDir | EFile (c : content).

(* association list; the first binding of a path wins *)
Definition fs := list (cpath * entry).

Fixpoint lookup (p : cpath) (s : fs) : option entry :=
  match s with
  | [] => None
  | (q, e) :: s' => if cpath_eqb q p then Some e else lookup p s'
  end.

Definition fs_set (p : cpath) (e : entry) (s : fs) : fs := (p, e) :: s.

Definition fs_remove (p : cpath) (s : fs) : fs :=
  filter (fun qe => negb (is_prefix p (fst qe))) s.

Inductive found := FRoot | FNode (p : cpath) (e : entry) | FNone | FError.

(* fsNode.findIt on cleaned relative components, starting below [cur] (a directory) *)
Fixpoint find_walk (s : fs) (cur : cpath) (rest : list string) : found :=
  match rest with
  | [] => FNode cur EDir
  | x :: r =>
      match lookup (cur ++ [x])%list s with
      | None => FNone
      | Some (EFile c) => match r with [] => FNode (cur ++ [x])%list (EFile c) | _ => FError end
      | Some EDir => find_walk s (cur ++ [x])%list r
      end
  end.

(* fsNode.Find *)
Definition fs_find (s : fs) (p : string) : found :=
  if String.eqb p "" then FNone
  else if String.eqb p "/" || String.eqb p "." then FRoot
  else match query_comps p with
       | [] => FNone                           (* cleanQueryPath = "." : dir["."] is absent *)
       | c => find_walk s [] c
       end.

(* fsNode.addDir on cleaned relative components: mkdir -p; None = error *)
Fixpoint add_dirs (s : fs) (cur : cpath) (rest : list string) : option fs :=
  match rest with
  | [] => Some s
  | x :: r =>
      if String.eqb x ".." then None            (* "cannot add a directory above" (only at the root) *)
      else if negb (legal_name x) then None
      else match lookup (cur ++ [x])%list s with
           | Some EDir => add_dirs s (cur ++ [x])%list r
           | Some (EFile _) => None
           | None => add_dirs (fs_set (cur ++ [x])%list EDir s) (cur ++ [x])%list r
           end
  end.

(* fsNode.AddDir = Mkdir = MkdirAll *)
Definition fs_mkdir (s : fs) (p : string) : option fs := add_dirs s [] (query_comps p).

(* fsNode.AddFile = WriteFile *)
Definition fs_write (s : fs) (p : string) (c : content) : option fs :=
  let q := query_comps p in
  match rev q with
  | [] => None                                  (* name "." is illegal *)
  | name :: drev =>
      match add_dirs s [] (rev drev) with
      | None => None
      | Some s1 =>
          if negb (legal_name name) then None
          else match lookup q s1 with
               | Some EDir => Some s1            (* content stored on a directory node: invisible *)
               | _ => Some (fs_set q (EFile c) s1)
               end
      end
  end.

(* fsNode.RemoveAll *)
Definition fs_remove_all (s : fs) (p : string) : option fs :=
  match fs_find s p with
  | FError => None
  | FNone => Some s
  | FRoot => None                               (* "cannot remove a root node" *)
  | FNode q _ => Some (fs_remove q s)
  end.

(* fsNode.WalkMe: pre-order, children in sort.Strings order.  Children of [q] are the distinct last
   components of the bound paths directly below it. *)
Fixpoint insert_str (x : string) (l : list string) : list string :=
  match l with
  | [] => [x]
  | y :: t => if String.eqb x y then l else if String.ltb x y then x :: l else y :: insert_str x t
  end.

Definition child_names (s : fs) (q : cpath) : list string :=
  fold_right (fun (pe : cpath * entry) acc =>
                match rev (fst pe) with
                | name :: drev => if cpath_eqb (rev drev) q then insert_str name acc else acc
                | [] => acc
                end) [] s.

Fixpoint walk_list (fuel : nat) (s : fs) (q : cpath) : list (string * bool) :=
  match fuel with
  | O => []
  | S fuel' =>
      (show_abs q, true) ::
      flat_map (fun name =>
                  match lookup (q ++ [name])%list s with
                  | Some EDir => walk_list fuel' s (q ++ [name])%list
                  | Some (EFile _) => [(show_abs (q ++ [name])%list, false)]
                  | None => []
                  end) (child_names s q)
  end.

(* ------------------------------------------------------------------ effects *)

Inductive eff :=
| EExists (p : string)
| EMkdir (p : string)
| EMkdirAll (p : string)
| ECleanedAbs (p : string)
| EReadFile (p : string)
| EWriteFile (p : string) (c : content)
| ERemoveAll (p : string)
| EWalk (p : string)                           (* FileSystem.Walk: the listing; callbacks are separate effects *)
| EChoose (cands : list (nat * string)).       (* pseudo effect: Go map iteration order *)

Inductive eres :=
| RFail
| RUnit
| RBool (b : bool)
| RAbs (d : cpath) (f : string)
| RData (c : content)
| RList (l : list (string * bool))             (* (path, is directory) in visiting order *)
| RPick (n : nat).

Inductive exn := XErr | XFatal | XPanic | XDiverge | XUnsupported.

Inductive prog (A : Type) : Type :=
| Ret (a : A)
| Op (e : eff) (k : eres -> prog A)
| Throw (x : exn).
Arguments Ret {A} a.
Arguments Op {A} e k.
Arguments Throw {A} x.

Fixpoint pbind {A B} (m : prog A) (f : A -> prog B) : prog B :=
  match m with
  | Ret a => f a
  | Op e k => Op e (fun r => pbind (k r) f)
  | Throw x => Throw x
  end.

(* Go's `if err != nil { … }` on an error RETURN (fatal exits and panics are not catchable) *)
Fixpoint pcatch {A} (m : prog A) : prog (option A) :=
  match m with
  | Ret a => Ret (Some a)
  | Op e k => Op e (fun r => pcatch (k r))
  | Throw XErr => Ret None
  | Throw x => Throw x
  end.

(* Go's deferred recover in localizer.Run (since the repair 113a8f3): an error return AND a panic are
   intercepted (the cleanup runs, then the error is returned / the panic re-raised); a process exit
   (log.Fatalf) is not *)
Fixpoint ptry {A} (m : prog A) : prog (A + exn) :=
  match m with
  | Ret a => Ret (inl a)
  | Op e k => Op e (fun r => ptry (k r))
  | Throw XErr => Ret (inr XErr)
  | Throw XPanic => Ret (inr XPanic)
  | Throw x => Throw x
  end.

Notation "'dop' x <- m ; k" := (pbind m (fun x => k))
  (at level 200, x name, m at level 100, k at level 200, right associativity).

Fixpoint mapP {A B} (f : A -> prog B) (l : list A) : prog (list B) :=
  match l with
  | [] => Ret []
  | x :: t => dop y <- f x ; dop ys <- mapP f t ; Ret (y :: ys)
  end.

Definition op_unit (e : eff) : prog unit :=
  Op e (fun r => match r with RUnit => Ret tt | _ => Throw XErr end).

Definition op_bool (e : eff) : prog bool :=
  Op e (fun r => match r with RBool b => Ret b | _ => Ret false end).

(* ------------------------------------------------------------------ interpreter *)

Inductive opcode :=
  OExists | OMkdir | OMkdirAll | OCleanedAbs | OReadFile | OWriteFile | ORemoveAll | OWalk.

Record event := mkEv { ev_op : opcode; ev_path : string; ev_ok : bool }.

(* every file-system CALL is a fault point (the pseudo effect Choose is not a call) *)
Definition fallible (e : eff) : bool :=
  match e with EChoose _ => false | _ => true end.

(* what a failed call returns: an error — or, for the two calls that cannot report one
   (Exists: a failed stat reads as "no"), false *)
Definition fail_res (e : eff) : eres :=
  match e with EExists _ => RBool false | _ => RFail end.

Definition eff_op (e : eff) : opcode :=
  match e with
  | EExists _ => OExists | EMkdir _ => OMkdir | EMkdirAll _ => OMkdirAll
  | ECleanedAbs _ => OCleanedAbs | EReadFile _ => OReadFile | EWriteFile _ _ => OWriteFile
  | ERemoveAll _ => ORemoveAll | EWalk _ => OWalk | EChoose _ => OExists
  end.

Definition eff_path (e : eff) : string :=
  match e with
  | EExists p | EMkdir p | EMkdirAll p | ECleanedAbs p | EReadFile p
  | EWriteFile p _ | ERemoveAll p | EWalk p => p
  | EChoose _ => ""
  end.

Definition res_ok (r : eres) : bool :=
  match r with RFail => false | RBool b => b | _ => true end.

(* one effect on the in-memory file system (no fault) *)
Definition exec (e : eff) (s : fs) : fs * eres :=
  match e with
  | EExists p =>
      (s, RBool match fs_find s p with FRoot | FNode _ _ => true | _ => false end)
  | EMkdir p | EMkdirAll p =>
      match fs_mkdir s p with Some s' => (s', RUnit) | None => (s, RFail) end
  | ECleanedAbs p =>
      match fs_find s p with
      | FRoot => (s, RAbs [] "")
      | FNode q EDir => (s, RAbs q "")
      | FNode q (EFile _) => (s, RAbs (dir_c q) (base_c q))
      | _ => (s, RFail)
      end
  | EReadFile p =>
      match fs_find s p with
      | FNode _ (EFile c) => (s, RData c)
      | _ => (s, RFail)
      end
  | EWriteFile p c =>
      match fs_write s p c with Some s' => (s', RUnit) | None => (s, RFail) end
  | ERemoveAll p =>
      match fs_remove_all s p with Some s' => (s', RUnit) | None => (s, RFail) end
  | EWalk p =>
      match fs_find s p with
      | FRoot => (s, RList (walk_list (S (List.length s)) s []))
      | FNode q EDir => (s, RList (walk_list (S (List.length s)) s q))
      | FNode q (EFile _) => (s, RList [(show_abs q, false)])
      | _ => (s, RFail)
      end
  | EChoose _ => (s, RUnit)
  end.

(* the trace is kept newest-first *)
Record world := mkW { w_fs : fs; w_n : nat; w_trace : list event }.

Definition chooser := list event -> list (nat * string) -> nat.

Inductive outcome (A : Type) : Type :=
| OOk (a : A)
| OExn (x : exn).
Arguments OOk {A} a.
Arguments OExn {A} x.

Definition fault_hit (fault : option nat) (n : nat) : bool :=
  match fault with Some i => Nat.eqb i n | None => false end.

Definition step_world (fault : option nat) (e : eff) (w : world) : world * eres :=
  let hit := fallible e && fault_hit fault (w_n w) in
  let '(s', r) := if hit then (w_fs w, fail_res e) else exec e (w_fs w) in
  (mkW s' (if fallible e then S (w_n w) else w_n w)
       (mkEv (eff_op e) (eff_path e) (res_ok r) :: w_trace w), r).

Fixpoint run {A} (ch : chooser) (fault : option nat) (m : prog A) (w : world) : world * outcome A :=
  match m with
  | Ret a => (w, OOk a)
  | Throw x => (w, OExn x)
  | Op (EChoose cands) k => run ch fault (k (RPick (ch (w_trace w) cands))) w
  | Op e k => let '(w', r) := step_world fault e w in run ch fault (k r) w'
  end.

(* ------------------------------------------------------------------ the localizer *)

(* entries that git.NewRepoSpecFromURL / loader.IsRemoteFile might accept: not modelled *)
Definition remote_like (s : string) : bool :=
  str_contains_char ":"%char s || str_contains_char "@"%char s || str_contains "github.com" s.

Definition guard_local (s : string) : prog unit :=
  if remote_like s then Throw XUnsupported else Ret tt.

(* filesys.ConfirmDir *)
Definition confirm_dir (p : string) : prog cpath :=
  if String.eqb p "" then Throw XErr
  else Op (ECleanedAbs p) (fun r =>
         match r with
         | RAbs d f => if String.eqb f "" then Ret d else Throw XErr
         | _ => Throw XErr
         end).

Record largs := mkArgs { a_scope : cpath; a_newdir : cpath }.

(* localizer state: FileLoader root + referrer roots (innermost first) + destination *)
Record lcst := mkLc { lc_root : cpath; lc_anc : list cpath; lc_dst : cpath }.

(* the string Go passes to the file system for a file/root reference *)
Definition abs_of (root : cpath) (path : string) : string :=
  if is_abs path then path else show_abs (join_abs root path).

(* util.go cleanedRelativePath: log.Fatalf when CleanedAbs fails *)
Definition cleaned_relative_path (root : cpath) (file : string) : prog (list string) :=
  Op (ECleanedAbs (abs_of root file)) (fun r =>
    match r with
    | RAbs d f => Ret (rel_comps root (join_abs d f))
    | _ => Throw XFatal
    end).

Section Localizer.
  Variable orc : oracles.
  Variable A : largs.

  (* locloader.go Loader.Load over FileLoader.Load with RestrictionRootOnly (ll.local = true) *)
  Definition ldr_load (lc : lcst) (path : string) : prog content :=
    dop _ <- guard_local path ;
    let p := abs_of (lc_root lc) path in
    Op (ECleanedAbs p) (fun r =>
      match r with
      | RAbs d f =>
          if String.eqb f "" then Throw XErr                    (* must resolve to a file *)
          else if negb (has_prefix_c d (lc_root lc)) then Throw XErr   (* not in or below root *)
          else Op (EReadFile (show_abs (join_abs d f))) (fun r2 =>
            match r2 with
            | RData c =>
                dop cp <- cleaned_relative_path (lc_root lc) path ;
                let clean_abs := join_comps (lc_root lc) cp in
                if has_prefix_c (dir_c clean_abs) (a_newdir A) then Throw XErr
                else Ret c
            | _ => Throw XErr
            end)
      | _ => Throw XErr
      end).

  (* FileLoader.errIfArgEqualOrHigher over the referrer chain *)
  Definition cycle_with (cand : cpath) (roots : list cpath) : bool :=
    existsb (fun r => has_prefix_c r cand) roots.

  (* Loader.New over FileLoader.New: the new (confirmed) root *)
  Definition ldr_new (lc : lcst) (path : string) : prog cpath :=
    if String.eqb path "" then Throw XErr
    else
      dop _ <- guard_local path ;
      if is_abs path then Throw XErr
      else
        dop root <- confirm_dir (show_abs (join_abs (lc_root lc) path)) ;
        if cycle_with root (lc_root lc :: lc_anc lc) then Throw XErr
        else if negb (has_prefix_c root (a_scope A)) then Throw XErr
        else if has_prefix_c root (a_newdir A) then Throw XErr
        else Ret root.

  (* localizer.go localizeFileWithContent (local path) *)
  Definition loc_file_with_content (lc : lcst) (path : string) (c : content) : prog string :=
    dop lp <- cleaned_relative_path (lc_root lc) path ;
    let abs_path := join_comps (lc_dst lc) lp in
    dop _ <- op_unit (EMkdirAll (show_abs (dir_c abs_path))) ;
    dop _ <- op_unit (EWriteFile (show_abs abs_path) c) ;
    Ret (show_rel lp).

  (* localizeFile *)
  Definition loc_file (lc : lcst) (path : string) : prog string :=
    if String.eqb path "" then Ret ""
    else dop c <- ldr_load lc path ; loc_file_with_content lc path c.

  (* generators.ParseFileSource + localizeFileSource *)
  Definition loc_file_source (lc : lcst) (source : string) : prog string :=
    let n := count_char "="%char source in
    match n with
    | 0 => loc_file lc source
    | 1 =>
        match split_first "="%char source with
        | Some (key, file) =>
            if String.eqb key "" then Throw XErr
            else if String.eqb file "" then Throw XErr
            else dop lf <- loc_file lc file ; Ret (key ++ "=" ++ lf)
        | None => Throw XErr
        end
    | _ => Throw XErr
    end.

  (* localizeGenerator *)
  Definition loc_generator (lc : lcst) (g : genargs) : prog genargs :=
    dop e <- loc_file lc (g_env g) ;
    dop es <- mapP (loc_file lc) (g_envs g) ;
    dop fs <- mapP (loc_file_source lc) (g_files g) ;
    Ret (mkGen e es fs).

  Definition is_res (c : content) : bool :=
    match c with CRaw id => o_res orc id | _ => false end.

  (* loadK8sResource: is the entry a file path (true) or an inline resource (false)?  For a file
     the loaded content is returned too. *)
  Definition load_k8s (lc : lcst) (entry : string) : prog (option content) :=
    if o_inline orc entry then Ret None
    else
      dop c <- ldr_load lc entry ;
      if is_res c then Ret (Some c) else Throw XErr.

  (* localizeK8sResource *)
  Definition loc_k8s (lc : lcst) (entry : string) : prog string :=
    dop r <- load_k8s lc entry ;
    match r with
    | Some _ => loc_file lc entry
    | None => Ret entry
    end.

  (* copyDir's walk callback over the listing.  kyaml's in-memory WalkMe DROPS the error a
     directory's callback returns (it only looks at it for SkipDir) and carries on; a file's
     callback error aborts the walk. *)
  Fixpoint copy_entries (src dst : cpath) (l : list (string * bool)) : prog unit :=
    match l with
    | [] => Ret tt
    | (p, isdir) :: t =>
        let path_in_dst := join_comps dst (rel_comps src (query_comps p)) in
        if isdir then
          Op (EMkdirAll (show_abs path_in_dst)) (fun _ => copy_entries src dst t)
        else
          Op (EReadFile p) (fun r =>
            match r with
            | RData c =>
                dop _ <- op_unit (EWriteFile (show_abs path_in_dst) c) ;
                copy_entries src dst t
            | _ => Throw XErr
            end)
    end.

  (* copyDir *)
  Definition copy_dir (src dst : cpath) : prog unit :=
    Op (EWalk (show_abs src)) (fun r =>
      match r with
      | RList l => copy_entries src dst l
      | _ => Throw XErr
      end).

  (* copyChartHome *)
  Definition copy_chart_home (lc : lcst) (path : string) (clean : bool) : prog string :=
    let home := join_abs (lc_root lc) path in
    let rel := rel_comps (lc_root lc) home in          (* filepath.Rel(root, root.Join(path)) *)
    dop ex <- op_bool (EExists (show_abs home)) ;
    if negb ex then Ret (show_rel rel)                  (* may serve as untar destination *)
    else
      dop hroot <- ldr_new lc (show_rel rel) ;
      Op (ECleanedAbs (show_abs hroot)) (fun r =>
        match r with
        | RAbs cleaned f =>
            if negb (String.eqb f "") then Throw XPanic
            else
              let to_dst := if clean then rel_comps (lc_root lc) cleaned else rel in
              let d := join_comps (lc_dst lc) to_dst in
              dop ex2 <- op_bool (EExists (show_abs d)) ;
              if ex2 then Ret (show_rel to_dst)          (* "does not guarantee that we copied the entire directory" *)
              else dop _ <- copy_dir cleaned d ; Ret (show_rel to_dst)
        | _ => Throw XPanic                              (* log.Panicf: unable to confirm validated directory *)
        end).

  (* copyChartHomeEntry *)
  Definition copy_chart_home_entry (lc : lcst) (entry : string) : prog string :=
    let path := if String.eqb entry "" then "charts" else entry in
    if is_abs path then Throw XErr
    else
      let is_default := cpath_eqb (join_abs (lc_root lc) path) (join_abs (lc_root lc) "charts") in
      dop lp <- copy_chart_home lc path (negb is_default) ;
      Ret (if String.eqb entry "" then "" else lp).

  Definition loc_pref (lc : lcst) (kp : prefkind * string) : prog string :=
    match fst kp with
    | PFile => loc_file lc (snd kp)
    | PFileSource => loc_file_source lc (snd kp)
    | PK8s => loc_k8s lc (snd kp)
    | PHome => copy_chart_home_entry lc (snd kp)
    | PHomeDefault => copy_chart_home_entry lc ""
    end.

  (* localizeHelmInflationGenerator, one entry *)
  Definition loc_helm_infl (lc : lcst) (h : string * string) : prog (string * string) :=
    dop v <- loc_file lc (fst h) ;
    dop d <- copy_chart_home_entry lc (snd h) ;
    Ret (v, d).

  (* localizeHelmCharts, one entry *)
  Definition loc_helm_chart (lc : lcst) (h : string * list string) : prog (string * list string) :=
    dop v <- loc_file lc (fst h) ;
    dop vs <- mapP (loc_file lc) (snd h) ;
    Ret (v, vs).

  (* one generators/transformers/validators entry (localizeBuiltinPlugins loop body).
     Inline plugin entries are outside the model. *)
  Definition loc_plugin_entry (lc : lcst) (entry : string) : prog string :=
    dop r <- load_k8s lc entry ;
    match r with
    | Some (CRaw id) =>
        dop newp <- mapP (loc_pref lc) (o_plug orc id) ;
        loc_file_with_content lc entry (CPlug id newp)
    | Some _ => Throw XUnsupported
    | None => Throw XUnsupported
    end.

  (* Go ranges over a map of fields: the chooser picks which remaining non-empty field is next.
     [fields]: (id, entries, localizing function). Result: id -> localized entries. *)
  Definition field_sig (lc : lcst) (f : nat * list string) : nat * string :=
    (fst f, abs_of (lc_root lc) (hd "" (snd f))).

  Fixpoint remove_field (id : nat) (l : list (nat * list string)) : list (nat * list string) :=
    match l with
    | [] => []
    | f :: t => if Nat.eqb (fst f) id then t else f :: remove_field id t
    end.

  Definition find_field_id (id : nat) (l : list (nat * list string)) : option (list string) :=
    match find (fun f => Nat.eqb (fst f) id) l with Some f => Some (snd f) | None => None end.

  Fixpoint range_fields (n : nat) (lc : lcst) (locfn : nat -> string -> prog string)
           (remaining : list (nat * list string)) (done : list (nat * list string))
    : prog (list (nat * list string)) :=
    match n, remaining with
    | _, [] => Ret done
    | O, _ => Ret done
    | S n', f0 :: _ =>
        Op (EChoose (List.map (field_sig lc) remaining)) (fun r =>
          let id := match r with
                    | RPick i => match find_field_id i remaining with Some _ => i | None => fst f0 end
                    | _ => fst f0
                    end in
          let entries := match find_field_id id remaining with Some e => e | None => [] end in
          dop out <- mapP (locfn id) entries ;
          range_fields n' lc locfn (remove_field id remaining) ((id, out) :: done))
    end.

  Definition nonempty_fields (l : list (nat * list string)) : list (nat * list string) :=
    filter (fun f => match snd f with [] => false | _ => true end) l.

  Definition field_result (id : nat) (orig : list string) (done : list (nat * list string)) : list string :=
    match find_field_id id done with Some l => l | None => orig end.

  (* konfig.RecognizedKustomizationFileNames(), regenerated from /repo on every run *)
  Definition kust_names : list string := gen_kust_file_names.

  (* target.LoadKustFile: all three names are tried; errors (not exits) are swallowed *)
  Fixpoint load_kust_file (lc : lcst) (names : list string) (acc : list (string * content))
    : prog (list (string * content)) :=
    match names with
    | [] => Ret acc
    | n :: t =>
        dop r <- pcatch (ldr_load lc n) ;
        load_kust_file lc t (match r with Some c => (acc ++ [(n, c)])%list | None => acc end)
    end.

  (* localize / localizeRoot / localizeResource; [fuel] bounds the nesting of roots *)
  Fixpoint localize (fuel : nat) (lc : lcst) : prog unit :=
    match fuel with
    | O => Throw XDiverge
    | S fuel' =>
        (* localizeRoot *)
        let loc_root := fun (path : string) =>
          if String.eqb path "" then Ret ""
          else
            dop root <- ldr_new lc path ;
            (* filesys.ConfirmDir(lc.fSys, ldr.Root()): log.Panicf on error *)
            Op (ECleanedAbs (show_abs root)) (fun r =>
              match r with
              | RAbs root' f =>
                  if negb (String.eqb f "") then Throw XPanic
                  else
                    let lp := rel_comps (lc_root lc) root' in
                    let new_dst := join_comps (lc_dst lc) lp in
                    dop _ <- op_unit (EMkdirAll (show_abs new_dst)) ;
                    dop _ <- localize fuel' (mkLc root' (lc_root lc :: lc_anc lc) new_dst) ;
                    Ret (show_rel lp)
              | _ => Throw XPanic
              end) in
        (* localizeResource *)
        let loc_resource := fun (path : string) =>
          dop r <- pcatch (dop c <- ldr_load lc path ;
                       if is_res c then loc_file_with_content lc path c else Throw XErr) ;
          match r with
          | Some lp => Ret lp
          | None => loc_root path
          end in
        (* load *)
        dop found <- load_kust_file lc kust_names [] ;
        match found with
        | [(kname, c)] =>
            match (match c with
                   | CRaw id => match o_kust orc id with Some k => Some (id, k) | None => None end
                   | _ => None
                   end) with
            | None => Throw XErr
            | Some (id, k) =>
                (* localizeNativeFields *)
                dop oa <- match k_openapi k with
                      | Some p => dop lp <- loc_file lc p ; Ret (Some lp)
                      | None => Ret None
                      end ;
                let fields := [(0, k_bases k); (1, k_components k); (2, k_configurations k);
                               (3, k_crds k); (4, k_resources k)] in
                let locfn := fun (id : nat) =>
                  match id with
                  | 0 | 1 => loc_root
                  | 2 | 3 => loc_file lc
                  | _ => loc_resource
                  end in
                dop done <- range_fields 5 lc locfn (nonempty_fields fields) [] ;
                dop cms <- mapP (loc_generator lc) (k_cmgens k) ;
                dop secs <- mapP (loc_generator lc) (k_secgens k) ;
                dop hinfl <- mapP (loc_helm_infl lc) (k_helminfl k) ;
                dop hcharts <- mapP (loc_helm_chart lc) (k_helmcharts k) ;
                dop hglob <- match k_helmglobals k with
                             | Some home => dop d <- copy_chart_home_entry lc home ; Ret (Some d)
                             | None =>
                                 match k_helmcharts k with
                                 | [] => Ret None
                                 | _ => dop _ <- copy_chart_home_entry lc "" ; Ret None
                                 end
                             end ;
                dop pats <- mapP (loc_file lc) (k_patches k) ;
                dop p69 <- mapP (loc_file lc) (k_patches6902 k) ;
                dop psm <- mapP (loc_k8s lc) (k_psm k) ;
                dop repl <- mapP (loc_file lc) (k_replacements k) ;
                (* localizeBuiltinPlugins *)
                let pfields := [(0, k_generators k); (1, k_transformers k); (2, k_validators k)] in
                dop pdone <- range_fields 3 lc (fun _ => loc_plugin_entry lc) (nonempty_fields pfields) [] ;
                let k' := mkKust oa
                            (field_result 0 (k_bases k) done)
                            (field_result 1 (k_components k) done)
                            (field_result 2 (k_configurations k) done)
                            (field_result 3 (k_crds k) done)
                            (field_result 4 (k_resources k) done)
                            cms secs hinfl hcharts hglob pats p69 psm repl
                            (field_result 0 (k_generators k) pdone)
                            (field_result 1 (k_transformers k) pdone)
                            (field_result 2 (k_validators k) pdone) in
                op_unit (EWriteFile (show_abs (join_abs (lc_dst lc) kname)) (CKust id k'))
            end
        | _ => Throw XErr                      (* none, or more than one kustomization file *)
        end
    end.
End Localizer.

(* util.go defaultNewDir for a local target *)
Definition default_new_dir (root : cpath) : string :=
  match root with
  | [] => gen_dst_prefix
  | _ => gen_dst_prefix ++ "-" ++ base_c root
  end.

(* localizer.Run for a local target, part 1a — NewLoader up to the existence test of the destination:
   ConfirmDir(target), establishScope, Exists(rawNewDir).  Only read-only effects.
   Returns (scope, target root, raw destination argument). *)
Definition prelude_checks (target scope newdir : string) : prog (cpath * cpath * string) :=
  dop _ <- guard_local target ;
  dop troot <- confirm_dir target ;
  (* establishScope *)
  dop sc <- (if String.eqb scope "" then Ret troot
             else dop s <- confirm_dir scope ;
                  if has_prefix_c troot s then Ret s else Throw XErr) ;
  (* createNewDir *)
  let raw := if String.eqb newdir "" then default_new_dir troot else newdir in
  dop ex <- op_bool (EExists raw) ;
  if ex then Throw XErr else Ret (sc, troot, raw).

(* part 1b — createNewDir: Mkdir, ConfirmDir; since d268200 the cleanup removes rawNewDir
   (it used to remove "", the zero value of newDir). *)
Definition prelude_create (x : cpath * cpath * string) : prog (cpath * cpath * cpath) :=
  let '(sc, troot, raw) := x in
  dop _ <- op_unit (EMkdir raw) ;
  dop r <- pcatch (confirm_dir raw) ;
  match r with
  | None => Op (ERemoveAll raw) (fun _ => Throw XErr)
  | Some nd => Ret (sc, troot, nd)
  end.

Definition localize_prelude (target scope newdir : string) : prog (cpath * cpath * cpath) :=
  dop x <- prelude_checks target scope newdir ;
  prelude_create x.

(* part 2 — Run after NewLoader: MkdirAll(dst) (since d268200 with cleanup on failure),
   localize(), cleanup on error and — since 113a8f3 — on panic.  Returns args.NewDir.String(). *)
Definition localize_tail (orc : oracles) (fuel : nat) (x : cpath * cpath * cpath) : prog string :=
  let '(sc, troot, nd) := x in
  let args := mkArgs sc nd in
  let dst := join_comps nd (rel_comps sc troot) in
  Op (EMkdirAll (show_abs dst)) (fun r0 =>
    match r0 with
    | RUnit =>
        dop r2 <- ptry (localize orc args fuel (mkLc troot [] dst)) ;
        match r2 with
        | inl _ => Ret (show_abs nd)
        | inr x => Op (ERemoveAll (show_abs nd)) (fun _ => Throw x)   (* x = XErr: error return; XPanic: re-panic *)
        end
    | _ => Op (ERemoveAll (show_abs nd)) (fun _ => Throw XErr)
    end).

Definition localize_run (orc : oracles) (fuel : nat) (target scope newdir : string) : prog string :=
  dop x <- localize_prelude target scope newdir ;
  localize_tail orc fuel x.

Definition world0 (s : fs) : world := mkW s 0 [].

Definition run_localize (orc : oracles) (ch : chooser) (fuel : nat) (target scope newdir : string)
           (fault : option nat) (s : fs) : world * outcome string :=
  run ch fault (localize_run orc fuel target scope newdir) (world0 s).
