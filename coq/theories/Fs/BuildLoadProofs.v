(* Proofs about KV.Fs.BuildLoad: every read of the model build is confined to the root of its layer. *)
From KV Require Import Fs.Path Fs.PathProofs Fs.MemFs Fs.MemFsProofs Fs.DiskFs Fs.DiskFsProofs
  Fs.Loader Fs.LoaderProofs Fs.BuildLoad.
Local Open Scope list_scope.

Ltac inv H := inversion H; subst; clear H.

Section Generic.
  Variable is_repo : string -> bool.
  Variable git_new : loader -> string -> res loader.
  Variables T D Docs : Type.
  Variable mk_file : Docs -> T.
  Variable mk_dir : string -> D -> list T -> T.
  Variable parse_kust : string -> res (D * list string).
  Variable parse_docs : string -> res Docs.
  Variable fs : fsops.
  (* an invariant of loaders and what it guarantees for a read *)
  Variable inv : loader -> Prop.
  Variable good : loader -> string -> string -> Prop.
  Hypothesis Hload : forall l p q b,
    inv l -> restrict fs l (load_path l p) = Ok q -> f_read_file fs q = Ok b -> good l q b.
  Hypothesis Hnew : forall l p l', inv l -> new_root is_repo git_new fs l p = Ok l' -> inv l'.

  Definition ev_ok (e : read_ev) : Prop :=
    exists l0, inv l0 /\ ev_root e = l_root l0 /\ good l0 (ev_path e) (ev_bytes e).

  Lemma load_ev_ok l p e : inv l -> load_ev fs l p = Ok e -> ev_ok e.
  Proof.
    intros Hi H. unfold load_ev in H.
    destruct (restrict fs l (load_path l p)) as [q| | |] eqn:R; try discriminate.
    destruct (f_read_file fs q) as [b| | |] eqn:F; try discriminate. inv H.
    exists l. cbn. repeat split; auto. eapply Hload; eauto.
  Qed.

  Theorem load_tree_reads_ok fuel : forall l t evs,
    inv l -> load_tree_gen T D Docs mk_file mk_dir is_repo git_new parse_kust parse_docs fuel fs l = Ok (t, evs) ->
    Forall ev_ok evs.
  Proof.
    induction fuel as [|f IH]; intros l t evs Hi H; [discriminate|].
    cbn [load_tree_gen] in H.
    destruct (load_ev fs l kust_file) as [ke| | |] eqn:K; try discriminate. cbn [bind] in H.
    destruct (parse_kust (ev_bytes ke)) as [kd| | |]; try discriminate. cbn [bind] in H.
    match type of H with bind (?G (snd kd)) _ = _ => set (go := G) in * end.
    assert (HG : forall ps ents es, go ps = Ok (ents, es) -> Forall ev_ok es).
    { induction ps as [|p ps IHp]; intros ents es Hg.
      - cbn in Hg. inv Hg. constructor.
      - cbn [go] in Hg. fold go in Hg.
        match type of Hg with bind ?X _ = _ => destruct X as [[t1 e1]| | |] eqn:Here; try discriminate end.
        cbn [bind] in Hg. destruct (go ps) as [[ts es2]| | |] eqn:Rest; try discriminate. cbn [bind fst snd] in Hg.
        inv Hg. apply Forall_app. split; [|eapply IHp; eauto].
        destruct (load_ev fs l p) as [e| | |] eqn:L; try discriminate.
        + destruct (parse_docs (ev_bytes e)); try discriminate. cbn [bind] in Here. inv Here.
          constructor; [|constructor]. eapply load_ev_ok; eauto.
        + destruct (new_root is_repo git_new fs l p) as [l2| | |] eqn:N; try discriminate.
          eapply IH; [eapply Hnew; eauto|exact Here]. }
    destruct (go (snd kd)) as [[ents es]| | |] eqn:G; try discriminate. cbn [bind fst snd] in H. inv H.
    constructor; [eapply load_ev_ok; eauto|eapply HG; eauto].
  Qed.
End Generic.

(* ---------- instances ---------- *)

Section Instances.
  Variable is_repo : string -> bool.
  Variable git_new : loader -> string -> res loader.
  Variable parse_kust : string -> res (pdirs * list string).
  Variable parse_docs : string -> res (list node).
  Hypothesis Hlocal : forall p, is_repo p = false.

  Definition never_remote (_ : string) : bool := false.
  Definition no_http (_ : string) : res string := Err.

  (* loaders of a local root-only build: restrictor RootOnly, canonical root *)
  Definition linv (l : loader) : Prop :=
    l_restr l = RootOnly /\ exists rc, canon_comps rc = true /\ l_root l = abs_of rc.

  Definition mem_good (m : mnode) (l : loader) (q b : string) : Prop :=
    exists rc cs, l_root l = abs_of rc /\ q = abs_of cs /\ m_at m cs = Some (MFile b) /\
                  list_prefix rc (removelast cs) = true.

  Definition disk_good (root : dnode) (l : loader) (q b : string) : Prop :=
    exists rc phys, l_root l = abs_of rc /\ q = abs_of phys /\ d_at root phys = Some (DFile b) /\
                    list_prefix rc (removelast phys) = true.

  Lemma load_of_parts fs l p q b :
    restrict fs l (load_path l p) = Ok q -> f_read_file fs q = Ok b ->
    Loader.load never_remote no_http fs l p = Ok b.
  Proof. intros R F. unfold Loader.load, never_remote. rewrite R. exact F. Qed.

  Lemma linv_new_mem m l p l' :
    wf_mnode m = true -> linv l -> new_root is_repo git_new (mem_ops m) l p = Ok l' -> linv l'.
  Proof.
    intros Hwf [Hr _] H. destruct (new_root_no_cycle _ _ _ _ _ _ (Hlocal p) H) as (_ & _ & Hr' & C & _).
    split; [congruence|]. destruct (mem_confirm_dir m _ _ Hwf C) as (cs & es & E & Hc & _). eauto.
  Qed.

  Lemma linv_new_disk root cwd l p l' :
    is_dir_node root -> wf_dnode root = true -> linv l ->
    new_root is_repo git_new (disk_ops root cwd) l p = Ok l' -> linv l'.
  Proof.
    intros Hd Hwf [Hr _] H. destruct (new_root_no_cycle _ _ _ _ _ _ (Hlocal p) H) as (_ & _ & Hr' & C & _).
    split; [congruence|]. destruct (disk_confirm_dir root cwd _ _ Hd Hwf C) as (cs & es & E & Hc & _). eauto.
  Qed.

  (* In-memory FS: every read the model build issues hands ReadFile the canonical name of an existing file
     in or below the root of the layer that references it, and gets that file's bytes. *)
  Theorem mem_build_reads_confined m fuel l t evs :
    wf_mnode m = true -> linv l ->
    load_tree is_repo git_new parse_kust parse_docs fuel (mem_ops m) l = Ok (t, evs) ->
    Forall (fun e => exists l0, linv l0 /\ ev_root e = l_root l0 /\ mem_good m l0 (ev_path e) (ev_bytes e)) evs.
  Proof.
    intros Hwf Hi H.
    eapply (load_tree_reads_ok is_repo git_new _ _ _ PFile PDir parse_kust parse_docs (mem_ops m) linv (mem_good m)); eauto.
    - intros l0 p q b [Hr (rc & Hc & Hroot)] R F.
      destruct (mem_load_confined never_remote no_http m l0 p b rc Hwf Hc Hroot Hr eq_refl (load_of_parts _ _ _ _ _ R F))
        as (cs & R' & Ha & Hp).
      rewrite R in R'. inv R'. exists rc, cs. auto.
    - intros l0 p l' Hi0 N. eapply linv_new_mem; eauto.
  Qed.

  Theorem disk_build_reads_confined root cwd fuel l t evs :
    is_dir_node root -> wf_dnode root = true -> linv l ->
    load_tree is_repo git_new parse_kust parse_docs fuel (disk_ops root cwd) l = Ok (t, evs) ->
    Forall (fun e => exists l0, linv l0 /\ ev_root e = l_root l0 /\ disk_good root l0 (ev_path e) (ev_bytes e)) evs.
  Proof.
    intros Hd Hwf Hi H.
    eapply (load_tree_reads_ok is_repo git_new _ _ _ PFile PDir parse_kust parse_docs (disk_ops root cwd) linv (disk_good root)); eauto.
    - intros l0 p q b [Hr (rc & Hc & Hroot)] R F.
      destruct (disk_load_confined never_remote no_http root cwd l0 p b rc Hd Hwf Hc Hroot Hr eq_refl (load_of_parts _ _ _ _ _ R F))
        as (phys & R' & Ha & Hp).
      rewrite R in R'. inv R'. exists rc, phys. auto.
    - intros l0 p l' Hi0 N. eapply linv_new_disk; eauto.
  Qed.

  (* the loader a build starts with satisfies the invariant *)
  Lemma linv_start_mem m target l :
    wf_mnode m = true -> new_loader is_repo git_new (mem_ops m) RootOnly target = Ok l -> linv l.
  Proof.
    intros Hwf H. unfold new_loader in H. rewrite Hlocal in H.
    destruct (confirm_dir (mem_ops m) target) as [d| | |] eqn:C; try discriminate. inv H.
    split; [reflexivity|]. destruct (mem_confirm_dir m _ _ Hwf C) as (cs & es & E & Hc & _). cbn. eauto.
  Qed.

  (* … so for the whole model build: all its reads are confined (the pipeline itself has no file system) *)
  Theorem mem_model_build_reads_confined nonstr o m fuel target out evs :
    wf_mnode m = true ->
    model_build is_repo git_new parse_kust parse_docs nonstr o fuel (mem_ops m) target = Ok (out, evs) ->
    Forall (fun e => exists l0, linv l0 /\ ev_root e = l_root l0 /\ mem_good m l0 (ev_path e) (ev_bytes e)) evs.
  Proof.
    intros Hwf H. unfold model_build in H.
    destruct (new_loader is_repo git_new (mem_ops m) RootOnly target) as [l| | |] eqn:NL; try discriminate. cbn [bind] in H.
    destruct (load_tree is_repo git_new parse_kust parse_docs fuel (mem_ops m) l) as [[t es]| | |] eqn:LT; try discriminate.
    cbn [bind fst snd] in H. destruct (build nonstr o t); try discriminate. cbn [bind] in H. inv H.
    eapply mem_build_reads_confined; eauto. eapply linv_start_mem; eauto.
  Qed.
End Instances.
