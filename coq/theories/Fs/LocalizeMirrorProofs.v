(* C18 — a successful localize run ends in a state that is a faithful image of the source
   ([mirror_ok]), proved for the resources-only fragment: every file the YAML oracle reads as a
   kustomization has no path-bearing field besides `resources`.  Together with
   Fs/LocalizeBuildProofs.mirror_build_eq this closes the build-equivalence theorem without the
   per-run check of Corr/C18.v. *)
From KV Require Import Fs.LocPath Fs.LocPathProofs Fs.Localize Fs.LocalizeProofs.
From KV Require Import Fs.LocalizeBuild Fs.LocalizeBuildProofs.
From KV Require Res.Pipeline.
From Coq Require Import Lia.

Local Open Scope list_scope.

Ltac inv H := inversion H; subst; clear H.

(* add_dirs binds only unbound extensions, and binds them to directories *)
Lemma add_dirs_lookup_dir : forall rest s cur s' p,
  add_dirs s cur rest = Some s' ->
  lookup p s' = lookup p s \/
  (lookup p s = None /\ lookup p s' = Some EDir /\
   exists k, 0 < k <= List.length rest /\ p = cur ++ firstn k rest).
Proof.
  induction rest as [|x r IH]; intros s cur s' p H; cbn in H.
  - inv H. auto.
  - destruct (String.eqb x ".."); [discriminate|]. destruct (legal_name x); [|discriminate]. cbn in H.
    destruct (lookup (cur ++ [x]) s) as [[|c]|] eqn:L; try discriminate.
    + destruct (IH _ _ _ p H) as [E|(E & E' & k & Hk & ->)]; auto.
      right. repeat split; auto. exists (S k). split; [cbn; lia|]. cbn. rewrite <- app_assoc. reflexivity.
    + destruct (IH _ _ _ p H) as [E|(E & E' & k & Hk & ->)].
      * rewrite lookup_set in E. destruct (cpath_eqb (cur ++ [x]) p) eqn:Eq; auto.
        apply cpath_eqb_eq in Eq; subst. right. repeat split; auto.
        exists 1. split; [cbn; lia|]. reflexivity.
      * rewrite lookup_set in E. destruct (cpath_eqb (cur ++ [x]) ((cur ++ [x]) ++ firstn k r)); [discriminate|].
        right. repeat split; auto. exists (S k). split; [cbn; lia|]. cbn. rewrite <- app_assoc. reflexivity.
Qed.

Lemma firstn_app_ge {A} (a b : list A) k : List.length a <= k -> firstn k (a ++ b) = a ++ firstn (k - List.length a) b.
Proof. intros H. rewrite firstn_app. rewrite firstn_all2 by lia. reflexivity. Qed.

Lemma len_removelast {A} (l : list A) : l <> [] -> List.length l = S (List.length (removelast l)).
Proof.
  induction l as [|x l IH]; intros H; [congruence|].
  destruct l as [|y l]; [reflexivity|]. cbn [removelast List.length] in *. rewrite IH by discriminate. reflexivity.
Qed.

Lemma firstn_removelast {A} (l : list A) k : k < List.length l -> firstn k (removelast l) = firstn k l.
Proof.
  revert k; induction l as [|x l IH]; intros k H; [cbn in H; lia|].
  destruct l as [|y l]; [cbn in H; assert (k = 0) by lia; subst; reflexivity|].
  destruct k; [reflexivity|]. cbn [removelast firstn]. f_equal. apply IH. cbn in *. lia.
Qed.

Section Mirror.
  Variable orc : oracles.
  Variable sc nd : cpath.
  Variable s0 : fs.
  Hypothesis Gsc : good_path sc = true.
  Hypothesis Gnd : good_path nd = true.
  (* the source side of the theorem's domain *)
  Hypothesis HA : ancestors_dirs nd s0.
  Hypothesis HD1 : is_prefix nd sc = false.
  Hypothesis HD2 : is_prefix sc nd = false.
  Hypothesis HPC : forall p e k, lookup p s0 = Some e -> 0 < k < List.length p -> lookup (firstn k p) s0 = Some EDir.
  Hypothesis HR0 : lookup [] s0 = None.
  Hypothesis HFrag : forall id k, o_kust orc id = Some k -> resources_only k = true.
  Hypothesis HSep : forall id, o_res orc id = true -> o_kust orc id = None.

  Definition img (x : cpath) (e : entry) : Prop := image_ok orc sc nd s0 x e = true.
  Definition mirror (s : fs) : Prop := forall x e, lookup (nd ++ x) s = Some e -> img x e.
  Definition Inv2 (w : world) : Prop := Inv nd s0 w /\ mirror (w_fs w).
  Definition triple2 {A} (m : prog A) (Q : A -> Prop) : Prop :=
    forall ch fault w w' out,
      Inv2 w -> run ch fault m w = (w', out) -> Inv2 w' /\ (forall a, out = OOk a -> Q a).

  Lemma outside y : is_prefix nd (sc ++ y) = false.
  Proof.
    destruct (is_prefix nd (sc ++ y)) eqn:E; auto.
    destruct (is_prefix_comparable _ _ _ E (is_prefix_app sc y)) as [C|C]; congruence.
  Qed.

  Lemma cur_is_s0 w y : Inv nd s0 w -> lookup (sc ++ y) (w_fs w) = lookup (sc ++ y) s0.
  Proof. intros (_ & _ & F). apply F; auto. apply outside. Qed.

  (* ---- combinators ---- *)
  Lemma t2_ret {A} (a : A) (Q : A -> Prop) : Q a -> triple2 (Ret a) Q.
  Proof. intros HQ ch fault w w' out I H. cbn in H. inv H. split; auto. intros a' E; inv E; auto. Qed.
  Lemma t2_throw {A} x (Q : A -> Prop) : triple2 (Throw x) Q.
  Proof. intros ch fault w w' out I H. cbn in H. inv H. split; auto. intros a' E; inv E. Qed.
  Lemma t2_bind {A B} (m : prog A) (f : A -> prog B) Q R :
    triple2 m Q -> (forall a, Q a -> triple2 (f a) R) -> triple2 (pbind m f) R.
  Proof.
    intros Hm Hf ch fault w w' out I H. rewrite run_bind in H.
    destruct (run ch fault m w) as [w1 [a|x]] eqn:E.
    - destruct (Hm _ _ _ _ _ I E) as [I1 HQ]. eapply Hf; eauto.
    - inv H. destruct (Hm _ _ _ _ _ I E) as [I1 _]. split; auto. intros a E'; inv E'.
  Qed.
  Lemma t2_conseq {A} (m : prog A) (Q R : A -> Prop) :
    triple2 m Q -> (forall a, Q a -> R a) -> triple2 m R.
  Proof. intros Hm HQR ch fault w w' out I H. destruct (Hm _ _ _ _ _ I H) as [I1 HQ]. split; auto. Qed.
  Lemma t2_pcatch {A} (m : prog A) Q :
    triple2 m Q -> triple2 (pcatch m) (fun o => forall a, o = Some a -> Q a).
  Proof.
    intros Hm ch fault w w' out I H. rewrite run_pcatch in H.
    destruct (run ch fault m w) as [w1 [a|x]] eqn:E; destruct (Hm _ _ _ _ _ I E) as [I1 HQ].
    - inv H. split; auto. intros o Eo; inv Eo. intros a' Ea; inv Ea. auto.
    - destruct x; inv H; split; auto; intros o Eo; inv Eo; intros a' Ea; inv Ea.
  Qed.
  Lemma t2_ptry {A} (m : prog A) Q :
    triple2 m Q -> triple2 (ptry m) (fun o => forall a, o = inl a -> Q a).
  Proof.
    intros Hm ch fault w w' out I H. rewrite run_ptry in H.
    destruct (run ch fault m w) as [w1 [a|x]] eqn:E; destruct (Hm _ _ _ _ _ I E) as [I1 HQ].
    - inv H. split; auto. intros o Eo; inv Eo. intros a' Ea; inv Ea. auto.
    - destruct x; inv H; split; auto; intros o Eo; inv Eo; intros a' Ea; inv Ea.
  Qed.
  Lemma t2_mapP {A B} (f : A -> prog B) (P : A -> B -> Prop) (l : list A) :
    (forall x, triple2 (f x) (P x)) -> triple2 (mapP f l) (fun ys => Forall2 P l ys).
  Proof.
    intros Hf. induction l as [|x t IH]; cbn [mapP].
    - apply t2_ret; constructor.
    - eapply t2_bind; [apply Hf|]. intros y Py.
      eapply t2_bind; [apply IH|]. intros ys Pys. apply t2_ret; constructor; auto.
  Qed.
  Lemma t2_choose {A} cands (k : eres -> prog A) Q :
    (forall r, triple2 (k r) Q) -> triple2 (Op (EChoose cands) k) Q.
  Proof. intros Hk ch fault w w' out I H. rewrite run_choose in H. eapply Hk; eauto. Qed.

  (* ---- steps ---- *)
  Definition dirs_ok (xt : cpath) : Prop := forall k, k <= List.length xt -> img (firstn k xt) EDir.

  Lemma mirror_after_add_dirs s q xt s' :
    Inv nd s0 (mkW s 0 []) \/ True ->
    mirror s -> (forall p, is_prefix nd p = false -> lookup p s = lookup p s0) ->
    q = nd ++ xt -> dirs_ok xt -> add_dirs s [] q = Some s' -> mirror s'.
  Proof.
    intros _ M F -> D H x e L.
    destruct (add_dirs_lookup_dir _ _ _ _ (nd ++ x) H) as [E|(E & E' & k & Hk & Ek)].
    - rewrite E in L. auto.
    - rewrite E' in L. inv L. cbn in Ek.
      destruct (Nat.lt_ge_cases k (List.length nd)) as [Lt|Ge].
      + (* a proper prefix of newDir: it exists already *)
        exfalso. assert (List.length (nd ++ x) = k).
        { rewrite Ek, firstn_length, app_length. rewrite app_length in Hk. lia. }
        rewrite app_length in H0. lia.
      + rewrite firstn_app_ge in Ek by auto. apply app_inv_head in Ek. subst x.
        apply D. rewrite app_length in Hk. lia.
  Qed.

  Lemma frame_of w : Inv nd s0 w -> forall p, is_prefix nd p = false -> lookup p (w_fs w) = lookup p s0.
  Proof. intros (_ & _ & F). apply F; auto. Qed.

  Lemma step2_ro fault e w : read_only e = true -> Inv2 w -> Inv2 (fst (step_world fault e w)).
  Proof.
    intros R [I M]. destruct (step_read_only nd s0 fault e w R I) as [I1 E]. split; auto. rewrite E. auto.
  Qed.

  Lemma step2_mkdir fault e p xt w :
    (e = EMkdir p \/ e = EMkdirAll p) -> query_comps p = nd ++ xt -> dirs_ok xt ->
    Inv2 w -> Inv2 (fst (step_world fault e w)).
  Proof.
    intros He Q D [I M]. split.
    - eapply step_mkdir; eauto. rewrite Q. apply is_prefix_app.
    - destruct (step_mkdir_cases fault e p w He) as [[_ K]|[_ K]].
      + unfold fs_mkdir in K. rewrite Q in K.
        eapply (mirror_after_add_dirs (w_fs w) (nd ++ xt) xt); eauto. apply frame_of; auto.
      + rewrite K. auto.
  Qed.

  Lemma removelast_app_ne {X} (a b : list X) : b <> [] -> removelast (a ++ b) = a ++ removelast b.
  Proof. intros H. apply removelast_app; auto. Qed.

  Lemma step2_write fault p c x w :
    query_comps p = nd ++ x -> x <> [] -> dirs_ok (removelast x) -> img x (EFile c) ->
    Inv2 w -> Inv2 (fst (step_world fault (EWriteFile p c) w)).
  Proof.
    intros Q Hne D Ic [I M]. split.
    - eapply step_write; eauto. rewrite Q. apply is_prefix_app.
    - unfold step_world. destruct (fallible (EWriteFile p c) && fault_hit fault (w_n w))%bool; [cbn; auto|].
      cbn [exec]. unfold fs_write. rewrite Q.
      destruct (rev (nd ++ x)) as [|name drev] eqn:R; cbn; auto.
      assert (Qd : rev drev = nd ++ removelast x).
      { rewrite <- removelast_app_ne by auto. rewrite <- (rev_involutive (nd ++ x)), R. cbn.
        rewrite removelast_last. reflexivity. }
      destruct (add_dirs (w_fs w) [] (rev drev)) as [s1|] eqn:A1; cbn; auto.
      destruct (legal_name name); cbn; auto.
      assert (M1 : mirror s1).
      { eapply (mirror_after_add_dirs (w_fs w) (rev drev) (removelast x)); eauto. apply frame_of; auto. }
      destruct (lookup (nd ++ x) s1) as [[|c']|] eqn:L; cbn; auto;
        intros x' e' L'; rewrite lookup_set in L';
        (destruct (cpath_eqb (nd ++ x) (nd ++ x')) eqn:Eq;
         [apply cpath_eqb_eq in Eq; apply app_inv_head in Eq; subst x'; inv L'; exact Ic | auto]).
  Qed.

  Lemma step2_remove fault p w :
    query_comps p = nd -> Inv2 w -> Inv2 (fst (step_world fault (ERemoveAll p) w)).
  Proof.
    intros Q [I M]. split; [eapply step_remove; eauto|].
    unfold step_world. destruct (fallible (ERemoveAll p) && fault_hit fault (w_n w))%bool; [cbn; auto|].
    cbn [exec]. unfold fs_remove_all.
    destruct (fs_find (w_fs w) p) as [|q e| |] eqn:Fd; cbn; auto.
    intros x e' L. rewrite lookup_remove in L. destruct (is_prefix q (nd ++ x)); [discriminate|]. auto.
  Qed.

  (* ---- effect rules ---- *)
  Lemma t2_step {A} e (k : eres -> prog A) Q :
    (forall c, e <> EChoose c) ->
    (forall fault w, Inv2 w -> Inv2 (fst (step_world fault e w))) ->
    (forall r, triple2 (k r) Q) -> triple2 (Op e k) Q.
  Proof.
    intros Hc Hs Hk ch fault w w' out I H. rewrite run_op in H by auto.
    pose proof (Hs fault w I) as I1. destruct (step_world fault e w) as [w1 r]. eapply Hk; eauto.
  Qed.

  Lemma t2_ro {A} e (k : eres -> prog A) Q :
    read_only e = true -> (forall r, triple2 (k r) Q) -> triple2 (Op e k) Q.
  Proof.
    intros R Hk. apply t2_step; auto; [destruct e; discriminate|]. intros; apply step2_ro; auto.
  Qed.

  (* CleanedAbs: lexical facts, plus — for a directory result inside the scope — what the SOURCE holds *)
  Lemma t2_cleaned_abs {A} p (k : eres -> prog A) Q :
    triple2 (k RFail) Q ->
    (forall d f, abs_lex p d f ->
                 (f = "" -> forall y, d = sc ++ y -> d = [] \/ lookup d s0 = Some EDir) ->
                 triple2 (k (RAbs d f)) Q) ->
    triple2 (Op (ECleanedAbs p) k) Q.
  Proof.
    intros Hfail Hok ch fault w w' out I H. rewrite run_op in H by discriminate.
    pose proof (step2_ro fault (ECleanedAbs p) w eq_refl I) as I1.
    destruct (step_world fault (ECleanedAbs p) w) as [w1 r] eqn:E. cbn [fst] in I1.
    destruct I as [I M]. pose proof I as (W & _ & _).
    unfold step_world in E. destruct (fallible (ECleanedAbs p) && fault_hit fault (w_n w))%bool.
    - inv E. eapply Hfail; eauto.
    - destruct (exec (ECleanedAbs p) (w_fs w)) as [s' r'] eqn:X. inv E.
      destruct r; try (cbn in X; destruct (fs_find (w_fs w) p) as [|? [|?]| |]; discriminate).
      + eapply Hfail; eauto.
      + refine (Hok d f _ _ ch fault _ w' out I1 H).
        * eapply exec_cleaned_abs; eauto.
        * intros Ef y Ed. cbn in X. destruct (fs_find (w_fs w) p) as [|q [|c]| |] eqn:F;
            try discriminate; injection X as _ Xd Xf.
          -- left. congruence.
          -- right. apply fs_find_bound in F. rewrite Xd in F. rewrite Ed in F |- *.
             rewrite <- (cur_is_s0 w y I). exact F.
          -- exfalso. pose proof (fs_find_good _ _ _ _ W F) as G. apply fs_find_node in F. destruct F as [_ Hne].
             pose proof (good_last q Hne G) as GL. unfold base_c in Xf. rewrite Xf, Ef in GL. discriminate.
  Qed.

  Lemma t2_read {A} p (k : eres -> prog A) Q :
    (forall r, (forall c y, r = RData c -> query_comps p = sc ++ y -> lookup (sc ++ y) s0 = Some (EFile c)) ->
               triple2 (k r) Q) ->
    triple2 (Op (EReadFile p) k) Q.
  Proof.
    intros Hk ch fault w w' out I H. rewrite run_op in H by discriminate.
    pose proof (step2_ro fault (EReadFile p) w eq_refl I) as I1.
    destruct (step_world fault (EReadFile p) w) as [w1 r] eqn:E. cbn [fst] in I1.
    eapply Hk; eauto. intros c y -> Qp.
    unfold step_world in E. destruct (fallible (EReadFile p) && fault_hit fault (w_n w))%bool; [inv E|].
    destruct (exec (EReadFile p) (w_fs w)) as [s' r'] eqn:X. inv E.
    assert (X' : snd (exec (EReadFile p) (w_fs w)) = RData c) by (rewrite X; reflexivity).
    apply exec_read_file in X'. rewrite Qp in X'. destruct I as [I _]. rewrite <- (cur_is_s0 w y I). exact X'.
  Qed.

  Lemma t2_mkdirall {A} p xt (k : eres -> prog A) Q :
    query_comps p = nd ++ xt -> dirs_ok xt -> (forall r, triple2 (k r) Q) -> triple2 (Op (EMkdirAll p) k) Q.
  Proof.
    intros Qp D Hk. apply t2_step; auto; [discriminate|]. intros. eapply step2_mkdir; eauto.
  Qed.

  Lemma t2_write {A} p c x (k : eres -> prog A) Q :
    query_comps p = nd ++ x -> x <> [] -> dirs_ok (removelast x) -> img x (EFile c) ->
    (forall r, triple2 (k r) Q) -> triple2 (Op (EWriteFile p c) k) Q.
  Proof.
    intros Qp Hne D Ic Hk. apply t2_step; auto; [discriminate|]. intros. eapply step2_write; eauto.
  Qed.

  Lemma t2_remove {A} p (k : eres -> prog A) Q :
    query_comps p = nd -> (forall r, triple2 (k r) Q) -> triple2 (Op (ERemoveAll p) k) Q.
  Proof.
    intros Qp Hk. apply t2_step; auto; [discriminate|]. intros. eapply step2_remove; eauto.
  Qed.

  (* ---- what the source holds ---- *)
  (* a bound source path below the scope: all directories on the way are images *)
  Lemma dirs_ok_below x e : lookup (sc ++ x) s0 = Some e -> x <> [] -> dirs_ok (removelast x).
  Proof.
    intros L Hne k Hk. unfold img. cbn [image_ok].
    set (x' := firstn k (removelast x)).
    assert (Px : exists t, x = x' ++ t /\ t <> []).
    { destruct (firstn_prefix k (removelast x)) as [t Et].
      exists (t ++ [last x ""]). split.
      - rewrite (app_removelast_last "" Hne) at 1. rewrite Et at 1. rewrite <- app_assoc. reflexivity.
      - destruct t; discriminate. }
    destruct Px as (t & Ex & Ht).
    assert (L' : sc ++ x' = [] \/ lookup (sc ++ x') s0 = Some EDir).
    { destruct (sc ++ x') as [|h tl] eqn:Esc; [left; reflexivity | right]. rewrite <- Esc.
      assert (E1 : firstn (List.length (sc ++ x')) (sc ++ x) = sc ++ x').
      { rewrite Ex, app_assoc. rewrite firstn_app, Nat.sub_diag, firstn_all. cbn. rewrite app_nil_r. reflexivity. }
      rewrite <- E1. eapply HPC; eauto. rewrite Esc. cbn. split; [lia|].
      change (S (List.length tl)) with (List.length (h :: tl)). rewrite <- Esc.
      rewrite Ex, !app_length. destruct t; [congruence|cbn; lia]. }
    fold x'. destruct L' as [E|E]; rewrite E; [rewrite HR0|]; reflexivity.
  Qed.

  Lemma dirs_ok_dir x : (sc ++ x = [] \/ lookup (sc ++ x) s0 = Some EDir) -> dirs_ok x.
  Proof.
    intros Hd k Hk. destruct (Nat.eq_dec k (List.length x)) as [->|Ne].
    - rewrite firstn_all. unfold img. cbn [image_ok]. destruct Hd as [E|L].
      + rewrite E, HR0. reflexivity.
      + rewrite L. reflexivity.
    - destruct x as [|a x]; [cbn in *; lia|]. destruct Hd as [E|L]; [destruct sc; discriminate|].
      assert (D : dirs_ok (removelast (a :: x))) by (eapply dirs_ok_below; eauto; discriminate).
      pose proof (len_removelast (a :: x)) as LL.
      assert (Hk' : k <= List.length (removelast (a :: x))) by (rewrite LL in Hk, Ne by discriminate; lia).
      specialize (D k Hk'). rewrite firstn_removelast in D; auto.
      rewrite LL in Ne by discriminate. rewrite LL by discriminate. lia.
  Qed.

  (* ---- the localizer's functions, fragment ---- *)
  Let A := mkArgs sc nd.

  Definition lc_ok2 (lc : lcst) : Prop :=
    exists r, good_path r = true /\ lc_root lc = sc ++ r /\ lc_dst lc = nd ++ r /\
              (sc ++ r = [] \/ lookup (sc ++ r) s0 = Some EDir).

  Lemma t2_guard s : triple2 (guard_local s) (fun _ => True).
  Proof. unfold guard_local. destruct (remote_like s); [apply t2_throw | apply t2_ret; auto]. Qed.

  Lemma t2_crp root file :
    triple2 (cleaned_relative_path root file)
            (fun lp => lp = rel_comps root (query_comps (abs_of root file))).
  Proof.
    unfold cleaned_relative_path. apply t2_cleaned_abs; [apply t2_throw|].
    intros d f L _. apply t2_ret. destruct (abs_lex_join _ _ _ L) as [-> _]. reflexivity.
  Qed.

  (* Loader.Load: below the root, and the SOURCE holds the returned content there *)
  Lemma t2_ldr_load lc path :
    lc_ok2 lc ->
    triple2 (ldr_load A lc path)
            (fun c => exists r', r' <> [] /\ good_path r' = true /\
                                 query_comps (abs_of (lc_root lc) path) = lc_root lc ++ r' /\
                                 lookup (lc_root lc ++ r') s0 = Some (EFile c)).
  Proof.
    intros (r & Gr & Er & Ed & Sd). unfold ldr_load.
    eapply t2_bind; [apply t2_guard|]. intros _ _.
    apply t2_cleaned_abs; [apply t2_throw|].
    intros d f L _. destruct (String.eqb f "") eqn:Ef; [apply t2_throw|].
    destruct (has_prefix_c d (lc_root lc)) eqn:Hp; cbn [negb]; [|apply t2_throw].
    destruct (abs_lex_join _ _ _ L) as [J GJ].
    destruct L as [G [[-> _]|[Gf E]]]; [discriminate|].
    unfold has_prefix_c in Hp. destruct (is_prefix_inv _ _ Hp) as [r1 ->].
    assert (Gr1 : good_path r1 = true) by (rewrite good_path_app in G; apply andb_prop in G; tauto).
    apply t2_read. intros r2 Hr2. destruct r2; try apply t2_throw.
    eapply t2_bind; [apply t2_crp|]. intros cp _.
    match goal with |- context [if ?b then _ else _] => destruct b end; [apply t2_throw|].
    apply t2_ret. exists (r1 ++ [f]). repeat split.
    - destruct r1; discriminate.
    - rewrite good_path_app, Gr1. cbn. rewrite Gf. reflexivity.
    - rewrite <- E, app_assoc. reflexivity.
    - rewrite Er, <- !app_assoc. apply (Hr2 c (r ++ r1 ++ [f]) eq_refl).
      rewrite query_show by (rewrite J; auto). rewrite J, <- E, Er, <- !app_assoc. reflexivity.
  Qed.

  (* localizeFileWithContent for a verbatim copy of a resource *)
  Lemma t2_lfwc lc path id r' :
    lc_ok2 lc -> r' <> [] -> good_path r' = true ->
    query_comps (abs_of (lc_root lc) path) = lc_root lc ++ r' ->
    lookup (lc_root lc ++ r') s0 = Some (EFile (CRaw id)) -> o_kust orc id = None ->
    triple2 (loc_file_with_content lc path (CRaw id))
            (fun s => s = show_rel (rel_comps (lc_root lc) (query_comps (abs_of (lc_root lc) path)))).
  Proof.
    intros (r & Gr & Er & Ed & Sd) Hne G' Q L Ok. unfold loc_file_with_content.
    eapply t2_bind; [apply t2_crp|]. intros lp ->. rewrite Q, rel_comps_below.
    rewrite join_comps_normal by (apply good_path_normal; auto).
    assert (Gq : good_path (lc_dst lc ++ r') = true) by (rewrite Ed, !good_path_app, Gnd, Gr, G'; auto).
    rewrite Er, <- app_assoc in L.
    assert (Dd : dirs_ok (removelast (r ++ r'))).
    { eapply dirs_ok_below; eauto. destruct r; [auto | discriminate]. }
    eapply t2_bind.
    - instantiate (1 := fun _ => True). unfold op_unit.
      eapply t2_mkdirall with (xt := removelast (r ++ r')); auto.
      + unfold dir_c. rewrite removelast_app_ne by auto. rewrite query_show.
        * rewrite Ed, <- app_assoc. rewrite <- removelast_app_ne by auto. reflexivity.
        * rewrite <- removelast_app_ne by auto. apply good_path_removelast; auto.
      + intros r0; destruct r0; try apply t2_throw. apply t2_ret; auto.
    - intros _ _. eapply t2_bind.
      + instantiate (1 := fun _ => True). unfold op_unit.
        eapply t2_write with (x := r ++ r'); auto.
        * rewrite query_show by auto. rewrite Ed, <- app_assoc. reflexivity.
        * destruct r; [auto | discriminate].
        * unfold img. cbn [image_ok]. rewrite L. cbn. rewrite N.eqb_refl. cbn. rewrite Ok.
          match goal with |- (if ?b then true else true) = true => destruct b end; reflexivity.
        * intros r0; destruct r0; try apply t2_throw. apply t2_ret; auto.
      + intros _ _. apply t2_ret. reflexivity.
  Qed.

  Lemma t2_ldr_new lc path :
    triple2 (ldr_new A lc path)
            (fun root => good_path root = true /\ is_prefix sc root = true /\ is_abs path = false /\
                         root = query_comps (show_abs (join_abs (lc_root lc) path))).
  Proof.
    unfold ldr_new. destruct (String.eqb path ""); [apply t2_throw|].
    eapply t2_bind; [apply t2_guard|]. intros _ _.
    destruct (is_abs path) eqn:Ia; [apply t2_throw|].
    eapply t2_bind.
    { instantiate (1 := fun d => good_path d = true /\ d = query_comps (show_abs (join_abs (lc_root lc) path))).
      unfold confirm_dir. destruct (String.eqb _ ""); [apply t2_throw|].
      apply t2_cleaned_abs; [apply t2_throw|].
      intros d f [G L] _. destruct (String.eqb f "") eqn:E; [|apply t2_throw].
      apply String.eqb_eq in E; subst. apply t2_ret. split; auto.
      destruct L as [[_ ->]|[Gf _]]; auto. discriminate. }
    intros root [G E].
    destruct (cycle_with root (lc_root lc :: lc_anc lc)); [apply t2_throw|].
    destruct (has_prefix_c root (a_scope A)) eqn:Hs; cbn [negb]; [|apply t2_throw].
    destruct (has_prefix_c root (a_newdir A)); [apply t2_throw|].
    apply t2_ret. auto.
  Qed.

  (* what localizeResource returns for an entry: the cleaned reference, resolving inside the scope *)
  Definition ref_ok (root : cpath) (e s : string) : Prop :=
    s = clean_ref root e /\ (String.eqb e "" = true \/ is_prefix sc (resolve root e) = true).

  Lemma resources_only_fields k : resources_only k = true ->
    k_openapi k = None /\ k_bases k = [] /\ k_components k = [] /\ k_configurations k = [] /\ k_crds k = [] /\
    k_cmgens k = [] /\ k_secgens k = [] /\ k_helminfl k = [] /\ k_helmcharts k = [] /\ k_helmglobals k = None /\
    k_patches k = [] /\ k_patches6902 k = [] /\ k_psm k = [] /\ k_replacements k = [] /\
    k_generators k = [] /\ k_transformers k = [] /\ k_validators k = [].
  Proof.
    unfold resources_only. destruct k; cbn.
    destruct k_openapi; try discriminate. destruct k_bases; try discriminate.
    destruct k_components; try discriminate. destruct k_configurations; try discriminate.
    destruct k_crds; try discriminate. destruct k_cmgens; try discriminate.
    destruct k_secgens; try discriminate. destruct k_helminfl; try discriminate.
    destruct k_helmcharts; try discriminate. destruct k_helmglobals; try discriminate.
    destruct k_patches; try discriminate. destruct k_patches6902; try discriminate.
    destruct k_psm; try discriminate. destruct k_replacements; try discriminate.
    destruct k_generators; try discriminate. destruct k_transformers; try discriminate.
    destruct k_validators; try discriminate. intros _. repeat split; reflexivity.
  Qed.

  Lemma Forall2_ref_map root l out :
    Forall2 (ref_ok root) l out ->
    out = List.map (clean_ref root) l /\
    forallb (fun e => String.eqb e "" || is_prefix sc (resolve root e)) l = true.
  Proof.
    induction 1 as [|e s l out [-> Hs] _ [-> IH]]; [split; reflexivity|]. split; [reflexivity|].
    cbn. rewrite IH. destruct Hs as [->| ->]; [reflexivity | rewrite orb_true_r; reflexivity].
  Qed.

  Lemma str_list_eqb_refl l : str_list_eqb l l = true.
  Proof. induction l; cbn; auto. rewrite String.eqb_refl; auto. Qed.

  Theorem t2_localize : forall fuel lc, lc_ok2 lc -> triple2 (localize orc A fuel lc) (fun _ => True).
  Proof.
    induction fuel as [|fuel IH]; intros lc Hlc; cbn [localize]; [apply t2_throw|].
    pose proof Hlc as (r & Gr & Er & Ed & Sd).
    assert (Groot : good_path (lc_root lc) = true) by (rewrite Er, good_path_app, Gsc, Gr; auto).
    (* localizeRoot *)
    assert (Hroot : forall path,
      triple2 (if String.eqb path "" then Ret ""
               else dop root <- ldr_new A lc path ;
                    Op (ECleanedAbs (show_abs root)) (fun r0 =>
                      match r0 with
                      | RAbs root' f =>
                          if negb (String.eqb f "") then Throw XPanic
                          else
                            let lp := rel_comps (lc_root lc) root' in
                            let new_dst := join_comps (lc_dst lc) lp in
                            dop _ <- op_unit (EMkdirAll (show_abs new_dst)) ;
                            dop _ <- localize orc A fuel (mkLc root' (lc_root lc :: lc_anc lc) new_dst) ;
                            Ret (show_rel lp)
                      | _ => Throw XPanic
                      end)) (ref_ok (lc_root lc) path)).
    { intros path. destruct (String.eqb path "") eqn:Ne.
      { apply t2_ret. split; auto. unfold clean_ref. rewrite Ne. reflexivity. }
      eapply t2_bind; [apply t2_ldr_new|]. intros root (Groot' & Ps & Ia & Eroot).
      apply t2_cleaned_abs; [apply t2_throw|].
      intros root' f [G' L] Sdir. destruct (String.eqb f "") eqn:Ef; cbn [negb]; [|apply t2_throw].
      apply String.eqb_eq in Ef; subst f.
      destruct L as [[_ E']|[Gf _]]; [|discriminate].
      rewrite query_show in E' by auto. subst root'.
      destruct (is_prefix_inv _ _ Ps) as [r1 E1].
      assert (G1 : good_path r1 = true).
      { rewrite E1, good_path_app in Groot'. apply andb_prop in Groot'; tauto. }
      assert (Res : resolve (lc_root lc) path = root).
      { unfold resolve, abs_of. rewrite Ia. symmetry. exact Eroot. }
      cbn zeta. rewrite E1. rewrite Er, Ed.
      rewrite join_rel_mirror by (apply good_path_normal; auto).
      assert (Sd1 : sc ++ r1 = [] \/ lookup (sc ++ r1) s0 = Some EDir).
      { rewrite <- E1. apply (Sdir eq_refl r1); auto. }
      eapply t2_bind.
      - instantiate (1 := fun _ => True). unfold op_unit.
        eapply t2_mkdirall with (xt := r1).
        + apply query_show. rewrite good_path_app, Gnd, G1. reflexivity.
        + apply dirs_ok_dir; auto.
        + intros r0; destruct r0; try apply t2_throw. apply t2_ret; auto.
      - intros _ _. eapply t2_bind.
        + apply IH. exists r1. repeat split; auto.
        + intros _ _. apply t2_ret. split.
          * rewrite Er in Res. unfold clean_ref. rewrite Ne, Res, E1. reflexivity.
          * right. rewrite Er in Res. rewrite Res. exact Ps. }
    (* localizeResource *)
    assert (Hres : forall path,
      triple2 (dop r0 <- pcatch (dop c <- ldr_load A lc path ;
                                 if is_res orc c then loc_file_with_content lc path c else Throw XErr) ;
               match r0 with
               | Some lp => Ret lp
               | None =>
                   if String.eqb path "" then Ret ""
                   else dop root <- ldr_new A lc path ;
                        Op (ECleanedAbs (show_abs root)) (fun r0 =>
                          match r0 with
                          | RAbs root' f =>
                              if negb (String.eqb f "") then Throw XPanic
                              else
                                let lp := rel_comps (lc_root lc) root' in
                                let new_dst := join_comps (lc_dst lc) lp in
                                dop _ <- op_unit (EMkdirAll (show_abs new_dst)) ;
                                dop _ <- localize orc A fuel (mkLc root' (lc_root lc :: lc_anc lc) new_dst) ;
                                Ret (show_rel lp)
                          | _ => Throw XPanic
                          end)
               end) (ref_ok (lc_root lc) path)).
    { intros path. eapply t2_bind.
      - apply t2_pcatch. eapply t2_bind; [apply t2_ldr_load; auto|].
        intros c (r' & Hne & G' & Q & L).
        destruct c as [id| |]; cbn [is_res]; try apply t2_throw.
        destruct (o_res orc id) eqn:Or; [|apply t2_throw].
        eapply t2_conseq; [eapply t2_lfwc; eauto|].
        intros s ->. instantiate (1 := ref_ok (lc_root lc) path). split.
        + unfold clean_ref, resolve.
          destruct (String.eqb path "") eqn:Ne; auto.
          exfalso. apply String.eqb_eq in Ne. subst path.
          assert (Ea : abs_of (lc_root lc) "" = show_abs (lc_root lc))
            by (unfold abs_of; cbn [is_abs]; rewrite join_abs_empty; reflexivity).
          rewrite Ea in Q. rewrite query_show in Q by auto. rewrite <- (app_nil_r (lc_root lc)) in Q at 1.
          apply app_inv_head in Q. congruence.
        + right. unfold resolve. rewrite Q, Er, <- app_assoc. apply is_prefix_app.
      - intros [lp|] Hlp; [apply t2_ret; apply Hlp; reflexivity | apply Hroot]. }
    (* load *)
    eapply t2_bind.
    { instantiate (1 := fun found => forall n c, In (n, c) found ->
                          In n kust_names /\ lookup (lc_root lc ++ [n]) s0 = Some (EFile c)).
      assert (G : forall names acc,
                 (forall n c, In (n, c) acc -> In n kust_names /\ lookup (lc_root lc ++ [n]) s0 = Some (EFile c)) ->
                 (forall n, In n names -> In n kust_names) ->
                 triple2 (load_kust_file A lc names acc)
                         (fun found => forall n c, In (n, c) found ->
                            In n kust_names /\ lookup (lc_root lc ++ [n]) s0 = Some (EFile c))).
      { induction names as [|n t IHn]; intros acc Hacc Hn; cbn [load_kust_file].
        - apply t2_ret; auto.
        - eapply t2_bind; [apply t2_pcatch, t2_ldr_load; auto|]. intros r0 Hr0.
          apply IHn; [|intros; apply Hn; right; auto].
          destruct r0 as [c|]; auto. intros n' c' Hin. apply in_app_or in Hin.
          destruct Hin as [Hin|[Hin|[]]]; auto. inv Hin.
          assert (Kn : In n' kust_names) by (apply Hn; left; auto). split; auto.
          destruct (Hr0 _ eq_refl) as (r' & _ & _ & Q & L).
          assert (E : query_comps (abs_of (lc_root lc) n') = lc_root lc ++ [n']).
          { unfold abs_of. pose proof (kust_name_good _ Kn) as Gn.
            assert (Ia : is_abs n' = false).
            { destruct n' as [|a n']; auto. cbn. apply good_comp_noslash in Gn. cbn in Gn.
              apply orb_false_iff in Gn. tauto. }
            rewrite Ia, join_abs_name by auto. apply query_show.
            rewrite good_path_app, Groot. cbn. rewrite Gn. reflexivity. }
          rewrite E in Q. apply app_inv_head in Q. subst r'. exact L. }
      apply G; [intros ? ? []|auto]. }
    intros found Hfound.
    destruct found as [|[kname c] [|? ?]]; try apply t2_throw.
    destruct c as [id| |]; try apply t2_throw.
    destruct (o_kust orc id) as [k|] eqn:Ok; [|apply t2_throw].
    destruct (Hfound kname (CRaw id) (or_introl eq_refl)) as [Kn Lk].
    pose proof (HFrag _ _ Ok) as Ro.
    destruct (resources_only_fields _ Ro) as
      (F1 & F2 & F3 & F4 & F5 & F6 & F7 & F8 & F9 & F10 & F11 & F12 & F13 & F14 & F15 & F16 & F17).
    rewrite F1, F2, F3, F4, F5, F6, F7, F8, F9, F10, F11, F12, F13, F14, F15, F16, F17.
    cbn [pbind mapP nonempty_fields filter snd fst].
    (* the kustomization write *)
    assert (Wk : forall out,
              out = List.map (clean_ref (lc_root lc)) (k_resources k) ->
              forallb (fun e => String.eqb e "" || is_prefix sc (resolve (lc_root lc) e)) (k_resources k) = true ->
              triple2 (op_unit (EWriteFile (show_abs (join_abs (lc_dst lc) kname))
                          (CKust id (mkKust None [] [] [] [] out [] [] [] [] None [] [] [] [] [] [] []))))
                      (fun _ => True)).
    { intros out Eo Hsc. unfold op_unit.
      rewrite join_abs_kust_name by auto.
      eapply t2_write with (x := r ++ [kname]).
      - rewrite query_show.
        + rewrite Ed, <- app_assoc. reflexivity.
        + rewrite Ed, !good_path_app, Gnd, Gr. cbn. rewrite kust_name_good; auto.
      - destruct r; discriminate.
      - rewrite removelast_last. apply dirs_ok_dir. exact Sd.
      - unfold img. cbn [image_ok]. rewrite app_assoc, <- Er, Lk. cbn. rewrite N.eqb_refl, Ok. cbn.
        rewrite removelast_last. rewrite Eo, str_list_eqb_refl, Hsc, Ro. reflexivity.
      - intros r0; destruct r0; try apply t2_throw. apply t2_ret; auto. }
    destruct (k_resources k) as [|e0 res] eqn:Eres.
    - (* no resources: nothing is ranged over *)
      cbn. apply Wk; reflexivity.
    - cbn [filter snd nonempty_fields range_fields].
      apply t2_choose. intros rc.
      match goal with |- context [find_field_id ?i [(4, ?l)]] => idtac end.
      assert (Eid : forall i, (match find_field_id i [(4, e0 :: res)] with Some _ => i | None => 4 end) = 4).
      { intros i. unfold find_field_id. cbn [find fst].
        destruct (Nat.eqb 4 i) eqn:E4; cbn; auto. apply Nat.eqb_eq in E4. auto. }
      replace (match rc with
               | RPick i => match find_field_id i [(4, e0 :: res)] with Some _ => i | None => fst (4, e0 :: res) end
               | _ => fst (4, e0 :: res)
               end) with 4 by (destruct rc; cbn [fst]; try reflexivity; symmetry; apply Eid).
      cbn [find_field_id find Nat.eqb fst snd remove_field].
      eapply t2_bind.
      { instantiate (1 := fun done => exists out, done = [(4, out)] /\ Forall2 (ref_ok (lc_root lc)) (e0 :: res) out).
        eapply t2_bind; [apply (t2_mapP _ (ref_ok (lc_root lc))); intros; apply Hres|].
        intros out Hout. cbn. apply t2_ret. eauto. }
      intros done (out & -> & Hout). destruct (Forall2_ref_map _ _ _ Hout) as [Eo Hsc].
      cbn. apply Wk; auto.
  Qed.
  (* Run after NewLoader *)
  Lemma t2_tail fuel troot r :
    troot = sc ++ r -> good_path r = true -> (sc ++ r = [] \/ lookup (sc ++ r) s0 = Some EDir) ->
    triple2 (localize_tail orc fuel (sc, troot, nd)) (fun _ => True).
  Proof.
    intros -> Gr Sd. unfold localize_tail.
    rewrite rel_comps_below. rewrite join_comps_normal by (apply good_path_normal; auto).
    eapply t2_mkdirall with (xt := r).
    - apply query_show. rewrite good_path_app, Gnd, Gr. reflexivity.
    - apply dirs_ok_dir; auto.
    - intros r0.
      assert (Hcl : forall x, triple2 (Op (ERemoveAll (show_abs nd)) (fun _ => Throw x : prog string)) (fun _ => True)).
      { intros x. apply t2_remove; [apply query_show; auto|]. intros; apply t2_throw. }
      destruct r0; try exact (Hcl XErr).
      eapply t2_bind.
      + apply t2_ptry. apply t2_localize. exists r. auto.
      + intros [u|x] _; [apply t2_ret; auto | exact (Hcl x)].
  Qed.

  Lemma mirror_bool s' : mirror s' -> mirror_ok orc sc nd s0 s' = true.
  Proof.
    intros M. unfold mirror_ok. apply forallb_forall. intros [p e] Hin. cbn [fst].
    destruct (drop_prefix nd p) as [x|] eqn:D; auto.
    destruct (lookup p s') as [e'|] eqn:L; auto.
    assert (Ep : p = nd ++ x).
    { clear -D. revert p x D. induction nd as [|a n IH]; intros p x D; cbn in D.
      - inv D. reflexivity.
      - destruct p as [|b p]; [discriminate|]. destruct (String.eqb a b) eqn:E; [|discriminate].
        apply String.eqb_eq in E. subst. cbn. f_equal. auto. }
    subst p. apply (M _ _ L).
  Qed.
End Mirror.

(* ------------------------------------------------------------------ the whole run *)

Definition scope_path (target scope : string) : cpath :=
  if String.eqb scope "" then query_comps target else query_comps scope.

Lemma run_confirm_dir ch fault p w w' d :
  fs_wf (w_fs w) -> run ch fault (confirm_dir p) w = (w', OOk d) ->
  w_fs w' = w_fs w /\ d = query_comps p /\ (d = [] \/ lookup d (w_fs w) = Some EDir).
Proof.
  intros W. unfold confirm_dir. destruct (String.eqb p ""); [cbn; intros H; inv H|].
  rewrite run_op by discriminate.
  destruct (step_world fault (ECleanedAbs p) w) as [w1 r] eqn:S. intros H.
  destruct (step_ro_inv _ _ _ _ _ S eq_refl) as [Efs [->|Er]]; [cbn in H; inv H|].
  destruct r; cbn [run] in H; try (inv H; fail).
  destruct (String.eqb f "") eqn:Ef; cbn in H; inv H. apply String.eqb_eq in Ef. subst f.
  split; auto. cbn in Er. destruct (fs_find (w_fs w) p) as [|q [|c]| |] eqn:F; cbn in Er; try discriminate.
  - assert (d = []) by congruence. subst d. split; auto. symmetry. eapply fs_find_root; eauto.
  - assert (d = q) by congruence. subst d.
    pose proof (fs_find_bound _ _ _ _ F). apply fs_find_node in F. destruct F as [-> _]. auto.
  - exfalso. assert (Xf : base_c q = "") by congruence.
    pose proof (fs_find_good _ _ _ _ W F) as G. apply fs_find_node in F. destruct F as [_ Hne].
    pose proof (good_last q Hne G) as GL. unfold base_c in Xf. rewrite Xf in GL. discriminate.
Qed.

Lemma run_checks_facts ch fault target scope newdir s w0 sc troot raw :
  fs_wf s ->
  run ch fault (prelude_checks target scope newdir) (world0 s) = (w0, OOk (sc, troot, raw)) ->
  sc = scope_path target scope /\ troot = query_comps target /\
  (troot = [] \/ lookup troot s = Some EDir) /\ (sc = [] \/ lookup sc s = Some EDir).
Proof.
  intros W. unfold prelude_checks. rewrite run_bind. unfold guard_local.
  destruct (remote_like target); [cbn; intros H; inv H|].
  change (run ch fault (Ret tt) (world0 s)) with (world0 s, OOk tt). cbv beta iota.
  rewrite run_bind.
  destruct (run ch fault (confirm_dir target) (world0 s)) as [w1 [tr|x]] eqn:E1; [|intros H; inv H].
  destruct (run_confirm_dir _ _ _ (world0 s) _ _ W E1) as (F1 & -> & D1). cbn in D1, F1.
  rewrite run_bind. unfold scope_path.
  destruct (String.eqb scope "") eqn:Es.
  - cbn [run]. rewrite run_bind. unfold op_bool. rewrite run_op by discriminate.
    destruct (step_world fault _ w1) as [w2 r2]. intros H.
    assert (exists b, run ch fault (match r2 with RBool b => Ret b | _ => Ret false end) w2 = (w2, OOk b)) as [b Hb]
      by (destruct r2; eexists; reflexivity).
    rewrite Hb in H. destruct b; cbn in H; inv H. auto.
  - rewrite run_bind.
    destruct (run ch fault (confirm_dir scope) w1) as [w2 [sd|x]] eqn:E2; [|intros H; inv H].
    assert (W1 : fs_wf (w_fs w1)) by (rewrite F1; auto).
    destruct (run_confirm_dir _ _ _ _ _ _ W1 E2) as (F2 & -> & D2). rewrite F1 in D2. cbn in D2.
    destruct (has_prefix_c (query_comps target) (query_comps scope)); cbn [run]; [|intros H; inv H].
    rewrite run_bind. unfold op_bool. rewrite run_op by discriminate.
    destruct (step_world fault _ w2) as [w3 r3]. intros H.
    assert (exists b, run ch fault (match r3 with RBool b => Ret b | _ => Ret false end) w3 = (w3, OOk b)) as [b Hb]
      by (destruct r3; eexists; reflexivity).
    rewrite Hb in H. destruct b; cbn in H; inv H. auto.
Qed.

Lemma run_create_state ch fault sc troot raw w0 w1 x :
  run ch fault (prelude_create (sc, troot, raw)) w0 = (w1, OOk x) ->
  fs_mkdir (w_fs w0) raw = Some (w_fs w1).
Proof.
  unfold prelude_create. rewrite run_bind. unfold op_unit. rewrite run_op by discriminate.
  pose proof (step_mkdir_cases fault (EMkdir raw) raw w0 (or_introl eq_refl)) as C.
  destruct (step_world fault (EMkdir raw) w0) as [wa r] eqn:S1. cbn [fst snd] in C.
  destruct C as [[-> D]|[-> E]]; cbn [run]; [|intros H; inv H].
  rewrite run_bind.
  pose proof (ro_only_fs ch fault _ (ro_only_pcatch _ (ro_only_confirm raw)) wa) as RO.
  destruct (run ch fault (pcatch (confirm_dir raw)) wa) as [wb [[nd'|]|y]] eqn:R2; intros H.
  - cbn in H. inv H. rewrite (RO _ _ eq_refl). exact D.
  - rewrite run_op in H by discriminate. destruct (step_world fault _ wb). cbn in H. inv H.
  - inv H.
Qed.

(* A successful localize run, in the resources-only fragment, ends in a faithful image of the source. *)
Theorem localize_mirrors orc ch fuel target scope newdir fault s w d :
  fs_wf s ->
  ancestors_dirs (newdir_path target newdir) s ->
  is_prefix (newdir_path target newdir) (scope_path target scope) = false ->
  is_prefix (scope_path target scope) (newdir_path target newdir) = false ->
  (forall p e k, lookup p s = Some e -> 0 < k < List.length p -> lookup (firstn k p) s = Some EDir) ->
  lookup [] s = None ->
  (forall x, lookup (newdir_path target newdir ++ x) s = None) ->
  (forall id k, o_kust orc id = Some k -> resources_only k = true) ->
  (forall id, o_res orc id = true -> o_kust orc id = None) ->
  run_localize orc ch fuel target scope newdir fault s = (w, OOk d) ->
  mirror_ok orc (scope_path target scope) (newdir_path target newdir) s (w_fs w) = true /\
  good_path (scope_path target scope) = true /\ good_path (newdir_path target newdir) = true /\
  fs_wf (w_fs w) /\
  exists r, good_path r = true /\ query_comps target = scope_path target scope ++ r.
Proof.
  intros W HA HD1 HD2 HPC HR0 HFB HFrag HSep H.
  unfold run_localize, localize_run, localize_prelude in H. rewrite !run_bind in H.
  destruct (run ch fault (prelude_checks target scope newdir) (world0 s)) as [w0 [[[sc troot] raw]|x]] eqn:E0; [|inv H].
  pose proof (ro_only_fs _ _ _ (ro_only_checks target scope newdir) _ _ _ E0) as F0. cbn in F0.
  destruct (run_checks_facts _ _ _ _ _ _ _ _ _ _ W E0) as (Esc & Etr & Dtr & Dsc).
  destruct (triple_checks _ s target scope newdir eq_refl _ _ _ _ _ (inv_world0 _ _ W) E0) as [I0 P].
  destruct (P _ eq_refl) as (Eraw & Gsc & (r & Gr & Etroot)).
  destruct (run ch fault (prelude_create (sc, troot, raw)) w0) as [w1 [[[sc' troot'] nd']|x]] eqn:E1; [|inv H].
  destruct (triple_create _ s sc troot raw Eraw _ _ _ _ _ I0 E1) as [I1 P1].
  destruct (P1 _ eq_refl) as (-> & -> & -> & Gnd).
  pose proof (run_create_state _ _ _ _ _ _ _ _ E1) as Mk. rewrite F0 in Mk.
  set (nd := newdir_path target newdir) in *. subst sc.
  set (sc := scope_path target scope) in *.
  (* the state after createNewDir is an image: only newDir itself is new *)
  assert (M1 : mirror orc sc nd s (w_fs w1)).
  { unfold fs_mkdir in Mk. rewrite Eraw in Mk.
    eapply (mirror_after_add_dirs orc sc nd s s nd []); eauto.
    - intros x e L. rewrite HFB in L. discriminate.
    - rewrite app_nil_r. reflexivity.
    - intros k Hk. cbn in Hk. assert (k = 0) by lia. subst k. cbn [firstn].
      unfold img. cbn [image_ok]. rewrite app_nil_r.
      destruct Dsc as [->|L]; [rewrite HR0; reflexivity | rewrite L; reflexivity]. }
  assert (Sd : sc ++ r = [] \/ lookup (sc ++ r) s = Some EDir) by (rewrite <- Etroot; auto).
  destruct (t2_tail orc sc nd s Gsc Gnd HA HD1 HD2 HPC HR0 HFrag HSep fuel troot r Etroot Gr Sd
              ch fault w1 w (OOk d) (conj I1 M1) H) as [[If M] _].
  split; [apply mirror_bool; auto|]. split; auto. split; auto. split; [destruct If; auto|].
  exists r. split; auto. rewrite <- Etr. exact Etroot.
Qed.

(* Build equivalence for every successful run of the fragment: no per-run check involved. *)
Theorem localize_build_eq orc ch fuel target scope newdir fault s w d :
  fs_wf s ->
  ancestors_dirs (newdir_path target newdir) s ->
  is_prefix (newdir_path target newdir) (scope_path target scope) = false ->
  is_prefix (scope_path target scope) (newdir_path target newdir) = false ->
  (forall p e k, lookup p s = Some e -> 0 < k < List.length p -> lookup (firstn k p) s = Some EDir) ->
  lookup [] s = None ->
  (forall x, lookup (newdir_path target newdir ++ x) s = None) ->
  (forall id k, o_kust orc id = Some k -> resources_only k = true) ->
  (forall id, o_res orc id = true -> o_kust orc id = None) ->
  run_localize orc ch fuel target scope newdir fault s = (w, OOk d) ->
  exists r, query_comps target = scope_path target scope ++ r /\
    forall fuel1 fuel2 t t',
      read_tree orc fuel1 (w_fs w) (newdir_path target newdir ++ r) = Some t' ->
      read_tree orc fuel2 s (query_comps target) = Some t ->
      forall nonstr docs dirs o,
        Pipeline.build nonstr o (to_ptree docs dirs t') = Pipeline.build nonstr o (to_ptree docs dirs t).
Proof.
  intros W HA HD1 HD2 HPC HR0 HFB HFrag HSep H.
  destruct (localize_mirrors _ _ _ _ _ _ _ _ _ _ W HA HD1 HD2 HPC HR0 HFB HFrag HSep H)
    as (M & Gsc & Gnd & W' & r & Gr & Er).
  exists r. split; auto. intros fuel1 fuel2 t t' H' H0 nonstr docs dirs o. rewrite Er in H0.
  exact (mirror_build_eq orc _ _ s (w_fs w) Gsc Gnd W W' M fuel1 fuel2 r t t' Gr H' H0 nonstr docs dirs o).
Qed.

(* ---- non-vacuity: the hypotheses hold for corpus/C18/file-before-root.json (ex4) ---- *)
Definition parent_closedb (s : fs) : bool :=
  forallb (fun pe => forallb (fun k => match lookup (firstn k (fst pe)) s with Some EDir => true | _ => false end)
                             (seq 1 (List.length (fst pe) - 1))) s.

Lemma parent_closedb_spec s : parent_closedb s = true ->
  forall p e k, lookup p s = Some e -> 0 < k < List.length p -> lookup (firstn k p) s = Some EDir.
Proof.
  unfold parent_closedb. rewrite forallb_forall. intros H p e k L Hk.
  specialize (H _ (lookup_in _ _ _ L)). cbn [fst] in H. rewrite forallb_forall in H.
  assert (Hin : In k (seq 1 (List.length p - 1))) by (apply in_seq; lia).
  specialize (H _ Hin). destruct (lookup (firstn k p) s) as [[|c]|]; try discriminate. reflexivity.
Qed.

Lemma fresh_below_spec nd s :
  forallb (fun pe => negb (is_prefix nd (fst pe))) s = true -> forall x, lookup (nd ++ x) s = None.
Proof.
  rewrite forallb_forall. intros H x. destruct (lookup (nd ++ x) s) as [e|] eqn:L; auto.
  specialize (H _ (lookup_in _ _ _ L)). cbn [fst] in H. rewrite is_prefix_app in H. discriminate.
Qed.

Example ex4_hypotheses :
  fs_wf ex4_fs /\
  ancestors_dirs (newdir_path "/s/t" "/new") ex4_fs /\
  is_prefix (newdir_path "/s/t" "/new") (scope_path "/s/t" "/s") = false /\
  is_prefix (scope_path "/s/t" "/s") (newdir_path "/s/t" "/new") = false /\
  (forall p e k, lookup p ex4_fs = Some e -> 0 < k < List.length p -> lookup (firstn k p) ex4_fs = Some EDir) /\
  lookup [] ex4_fs = None /\
  (forall x, lookup (newdir_path "/s/t" "/new" ++ x) ex4_fs = None) /\
  (forall id k, o_kust ex4_orc id = Some k -> resources_only k = true) /\
  (forall id, o_res ex4_orc id = true -> o_kust ex4_orc id = None) /\
  exists w, run_localize ex4_orc (fun _ c => match c with x :: _ => fst x | [] => 0 end) 8
                         "/s/t" "/s" "/new" None ex4_fs = (w, OOk "/new").
Proof.
  split; [intros p e Hin; repeat (destruct Hin as [E|Hin]; [inv E; reflexivity|]); destruct Hin|].
  split; [intros k Hk; vm_compute in Hk; lia|].
  split; [reflexivity|]. split; [reflexivity|].
  split; [apply parent_closedb_spec; vm_compute; reflexivity|].
  split; [reflexivity|].
  split; [apply fresh_below_spec; vm_compute; reflexivity|].
  split.
  { intros id k. unfold ex4_orc. cbn [o_kust].
    destruct (N.eqb id 4); [intros E; inv E; reflexivity|].
    destruct (N.eqb id 3); [intros E; inv E; reflexivity|]. discriminate. }
  split.
  { intros id. unfold ex4_orc. cbn [o_res o_kust]. intros H.
    destruct (N.eqb id 4) eqn:E4; [apply N.eqb_eq in E4; subst; discriminate|].
    destruct (N.eqb id 3) eqn:E3; [apply N.eqb_eq in E3; subst; discriminate|]. reflexivity. }
  eexists. vm_compute. reflexivity.
Qed.

