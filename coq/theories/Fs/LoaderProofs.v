(* Proofs about KV.Fs.Loader: confinement of root-only loads, failure of escapes, no cycles. *)
From KV Require Import Fs.Path Fs.PathProofs Fs.MemFs Fs.MemFsProofs Fs.DiskFs Fs.DiskFsProofs Fs.Loader.
From Coq Require Import ZifyNat.
Local Open Scope list_scope.

Ltac inv H := inversion H; subst; clear H.

(* ---------- list_prefix ---------- *)

Lemma list_prefix_app_r p l x : list_prefix p l = true -> list_prefix p (l ++ x) = true.
Proof. intros H. apply list_prefix_iff in H as [r ->]. apply list_prefix_iff. exists (r ++ x). symmetry. apply app_assoc. Qed.

(* ---------- what fsOnDisk.CleanedAbs returns ---------- *)

Lemma os_resolve_phys root cwd phys n :
  canon_comps phys = true -> d_at root phys = Some n -> not_link n ->
  os_resolve root cwd (abs_of phys) = Some (phys, n).
Proof.
  intros Hc Ha Hn. unfold os_resolve.
  change (match abs_of phys with EmptyString => None | String _ _ => ?x end) with x.
  rewrite is_abs_abs_of. erewrite eval_links_abs_of_phys; eauto. rewrite Ha. reflexivity.
Qed.

Lemma abs_of_neq_removelast phys :
  canon_comps phys = true -> phys <> [] -> String.eqb (abs_of (removelast phys)) (abs_of phys) = false.
Proof.
  intros Hc Hne. apply String.eqb_neq. intros E.
  destruct (removelast_last_canon _ Hc Hne) as [Hr _].
  apply abs_of_inj in E; auto.
  assert (L : List.length (removelast phys) = List.length phys) by congruence.
  rewrite (app_removelast_last "" Hne) in L at 2. rewrite app_length in L. cbn in L. lia.
Qed.

Inductive cleaned_abs_outcome (root : dnode) (phys : list string) : res (string * string) -> Prop :=
| CA_dir : forall es, d_at root phys = Some (DDir es) -> cleaned_abs_outcome root phys (Ok (abs_of phys, ""))
| CA_file : forall c, d_at root phys = Some (DFile c) -> phys <> [] ->
    cleaned_abs_outcome root phys (Ok (abs_of (removelast phys), last phys "")).

Lemma d_cleaned_abs_spec root cwd q :
  is_dir_node root -> wf_dnode root = true ->
  match eval_links root go_link_budget [] (raw_comps (abs_path cwd q)) with
  | Ok phys => canon_comps phys = true /\ cleaned_abs_outcome root phys (d_cleaned_abs root cwd q)
  | _ => d_cleaned_abs root cwd q = Err
  end.
Proof.
  intros Hroot Hwf. unfold d_cleaned_abs, eval_symlinks.
  destruct (eval_links_ok_or_err root go_link_budget (raw_comps (abs_path cwd q)) []) as [[phys E]|E];
    rewrite E; auto.
  - destruct (eval_links_sound _ _ _ _ _ E) as (k & _ & R).
    destruct (resolves_lands _ _ _ _ _ Hroot R) as (n & Ha & Hn).
    { destruct Hroot as [es ->]. exists es. reflexivity. }
    destruct (d_at_wf _ _ _ Hwf Ha) as [Hc Hwn]. split; auto.
    rewrite clean_abs_of by auto.
    unfold d_is_dir at 1. rewrite (os_resolve_phys root cwd phys n) by auto.
    destruct n as [c|es|t].
    + (* a file *)
      assert (Hne : phys <> []).
      { intros ->. cbn in Ha. inv Ha. destruct Hroot as [es E']. discriminate. }
      destruct (removelast_last_canon _ Hc Hne) as [Hr Hl].
      pose proof (app_removelast_last "" Hne) as Esplit.
      assert (Ed : dir_of (abs_of phys) = abs_of (removelast phys)).
      { rewrite Esplit at 1. apply dir_of_canon; auto. }
      assert (Eb : base_of (abs_of phys) = last phys "").
      { rewrite Esplit at 1. apply base_of_canon; auto. }
      rewrite Ed, Eb.
      assert (Hpd : exists es, d_at root (removelast phys) = Some (DDir es)).
      { rewrite Esplit in Ha. rewrite d_at_app in Ha.
        destruct (d_at root (removelast phys)) as [x|]; [|discriminate].
        destruct (d_at_cons_dir _ _ _ _ Ha) as [es ->]. eauto. }
      destruct Hpd as [es Hpd].
      unfold d_is_dir. rewrite (os_resolve_phys root cwd (removelast phys) (DDir es)); auto; [|intros t; congruence].
      cbn [negb]. rewrite abs_of_neq_removelast by auto.
      rewrite join2_canon by auto. rewrite <- Esplit. rewrite String.eqb_refl. cbn [negb].
      econstructor; eauto.
    + econstructor; eauto.
    + exfalso. eapply Hn; eauto.
Qed.

(* ---------- root-only loads are confined ---------- *)

Section LoadTheorems.
  Variable remote : string -> bool.
  Variable http_get : string -> res string.

  Lemma good_name_eqb_empty f : good_name f = true -> String.eqb f "" = false.
  Proof. intros H. destruct f; [discriminate|reflexivity]. Qed.

  (* In-memory file system.  A successful root-only load reads exactly one path, the canonical name
     of an existing file whose directory is the root or below it, and returns that file's bytes. *)
  Theorem mem_load_confined m l p bytes rc :
    wf_mnode m = true -> canon_comps rc = true -> l_root l = abs_of rc -> l_restr l = RootOnly ->
    remote p = false ->
    load remote http_get (mem_ops m) l p = Ok bytes ->
    exists cs,
      restrict (mem_ops m) l (load_path l p) = Ok (abs_of cs) /\
      m_at m cs = Some (MFile bytes) /\
      list_prefix rc (removelast cs) = true.
  Proof.
    intros Hwf Hrc Hroot Hr Hrem H. unfold load in H. rewrite Hrem in H.
    unfold restrict in *. rewrite Hr in *. unfold restrict_root_only in *.
    cbn [mem_ops f_cleaned_abs f_read_file] in *. unfold m_cleaned_abs in *.
    destruct (m_find m (load_path l p)) as [[[cs [c|es]]|]| | |] eqn:F; try discriminate.
    pose proof (m_find_file_nonempty _ _ _ _ F Hwf) as Hne.
    destruct (m_find_some _ _ _ _ Hwf F) as [Ha Hc].
    destruct (removelast_last_canon _ Hc Hne) as [Hrl Hl].
    rewrite (good_name_eqb_empty _ Hl) in *.
    rewrite Hroot in *. rewrite cd_has_prefix_canon in * by auto.
    destruct (list_prefix rc (removelast cs)) eqn:LP; cbn [negb] in *; [|discriminate].
    unfold cd_join in *. rewrite join2_canon in * by auto.
    rewrite <- (app_removelast_last "" Hne) in *.
    unfold m_read_file in H.
    rewrite (m_find_abs_of m cs (MFile c)) in H; eauto using m_find_ok_dir.
    inv H. exists cs. auto.
  Qed.

  (* Disk with symbolic links.  The path handed to ReadFile is the canonical name of a physical
     location (reached through real directories only: [d_at] follows no link), that location is a
     regular file with the returned bytes, and its directory is the root or below it. *)
  Theorem disk_load_confined root cwd l p bytes rc :
    is_dir_node root -> wf_dnode root = true ->
    canon_comps rc = true -> l_root l = abs_of rc -> l_restr l = RootOnly ->
    remote p = false ->
    load remote http_get (disk_ops root cwd) l p = Ok bytes ->
    exists phys,
      restrict (disk_ops root cwd) l (load_path l p) = Ok (abs_of phys) /\
      d_at root phys = Some (DFile bytes) /\
      list_prefix rc (removelast phys) = true.
  Proof.
    intros Hd Hwf Hrc Hroot Hr Hrem H. unfold load in H. rewrite Hrem in H.
    unfold restrict in *. rewrite Hr in *. unfold restrict_root_only in *.
    cbn [disk_ops f_cleaned_abs f_read_file] in *.
    pose proof (d_cleaned_abs_spec root cwd (load_path l p) Hd Hwf) as S.
    destruct (eval_links root go_link_budget [] (raw_comps (abs_path cwd (load_path l p)))) as [phys| | |];
      try (rewrite S in H; discriminate).
    destruct S as [Hc S].
    remember (d_cleaned_abs root cwd (load_path l p)) as ca eqn:Eca. clear Eca.
    destruct S as [es Ha | c Ha Hne].
    - cbn in H. discriminate.
    - destruct (removelast_last_canon _ Hc Hne) as [Hrl Hl].
      rewrite (good_name_eqb_empty _ Hl) in *.
      rewrite Hroot in *. rewrite cd_has_prefix_canon in * by auto.
      destruct (list_prefix rc (removelast phys)) eqn:LP; cbn [negb] in *; [|discriminate].
      unfold cd_join in *. rewrite join2_canon in * by auto.
      rewrite <- (app_removelast_last "" Hne) in *.
      unfold d_read_file in H.
      rewrite (os_resolve_phys root cwd phys (DFile c)) in H; auto; [|intros t; congruence].
      inv H. exists phys. auto.
  Qed.
End LoadTheorems.

(* ---------- the decision to fail does not look at file contents ---------- *)

Lemma d_is_dir_shape root root' cwd p :
  d_same_shape root root' = true -> d_is_dir root cwd p = d_is_dir root' cwd p.
Proof.
  intros Hs. unfold d_is_dir, os_resolve. destruct p as [|a p']; auto.
  rewrite (eval_links_shape root root' _ Hs).
  destruct (eval_links root' os_link_budget _ _) as [phys| | |]; auto.
  pose proof (d_at_shape phys root root' Hs) as A.
  destruct (d_at root phys) as [[x|es|t]|], (d_at root' phys) as [[x'|es'|t']|];
    try contradiction; try discriminate; auto.
Qed.

Lemma d_cleaned_abs_shape root root' cwd q :
  d_same_shape root root' = true -> d_cleaned_abs root cwd q = d_cleaned_abs root' cwd q.
Proof.
  intros Hs. unfold d_cleaned_abs, eval_symlinks.
  rewrite (eval_links_shape root root' _ Hs).
  destruct (eval_links root' go_link_budget _ _) as [phys| | |]; auto.
  rewrite !(d_is_dir_shape root root' cwd _ Hs). reflexivity.
Qed.

Lemma disk_restrict_shape root root' cwd l q :
  d_same_shape root root' = true ->
  restrict (disk_ops root cwd) l q = restrict (disk_ops root' cwd) l q.
Proof.
  intros Hs. unfold restrict, restrict_root_only. cbn [disk_ops f_cleaned_abs].
  rewrite (d_cleaned_abs_shape root root' cwd q Hs). reflexivity.
Qed.

Lemma m_lookup_shape name es es' :
  m_same_shape (MDir es) (MDir es') = true ->
  match m_lookup name es, m_lookup name es' with
  | Some x, Some x' => m_same_shape x x' = true
  | None, None => True
  | _, _ => False
  end.
Proof.
  revert es'; induction es as [|[k x] es IH]; intros [|[k' x'] es'] H; try discriminate; cbn; auto.
  change (m_same_shape (MDir ((k, x) :: es)) (MDir ((k', x') :: es')))
    with (String.eqb k k' && m_same_shape x x' && m_same_shape (MDir es) (MDir es')) in H.
  apply andb_true_iff in H as [H Hes]. apply andb_true_iff in H as [Hk Hx].
  apply String.eqb_eq in Hk; subst k'. destruct (String.eqb k name); auto.
  apply IH; auto.
Qed.

Lemma m_walk_shape cs : forall n n',
  m_same_shape n n' = true ->
  match m_walk n cs, m_walk n' cs with
  | Ok (Some x), Ok (Some x') => m_same_shape x x' = true
  | Ok None, Ok None => True
  | Err, Err => True
  | _, _ => False
  end.
Proof.
  induction cs as [|c cs IH]; intros n n' H; cbn; auto.
  destruct n as [|es], n' as [|es']; try discriminate; auto.
  pose proof (m_lookup_shape c es es' H) as L.
  destruct (m_lookup c es), (m_lookup c es'); try contradiction; auto.
  apply IH; auto.
Qed.

Lemma m_cleaned_abs_shape m m' q :
  m_same_shape m m' = true -> m_cleaned_abs m q = m_cleaned_abs m' q.
Proof.
  intros Hs. unfold m_cleaned_abs, m_find.
  assert (D : m_is_dir m = m_is_dir m') by (destruct m, m'; try discriminate; reflexivity).
  rewrite <- D. destruct (m_is_dir m) eqn:Dm; cbn [negb]; auto.
  destruct (String.eqb q ""); auto.
  destruct (String.eqb q sep || String.eqb q ".").
  - destruct m, m'; try discriminate; reflexivity.
  - pose proof (m_walk_shape (raw_comps (clean_query q)) m m' Hs) as W.
    destruct (m_walk m _) as [[x|]| | |], (m_walk m' _) as [[x'|]| | |]; try contradiction; auto.
    destruct x, x'; try discriminate; reflexivity.
Qed.

Lemma mem_restrict_shape m m' l q :
  m_same_shape m m' = true ->
  restrict (mem_ops m) l q = restrict (mem_ops m') l q.
Proof.
  intros Hs. unfold restrict, restrict_root_only. cbn [mem_ops f_cleaned_abs].
  rewrite (m_cleaned_abs_shape m m' q Hs). reflexivity.
Qed.

(* ---------- escapes fail ---------- *)

Section Escape.
  Variable remote : string -> bool.
  Variable http_get : string -> res string.

  Lemma load_err_of_restrict fs l p :
    remote p = false -> restrict fs l (load_path l p) = Err -> load remote http_get fs l p = Err.
  Proof. intros Hr H. unfold load. rewrite Hr, H. reflexivity. Qed.

  (* Disk.  If the reference denotes (by the declarative resolution, any number of links) a location
     whose directory is not the root or below it, the root-only restrictor rejects it before any
     ReadFile, and it does so in every file system of the same shape: the failure is decided
     without the content of any file. *)
  Theorem disk_escape_fails root cwd l p rc k phys :
    is_dir_node root -> wf_dnode root = true ->
    canon_comps rc = true -> l_root l = abs_of rc -> l_restr l = RootOnly ->
    remote p = false ->
    resolves root k [] (raw_comps (abs_path cwd (load_path l p))) phys ->
    list_prefix rc (removelast phys) = false ->
    restrict (disk_ops root cwd) l (load_path l p) = Err /\
    forall root', d_same_shape root root' = true ->
      load remote http_get (disk_ops root' cwd) l p = Err.
  Proof.
    intros Hd Hwf Hrc Hroot Hr Hrem R Hout.
    assert (E : restrict (disk_ops root cwd) l (load_path l p) = Err).
    { unfold restrict. rewrite Hr. unfold restrict_root_only. cbn [disk_ops f_cleaned_abs].
      pose proof (d_cleaned_abs_spec root cwd (load_path l p) Hd Hwf) as S.
      destruct (eval_links root go_link_budget [] (raw_comps (abs_path cwd (load_path l p)))) as [phys'| | |] eqn:EV;
        try (rewrite S; reflexivity).
      destruct (eval_links_sound _ _ _ _ _ EV) as (k' & _ & R').
      pose proof (resolves_deterministic _ _ _ _ _ _ _ R R'). subst phys'.
      destruct S as [Hc S].
      remember (d_cleaned_abs root cwd (load_path l p)) as ca eqn:Eca. clear Eca.
      destruct S as [es Ha | c Ha Hne]; [reflexivity|].
      destruct (removelast_last_canon _ Hc Hne) as [Hrl Hl].
      rewrite (good_name_eqb_empty _ Hl).
      rewrite Hroot. rewrite cd_has_prefix_canon by auto. rewrite Hout. reflexivity. }
    split; auto. intros root' Hs. apply load_err_of_restrict; auto.
    rewrite <- (disk_restrict_shape root root' cwd l _ Hs). auto.
  Qed.
End Escape.

(* ---------- new roots: no cycles ---------- *)

Lemma cd_has_prefix_refl d : cd_has_prefix d d = true.
Proof. unfold cd_has_prefix. rewrite String.eqb_refl. rewrite orb_true_r. reflexivity. Qed.

Lemma arg_eoh_false cand stack :
  arg_equal_or_higher cand stack = false <-> Forall (fun r => cd_has_prefix r cand = false) stack.
Proof.
  induction stack as [|r t IH]; cbn.
  - split; auto.
  - rewrite orb_false_iff, IH. split.
    + intros [A B]. constructor; auto.
    + intros H. inv H. auto.
Qed.

(* the stack of roots of a loader chain: no root is at or above (or equal to) a root further down *)
Inductive stack_inv : list string -> Prop :=
| SI_nil : stack_inv []
| SI_cons : forall r t, stack_inv t -> Forall (fun x => cd_has_prefix x r = false) t -> stack_inv (r :: t).

Lemma stack_inv_nodup s : stack_inv s -> NoDup s.
Proof.
  induction 1; constructor; auto.
  intros Hin. rewrite Forall_forall in H0. specialize (H0 _ Hin).
  rewrite cd_has_prefix_refl in H0. discriminate.
Qed.

Section NewRoot.
  Variable is_repo : string -> bool.
  Variable git_new : loader -> string -> res loader.

  Theorem new_root_no_cycle fs l p l' :
    is_repo p = false ->
    new_root is_repo git_new fs l p = Ok l' ->
    Forall (fun r => cd_has_prefix r (l_root l') = false) (l_stack l) /\
    l_stack l' = l_root l' :: l_stack l /\
    l_restr l' = l_restr l /\
    confirm_dir fs (cd_join (l_root l) p) = Ok (l_root l') /\
    is_abs p = false.
  Proof.
    intros Hrepo H. unfold new_root in H.
    destruct (String.eqb p ""); [discriminate|]. rewrite Hrepo in H.
    destruct (is_abs p); [discriminate|].
    destruct (confirm_dir fs (cd_join (l_root l) p)) as [d| | |]; try discriminate.
    destruct (arg_equal_or_higher d (l_stack l)) eqn:A; [discriminate|].
    inv H. cbn. apply arg_eoh_false in A. auto.
  Qed.

  Theorem new_root_stack_inv fs l p l' :
    is_repo p = false -> stack_inv (l_stack l) ->
    new_root is_repo git_new fs l p = Ok l' -> stack_inv (l_stack l').
  Proof.
    intros Hrepo Hinv H. destruct (new_root_no_cycle _ _ _ _ Hrepo H) as (F & E & _).
    rewrite E. constructor; auto.
  Qed.

  Lemma new_loader_stack_inv fs r target l :
    is_repo target = false -> new_loader is_repo git_new fs r target = Ok l -> stack_inv (l_stack l).
  Proof.
    intros Hrepo H. unfold new_loader in H. rewrite Hrepo in H.
    destruct (confirm_dir fs target) as [d| | |]; try discriminate. inv H.
    constructor; constructor.
  Qed.
End NewRoot.

(* in terms of directory components: the new root is not an ancestor of (nor equal to) any root of the chain *)
Lemma not_prefix_components r cand :
  canon_comps r = true -> canon_comps cand = true ->
  cd_has_prefix (abs_of r) (abs_of cand) = false -> ~ exists rest, r = cand ++ rest.
Proof.
  intros Hr Hc H [rest E]. rewrite cd_has_prefix_canon in H by auto.
  assert (list_prefix cand r = true) by (apply list_prefix_iff; eauto). congruence.
Qed.

(* ---------- ConfirmDir returns canonical names of existing directories ---------- *)

Lemma mem_confirm_dir m q d :
  wf_mnode m = true -> confirm_dir (mem_ops m) q = Ok d ->
  exists cs es, d = abs_of cs /\ canon_comps cs = true /\ m_at m cs = Some (MDir es).
Proof.
  intros Hwf H. unfold confirm_dir in H. destruct (String.eqb q ""); [discriminate|].
  cbn [mem_ops f_cleaned_abs] in H. unfold m_cleaned_abs in H.
  destruct (m_find m q) as [[[cs [c|es]]|]| | |] eqn:F; try discriminate.
  - pose proof (m_find_file_nonempty _ _ _ _ F Hwf) as Hne.
    destruct (m_find_some _ _ _ _ Hwf F) as [Ha Hc].
    destruct (removelast_last_canon _ Hc Hne) as [_ Hl].
    rewrite (good_name_eqb_empty _ Hl) in H. discriminate.
  - cbn in H. inv H. destruct (m_find_some _ _ _ _ Hwf F) as [Ha Hc]. eauto.
Qed.

Lemma disk_confirm_dir root cwd q d :
  is_dir_node root -> wf_dnode root = true -> confirm_dir (disk_ops root cwd) q = Ok d ->
  exists cs es, d = abs_of cs /\ canon_comps cs = true /\ d_at root cs = Some (DDir es).
Proof.
  intros Hd Hwf H. unfold confirm_dir in H. destruct (String.eqb q ""); [discriminate|].
  cbn [disk_ops f_cleaned_abs] in H.
  pose proof (d_cleaned_abs_spec root cwd q Hd Hwf) as S.
  destruct (eval_links root go_link_budget [] (raw_comps (abs_path cwd q))) as [phys| | |];
    try (rewrite S in H; discriminate).
  destruct S as [Hc S].
  remember (d_cleaned_abs root cwd q) as ca eqn:Eca. clear Eca.
  destruct S as [es Ha | c Ha Hne].
  - cbn in H. inv H. eauto.
  - destruct (removelast_last_canon _ Hc Hne) as [_ Hl].
    rewrite (good_name_eqb_empty _ Hl) in H. discriminate.
Qed.

(* ---------- escapes fail: in-memory file system ---------- *)

(* lexical normal form of an absolute path: the names left after cancelling "." and ".." *)
Definition norm_comps (q : string) : list string := rev (clean_stack true [] (raw_comps q)).

Section EscapeMem.
  Variable remote : string -> bool.
  Variable http_get : string -> res string.

  (* whatever the file system's Find locates for the reference: outside the root => rejected,
     in every file system of the same shape *)
  Theorem mem_escape_fails m l p rc cs n :
    wf_mnode m = true -> canon_comps rc = true -> l_root l = abs_of rc -> l_restr l = RootOnly ->
    remote p = false ->
    m_find m (load_path l p) = Ok (Some (cs, n)) ->
    list_prefix rc (removelast cs) = false ->
    restrict (mem_ops m) l (load_path l p) = Err /\
    forall m', m_same_shape m m' = true -> load remote http_get (mem_ops m') l p = Err.
  Proof.
    intros Hwf Hrc Hroot Hr Hrem F Hout.
    assert (E : restrict (mem_ops m) l (load_path l p) = Err).
    { unfold restrict. rewrite Hr. unfold restrict_root_only. cbn [mem_ops f_cleaned_abs].
      unfold m_cleaned_abs. rewrite F. destruct n as [c|es]; [|reflexivity].
      pose proof (m_find_file_nonempty _ _ _ _ F Hwf) as Hne.
      destruct (m_find_some _ _ _ _ Hwf F) as [Ha Hc].
      destruct (removelast_last_canon _ Hc Hne) as [Hrl Hl].
      rewrite (good_name_eqb_empty _ Hl). rewrite Hroot, cd_has_prefix_canon by auto.
      rewrite Hout. reflexivity. }
    split; auto. intros m' Hs. apply load_err_of_restrict; auto.
    rewrite <- (mem_restrict_shape m m' l _ Hs). auto.
  Qed.

  (* a relative reference denotes, lexically, norm_comps (root/p); the in-memory FS looks exactly there *)
  Lemma mem_relative_load_path l p rc :
    l_root l = abs_of rc -> is_abs p = false ->
    load_path l p = abs_of (norm_comps (abs_of rc ++ sep ++ p)%string).
  Proof.
    intros Hroot Hp. unfold load_path. rewrite Hp, Hroot. reflexivity.
  Qed.

  Theorem mem_escape_fails_lexical m l p rc n :
    wf_mnode m = true -> m_is_dir m = true ->
    canon_comps rc = true -> l_root l = abs_of rc -> l_restr l = RootOnly ->
    remote p = false -> is_abs p = false ->
    let cs := norm_comps (abs_of rc ++ sep ++ p)%string in
    m_at m cs = Some n ->
    list_prefix rc (removelast cs) = false ->
    load remote http_get (mem_ops m) l p = Err.
  Proof.
    intros Hwf Hdir Hrc Hroot Hr Hrem Hp cs Ha Hout.
    assert (F : m_find m (load_path l p) = Ok (Some (cs, n))).
    { rewrite (mem_relative_load_path l p rc Hroot Hp). fold cs.
      destruct (m_at_wf _ _ _ Hwf Ha) as [Hc _].
      destruct cs as [|c cs'] eqn:Ecs.
      - cbn in Ha. inv Ha. unfold m_find. rewrite Hdir. reflexivity.
      - apply m_find_abs_of; auto. congruence. }
    destruct (mem_escape_fails m l p rc cs n Hwf Hrc Hroot Hr Hrem F Hout) as [E _].
    apply load_err_of_restrict; auto.
  Qed.
End EscapeMem.

(* ---------- non-vacuity: concrete inputs meeting the hypotheses ---------- *)

Module Examples.
  Definition never (_ : string) : bool := false.
  Definition no_http (_ : string) : res string := Err.
  Definition no_git (_ : loader) (_ : string) : res loader := Err.

  Definition m : mnode :=
    MDir [("root", MDir [("k", MFile "K"); ("sub", MDir [("f", MFile "F")])]);
          ("root-evil", MDir [("s", MFile "SECRET")]); ("x", MFile "X")].
  Definition l := mkLoader "/root" [] RootOnly.

  Example mem_inside : load never no_http (mem_ops m) l "sub/../sub/f" = Ok "F".
  Proof. reflexivity. Qed.
  Example mem_hyps : wf_mnode m = true /\ canon_comps ["root"] = true /\ l_root l = abs_of ["root"].
  Proof. repeat split. Qed.
  Example mem_escape_evil : load never no_http (mem_ops m) l "../root-evil/s" = Err.
  Proof.
    eapply (mem_escape_fails_lexical never no_http m l "../root-evil/s" ["root"]); try reflexivity.
  Qed.
  Example mem_escape_abs : load never no_http (mem_ops m) l "/root-evil/s" = Err.
  Proof. reflexivity. Qed.

  Definition d : dnode :=
    DDir [("root", DDir [("k", DFile "K"); ("in", DLink "sub/f"); ("out", DLink "../secret");
                         ("outd", DLink "/other"); ("loop", DLink "loop");
                         ("sub", DDir [("f", DFile "F"); ("up", DLink "..")])]);
          ("secret", DFile "S"); ("other", DDir [("o", DFile "O")])].

  Example disk_inside_link : load never no_http (disk_ops d "/") l "in" = Ok "F".
  Proof. reflexivity. Qed.
  Example disk_hyps : is_dir_node d /\ wf_dnode d = true.
  Proof. split; [eexists; reflexivity|reflexivity]. Qed.
  Example disk_resolves_out : exists k, resolves d k [] (raw_comps (abs_path "/" (load_path l "out"))) ["secret"].
  Proof.
    destruct (eval_links_sound d go_link_budget (raw_comps (abs_path "/" (load_path l "out"))) [] ["secret"]) as (k & _ & R);
      [reflexivity|eauto].
  Qed.
  Example disk_escape_out : load never no_http (disk_ops d "/") l "out" = Err.
  Proof.
    destruct disk_resolves_out as [k R]. destruct disk_hyps as [Hd Hw].
    destruct (disk_escape_fails never no_http d "/" l "out" ["root"] k ["secret"] Hd Hw) as [_ E]; try reflexivity; auto.
  Qed.
  Example disk_loop_is_error : load never no_http (disk_ops d "/") l "loop" = Err.
  Proof. reflexivity. Qed.

  Example new_root_ok :
    exists l', new_root never no_git (mem_ops m) l "sub" = Ok l' /\ l_root l' = "/root/sub".
  Proof. eexists; split; reflexivity. Qed.
  Example new_root_cycle : new_root never no_git (mem_ops m) l ".." = Err.
  Proof. reflexivity. Qed.
  Example new_root_self : new_root never no_git (mem_ops m) l "." = Err.
  Proof. reflexivity. Qed.

  (* the recursion over bases: "/root" lists "sub", nothing else lists anything *)
  Definition bases1 (r : string) : list string := if String.eqb r "/root" then ["sub"] else [].
  Example visit_ok : visit_roots never no_git 5 (mem_ops m) bases1 l = Ok ["/root"; "/root/sub"].
  Proof. reflexivity. Qed.
  (* a kustomization listing itself or its parent is an error, not a loop *)
  Example visit_cycle : visit_roots never no_git 5 (mem_ops m) (fun _ => [".."]) l = Err.
  Proof. reflexivity. Qed.
  Example m_has_4_dirs : List.length (m_dirs m) = 4%nat.
  Proof. reflexivity. Qed.
End Examples.

(* ---------- the chain of roots is bounded by the number of directories ---------- *)

Section Bounded.
  Variable is_repo : string -> bool.
  Variable git_new : loader -> string -> res loader.
  Variable fs : fsops.
  (* the directories ConfirmDir can return: a finite list *)
  Variable dirs : list string.
  Hypothesis Hdirs : forall q d, confirm_dir fs q = Ok d -> In d dirs.
  (* the file system's CleanedAbs has no fuel of its own to run out of *)
  Hypothesis Hnd : forall q, f_cleaned_abs fs q <> Diverge.

  (* what holds of every loader built by NewLoader and New on local references *)
  Definition chain_ok (l : loader) : Prop :=
    stack_inv (l_stack l) /\ Forall (fun r => In r dirs) (l_stack l).

  Lemma new_loader_chain_ok r target l :
    is_repo target = false -> new_loader is_repo git_new fs r target = Ok l ->
    chain_ok l /\ List.length (l_stack l) = 1.
  Proof.
    intros Hrepo H. split; [split|].
    - eapply new_loader_stack_inv; eauto.
    - unfold new_loader in H. rewrite Hrepo in H.
      destruct (confirm_dir fs target) as [d| | |] eqn:C; try discriminate. inv H.
      constructor; [|constructor]. cbn. eauto.
    - unfold new_loader in H. rewrite Hrepo in H.
      destruct (confirm_dir fs target) as [d| | |]; try discriminate. inv H. reflexivity.
  Qed.

  Lemma new_root_chain_ok l p l' :
    is_repo p = false -> chain_ok l -> new_root is_repo git_new fs l p = Ok l' ->
    chain_ok l' /\ List.length (l_stack l') = S (List.length (l_stack l)).
  Proof.
    intros Hrepo [Hinv Hin] H.
    destruct (new_root_no_cycle _ _ _ _ _ _ Hrepo H) as (F & E & _ & C & _).
    split; [split|].
    - eapply new_root_stack_inv; eauto.
    - rewrite E. constructor; auto. eapply Hdirs; eauto.
    - rewrite E. reflexivity.
  Qed.

  (* pairwise distinct existing directories: no more of them than there are directories *)
  Theorem stack_bounded l : chain_ok l -> List.length (l_stack l) <= List.length dirs.
  Proof.
    intros [Hinv Hin]. apply NoDup_incl_length.
    - apply stack_inv_nodup; auto.
    - intros x Hx. rewrite Forall_forall in Hin. auto.
  Qed.

  (* loading cannot recurse forever: with one unit of fuel per directory not yet on the chain (plus one)
     the recursion over bases never runs out of fuel *)
  Theorem visit_roots_terminates (bases : string -> list string) :
    (forall r p, In p (bases r) -> is_repo p = false) ->
    forall fuel l,
      chain_ok l -> fuel + List.length (l_stack l) > List.length dirs ->
      visit_roots is_repo git_new fuel fs bases l <> Diverge.
  Proof.
    intros Hb. induction fuel as [|f IH]; intros l Hc Hf.
    - pose proof (stack_bounded l Hc). lia.
    - cbn [visit_roots].
      assert (G : forall ps, (forall p, In p ps -> is_repo p = false) ->
                (fix go (ps : list string) : res (list string) :=
                   match ps with
                   | [] => Ok []
                   | p :: t =>
                       match new_root is_repo git_new fs l p with
                       | Ok l2 => do a <- visit_roots is_repo git_new f fs bases l2; do b <- go t; Ok (a ++ b)
                       | Err => Err
                       | Panic => Panic
                       | Diverge => Diverge
                       end
                   end) ps <> Diverge).
      { induction ps as [|p t IHt]; intros Hp; [discriminate|].
        destruct (new_root is_repo git_new fs l p) as [l2| | |] eqn:N; try discriminate.
        - destruct (new_root_chain_ok l p l2 (Hp p (or_introl eq_refl)) Hc N) as [Hc2 L2].
          specialize (IH l2 Hc2 ltac:(lia)).
          destruct (visit_roots is_repo git_new f fs bases l2) as [a| | |]; try discriminate; [|congruence].
          cbn [bind]. specialize (IHt (fun q Hq => Hp q (or_intror Hq))).
          match goal with |- bind ?X _ <> _ => destruct X as [b| | |]; try discriminate; congruence end.
        - exfalso. unfold new_root in N.
          destruct (String.eqb p ""); [discriminate|]. rewrite (Hp p (or_introl eq_refl)) in N.
          destruct (is_abs p); [discriminate|].
          destruct (confirm_dir fs (cd_join (l_root l) p)) as [d| | |] eqn:C; try discriminate.
          + destruct (arg_equal_or_higher d (l_stack l)); discriminate.
          + unfold confirm_dir in C. destruct (String.eqb (cd_join (l_root l) p) ""); [discriminate|].
            destruct (f_cleaned_abs fs (cd_join (l_root l) p)) as [[d f0]| | |] eqn:CA; try discriminate.
            * destruct (String.eqb f0 ""); discriminate.
            * eapply Hnd; eauto. }
      specialize (G (bases (l_root l)) (fun p Hp => Hb _ p Hp)).
      match goal with |- bind ?X _ <> _ => destruct X as [b| | |]; try discriminate; congruence end.
  Qed.
End Bounded.

(* ---------- instances: the two file systems ---------- *)

Lemma m_walk_no_diverge cs : forall n, m_walk n cs <> Diverge.
Proof.
  induction cs as [|c cs IH]; intros n; cbn; [discriminate|].
  destruct n as [|es]; [discriminate|]. destruct (m_lookup c es); [apply IH|discriminate].
Qed.

Lemma m_cleaned_abs_no_diverge m q : m_cleaned_abs m q <> Diverge.
Proof.
  unfold m_cleaned_abs, m_find. destruct (m_is_dir m); cbn [negb]; [|discriminate].
  destruct (String.eqb q ""); [discriminate|].
  destruct (String.eqb q sep || String.eqb q "."); [destruct m; discriminate|].
  pose proof (m_walk_no_diverge (raw_comps (clean_query q)) m).
  destruct (m_walk m (raw_comps (clean_query q))) as [[[c|es]|]| | |]; try discriminate; congruence.
Qed.

Lemma d_cleaned_abs_no_diverge root cwd q : d_cleaned_abs root cwd q <> Diverge.
Proof.
  unfold d_cleaned_abs, eval_symlinks.
  destruct (eval_links_ok_or_err root go_link_budget (raw_comps (abs_path cwd q)) []) as [[phys E]|E]; rewrite E; [|discriminate].
  destruct (d_is_dir root cwd (clean (abs_of phys))); [discriminate|].
  destruct (negb (d_is_dir root cwd (dir_of (clean (abs_of phys))))); [discriminate|].
  destruct (String.eqb (dir_of (clean (abs_of phys))) (clean (abs_of phys))); [discriminate|].
  destruct (negb (String.eqb (join2 (dir_of (clean (abs_of phys))) (base_of (clean (abs_of phys)))) (clean (abs_of phys)))); discriminate.
Qed.

Definition mem_dir_names (m : mnode) : list string := map abs_of (m_dirs m).
Definition disk_dir_names (root : dnode) : list string := map abs_of (d_dirs root).

Lemma mem_confirm_dir_in_dirs m q d :
  wf_mnode m = true -> confirm_dir (mem_ops m) q = Ok d -> In d (mem_dir_names m).
Proof.
  intros Hwf H. destruct (mem_confirm_dir m q d Hwf H) as (cs & es & -> & _ & Ha).
  apply in_map. eapply m_at_in_dirs; eauto.
Qed.

Lemma disk_confirm_dir_in_dirs root cwd q d :
  is_dir_node root -> wf_dnode root = true -> confirm_dir (disk_ops root cwd) q = Ok d -> In d (disk_dir_names root).
Proof.
  intros Hd Hwf H. destruct (disk_confirm_dir root cwd q d Hd Hwf H) as (cs & es & -> & _ & Ha).
  apply in_map. eapply d_at_in_dirs; eauto.
Qed.

Section BoundedInstances.
  Variable is_repo : string -> bool.
  Variable git_new : loader -> string -> res loader.

  (* In-memory FS: from the loader krusty.Run starts with, any chain of successful New calls has at most
     as many roots as the tree has directories, and the recursion over bases terminates with
     fuel = number of directories (one more than needed, as the first root is already on the chain). *)
  Theorem mem_stack_bounded m l :
    wf_mnode m = true -> chain_ok (mem_dir_names m) l ->
    List.length (l_stack l) <= List.length (m_dirs m).
  Proof.
    intros Hwf Hc. rewrite <- (map_length abs_of). eapply stack_bounded; eauto.
  Qed.

  Theorem mem_visit_roots_terminates m r target l bases :
    wf_mnode m = true -> is_repo target = false ->
    (forall rt p, In p (bases rt) -> is_repo p = false) ->
    new_loader is_repo git_new (mem_ops m) r target = Ok l ->
    visit_roots is_repo git_new (S (List.length (m_dirs m))) (mem_ops m) bases l <> Diverge.
  Proof.
    intros Hwf Hrt Hb Hl.
    destruct (new_loader_chain_ok is_repo git_new (mem_ops m) (mem_dir_names m)
                (fun q d => mem_confirm_dir_in_dirs m q d Hwf) r target l Hrt Hl) as [Hc L].
    apply (visit_roots_terminates is_repo git_new (mem_ops m) (mem_dir_names m)
             (fun q d => mem_confirm_dir_in_dirs m q d Hwf) (m_cleaned_abs_no_diverge m) bases Hb); auto.
    unfold mem_dir_names. rewrite map_length. lia.
  Qed.

  Theorem disk_stack_bounded root l :
    chain_ok (disk_dir_names root) l -> List.length (l_stack l) <= List.length (d_dirs root).
  Proof. intros Hc. rewrite <- (map_length abs_of). eapply stack_bounded; eauto. Qed.

  Theorem disk_visit_roots_terminates root cwd r target l bases :
    is_dir_node root -> wf_dnode root = true -> is_repo target = false ->
    (forall rt p, In p (bases rt) -> is_repo p = false) ->
    new_loader is_repo git_new (disk_ops root cwd) r target = Ok l ->
    visit_roots is_repo git_new (S (List.length (d_dirs root))) (disk_ops root cwd) bases l <> Diverge.
  Proof.
    intros Hd Hwf Hrt Hb Hl.
    destruct (new_loader_chain_ok is_repo git_new (disk_ops root cwd) (disk_dir_names root)
                (fun q d => disk_confirm_dir_in_dirs root cwd q d Hd Hwf) r target l Hrt Hl) as [Hc L].
    apply (visit_roots_terminates is_repo git_new (disk_ops root cwd) (disk_dir_names root)
             (fun q d => disk_confirm_dir_in_dirs root cwd q d Hd Hwf) (d_cleaned_abs_no_diverge root cwd) bases Hb); auto.
    unfold disk_dir_names. rewrite map_length. lia.
  Qed.
End BoundedInstances.

(* ---------- visit_trace is visit_roots with its trace ---------- *)

Section VisitTrace.
  Variable is_repo : string -> bool.
  Variable git_new : loader -> string -> res loader.

  Lemma visit_trace_spec fs bases fuel : forall l,
    class_of (visit_roots is_repo git_new fuel fs bases l) = snd (visit_trace is_repo git_new fuel fs bases l) /\
    (forall rs, visit_roots is_repo git_new fuel fs bases l = Ok rs ->
                fst (visit_trace is_repo git_new fuel fs bases l) = rs).
  Proof.
    induction fuel as [|f IH]; intros l; [split; [reflexivity|discriminate]|].
    cbn [visit_roots visit_trace].
    set (goR := fix go (ps : list string) : res (list string) :=
           match ps with
           | [] => Ok []
           | p :: t =>
               match new_root is_repo git_new fs l p with
               | Ok l2 => do a <- visit_roots is_repo git_new f fs bases l2; do b <- go t; Ok (a ++ b)
               | Err => Err
               | Panic => Panic
               | Diverge => Diverge
               end
           end).
    set (goT := fix go (ps : list string) : list string * oclass :=
           match ps with
           | [] => ([], COk)
           | p :: t =>
               match new_root is_repo git_new fs l p with
               | Ok l2 =>
                   let (a, ca) := visit_trace is_repo git_new f fs bases l2 in
                   match ca with
                   | COk => let (b, cb) := go t in ((a ++ b)%list, cb)
                   | _ => (a, ca)
                   end
               | r => ([], class_of r)
               end
           end).
    assert (G : forall ps, class_of (goR ps) = snd (goT ps) /\ (forall rs, goR ps = Ok rs -> fst (goT ps) = rs)).
    { induction ps as [|p t IHt]; [split; [reflexivity|intros rs H; inv H; reflexivity]|].
      cbn [goR goT]. destruct (new_root is_repo git_new fs l p) as [l2| | |]; try (split; [reflexivity|discriminate]).
      destruct (IH l2) as [Hc Ht].
      destruct (visit_trace is_repo git_new f fs bases l2) as [a ca]. cbn [fst snd] in *.
      destruct (visit_roots is_repo git_new f fs bases l2) as [a0| | |]; cbn [class_of] in Hc; subst ca; cbn [bind];
        try (split; [reflexivity|discriminate]).
      specialize (Ht a0 eq_refl). subst a0.
      destruct IHt as [Hc2 Ht2]. destruct (goT t) as [b cb]. cbn [fst snd] in *.
      destruct (goR t) as [b0| | |]; cbn [class_of] in Hc2; subst cb; cbn [bind];
        try (split; [reflexivity|discriminate]).
      specialize (Ht2 b0 eq_refl). subst b0. split; [reflexivity|]. intros rs H. inv H. reflexivity. }
    destruct (G (bases (l_root l))) as [Hc Ht]. destruct (goT (bases (l_root l))) as [rs c]. cbn [fst snd] in *.
    destruct (goR (bases (l_root l))) as [rs0| | |]; cbn [class_of] in Hc; subst c; cbn [bind];
      try (split; [reflexivity|discriminate]).
    specialize (Ht rs0 eq_refl). subst rs0. split; [reflexivity|]. intros x H. inv H. reflexivity.
  Qed.
End VisitTrace.
