(* C18 — `kustomize localize` is confined, equivalent and all-or-nothing: property theorems only.
   Model: KV.Fs.Localize (effect program + in-memory file system + fault injection).
   Vocabulary (KV.Fs.LocalizeProofs):
     fs_wf s            every bound path of s consists of proper components (no "", ".", "..", no '/')
     newdir_path t n    where the destination argument n lands (default name derived from target t)
     ev_target e        the path of trace event e as the file system resolves it
     mutating op        Mkdir | MkdirAll | WriteFile
     ancestors_dirs d s every proper ancestor of d is an existing directory of s
     exists_path s d    FileSystem.Exists(d)
   All statements quantify over the oracle tables (what YAML parsing sees), the chooser (Go's map
   iteration order), the fuel, all three arguments, ALL fault positions and all well-formed states. *)
From KV Require Import Fs.LocPath Fs.LocPathProofs Fs.Localize Fs.LocalizeProofs Fs.LocalizeExamples.
From KV Require Import Fs.LocalizeBuild Fs.LocalizeBuildProofs Fs.LocalizeMirrorProofs.
From KV Require Res.Pipeline.
Open Scope list_scope.

(* Every mkdir / write that any run attempts — whatever fails, wherever — targets a path inside
   newDir; RemoveAll is only applied to newDir itself. *)
Theorem C18_writes_confined :
  forall orc ch fuel target scope newdir fault s w out,
    fs_wf s ->
    run_localize orc ch fuel target scope newdir fault s = (w, out) ->
    forall e, In e (w_trace w) ->
      (mutating (ev_op e) = true -> is_prefix (newdir_path target newdir) (ev_target e) = true) /\
      (ev_op e = ORemoveAll -> ev_target e = newdir_path target newdir).
Proof. exact writes_confined_in. Qed.
Print Assumptions C18_writes_confined.

(* Nothing outside newDir is created, modified or removed, for every outcome and fault position.
   Hypothesis: newDir's ancestors exist (the in-memory Mkdir would otherwise create them). *)
Theorem C18_source_unchanged :
  forall orc ch fuel target scope newdir fault s w out,
    fs_wf s ->
    ancestors_dirs (newdir_path target newdir) s ->
    run_localize orc ch fuel target scope newdir fault s = (w, out) ->
    forall p, is_prefix (newdir_path target newdir) p = false -> lookup p (w_fs w) = lookup p s.
Proof. exact source_unchanged. Qed.
Print Assumptions C18_source_unchanged.

(* FULL statement (REFUTED on the faithful model, see below):
     all_or_nothing_law := forall … fault s w out, fs_wf s -> exists_path s newDir = false ->
       run_localize … fault s = (w, out) -> out is not Ok -> (no RemoveAll failed) ->
       exists_path (w_fs w) newDir = false.
   PROVED part (after the repairs d268200 and 113a8f3): whenever localize RETURNS an error or PANICS —
   for every fault position — newDir, which did not exist before, does not exist afterwards,
   provided no RemoveAll call failed (a failed cleanup is a second failure: out of the single-fault
   domain, see design.d/C18.md).
   Missing: the process exit (refuted_3, log.Fatalf — os.Exit runs no deferred call).  Shapes (a),
   (b) (refuted_1/_2 until d268200) and (d), (e) (refuted_4/_5 until 113a8f3) are instances of this
   theorem now; regression examples repaired_a/_b/_d/_e in Fs/LocalizeExamples.v. *)
Theorem C18_all_or_nothing_partial :
  forall orc ch fuel target scope newdir fault s w x,
    fs_wf s ->
    x = XErr \/ x = XPanic ->
    exists_path s (newdir_path target newdir) = false ->
    run_localize orc ch fuel target scope newdir fault s = (w, OExn x) ->
    (forall e, In e (w_trace w) -> ev_op e = ORemoveAll -> ev_ok e = true) ->
    exists_path (w_fs w) (newdir_path target newdir) = false.
Proof. exact all_or_nothing_partial. Qed.
Print Assumptions C18_all_or_nothing_partial.

(* A stronger fact for the early failures: a run none of whose events can have changed the state (no
   successful mkdir/write, no successful RemoveAll of a real path) ends in the initial state —
   failures before Mkdir(newDir) (bad target / scope, existing or illegal newDir, a fault on
   operations 0..2) leave everything exactly as it was, also a pre-existing newDir. *)
Theorem C18_all_or_nothing_partial_early :
  forall orc ch fuel target scope newdir fault s w out,
    run_localize orc ch fuel target scope newdir fault s = (w, out) ->
    Forall quiet_ev (w_trace w) ->
    w_fs w = s.
Proof. exact nothing_created_nothing_left. Qed.
Print Assumptions C18_all_or_nothing_partial_early.

(* leftover_at i x: on the tree of corpus/C18/two-roots.json (target /s/t, scope /s, newDir /new),
   failing file-system call number i ends with outcome x, satisfies every hypothesis of
   all_or_nothing_law, and leaves /new behind. *)

(* (c) CleanedAbs inside cleanedRelativePath fails: log.Fatalf, the process exits *)
Theorem C18_all_or_nothing_refuted_3 : exists i, leftover_at i XFatal.
Proof. exact all_or_nothing_refuted_3. Qed.
Print Assumptions C18_all_or_nothing_refuted_3.

(* "produces a copy whose build output is identical" is REFUTED on the faithful model without any
   fault (corpus/C18/helm-values-inside-home.json): helmCharts[0].valuesFile lies inside the local
   chart home; it is localized first, so newDir/t/charts exists when copyChartHome tests
   `!Exists(dst)` and the chart home is never copied.  localize reports success; Chart.yaml and the
   templates are missing from the destination. *)
Theorem C18_equivalent_refuted :
  fs_wf ex3_fs /\
  snd ex3_run = OOk "/new" /\
  lookup ["s"; "t"; "charts"; "app"; "Chart.yaml"] ex3_fs = Some (EFile (CRaw 1)) /\
  lookup ["new"; "t"; "charts"; "app"; "values.yaml"] (w_fs (fst ex3_run)) = Some (EFile (CRaw 4)) /\
  lookup ["new"; "t"; "charts"; "app"; "Chart.yaml"] (w_fs (fst ex3_run)) = None.
Proof. exact incomplete_copy_witness. Qed.
Print Assumptions C18_equivalent_refuted.

Theorem C18_all_or_nothing_refuted : ~ all_or_nothing_law.
Proof. exact all_or_nothing_law_false. Qed.
Print Assumptions C18_all_or_nothing_refuted.

(* FULL statement (not proved in Coq; evaluated on the implementation by the krusty.Run oracle):
     a successful run leaves a tree whose build output equals the original's.
   PROVED part, per reference: (1) the path string the localizer writes into a kustomization /
   plugin (the printed filepath.Rel result), joined to the mirrored root the way a later build
   does, is exactly the location that was written; (2) for every non-empty file reference that
   localizeFile accepts (the handler of openapi.path, configurations, crds, generator files / envs,
   patches, patchesJson6902, replacements, plugin paths; resources use the same two steps), the
   bytes bound at the referenced cleaned source path are afterwards bound at the rewritten path
   below the mirrored root (or a directory was already there).
   Missing: that later writes of the same run do not overwrite a copy, the recursion over roots, and
   the build semantics itself. *)
Theorem C18_rewritten_path_resolves :
  forall dst lp,
    forallb (fun c => negb (str_contains_char slash c)) lp = true ->
    join_abs dst (show_rel lp) = join_comps dst lp.
Proof. exact rewritten_path_resolves. Qed.
Print Assumptions C18_rewritten_path_resolves.

Theorem C18_equivalent_partial :
  forall ch fault scope nd lc path w w' s,
    good_path (lc_dst lc) = true -> fs_wf (w_fs w) -> path <> "" ->
    run ch fault (loc_file (mkArgs scope nd) lc path) w = (w', OOk s) ->
    exists c,
      lookup (query_comps (abs_of (lc_root lc) path)) (w_fs w) = Some (EFile c) /\
      (lookup (join_abs (lc_dst lc) s) (w_fs w') = Some (EFile c) \/
       lookup (join_abs (lc_dst lc) s) (w_fs w') = Some EDir).
Proof. exact loc_file_copies. Qed.
Print Assumptions C18_equivalent_partial.

(* Towards "building the localized copy equals building the original", in the integrated build model
   (Res/Pipeline.v) and for the directive set the two models share: `resources` (files and nested
   kustomization roots) plus every non-path directive, carried opaquely ([dirs]).
     read_tree    resolves a root of a file-system state into the tree a build loads (the unique
                  kustomization file, its resources entries joined to the root: a resource file inside
                  the root, or a directory read recursively);
     mirror_ok    DECIDABLE: every binding below newDir is an existing source directory, a
                  byte-identical copy of the file at the mirrored source path, a localized plugin, or a
                  localized kustomization whose resources are the cleaned references of the source's,
                  all resolving inside the scope.
   PROVED: for EVERY pair of states related by mirror_ok, the tree read from the destination is the
   tree read from the source, so Pipeline.build gives the same result whatever YAML parsing yields
   ([docs]) and whatever the non-path directives are.
   That the final state of a successful run satisfies mirror_ok is PROVED for the resources-only
   fragment (C18_localize_mirrors_partial below) and additionally evaluated by Corr/C18.v on the final
   state of every successful run of every case (all fields); that the destination reads whenever the
   source does is checked there, not proved.  Outside: patches, generators with file sources, configurations, openapi path —
   Pipeline.v has no syntax for them (they are covered per reference by C18_equivalent_partial and on
   the implementation by the krusty.Run oracle). *)
Theorem C18_equivalent_build_partial :
  forall orc scope nd s0 s',
    good_path scope = true -> good_path nd = true -> fs_wf s0 -> fs_wf s' ->
    mirror_ok orc scope nd s0 s' = true ->
    forall fuel fuel' r t t', good_path r = true ->
      read_tree orc fuel s' (nd ++ r) = Some t' ->
      read_tree orc fuel' s0 (scope ++ r) = Some t ->
      forall nonstr docs dirs o,
        Pipeline.build nonstr o (to_ptree docs dirs t') = Pipeline.build nonstr o (to_ptree docs dirs t).
Proof. exact mirror_build_eq. Qed.
Print Assumptions C18_equivalent_build_partial.

(* A successful localize run ends in a faithful image of the source — PROVED for the resources-only
   fragment (every file the YAML oracle reads as a kustomization has no path-bearing field besides
   `resources`; no file is both a kustomization and a resource).  Domain: well-formed, parent-closed
   source state; newDir fresh, beside the scope (neither contains the other), its ancestors existing.
   Any fault position that still lets the run succeed, any map-iteration order.
   FULL statement would drop the fragment hypothesis (all 18 path-bearing fields); missing: the image
   relation and the handlers' content-aware invariants for the other fields. *)
Theorem C18_localize_mirrors_partial :
  forall orc ch fuel target scope newdir fault s w d,
    fs_wf s ->
    ancestors_dirs (newdir_path target newdir) s ->
    is_prefix (newdir_path target newdir) (scope_path target scope) = false ->
    is_prefix (scope_path target scope) (newdir_path target newdir) = false ->
    (forall p e k, lookup p s = Some e -> 0 < k < List.length p -> lookup (firstn k p) s = Some EDir) ->
    lookup [] s = None ->
    (forall x, lookup (newdir_path target newdir ++ x) s = None) ->
    (forall id k, o_kust orc id = Some k -> resources_only k = true) ->
    (forall id, o_res orc id = true -> o_kust orc id = None) ->
    run_localize orc ch fuel target scope newdir fault s = (w, OOk d) ->
    mirror_ok orc (scope_path target scope) (newdir_path target newdir) s (w_fs w) = true /\
    good_path (scope_path target scope) = true /\ good_path (newdir_path target newdir) = true /\
    fs_wf (w_fs w) /\
    exists r, good_path r = true /\ query_comps target = scope_path target scope ++ r.
Proof. exact localize_mirrors. Qed.
Print Assumptions C18_localize_mirrors_partial.

(* … which closes the build equivalence without any per-run check: for every successful run of the
   fragment, the tree a build loads from the destination's target and the tree it loads from the
   source target give the same Pipeline.build output. *)
Theorem C18_equivalent_build :
  forall orc ch fuel target scope newdir fault s w d,
    fs_wf s ->
    ancestors_dirs (newdir_path target newdir) s ->
    is_prefix (newdir_path target newdir) (scope_path target scope) = false ->
    is_prefix (scope_path target scope) (newdir_path target newdir) = false ->
    (forall p e k, lookup p s = Some e -> 0 < k < List.length p -> lookup (firstn k p) s = Some EDir) ->
    lookup [] s = None ->
    (forall x, lookup (newdir_path target newdir ++ x) s = None) ->
    (forall id k, o_kust orc id = Some k -> resources_only k = true) ->
    (forall id, o_res orc id = true -> o_kust orc id = None) ->
    run_localize orc ch fuel target scope newdir fault s = (w, OOk d) ->
    exists r, query_comps target = scope_path target scope ++ r /\
      forall fuel1 fuel2 t t',
        read_tree orc fuel1 (w_fs w) (newdir_path target newdir ++ r) = Some t' ->
        read_tree orc fuel2 s (query_comps target) = Some t ->
        forall nonstr docs dirs o,
          Pipeline.build nonstr o (to_ptree docs dirs t') = Pipeline.build nonstr o (to_ptree docs dirs t).
Proof. exact localize_build_eq. Qed.
Print Assumptions C18_equivalent_build.

(* ---- obligations over the tables regenerated from /repo (Gen/LocalizeTables.v) ---- *)

Theorem C18_Gen_kust_names_good : forallb good_comp gen_kust_file_names = true.
Proof. exact Gen_kust_names_good. Qed.
Print Assumptions C18_Gen_kust_names_good.

Theorem C18_Gen_native_map_fields :
  gen_native_map_fields =
  [("bases", "kust.Bases", "lc.localizeRoot");
   ("components", "kust.Components", "lc.localizeRoot");
   ("configurations", "kust.Configurations", "lc.localizeFile");
   ("crds", "kust.Crds", "lc.localizeFile");
   ("resources", "kust.Resources", "lc.localizeResource")].
Proof. exact Gen_native_map_fields. Qed.
Print Assumptions C18_Gen_native_map_fields.

Theorem C18_Gen_plugin_map_fields :
  gen_plugin_map_fields =
  [("generators", "kust.Generators"); ("transformers", "kust.Transformers"); ("validators", "kust.Validators")].
Proof. exact Gen_plugin_map_fields. Qed.
Print Assumptions C18_Gen_plugin_map_fields.

Theorem C18_Gen_native_calls :
  gen_native_calls =
  [("localizeFile", "path");
   ("localizeGenerator", "&kust.ConfigMapGenerator[i].GeneratorArgs");
   ("localizeGenerator", "&kust.SecretGenerator[i].GeneratorArgs");
   ("localizeHelmInflationGenerator", "kust");
   ("localizeHelmCharts", "kust");
   ("localizePatches", "kust.Patches");
   ("localizePatches", "kust.PatchesJson6902");
   ("localizeK8sResource", "string(patch)");
   ("localizeFile", "replacement.Path")].
Proof. exact Gen_native_calls. Qed.
Print Assumptions C18_Gen_native_calls.

Theorem C18_Gen_plugin_specs :
  gen_plugin_specs =
  [("0", "ConfigMapGenerator", "env"); ("0", "ConfigMapGenerator", "envs");
   ("0", "SecretGenerator", "env"); ("0", "SecretGenerator", "envs");
   ("0", "HelmChartInflationGenerator", "valuesFile");
   ("0", "HelmChartInflationGenerator", "additionalValuesFiles");
   ("0", "PatchTransformer", "path"); ("0", "PatchJson6902Transformer", "path");
   ("0", "ReplacementTransformer", "replacements/path");
   ("1", "ConfigMapGenerator", "files"); ("1", "SecretGenerator", "files");
   ("2", "PatchStrategicMergeTransformer", "paths")] /\
  gen_plugin_spec_fns =
  [("0", "lbp.lc.localizeFile"); ("1", "lbp.lc.localizeFileSource"); ("2", "lbp.lc.localizeK8sResource")].
Proof. exact Gen_plugin_specs. Qed.
Print Assumptions C18_Gen_plugin_specs.

Theorem C18_Gen_fatal_sites :
  List.map (fun t => (fst (fst t), snd (fst t))) gen_fatal_sites =
  [("Run", "log.Panicf"); ("localizeRoot", "log.Panicf"); ("localizeRoot", "log.Panicf");
   ("copyChartHome", "log.Panicf"); ("copyChartHome", "log.Panicf"); ("copyDir", "log.Panicf");
   ("hasRef", "log.Fatalf"); ("cleanedRelativePath", "log.Fatalf"); ("cleanedRelativePath", "log.Fatalf");
   ("locFilePath", "log.Panicf"); ("locRootPath", "log.Panicf"); ("locRootPath", "log.Panicf");
   ("locRootPath", "log.Panicf")].
Proof. exact Gen_fatal_sites. Qed.
Print Assumptions C18_Gen_fatal_sites.

(* the fault points of the model = the FileSystem call sites of the source (see Fs/LocalizeProofs.v
   model_fs_sites): site-for-site agreement with the regenerated list, and the effect signature is
   exactly the set of methods called at the in-model sites.  [run] can fail every effect a program
   issues (C18_every_call_is_a_fault_point). *)
Theorem C18_Gen_fs_call_sites :
  List.map fst model_fs_sites = gen_fs_call_sites.
Proof. exact Gen_fs_call_sites. Qed.
Print Assumptions C18_Gen_fs_call_sites.

Theorem C18_Gen_fault_points :
  forallb (fun m => existsb (fun o => String.eqb (opcode_name o) m) all_opcodes) in_model_methods = true /\
  forallb (fun o => existsb (String.eqb (opcode_name o)) in_model_methods) all_opcodes = true.
Proof. exact Gen_fault_points. Qed.
Print Assumptions C18_Gen_fault_points.

(* every file-system call of a run is a fault point: when the fault index equals the number of calls
   made so far, the call fails (error result, or false for Exists) and the state is untouched *)
Theorem C18_every_call_is_a_fault_point :
  forall (e : eff) (w : world),
    (forall c, e <> EChoose c) ->
    step_world (Some (w_n w)) e w =
    (mkW (w_fs w) (S (w_n w)) (mkEv (eff_op e) (eff_path e) (res_ok (fail_res e)) :: w_trace w), fail_res e).
Proof. exact every_call_faultable. Qed.
Print Assumptions C18_every_call_is_a_fault_point.
