(* C01 — property theorems only (iteration-order part; the schema-globals history part is added from Glob/OpenApiState). *)
From KV Require Import Res.MapSites Res.MapSitesProofs Gen.MapRanges.

(* Every `range` over a map in the kustomize packages imported by krusty either collects keys that are
   sorted afterwards, only builds sets/maps/booleans, or is one of the hand-justified sites of Res/MapSites.v.
   The table is regenerated from /repo on every run: dropping a sort or adding a map range that feeds the
   result turns a site into an unlisted MROther and breaks this obligation. *)
Theorem Gen_mapranges_ok : forallb site_ok gen_map_ranges = true.
Proof. exact mapranges_ok. Qed.
Print Assumptions Gen_mapranges_ok.

Theorem Gen_mapranges_nonvacuous :
  existsb (fun s => match ms_class s with MRKeysThenSorted => true | _ => false end) gen_map_ranges = true.
Proof. exact mapranges_nonempty. Qed.
Print Assumptions Gen_mapranges_nonvacuous.
