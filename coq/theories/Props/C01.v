(* C01 — property theorems only (iteration-order part; the schema-globals history part is added from Glob/OpenApiState). *)
From KV Require Import Res.MapSites Res.MapSitesProofs Gen.MapRanges.
From KV Require Import Base.Prelude.
From KV Require Import Glob.OpenApiState Glob.OpenApiStateProofs.

(* Every `range` over a map in the kustomize packages imported by krusty either collects keys that are
   sorted afterwards, only builds sets/maps/booleans, or is one of the hand-justified sites of Res/MapSites.v.
   The table is regenerated from /repo on every run: dropping a sort or adding a map range that feeds the
   result turns a site into an unlisted MROther and breaks this obligation. *)
Theorem Gen_mapranges_ok : forallb site_ok gen_map_ranges = true.
Proof. exact mapranges_ok. Qed.
Print Assumptions Gen_mapranges_ok.

Theorem Gen_mapranges_nonvacuous :
  existsb (fun s => match ms_class s with MRKeysThenSorted => true | _ => false end) gen_map_ranges = true.
Proof. exact mapranges_nonempty. Qed.
Print Assumptions Gen_mapranges_nonvacuous.

(* ---------- history independence w.r.t. the OpenAPI package-level state (model Glob/OpenApiState.v) ---------- *)


(* Full statement: forall e H T, observe e (run_history e ost0 H) T = observe e ost0 T.
   It is FALSE on the faithful model (F1): SetSchema(reset=true) with no version/path leaves customSchema,
   schemaInit and every parsed definition in place. *)
Theorem C01_history_refuted :
  exists e h b, env_ok e /\ default_build b = true /\
                observe e (run_history e ost0 h) b <> observe e ost0 b.
Proof. exact history_refuted. Qed.
Print Assumptions C01_history_refuted.

(* The leak also runs from a default history into a custom-schema build (built-in definitions stay visible). *)
Theorem C01_history_refuted_builtin_leak :
  exists e h b, env_ok e /\ forallb default_build h = true /\
                observe e (run_history e ost0 h) b <> observe e ost0 b.
Proof. exact history_refuted_builtin_leak. Qed.
Print Assumptions C01_history_refuted_builtin_leak.

(* What does hold, for histories of any length: if no earlier build installs a custom schema or a non-default
   version, a build that uses the built-in schema observes the same as when run first. *)
Theorem C01_history_partial :
  forall e h b, env_ok e -> forallb default_build h = true -> default_build b = true ->
                observe e (run_history e ost0 h) b = observe e ost0 b.
Proof. exact history_partial. Qed.
Print Assumptions C01_history_partial.
