(* C01 — property theorems only (iteration-order part; the schema-globals history part is added from Glob/OpenApiState). *)
From KV Require Import Res.MapSites Res.MapSitesProofs Gen.MapRanges.
From KV Require Import Base.Prelude.
From KV Require Import Glob.OpenApiState Glob.OpenApiStateProofs Glob.OpenApiHistoryProofs Glob.FullState.
From KV Require Import Glob.Conc Glob.GlobalsTypes Glob.GlobalsAllow Glob.GlobalsCheck Glob.GlobalsProofs Gen.Globals.

(* Every `range` over a map in the kustomize packages imported by krusty either collects keys that are
   sorted afterwards, only builds sets/maps/booleans, or is one of the hand-justified sites of Res/MapSites.v.
   The table is regenerated from /repo on every run: dropping a sort or adding a map range that feeds the
   result turns a site into an unlisted MROther and breaks this obligation. *)
Theorem Gen_mapranges_ok : forallb site_ok gen_map_ranges = true.
Proof. exact mapranges_ok. Qed.
Print Assumptions Gen_mapranges_ok.

Theorem Gen_mapranges_nonvacuous :
  existsb (fun s => match ms_class s with MRKeysThenSorted => true | _ => false end) gen_map_ranges = true.
Proof. exact mapranges_nonempty. Qed.
Print Assumptions Gen_mapranges_nonvacuous.

(* ---------- history independence w.r.t. the OpenAPI package-level state (model Glob/OpenApiState.v) ---------- *)


(* FULL statement (after the repairs of SetSchema / initSchema, /repo 66a399d, 8b04412, 5e76c27): what a build observes of the OpenAPI
   state does not depend on the builds that ran before it — every build (no openapi field, explicit version, custom
   schema, rejected combinations, sub-kustomizations with their own field), histories of any length.
   Hypotheses: env_ok (the default built-in version is compiled in, the kustomization API document parses, their
   namespaceability paths only mention precomputed kinds); every custom schema that occurs is accepted by parse()
   (a rejected one makes initSchema panic: covered by the correspondence and the byte-comparison search only).
   The former witnesses of C01_history_refuted / C01_history_refuted_builtin_leak are kept as regression examples
   (OpenApiStateProofs.history_leak_after_custom_schema_fixed, history_leak_builtin_into_custom_fixed). *)
Theorem C01_history_independent :
  forall e h b, env_ok e -> forallb valid_build h = true -> valid_build b = true ->
                observe e (run_history e ost0 h) b = observe e ost0 b.
Proof. exact history_independent. Qed.
Print Assumptions C01_history_independent.

(* Special case kept from before the repair (no validity hypothesis needed: default builds carry no custom schema). *)
Theorem C01_history_partial :
  forall e h b, env_ok e -> forallb default_build h = true -> default_build b = true ->
                observe e (run_history e ost0 h) b = observe e ost0 b.
Proof. exact history_partial. Qed.
Print Assumptions C01_history_partial.


(* ---------- the full vector of package-level state a build can write ---------- *)

(* The variables the globals translator lists as written outside initialisers are exactly these six (Gen/Globals.v):
   a NEW written package-level variable in the kustomize packages linked into krusty.Run breaks this obligation.
   Their treatment (modelled / not written by a build) is tabulated in Glob/FullState.v. *)
Theorem Gen_written_globals_closed :
  written_globals =
  ["api/internal/plugins/builtinconfig.defaultConfig"; "api/internal/plugins/loader.registry";
   "kyaml/fieldmeta.shortHandRef"; "kyaml/openapi.customSchema"; "kyaml/openapi.globalSchema";
   "kyaml/openapi.kubernetesOpenAPIVersion"].
Proof. exact written_globals_closed. Qed.
Print Assumptions Gen_written_globals_closed.

(* ... and every package-level object that is only initialised once but whose reference is used by calls / method calls
   outside initialisers (a `var memo = &cache{}` / `var digest = sha256.New()` style object: state that could be mutated
   behind the "written" analysis) is excused by type or by name with a reason (Glob/GlobalsAllow.v), no excuse is stale.
   Together with Gen_written_globals_closed: ANY new package-level variable that a build can write — assigned, updated
   through (maps, fields, elements), sync.Map / atomic method calls, address-taken, or mutated through its methods — in
   any kustomize package of the import closure of api/krusty breaks one of the two obligations. *)
Theorem Gen_shared_objects_excused : vars_ok var_prots allow_list gen_global_vars = true.
Proof. exact globals_vars_covered. Qed.
Print Assumptions Gen_shared_objects_excused.

(* Determinism of the schema index: no function iterates (`range`) over a package-level map of kyaml/openapi — parse()
   ranges only over the maps of the incoming document. (An index rebuilt by ranging over the ACCUMULATED definitions
   picks, among several stored definitions claiming one group/version/kind, a winner by Go's randomised iteration
   order: such a loop shows up as an AMapRange row of Gen/Globals.v and breaks this obligation.) *)
Theorem Gen_no_range_over_schema_maps : range_rows "kyaml/openapi." gen_accesses = [].
Proof. exact globals_no_range_over_schema_maps. Qed.
Print Assumptions Gen_no_range_over_schema_maps.

(* History independence over the full state vector (OpenAPI state machine + the once-parsed default transformer
   configuration, of which builds only see deep copies of a compile-time constant). *)
Theorem C01_full_state_history_independent :
  forall e h b, env_ok e -> forallb valid_build (map gb_build h) = true -> valid_build (gb_build b) = true ->
                gobserve e (run_ghistory e gstate0 h) b = gobserve e gstate0 b.
Proof. exact full_state_history_independent. Qed.
Print Assumptions C01_full_state_history_independent.
