(* C11, configurations: the nameReference rule table accumulated through nested kustomizations
   (model Res/ConfigMerge.v on the C03 rule-table slice Res/NameRef.v; correspondence: CCfg cases of Corr/C11.v).
   Theorems only; proofs in Res/ConfigMergeProofs.v. *)
From KV Require Import Res.ConfigMerge Res.ConfigMergeProofs Base.SortFacts.
From Coq Require Import Sorting.Permutation.
Local Open Scope string_scope.

(* the modelled sort.Sort(nbrSlice) meets the contract of sort.Sort for every input *)
Theorem C11_config_sort_meets_spec :
  forall ofirst olast, sort_spec (nbr_less ofirst olast) (nbr_sort ofirst olast).
Proof. exact sortn_sort_spec. Qed.
Print Assumptions C11_config_sort_meets_spec.

(* TransformerConfig.Merge ends with sortFields: the table depends only on the multiset of rows it holds, not on
   the order in which sibling bases / layers contributed them - under the exact guard that Gvk.IsLessThan is a
   strict total order on the rows (seeded defect C11-e removed exactly this sort). *)
Theorem C11_config_sort_canonical :
  forall ofirst olast l l',
    total_b (nbr_less ofirst olast) l = true -> Permutation l l' ->
    nbr_sort ofirst olast l = nbr_sort ofirst olast l'.
Proof. exact config_sort_canonical. Qed.
Print Assumptions C11_config_sort_canonical.

(* ... and so does the rule that acts first on a referrer field *)
Theorem C11_config_winner_canonical :
  forall ofirst olast ref path cands l l',
    total_b (nbr_less ofirst olast) l = true -> Permutation l l' ->
    winner ref path cands (nbr_sort ofirst olast l) = winner ref path cands (nbr_sort ofirst olast l').
Proof. exact winner_canonical. Qed.
Print Assumptions C11_config_winner_canonical.
