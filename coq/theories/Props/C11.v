(* C11 - kustomizations compose transparently.  Property theorems only: every theorem is closed by
   [exact] of a lemma proved in Res/LegacySortProofs.v, Res/ComposeProofs.v or Res/C11Gen.v.
   Models: Res/LegacySort.v (legacyIDSorter.Less as coded), Res/Compose.v (accumulation: resources lists,
   namePrefix/nameSuffix, id-collision check, sortOptions).  Tables: Gen/LegacyOrder.v, Gen/FieldSpecs.v. *)
From KV Require Import Res.Compose Res.LegacySortProofs Res.LegacyExact Res.ComposeProofs Res.C11Gen Res.LabelNest Res.LabelNestProofs
  Gen.LegacyOrder Gen.FieldSpecs.
From KV Require Import Base.SortFacts.
From Coq Require Import Sorting.Permutation.
Open Scope string_scope.

(* ================= obligations on the tables generated from the source ================= *)

(* defaultOrderFirst/defaultOrderLast give "Namespace" a rank no other kind shares *)
Theorem Gen_legacy_namespace_isolated : namespace_isolated gen_order_first gen_order_last = true.
Proof. exact gen_namespace_isolated. Qed.
Print Assumptions Gen_legacy_namespace_isolated.

(* place holders / separators of legacyGVKSortString, legacyResIDSortString, Gvk.String and
   types.NamespaceKind are the ones written into the model *)
Theorem Gen_legacy_strings :
  gen_legacy_gvk_strings = model_legacy_gvk_strings /\
  gen_legacy_resid_strings = model_legacy_resid_strings /\
  gen_gvk_string_consts = model_gvk_string_consts /\
  gen_namespace_kind = namespace_kind.
Proof. exact gen_legacy_strings. Qed.
Print Assumptions Gen_legacy_strings.

(* namePrefix / nameSuffix field specs: exactly one entry, metadata/name for every kind *)
Theorem Gen_name_fs_single :
  single_catchall_b gen_name_prefix_fs = true /\ single_catchall_b gen_name_suffix_fs = true.
Proof. exact gen_name_fs_single. Qed.
Print Assumptions Gen_name_fs_single.

(* ================= the legacy order ================= *)

(* legacyIDSorter.Less is a strict total order on valid ids, for EVERY pair of order lists that gives
   "Namespace" a rank of its own.  valid_id: group/version contain no '_', the group does not start with a
   byte >= '~', the namespace contains no '|', and no field equals its place holder (~V ~K ~X ~N). *)
Theorem C11_legacy_total :
  forall first last, namespace_isolated first last = true ->
  forall a b c, valid_id a = true -> valid_id b = true -> valid_id c = true ->
    legacy_less first last a a = false /\
    (legacy_less first last a b = true -> legacy_less first last b a = false) /\
    (legacy_less first last a b = true -> legacy_less first last b c = true -> legacy_less first last a c = true) /\
    (a <> b -> legacy_less first last a b = true \/ legacy_less first last b a = true).
Proof. exact legacy_total. Qed.
Print Assumptions C11_legacy_total.

(* ... in particular for the built-in lists (premise discharged by Gen_legacy_namespace_isolated) *)
Theorem C11_legacy_total_default :
  forall a b c, valid_id a = true -> valid_id b = true -> valid_id c = true ->
    let less := legacy_less gen_order_first gen_order_last in
    less a a = false /\
    (less a b = true -> less b a = false) /\
    (less a b = true -> less b c = true -> less a c = true) /\
    (a <> b -> less a b = true \/ less b a = true).
Proof. exact legacy_total_default. Qed.
Print Assumptions C11_legacy_total_default.

(* Whatever algorithm sort.Sort uses (hypothesis S1 = sort_spec: the result is a permutation of the input
   on which sort.IsSorted holds), the sorted output depends only on the SET of (valid, pairwise distinct)
   ids, and it is the list the executable model computes. *)
Theorem C11_legacy_canonical :
  forall first last, namespace_isolated first last = true ->
  forall (sort : list rid -> list rid) l l',
    sort_spec (legacy_less first last) sort -> valid_ids l -> NoDup l -> Permutation l l' ->
    sort l = sort l' /\ sort l = sort_legacy first last l.
Proof. exact legacy_canonical. Qed.
Print Assumptions C11_legacy_canonical.

Theorem C11_legacy_canonical_default :
  forall (sort : list rid -> list rid) l l',
    sort_spec (legacy_less gen_order_first gen_order_last) sort -> valid_ids l -> NoDup l -> Permutation l l' ->
    sort l = sort l' /\ sort l = sort_legacy gen_order_first gen_order_last l.
Proof. exact legacy_canonical_default. Qed.
Print Assumptions C11_legacy_canonical_default.

(* S1 is satisfiable: the model's insertion sort meets the contract of sort.Sort on every input, for all order
   lists (so C11_legacy_canonical is not vacuous and the executable model is one of its instances) *)
Theorem C11_sort_spec_satisfiable :
  forall first last, sort_spec (legacy_less first last) (sort_legacy first last).
Proof. exact sort_legacy_sort_spec. Qed.
Print Assumptions C11_sort_spec_satisfiable.

(* Without the hypotheses the order is NOT total.  (a) default lists, API group starting with byte 0x7f:
   a 3-cycle among Namespace kinds - outside Kubernetes' name space, a remark. *)
Theorem C11_legacy_nontransitive_example :
  let less := legacy_less gen_order_first gen_order_last in
  let a := nsid "" "v1" "a" in let b := nsid "a" "v1" "a" in let c := nsid (sb [127%N]) "v1" "a" in
  less a b = true /\ less b c = true /\ less c a = true /\ valid_id a = true /\ valid_id b = true /\ valid_id c = false.
Proof. exact legacy_nontransitive_example. Qed.
Print Assumptions C11_legacy_nontransitive_example.

(* (b) two distinct ids with the same sort key ('_' in group/version): incomparable. A remark. *)
Theorem C11_legacy_collision_example :
  let less := legacy_less gen_order_first gen_order_last in
  let a := mkId (mkGvk "a_b" "c" "Foo") "" "x" in let b := mkId (mkGvk "a" "b_c" "Foo") "" "x" in
  a <> b /\ less a b = false /\ less b a = false /\ valid_id a = false.
Proof. exact legacy_collision_example. Qed.
Print Assumptions C11_legacy_collision_example.

(* (c) FINDING (class custom-order-namespace-not-isolated): the full statement "for all order lists, Less is
   a strict total order on valid ids" is refuted - with legacySortOptions {orderFirst: [ConfigMap]} the
   ordinary ids v1/Namespace, b.example.com/v1/Namespace, z.io/v1/Foo form a cycle.
   C11_legacy_total is the part that holds. *)
Theorem C11_legacy_custom_order_refuted :
  exists first last a b c,
    valid_id a = true /\ valid_id b = true /\ valid_id c = true /\
    legacy_less first last a b = true /\ legacy_less first last b c = true /\ legacy_less first last c a = true.
Proof. exact legacy_custom_order_refuted. Qed.
Print Assumptions C11_legacy_custom_order_refuted.

(* The part of the refuted statement that holds (same statement as C11_legacy_total, kept under the _partial
   name next to its _refuted counterpart).  FULL statement, refuted above:
     forall first last a b c, valid_id a -> valid_id b -> valid_id c -> <strict total order laws>.
   Missing: order lists in which another kind (or "no rank") shares the rank of Namespace. *)
Theorem C11_legacy_custom_order_partial :
  forall first last, namespace_isolated first last = true ->
  forall a b c, valid_id a = true -> valid_id b = true -> valid_id c = true ->
    legacy_less first last a a = false /\
    (legacy_less first last a b = true -> legacy_less first last b a = false) /\
    (legacy_less first last a b = true -> legacy_less first last b c = true -> legacy_less first last a c = true) /\
    (a <> b -> legacy_less first last a b = true \/ legacy_less first last b a = true).
Proof. exact legacy_total. Qed.
Print Assumptions C11_legacy_custom_order_partial.

(* ---------- exactly when is the comparator a strict total order? ---------- *)

(* On valid ids: exactly when no kind other than Namespace, sharing Namespace's rank, has its group_version_kind
   string strictly between those of a reversed pair (two Namespace kinds one of which is the core one).
   Real inputs outside: custom legacySortOptions that do not list Namespace + the core Namespace + a Namespace kind
   of another API group (e.g. servicebus.azure.com) + an unlisted kind in between (every unlisted core kind that
   sorts before "Namespace", every group above the other Namespace's). *)
Theorem C11_legacy_total_exact :
  forall first last l, valid_ids l ->
    (total_on (legacy_less first last) l <-> straddle_free_b first last l = true).
Proof. exact legacy_total_exact. Qed.
Print Assumptions C11_legacy_total_exact.

(* a straddler closes the cycle x < y < o < x *)
Theorem C11_legacy_straddle_cycle :
  forall first last x y o, valid_id x = true -> valid_id y = true -> valid_id o = true ->
    straddles first last (id_gvk x) (id_gvk y) (id_gvk o) = true ->
    legacy_less first last x y = true /\ legacy_less first last y o = true /\ legacy_less first last o x = true.
Proof. exact straddle_cycle. Qed.
Print Assumptions C11_legacy_straddle_cycle.

(* lists that isolate Namespace admit no straddler: C11_legacy_total is the special case *)
Theorem C11_isolated_straddle_free :
  forall first last l, namespace_isolated first last = true -> straddle_free_b first last l = true.
Proof. exact isolated_straddle_free. Qed.
Print Assumptions C11_isolated_straddle_free.

(* canonicity at full strength under the structural guard (valid, pairwise distinct ids; ANY order lists) *)
Theorem C11_legacy_canonical_exact :
  forall first last (sort : list rid -> list rid) l l',
    sort_spec (legacy_less first last) sort -> valid_ids l -> NoDup l -> straddle_free_b first last l = true ->
    Permutation l l' -> sort l = sort l' /\ sort l = sort_legacy first last l.
Proof. exact legacy_canonical_exact. Qed.
Print Assumptions C11_legacy_canonical_exact.

(* For ARBITRARY ids (place holders, '_', bytes >= '~' included) the decidable guard total_on_b - sort the ids,
   check every ordered pair - is exact, and under it alone the output is independent of the input order. *)
Theorem C11_legacy_guard_exact :
  forall first last l, total_on_b first last l = true <-> NoDup l /\ total_on (legacy_less first last) l.
Proof. exact total_on_b_exact. Qed.
Print Assumptions C11_legacy_guard_exact.

Theorem C11_legacy_canonical_guarded :
  forall first last (sort : list rid -> list rid) l l',
    sort_spec (legacy_less first last) sort -> total_on_b first last l = true -> Permutation l l' ->
    sort l = sort l' /\ sort l = sort_legacy first last l.
Proof. exact legacy_canonical_guarded. Qed.
Print Assumptions C11_legacy_canonical_guarded.

(* ---------- the comparator of the CURRENT source: with or without the rank guard of repair L ---------- *)

(* [legacy_less_g guarded]: guarded = false is [legacy_less]; guarded = true carries `index1 != 0 &&` in front of
   the Namespace test.  Gen.LegacyOrder.gen_ns_reversal_guarded says which one /repo contains. *)
Theorem C11_legacy_less_unguarded :
  forall first last a b, legacy_less_g false first last a b = legacy_less first last a b.
Proof. exact legacy_less_g_false. Qed.
Print Assumptions C11_legacy_less_unguarded.

(* with the guard the order is total on valid ids for EVERY pair of order lists: the finding disappears *)
Theorem C11_legacy_guarded_total :
  forall first last l, valid_ids l -> total_on (legacy_less_g true first last) l.
Proof. exact guarded_total_on. Qed.
Print Assumptions C11_legacy_guarded_total.

Theorem C11_legacy_guarded_canonical :
  forall first last (sort : list rid -> list rid) l l',
    sort_spec (legacy_less_g true first last) sort -> valid_ids l -> NoDup l -> Permutation l l' ->
    sort l = sort l' /\ sort l = sort_legacy_g true first last l.
Proof. exact guarded_canonical. Qed.
Print Assumptions C11_legacy_guarded_canonical.

(* the source as it is today, built-in lists *)
Theorem C11_legacy_total_current_default :
  forall l, valid_ids l -> total_on (less_gen gen_order_first gen_order_last) l.
Proof. exact legacy_total_gen_default. Qed.
Print Assumptions C11_legacy_total_current_default.

(* ... and every pair of lists as soon as the generated flag says the guard is in the source *)
Theorem C11_legacy_total_current_all_lists :
  gen_ns_reversal_guarded = true -> forall first last l, valid_ids l -> total_on (less_gen first last) l.
Proof. exact legacy_total_gen_all_lists. Qed.
Print Assumptions C11_legacy_total_current_all_lists.

(* ================= composition ================= *)

(* accumulate is exactly: "every nested collision check passes" ? the flattened, renamed documents : error *)
Theorem C11_accumulate_closed_form :
  forall cs pfx_fs sfx_fs pfx_skip sfx_skip t,
    accumulate cs pfx_fs sfx_fs pfx_skip sfx_skip t =
    if okb cs pfx_fs sfx_fs pfx_skip sfx_skip t then Ok (flat pfx_fs sfx_fs pfx_skip sfx_skip t) else Err.
Proof. exact accumulate_spec. Qed.
Print Assumptions C11_accumulate_closed_form.

(* Wrapping: an overlay that merely lists T builds like T - same error/success, same documents, same order,
   for every sort option.  Hypothesis: T is still a kustomization once its top-only field (sortOptions) moved to
   the wrapper (Kustomization.CheckEmpty rejects a file with no field; see wrap_empty_corner). *)
Theorem C11_wrap :
  forall cs pfx_fs sfx_fs pfx_skip sfx_skip guarded o t,
    is_empty_kust t = false \/ o = SortNone ->
    build cs pfx_fs sfx_fs pfx_skip sfx_skip guarded o (wrap t) = build cs pfx_fs sfx_fs pfx_skip sfx_skip guarded o t.
Proof. exact build_wrap. Qed.
Print Assumptions C11_wrap.

(* ... and inside a larger tree: what a wrapped directory contributes to its parent is unchanged *)
Theorem C11_wrap_accumulate :
  forall cs pfx_fs sfx_fs pfx_skip sfx_skip t,
    accumulate cs pfx_fs sfx_fs pfx_skip sfx_skip (wrap t) = accumulate cs pfx_fs sfx_fs pfx_skip sfx_skip t.
Proof. exact accumulate_wrap. Qed.
Print Assumptions C11_wrap_accumulate.

(* Permuting the entries of resources lists, at any depth (tperm): same outcome class; on success the
   output is a permutation (multiset of documents unchanged), whatever the sort option. *)
Theorem C11_permute_multiset :
  forall cs pfx_fs sfx_fs pfx_skip sfx_skip guarded o t t', tperm t t' ->
    match build cs pfx_fs sfx_fs pfx_skip sfx_skip guarded o t, build cs pfx_fs sfx_fs pfx_skip sfx_skip guarded o t' with
    | Ok out, Ok out' => Permutation out out'
    | Err, Err => True
    | _, _ => False
    end.
Proof. exact build_permute_multiset. Qed.
Print Assumptions C11_permute_multiset.

(* With the legacy order (lists isolating Namespace, valid output ids) the output is the SAME list. *)
Theorem C11_permute_legacy :
  forall cs pfx_fs sfx_fs pfx_skip sfx_skip guarded first last t t' out,
    guarded = true \/ namespace_isolated first last = true -> tperm t t' ->
    build cs pfx_fs sfx_fs pfx_skip sfx_skip guarded (SortLegacy first last) t = Ok out -> valid_ids out ->
    build cs pfx_fs sfx_fs pfx_skip sfx_skip guarded (SortLegacy first last) t' = Ok out.
Proof. exact build_permute_legacy. Qed.
Print Assumptions C11_permute_legacy.

Theorem C11_permute_legacy_default :
  forall cs t t' out, tperm t t' -> build_gen cs default_legacy t = Ok out -> valid_ids out ->
    build_gen cs default_legacy t' = Ok out.
Proof. exact permute_legacy_default. Qed.
Print Assumptions C11_permute_legacy_default.

(* FINDING, model side: with order lists that do not isolate Namespace the build depends on the order of
   the resources list (C11_permute_legacy is the part that holds). *)
Theorem C11_permute_legacy_refuted :
  exists first last t t' out out',
    tperm t t' /\ valid_ids out /\
    build_unguarded cs_none (SortLegacy first last) t = Ok out /\
    build_unguarded cs_none (SortLegacy first last) t' = Ok out' /\ out <> out'.
Proof. exact permute_legacy_refuted. Qed.
Print Assumptions C11_permute_legacy_refuted.

(* The part that holds (= C11_permute_legacy under the _partial name).  FULL statement, refuted above:
     forall first last t t' out, tperm t t' -> build (SortLegacy first last) t = Ok out -> valid_ids out ->
       build (SortLegacy first last) t' = Ok out.
   Missing: order lists that do not isolate Namespace. *)
Theorem C11_permute_legacy_partial :
  forall cs pfx_fs sfx_fs pfx_skip sfx_skip guarded first last t t' out,
    guarded = true \/ namespace_isolated first last = true -> tperm t t' ->
    build cs pfx_fs sfx_fs pfx_skip sfx_skip guarded (SortLegacy first last) t = Ok out -> valid_ids out ->
    build cs pfx_fs sfx_fs pfx_skip sfx_skip guarded (SortLegacy first last) t' = Ok out.
Proof. exact build_permute_legacy. Qed.
Print Assumptions C11_permute_legacy_partial.

(* Nesting, for every resource of every tree (generated field-spec and skip tables): a resource of the output
   comes from a document d lying below layers (p1,s1) ... (pk,sk) (outermost first) and its name is
   p1 ++ ... ++ pk ++ name d ++ sk ++ ... ++ s1 - a side being left out for kinds on that side's skip list. *)
Theorem C11_prefix_nesting :
  forall cs t out r, accumulate_gen cs t = Ok out -> In r out ->
    exists d layers, occurs t d layers /\ r_org r = d /\ r_cur r = set_name (out_name_gen d layers) d.
Proof. exact prefix_nesting_gen. Qed.
Print Assumptions C11_prefix_nesting.

(* the chain form: overlays around one file; every document of the file is in the output with the nested name *)
Theorem C11_prefix_nesting_chain :
  forall cs layers docs out d, accumulate_gen cs (chain layers (File docs)) = Ok out -> In d docs ->
    exists r, In r out /\ r_org r = d /\ r_cur r = set_name (out_name_gen d layers) d.
Proof. exact chain_nesting_gen. Qed.
Print Assumptions C11_prefix_nesting_chain.

(* nothing is lost: every document of the tree reaches the output of a successful accumulation *)
Theorem C11_nothing_lost :
  forall cs pfx_fs sfx_fs pfx_skip sfx_skip t out d layers,
    accumulate cs pfx_fs sfx_fs pfx_skip sfx_skip t = Ok out -> occurs t d layers ->
    In (through pfx_fs sfx_fs pfx_skip sfx_skip layers (load d)) out.
Proof. exact nothing_lost. Qed.
Print Assumptions C11_nothing_lost.

(* the ids of a successful accumulation are pairwise distinct *)
Theorem C11_output_ids_distinct :
  forall cs pfx_fs sfx_fs pfx_skip sfx_skip t out,
    accumulate cs pfx_fs sfx_fs pfx_skip sfx_skip t = Ok out -> NoDup (map r_cur out).
Proof. exact accumulate_nodup. Qed.
Print Assumptions C11_output_ids_distinct.

(* ---------- permutations of EVERY resources list at once; the exact guard; the FIFO law ---------- *)

(* tpermd: every resources list of the tree, at every depth, is permuted arbitrarily (entries first rewritten
   recursively).  It is contained in tperm, so C11_permute_multiset / C11_permute_legacy apply to it. *)
Theorem C11_tpermd_tperm : forall t t', tpermd t t' -> tperm t t'.
Proof. exact tpermd_tperm. Qed.
Print Assumptions C11_tpermd_tperm.

Theorem C11_permute_multiset_every_layer :
  forall cs pfx_fs sfx_fs pfx_skip sfx_skip guarded o t t', tpermd t t' ->
    match build cs pfx_fs sfx_fs pfx_skip sfx_skip guarded o t, build cs pfx_fs sfx_fs pfx_skip sfx_skip guarded o t' with
    | Ok out, Ok out' => Permutation out out'
    | Err, Err => True
    | _, _ => False
    end.
Proof. exact (fun cs a b c d g o t t' H => build_permute_multiset cs a b c d g o t t' (tpermd_tperm t t' H)). Qed.
Print Assumptions C11_permute_multiset_every_layer.

(* the legacy law at full strength: the only hypothesis is the exact guard on the OUTPUT id set *)
Theorem C11_permute_legacy_guard :
  forall cs pfx_fs sfx_fs pfx_skip sfx_skip guarded first last t t' out,
    tperm t t' ->
    build cs pfx_fs sfx_fs pfx_skip sfx_skip guarded (SortLegacy first last) t = Ok out ->
    total_on_g_b guarded first last out = true ->
    build cs pfx_fs sfx_fs pfx_skip sfx_skip guarded (SortLegacy first last) t' = Ok out.
Proof. exact build_permute_legacy_guard. Qed.
Print Assumptions C11_permute_legacy_guard.

Theorem C11_permute_legacy_every_layer :
  forall cs pfx_fs sfx_fs pfx_skip sfx_skip guarded first last t t' out,
    guarded = true \/ namespace_isolated first last = true -> tpermd t t' ->
    build cs pfx_fs sfx_fs pfx_skip sfx_skip guarded (SortLegacy first last) t = Ok out -> valid_ids out ->
    build cs pfx_fs sfx_fs pfx_skip sfx_skip guarded (SortLegacy first last) t' = Ok out.
Proof.
  exact (fun cs a b c d g f l t t' out I H => build_permute_legacy cs a b c d g f l t t' out I (tpermd_tperm t t' H)).
Qed.
Print Assumptions C11_permute_legacy_every_layer.

(* `sortOptions: {order: fifo}` (and no sortOptions): the output documents are the loaded documents in
   depth-first load order - the i-th output is the i-th document of the traversal, renamed *)
Theorem C11_fifo_order :
  forall cs pfx_fs sfx_fs pfx_skip sfx_skip guarded o t out,
    o = SortFifo \/ o = SortNone -> build cs pfx_fs sfx_fs pfx_skip sfx_skip guarded o t = Ok out ->
    exists res, out = map r_cur res /\ map r_org res = dfs_docs t.
Proof. exact fifo_order. Qed.
Print Assumptions C11_fifo_order.

(* ================= labels ================= *)

(* Label layering (model Res/LabelNest.v: metadata.labels through the `labels:` entries and commonLabels of
   nested layers).  Every output resource stems from a document (d, own labels) lying below some layers
   (outermost first) and carries, for EVERY key k, the value of the outermost layer that sets k - inside one
   layer commonLabels beats the `labels:` entries and a later entry beats an earlier one - else its own value. *)
Theorem C11_label_nesting :
  forall t d l, In (d, l) (lflat t) ->
    exists own layers, loccurs t (d, own) layers /\ forall k, lookup k l = nest_lookup k layers own.
Proof. exact label_nesting. Qed.
Print Assumptions C11_label_nesting.
