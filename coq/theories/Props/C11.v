(* C11 - property theorems only. Every theorem is closed by [exact] of a lemma proved elsewhere. *)
From KV Require Import Res.LegacySort Res.LegacySortProofs.
From Coq Require Import Sorting.Permutation.

Theorem C11_legacy_total :
  forall first last, namespace_isolated first last = true ->
  forall a b c, valid_id a = true -> valid_id b = true -> valid_id c = true ->
    legacy_less first last a a = false /\
    (legacy_less first last a b = true -> legacy_less first last b a = false) /\
    (legacy_less first last a b = true -> legacy_less first last b c = true -> legacy_less first last a c = true) /\
    (a <> b -> legacy_less first last a b = true \/ legacy_less first last b a = true).
Proof. exact legacy_total. Qed.
Print Assumptions C11_legacy_total.
