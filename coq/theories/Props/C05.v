(* C05 — property theorems only. Every theorem is closed by [exact] of a lemma proved elsewhere. *)
From KV Require Import Fs.Path Fs.PathProofs Fs.MemFs Fs.MemFsProofs Fs.DiskFs Fs.DiskFsProofs Fs.Loader Fs.LoaderProofs.

(* ConfirmedDir.HasPrefix on clean absolute paths is containment of component lists
   (so "/root-evil" is not in or below "/root"). *)
Theorem C05_prefix_is_containment :
  forall d r : list string,
    canon_comps d = true -> canon_comps r = true ->
    (cd_has_prefix (abs_of d) (abs_of r) = true <-> exists rest, d = (r ++ rest)%list).
Proof. exact cd_has_prefix_containment. Qed.
Print Assumptions C05_prefix_is_containment.

Theorem C05_root_evil_not_below_root : cd_has_prefix "/root-evil" "/root" = false.
Proof. exact root_evil_not_below_root. Qed.
Print Assumptions C05_root_evil_not_below_root.

(* filepath.Clean: idempotent on every string *)
Theorem C05_clean_idempotent : forall p : string, clean (clean p) = clean p.
Proof. exact clean_idempotent. Qed.
Print Assumptions C05_clean_idempotent.

(* an absolute path cleans to "/" followed by good names: no "", "." or ".." is left *)
Theorem C05_clean_abs_canonical :
  forall p, is_abs p = true -> exists cs, clean p = abs_of cs /\ canon_comps cs = true.
Proof. exact clean_abs_canonical. Qed.
Print Assumptions C05_clean_abs_canonical.

(* canonical paths are fixed points of Clean and are determined by their components *)
Theorem C05_clean_canonical_fixed : forall cs, canon_comps cs = true -> clean (abs_of cs) = abs_of cs.
Proof. exact clean_abs_of. Qed.
Print Assumptions C05_clean_canonical_fixed.

Theorem C05_canonical_injective :
  forall a b, canon_comps a = true -> canon_comps b = true -> abs_of a = abs_of b -> a = b.
Proof. exact abs_of_inj. Qed.
Print Assumptions C05_canonical_injective.

(* The model of filepath.EvalSymlinks is sound and (within its link budget) complete for the
   declarative path resolution, which is deterministic. *)
Theorem C05_resolution_sound :
  forall root b todo stk r,
    eval_links root b stk todo = Ok r -> exists k, k <= b /\ resolves root k (rev stk) todo r.
Proof. exact eval_links_sound. Qed.
Print Assumptions C05_resolution_sound.

Theorem C05_resolution_complete :
  forall root k cur todo r,
    resolves root k cur todo r -> forall b, k <= b -> eval_links root b (rev cur) todo = Ok r.
Proof. exact eval_links_complete. Qed.
Print Assumptions C05_resolution_complete.

Theorem C05_resolution_deterministic :
  forall root k k' cur todo r r',
    resolves root k cur todo r -> resolves root k' cur todo r' -> r = r'.
Proof. exact resolves_deterministic. Qed.
Print Assumptions C05_resolution_deterministic.

(* Root-only load, in-memory file system: the only path handed to ReadFile is the canonical name of an
   existing file whose directory is the root or below it; the bytes returned are that file's. *)
Theorem C05_load_confined_mem :
  forall (remote : string -> bool) (http_get : string -> res string) m l p bytes rc,
    wf_mnode m = true -> canon_comps rc = true -> l_root l = abs_of rc -> l_restr l = RootOnly ->
    remote p = false ->
    load remote http_get (mem_ops m) l p = Ok bytes ->
    exists cs,
      restrict (mem_ops m) l (load_path l p) = Ok (abs_of cs) /\
      m_at m cs = Some (MFile bytes) /\
      list_prefix rc (removelast cs) = true.
Proof. exact mem_load_confined. Qed.
Print Assumptions C05_load_confined_mem.

(* Root-only load, disk with symbolic links: the path handed to ReadFile names a physical location
   ([d_at] walks through real directories only and follows no link) that is a regular file with the
   returned bytes, in the root directory or below it. *)
Theorem C05_load_confined_disk :
  forall (remote : string -> bool) (http_get : string -> res string) root cwd l p bytes rc,
    is_dir_node root -> wf_dnode root = true ->
    canon_comps rc = true -> l_root l = abs_of rc -> l_restr l = RootOnly ->
    remote p = false ->
    load remote http_get (disk_ops root cwd) l p = Ok bytes ->
    exists phys,
      restrict (disk_ops root cwd) l (load_path l p) = Ok (abs_of phys) /\
      d_at root phys = Some (DFile bytes) /\
      list_prefix rc (removelast phys) = true.
Proof. exact disk_load_confined. Qed.
Print Assumptions C05_load_confined_disk.

(* Escapes fail (disk): a reference that resolves — following any number of links — to a location
   whose directory is not the root or below it is rejected by the restrictor (no ReadFile happens),
   and the load is an error in every file system of the same shape: the failure does not depend on
   the content of any file. *)
Theorem C05_escape_fails_disk :
  forall (remote : string -> bool) (http_get : string -> res string) root cwd l p rc k phys,
    is_dir_node root -> wf_dnode root = true ->
    canon_comps rc = true -> l_root l = abs_of rc -> l_restr l = RootOnly ->
    remote p = false ->
    resolves root k [] (raw_comps (abs_path cwd (load_path l p))) phys ->
    list_prefix rc (removelast phys) = false ->
    restrict (disk_ops root cwd) l (load_path l p) = Err /\
    forall root', d_same_shape root root' = true ->
      load remote http_get (disk_ops root' cwd) l p = Err.
Proof. exact disk_escape_fails. Qed.
Print Assumptions C05_escape_fails_disk.

(* Escapes fail (in-memory FS): whatever location Find reports for the reference, if its directory
   is not the root or below it the restrictor rejects it, in every file system of the same shape. *)
Theorem C05_escape_fails_mem :
  forall (remote : string -> bool) (http_get : string -> res string) m l p rc cs n,
    wf_mnode m = true -> canon_comps rc = true -> l_root l = abs_of rc -> l_restr l = RootOnly ->
    remote p = false ->
    m_find m (load_path l p) = Ok (Some (cs, n)) ->
    list_prefix rc (removelast cs) = false ->
    restrict (mem_ops m) l (load_path l p) = Err /\
    forall m', m_same_shape m m' = true -> load remote http_get (mem_ops m') l p = Err.
Proof. exact mem_escape_fails. Qed.
Print Assumptions C05_escape_fails_mem.

(* … and for a relative reference that location is the lexical normal form of root/p. *)
Theorem C05_escape_fails_mem_lexical :
  forall (remote : string -> bool) (http_get : string -> res string) m l p rc n,
    wf_mnode m = true -> m_is_dir m = true ->
    canon_comps rc = true -> l_root l = abs_of rc -> l_restr l = RootOnly ->
    remote p = false -> is_abs p = false ->
    let cs := norm_comps (abs_of rc ++ sep ++ p)%string in
    m_at m cs = Some n ->
    list_prefix rc (removelast cs) = false ->
    load remote http_get (mem_ops m) l p = Err.
Proof. exact mem_escape_fails_lexical. Qed.
Print Assumptions C05_escape_fails_mem_lexical.

(* the restrictor never looks at file contents *)
Theorem C05_restrict_content_blind_disk :
  forall root root' cwd l q,
    d_same_shape root root' = true ->
    restrict (disk_ops root cwd) l q = restrict (disk_ops root' cwd) l q.
Proof. exact disk_restrict_shape. Qed.
Print Assumptions C05_restrict_content_blind_disk.

Theorem C05_restrict_content_blind_mem :
  forall m m' l q,
    m_same_shape m m' = true -> restrict (mem_ops m) l q = restrict (mem_ops m') l q.
Proof. exact mem_restrict_shape. Qed.
Print Assumptions C05_restrict_content_blind_mem.

(* New: the new root is relative, an existing directory, and not equal to or above any root of the
   chain; the chain invariant (hence: all roots pairwise distinct) is preserved. *)
Theorem C05_no_cycle :
  forall (is_repo : string -> bool) (git_new : loader -> string -> res loader) fs l p l',
    is_repo p = false ->
    new_root is_repo git_new fs l p = Ok l' ->
    Forall (fun r => cd_has_prefix r (l_root l') = false) (l_stack l) /\
    l_stack l' = l_root l' :: l_stack l /\
    l_restr l' = l_restr l /\
    confirm_dir fs (cd_join (l_root l) p) = Ok (l_root l') /\
    is_abs p = false.
Proof. exact new_root_no_cycle. Qed.
Print Assumptions C05_no_cycle.

Theorem C05_no_cycle_chain :
  forall (is_repo : string -> bool) (git_new : loader -> string -> res loader) fs l p l',
    is_repo p = false -> stack_inv (l_stack l) ->
    new_root is_repo git_new fs l p = Ok l' -> stack_inv (l_stack l').
Proof. exact new_root_stack_inv. Qed.
Print Assumptions C05_no_cycle_chain.

Theorem C05_chain_roots_distinct : forall s, stack_inv s -> NoDup s.
Proof. exact stack_inv_nodup. Qed.
Print Assumptions C05_chain_roots_distinct.

Theorem C05_new_root_is_directory_mem :
  forall m q d, wf_mnode m = true -> confirm_dir (mem_ops m) q = Ok d ->
    exists cs es, d = abs_of cs /\ canon_comps cs = true /\ m_at m cs = Some (MDir es).
Proof. exact mem_confirm_dir. Qed.
Print Assumptions C05_new_root_is_directory_mem.

Theorem C05_new_root_is_directory_disk :
  forall root cwd q d, is_dir_node root -> wf_dnode root = true -> confirm_dir (disk_ops root cwd) q = Ok d ->
    exists cs es, d = abs_of cs /\ canon_comps cs = true /\ d_at root cs = Some (DDir es).
Proof. exact disk_confirm_dir. Qed.
Print Assumptions C05_new_root_is_directory_disk.

(* ---- the chain of roots is bounded; loading cannot recurse forever ---- *)

(* [chain_ok dirs l]: the roots of the loader chain satisfy the no-cycle invariant and are all members of
   [dirs]; [dirs] is any finite list containing every directory ConfirmDir can return.  It holds of the
   loader krusty.Run starts with and is preserved by every successful New on a local reference, each of
   which makes the chain one longer. *)
Theorem C05_chain_start :
  forall (is_repo : string -> bool) (git_new : loader -> string -> res loader) (fs : fsops) (dirs : list string),
    (forall q d, confirm_dir fs q = Ok d -> In d dirs) ->
    forall r target l,
      is_repo target = false -> new_loader is_repo git_new fs r target = Ok l ->
      chain_ok dirs l /\ List.length (l_stack l) = 1.
Proof. exact new_loader_chain_ok. Qed.
Print Assumptions C05_chain_start.

Theorem C05_chain_step :
  forall (is_repo : string -> bool) (git_new : loader -> string -> res loader) (fs : fsops) (dirs : list string),
    (forall q d, confirm_dir fs q = Ok d -> In d dirs) ->
    forall l p l',
      is_repo p = false -> chain_ok dirs l -> new_root is_repo git_new fs l p = Ok l' ->
      chain_ok dirs l' /\ List.length (l_stack l') = S (List.length (l_stack l)).
Proof. exact new_root_chain_ok. Qed.
Print Assumptions C05_chain_step.

(* the roots of a chain are pairwise distinct members of [dirs]: the chain is no longer than [dirs] *)
Theorem C05_stack_bounded :
  forall (dirs : list string) (l : loader), chain_ok dirs l -> List.length (l_stack l) <= List.length dirs.
Proof. exact stack_bounded. Qed.
Print Assumptions C05_stack_bounded.

(* instances: [m_dirs m] / [d_dirs root] enumerate the directories of the (finite) tree *)
Theorem C05_stack_bounded_mem :
  forall m l, wf_mnode m = true -> chain_ok (mem_dir_names m) l ->
    List.length (l_stack l) <= List.length (m_dirs m).
Proof. exact mem_stack_bounded. Qed.
Print Assumptions C05_stack_bounded_mem.

Theorem C05_stack_bounded_disk :
  forall root l, chain_ok (disk_dir_names root) l -> List.length (l_stack l) <= List.length (d_dirs root).
Proof. exact disk_stack_bounded. Qed.
Print Assumptions C05_stack_bounded_disk.

(* The recursion of a build over its bases ([visit_roots]: New for every directory reference of every
   kustomization visited, [bases] arbitrary) never runs out of fuel when fuel + chain length exceeds the
   number of directories … *)
Theorem C05_load_recursion_fuel :
  forall (is_repo : string -> bool) (git_new : loader -> string -> res loader) (fs : fsops) (dirs : list string),
    (forall q d, confirm_dir fs q = Ok d -> In d dirs) ->
    (forall q, f_cleaned_abs fs q <> Diverge) ->
    forall bases : string -> list string,
      (forall r p, In p (bases r) -> is_repo p = false) ->
      forall fuel l,
        chain_ok dirs l -> fuel + List.length (l_stack l) > List.length dirs ->
        visit_roots is_repo git_new fuel fs bases l <> Diverge.
Proof. exact visit_roots_terminates. Qed.
Print Assumptions C05_load_recursion_fuel.

(* … in particular fuel = number of directories + 1 suffices from the loader a build starts with *)
Theorem C05_load_recursion_terminates_mem :
  forall (is_repo : string -> bool) (git_new : loader -> string -> res loader) m r target l bases,
    wf_mnode m = true -> is_repo target = false ->
    (forall rt p, In p (bases rt) -> is_repo p = false) ->
    new_loader is_repo git_new (mem_ops m) r target = Ok l ->
    visit_roots is_repo git_new (S (List.length (m_dirs m))) (mem_ops m) bases l <> Diverge.
Proof. exact mem_visit_roots_terminates. Qed.
Print Assumptions C05_load_recursion_terminates_mem.

Theorem C05_load_recursion_terminates_disk :
  forall (is_repo : string -> bool) (git_new : loader -> string -> res loader) root cwd r target l bases,
    is_dir_node root -> wf_dnode root = true -> is_repo target = false ->
    (forall rt p, In p (bases rt) -> is_repo p = false) ->
    new_loader is_repo git_new (disk_ops root cwd) r target = Ok l ->
    visit_roots is_repo git_new (S (List.length (d_dirs root))) (disk_ops root cwd) bases l <> Diverge.
Proof. exact disk_visit_roots_terminates. Qed.
Print Assumptions C05_load_recursion_terminates_disk.

(* [visit_trace] — the function compared with krusty builds over bases (roots whose kustomization file is
   read, in order, and the outcome class) — is [visit_roots] with its trace *)
Theorem C05_visit_trace_is_visit_roots :
  forall (is_repo : string -> bool) (git_new : loader -> string -> res loader) fs bases fuel l,
    class_of (visit_roots is_repo git_new fuel fs bases l) = snd (visit_trace is_repo git_new fuel fs bases l) /\
    (forall rs, visit_roots is_repo git_new fuel fs bases l = Ok rs ->
                fst (visit_trace is_repo git_new fuel fs bases l) = rs).
Proof. exact visit_trace_spec. Qed.
Print Assumptions C05_visit_trace_is_visit_roots.

(* ---- obligations over the generated table of raw file-system reads (Gen/RawReads.v) ---- *)
From KV Require Import Gen.RawReads Fs.RawReadAllow Fs.RawReadsProofs.

Theorem Gen_rawreads_ok : forallb site_allowed raw_read_sites = true.
Proof. exact rawreads_ok. Qed.
Print Assumptions Gen_rawreads_ok.

Theorem Gen_rawreads_loader_present :
  existsb (fun s => site_eqb s ("api/internal/loader", "FileLoader.Load", "filesys.FileSystem.ReadFile", 1%N, Loader))
          raw_read_sites = true /\ List.length loader_sites = 1%nat.
Proof. exact rawreads_loader_present. Qed.
Print Assumptions Gen_rawreads_loader_present.

Theorem Gen_rawreads_scanned_core :
  forallb (fun p => str_in p raw_read_packages)
          ["api/krusty"; "api/internal/target"; "api/internal/loader"; "api/internal/builtins"; "api/kv";
           "api/internal/accumulator"; "api/internal/plugins/builtinconfig"; "api/resource"; "api/resmap";
           "api/types"; "kyaml/filesys"; "kyaml/kio"; "kyaml/openapi"; "kyaml/yaml"] = true.
Proof. exact rawreads_scanned_core. Qed.
Print Assumptions Gen_rawreads_scanned_core.

(* ---- build level: the reads of the model build (pipeline model of Res/Pipeline.v + loading front-end) ----
   Partial: the path-bearing fields of the pipeline model are the kustomization file and `resources:`
   (files and bases); decoding bytes into directives/documents is a parameter; the other fields are tied by
   Gen_rawreads_ok (FileLoader.Load is their only way to the file system) and by the build-level search.
   [linv l]: restrictor RootOnly and a canonical root.  [mem_good m l q b]: q = abs_of cs, the file at cs has
   bytes b, and the directory of cs is the root of l or below it (disk_good: the same with a physical location). *)
From KV Require Import Fs.BuildLoad Fs.BuildLoadProofs.

Theorem C05_build_reads_confined_partial :
  forall (is_repo : string -> bool) (git_new : loader -> string -> res loader)
         (parse_kust : string -> res (pdirs * list string)) (parse_docs : string -> res (list node)),
    (forall p, is_repo p = false) ->
    forall m fuel l t evs,
      wf_mnode m = true -> linv l ->
      load_tree is_repo git_new parse_kust parse_docs fuel (mem_ops m) l = Ok (t, evs) ->
      Forall (fun e => exists l0, linv l0 /\ ev_root e = l_root l0 /\ mem_good m l0 (ev_path e) (ev_bytes e)) evs.
Proof. exact mem_build_reads_confined. Qed.
Print Assumptions C05_build_reads_confined_partial.

Theorem C05_build_reads_confined_disk_partial :
  forall (is_repo : string -> bool) (git_new : loader -> string -> res loader)
         (parse_kust : string -> res (pdirs * list string)) (parse_docs : string -> res (list node)),
    (forall p, is_repo p = false) ->
    forall root cwd fuel l t evs,
      is_dir_node root -> wf_dnode root = true -> linv l ->
      load_tree is_repo git_new parse_kust parse_docs fuel (disk_ops root cwd) l = Ok (t, evs) ->
      Forall (fun e => exists l0, linv l0 /\ ev_root e = l_root l0 /\ disk_good root l0 (ev_path e) (ev_bytes e)) evs.
Proof. exact disk_build_reads_confined. Qed.
Print Assumptions C05_build_reads_confined_disk_partial.

(* the whole model build — NewLoader, load_tree, then Res.Pipeline.build, which takes the loaded tree only
   and has no file system: all of its reads are the confined ones above *)
Theorem C05_model_build_reads_confined_partial :
  forall (is_repo : string -> bool) (git_new : loader -> string -> res loader)
         (parse_kust : string -> res (pdirs * list string)) (parse_docs : string -> res (list node)),
    (forall p, is_repo p = false) ->
    forall nonstr o m fuel target out evs,
      wf_mnode m = true ->
      model_build is_repo git_new parse_kust parse_docs nonstr o fuel (mem_ops m) target = Ok (out, evs) ->
      Forall (fun e => exists l0, linv l0 /\ ev_root e = l_root l0 /\ mem_good m l0 (ev_path e) (ev_bytes e)) evs.
Proof. exact mem_model_build_reads_confined. Qed.
Print Assumptions C05_model_build_reads_confined_partial.
