(* C19, whole-build part: theorems over the integrated pipeline model (Res/Pipeline.v: accumulate -> generators ->
   transformers in the generated builtin order -> hash -> name references -> sort -> strip).
   Statements only: every proof is `exact lemma` (lemmas in Res/PipelineProofs.v).
   These theorems extend the coverage of C02, C11, C19, C01 and C07 to whole builds. *)
From KV Require Import Res.Pipeline Res.PipelineProofs Res.PipelineOrderProofs Res.PipelineFrameProofs Res.PipelineGenProofs Res.PipelinePermProofs.
From KV Require Res.Generators Res.Hash.
From KV Require Import Yaml.FieldSpecSpec Yaml.FieldSpecProofs.
From KV Require Res.Labels Res.Hygiene.
From Coq Require Import Sorting.Permutation.


(* ---------- C19: commonLabels vs labels[{pairs, includeSelectors: true}] ----------
   Rewriting commonLabels of ANY subset of layers (selected by directory name) into a trailing `labels` entry
   with includeSelectors - what FixKustomizationPreMarshalling does - never changes the build. *)
Theorem PIPE_deprecated_spellings :
  forall nonstr (which : string -> bool) o t, build nonstr o (respell_tree which t) = build nonstr o t.
Proof. exact build_respell. Qed.
Print Assumptions PIPE_deprecated_spellings.
