(* C19, whole-build part: theorems over the integrated pipeline model (Res/Pipeline.v: accumulate -> generators ->
   transformers in the generated builtin order -> hash -> name references -> sort -> strip).
   Statements only: every proof is `exact lemma` (lemmas in Res/PipelineProofs.v).
   These theorems extend the coverage of C02, C11, C19, C01 and C07 to whole builds. *)
From KV Require Import Res.Pipeline Res.PipelineProofs Res.PipelineOrderProofs Res.PipelineFrameProofs Res.PipelineGenProofs Res.PipelinePermProofs.
From KV Require Res.Generators Res.Hash.
From KV Require Import Yaml.FieldSpecSpec Yaml.FieldSpecProofs.
From KV Require Res.Labels Res.Hygiene.
From Coq Require Import Sorting.Permutation.


(* ---------- C19: commonLabels vs labels[{pairs, includeSelectors: true}] ----------
   Rewriting commonLabels of ANY subset of layers (selected by directory name) into a trailing `labels` entry
   with includeSelectors - what FixKustomizationPreMarshalling does - never changes the build. *)
Theorem PIPE_deprecated_spellings :
  forall nonstr (which : string -> bool) o t, build nonstr o (respell_tree which t) = build nonstr o t.
Proof. exact build_respell. Qed.
Print Assumptions PIPE_deprecated_spellings.

(* ---------- C19: one strategic-merge patch, two spellings, two builds (finding PIPE/patch-spelling) ----------
   `patches: [{path: p}]` applies the patch document as it is (Resource.ApplySmPatch); with a `target:` - and for
   the deprecated `patchesStrategicMerge:`, which goes the same way (resWrangler.ApplySmPatch) - the labels and
   annotations of the patch are first rewritten through map[string]string: a label deleted with `null` comes out as
   the STRING "null", a numeric value as a string.  So the respelling `patchesStrategicMerge: [p]` ->
   `patches: [{path: p}]` of `kustomize edit fix` is not build-preserving.  Both builds are of the model and are
   confirmed against krusty.Run by the correspondence (corpus/PIPE/case_patchspelling_*.json). *)
From KV Require Res.PipelinePatchProofs.
Theorem PIPE_patch_spelling_without_target :
  PipelinePatchProofs.labels_of
    (build (fun s => String.eqb s "1") PSortNone (PipelinePatchProofs.spelling_tree None)) =
  [("n"%string, Scalar TInt SPlain "1")].
Proof. exact PipelinePatchProofs.spelling_without_target. Qed.
Print Assumptions PIPE_patch_spelling_without_target.

Theorem PIPE_patch_spelling_with_target :
  PipelinePatchProofs.labels_of
    (build (fun s => String.eqb s "1") PSortNone
           (PipelinePatchProofs.spelling_tree (Some PipelinePatchProofs.kind_only))) =
  [("keep"%string, Scalar TStr SPlain "null"); ("n"%string, Scalar TStr SDouble "1")].
Proof. exact PipelinePatchProofs.spelling_with_target. Qed.
Print Assumptions PIPE_patch_spelling_with_target.
