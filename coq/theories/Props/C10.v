(* C10 — directives change exactly what they select. Property theorems only: every theorem is closed
   by [exact] of a lemma proved in a *Proofs.v file.  Models: Base/Regex.v (regexp), Res/Selector.v
   (SelectorRegex, resWrangler.Select, ids), Res/Image.v (image.IsImageMatched / Split, imagetag
   filters, ImageTagTransformer), Res/Replica.v (ReplicaCountTransformer), Yaml/Match.v
   (PathMatcher, SmarterPathSplitter), Res/Replacement.v (replacement.Filter).
   External behaviour enters as parameters: [parse] (regexp.Compile: pattern text -> AST),
   [lsel] (k8s label selectors), [enc] (go-yaml emitter), [cluster_scoped] (openapi). *)
From KV Require Import Base.Regex Base.RegexProofs Yaml.Match Yaml.MatchProofs Yaml.MatchTotalProofs Yaml.MatchCreateProofs Yaml.MatchFrameProofs Yaml.MatchDisjointProofs Yaml.MatchSelProofs
  Res.PatchSelect Res.PatchSelectProofs Res.Image Res.ImageProofs Res.ImageNormProofs Res.ImageParseProofs Res.ImageClosedProofs Base.RegexParse Res.Selector Res.SelectorProofs Res.Replica Res.ReplicaProofs Res.ReplicaExactProofs
  Res.Replacement Res.ReplacementProofs Res.ReplacementFrameProofs.

(* ------------------------------------------------------------------ regular expressions *)

(* The derivative matcher is regexp.MatchString for the declarative semantics M: some substring
   w1 of the subject is matched, in the context given by what lies before / after it. *)
Theorem C10_regex_matches_spec : forall (r : re) (s : string),
  matches r s = true <-> exists w0 w1 w2, s = w0 ++ w1 ++ w2 /\ M r (emp w0) (emp w2) w1.
Proof. exact matches_spec. Qed.
Print Assumptions C10_regex_matches_spec.

(* An anchored pattern ^(?:r)$ matches a subject exactly when r matches the WHOLE subject. *)
Theorem C10_anchor : forall (r : re) (s : string), matches (anchor r) s = true <-> full_match r s.
Proof. exact anchor_exact. Qed.
Print Assumptions C10_anchor.

(* ------------------------------------------------------------------ patch target selectors *)

(* Select returns, in order, exactly the resources that satisfy [sel_keep]: namespace and name
   patterns fully match the original OR the current id, group/version/kind patterns fully match
   the current gvk, label and annotation selectors hold.  Hypotheses: regexp.Compile("") succeeds
   and compiles the anchored text of each selector pattern p to the anchored AST of p (every
   pattern compiles); previous-id annotations are well formed and the selector texts parse. *)
Theorem C10_select_exact :
  forall (parse : string -> option re) (cluster_scoped : gvk -> bool)
         (lsel : string -> list (string * string) -> option bool) (s : selector) (ast : string -> re),
    parse "" = Some Eps ->
    (forall p, In p (sel_patterns s) -> p <> "" -> parse ("^(?:" ++ p ++ ")$") = Some (anchor (ast p))) ->
    forall rs : list node,
      (forall obj, In obj rs -> well_formed lsel s obj) ->
      select parse cluster_scoped lsel s rs = Ok (indices_where (sel_keep cluster_scoped lsel s ast) 0 rs).
Proof. exact select_exact. Qed.
Print Assumptions C10_select_exact.

(* ... where one pattern accepts one subject iff it is empty or matches the whole subject *)
Theorem C10_select_pattern_full_match :
  forall (ast : string -> re) (p subj : string),
    pat_ok ast p subj = true <-> p = "" \/ full_match (ast p) subj.
Proof. exact (pat_ok_spec (fun _ _ => None)). Qed.
Print Assumptions C10_select_pattern_full_match.

(* a selector pattern that does not compile makes Select fail, whatever the resources *)
Theorem C10_select_bad_pattern_is_error :
  forall parse cs lsel (s : selector) (rs : list node) (p : string),
    In p (sel_patterns s) -> compile_anchored parse p = Err -> select parse cs lsel s rs = Err.
Proof. exact select_bad_pattern. Qed.
Print Assumptions C10_select_bad_pattern_is_error.

(* ------------------------------------------------------------------ patches: entries *)

(* A `patches:` entry WITH a target changes exactly the resources its selector keeps ([sel_keep]:
   name and namespace patterns fully match the original or the current id, group / version / kind
   patterns fully match, label and annotation selectors hold): those receive the patch ([apply], the
   merge itself is C04's), every other resource is untouched, none is added or lost.
   Hypotheses as in C10_select_exact. *)
Theorem C10_patch_selects_exactly :
  forall (apply : node -> res node) (parse : string -> option re) (cluster_scoped : gvk -> bool)
         (lsel : string -> list (string * string) -> option bool) (s : selector) (ast : string -> re)
         (rs rs' : list node),
    parse "" = Some Eps ->
    (forall p, In p (sel_patterns s) -> p <> "" -> parse ("^(?:" ++ p ++ ")$") = Some (anchor (ast p))) ->
    (forall obj, In obj rs -> well_formed lsel s obj) ->
    patch_transform parse cluster_scoped lsel apply (PTarget s) rs = Ok rs' ->
    List.length rs' = List.length rs /\
    forall j obj, nth_error rs j = Some obj ->
      (sel_keep cluster_scoped lsel s ast obj = true -> exists obj', apply obj = Ok obj' /\ nth_error rs' j = Some obj') /\
      (sel_keep cluster_scoped lsel s ast obj = false -> nth_error rs' j = Some obj).
Proof. exact patch_target_selects_exactly. Qed.
Print Assumptions C10_patch_selects_exactly.

(* An entry WITHOUT a target (a strategic-merge body naming a resource) changes exactly ONE resource:
   the only one with an id — previous or current — equal to the id of the body (same effective
   namespace, name, group, version, kind); none or several is an error. *)
Theorem C10_patch_by_name_selects_exactly :
  forall (apply : node -> res node) (parse : string -> option re) (cluster_scoped : gvk -> bool)
         (lsel : string -> list (string * string) -> option bool) (id : resid) (rs rs' : list node),
    patch_transform parse cluster_scoped lsel apply (PById id) rs = Ok rs' ->
    exists i, List.length rs' = List.length rs /\
      (exists obj obj', nth_error rs i = Some obj /\ any_id_equals cluster_scoped id obj = Ok true /\
                        apply obj = Ok obj' /\ nth_error rs' i = Some obj') /\
      forall j obj, j <> i -> nth_error rs j = Some obj ->
        any_id_equals cluster_scoped id obj = Ok false /\ nth_error rs' j = Some obj.
Proof. exact patch_by_id_selects_exactly. Qed.
Print Assumptions C10_patch_by_name_selects_exactly.

(* both kinds: exactly the indices [patch_targets] computes are patched *)
Theorem C10_patch_transform_exact :
  forall (apply : node -> res node) parse cluster_scoped lsel (e : patch_entry) (rs rs' : list node),
    patch_transform parse cluster_scoped lsel apply e rs = Ok rs' ->
    exists idx, patch_targets parse cluster_scoped lsel e rs = Ok idx /\
      List.length rs' = List.length rs /\
      forall j obj, nth_error rs j = Some obj ->
        (In j idx -> exists obj', apply obj = Ok obj' /\ nth_error rs' j = Some obj') /\
        (~ In j idx -> nth_error rs' j = Some obj).
Proof. exact patch_transform_exact. Qed.
Print Assumptions C10_patch_transform_exact.

(* ------------------------------------------------------------------ images *)

(* image.Split loses nothing: the reference is name [":" tag] ["@" digest] *)
Theorem C10_image_split_join : forall s n t d,
  split_image s = (n, t, d) ->
  exists ct cd : bool, s = join_ref n t d ct cd /\ (ct = false -> t = "") /\ (cd = false -> d = "").
Proof. exact split_image_join. Qed.
Print Assumptions C10_image_split_join.

(* For EVERY entry name t, IsImageMatched holds exactly for the references t[:tag][@sha256:digest]
   of that name — never for a longer or shorter name, whatever bytes t contains (the code quotes the
   name with regexp.QuoteMeta since /repo d3b6ede; before that the statement needed literal_text t and
   was refuted for x.y / xzy:1).
   Hypothesis (checked by the correspondence for every entry name generated, case kind KImgAst):
   Go's parser reads the pattern the code builds, "^" ++ QuoteMeta(t) ++ suffix, as an AST that
   matches like [img_re t]. *)
Theorem C10_image_exact :
  forall parse : string -> option re,
    (forall t, exists r, parse ("^" ++ quote_meta t ++ img_suffix) = Some r /\
                         forall s, matches r s = matches (img_re t) s) ->
    forall s t, is_matched parse s t = Ok true <-> image_ref_of t s.
Proof. exact image_exact. Qed.
Print Assumptions C10_image_exact.

(* The same WITHOUT any hypothesis about the parser: with the Gallina parser [re_parse]
   (Base/RegexParse.v) in the place of regexp.Compile, for every ASCII entry name.  The tie to Go's
   regexp/syntax is the correspondence: for every generated entry name the AST re_parse yields for the
   pattern text and the AST Go yields have the same normal form (case kind KImgAst). *)
Theorem C10_image_exact_parsed :
  forall s t, ascii_text t = true -> (is_matched re_parse s t = Ok true <-> image_ref_of t s).
Proof. exact image_exact_parsed. Qed.
Print Assumptions C10_image_exact_parsed.

(* what the parser reads out of the pattern the code builds: ^, the bytes of t, the two optional groups, $ *)
Theorem C10_regex_parse_image_pattern :
  forall t, ascii_text t = true ->
    re_parse ("^" ++ quote_meta t ++ img_suffix) = Some (cat_of_list (image_items t)).
Proof. exact re_parse_image_pattern. Qed.
Print Assumptions C10_regex_parse_image_pattern.

(* ... and the match always answers (no panic, no error) *)
Theorem C10_image_match_total :
  forall parse : string -> option re,
    (forall t, exists r, parse ("^" ++ quote_meta t ++ img_suffix) = Some r /\
                         forall s, matches r s = matches (img_re t) s) ->
    forall s t, exists b, is_matched parse s t = Ok b.
Proof. exact image_match_total. Qed.
Print Assumptions C10_image_match_total.

(* a pattern that does not compile (impossible after QuoteMeta, but handled by the code) means "no match" *)
Theorem C10_image_compile_error_is_false :
  forall (parse : string -> option re) s t p,
    img_pattern t = Some p -> parse p = None -> is_matched parse s t = Ok false.
Proof. exact image_compile_error_is_false. Qed.
Print Assumptions C10_image_compile_error_is_false.

(* regression witnesses of the repaired defects: x.y / xzy:1, a+b, a( *)
Theorem C10_image_regressions :
  is_matched quoted_tab "xzy:1" "x.y" = Ok false /\
  is_matched quoted_tab "x.y:1" "x.y" = Ok true /\
  is_matched quoted_tab "a+b:1" "a+b" = Ok true /\
  is_matched quoted_tab "a(:1" "a(" = Ok true /\
  is_matched quoted_tab "a:1" "a(" = Ok false.
Proof. exact image_regressions. Qed.
Print Assumptions C10_image_regressions.

(* The check the correspondence performs on the AST Go's parser produced for an entry name
   (case kind KImgAst: equal normal forms) implies the hypothesis of C10_image_exact for that name. *)
Theorem C10_image_ast_check_sound : forall (r : re) (t : string),
  re_eqb (norm r) (norm (img_re t)) = true -> forall s, matches r s = matches (img_re t) s.
Proof. exact ast_check_sound. Qed.
Print Assumptions C10_image_ast_check_sound.

(* name / tag / digest composition of a matched image *)
Theorem C10_image_compose : forall im v n t d,
  split_image v = (n, t, d) ->
  let n' := if String.eqb (im_new_name im) "" then n else im_new_name im in
  (im_new_tag im <> "" -> im_digest im <> "" -> compose im v = build_image n' (im_new_tag im) (im_digest im)) /\
  (im_new_tag im <> "" -> im_digest im = "" -> compose im v = build_image n' (im_new_tag im) "") /\
  (im_new_tag im = "" -> im_digest im <> "" -> compose im v = build_image n' "" (im_digest im)) /\
  (im_new_tag im = "" -> im_digest im = "" -> im_tag_suffix im <> "" ->
     compose im v = build_image n' (t ++ im_tag_suffix im) "") /\
  (im_new_tag im = "" -> im_digest im = "" -> im_tag_suffix im = "" -> compose im v = build_image n' t d).
Proof. exact compose_table. Qed.
Print Assumptions C10_image_compose.

(* ---- the image entry at full strength ---- *)

(* An entry rewrites a value IFF the value is a reference name[:tag][@sha256:digest] of the entry's
   name; every other value is left alone (Ok None = "not matched, untouched").  No hypothesis about
   Go's parser: regexp.Compile is the Gallina parser (compared with Go's AST in the correspondence). *)
Theorem C10_image_update_exact : forall im v,
  ascii_text (im_name im) = true ->
  (image_ref_of (im_name im) v -> update_value re_parse im v = Ok (Some (compose im v))) /\
  (~ image_ref_of (im_name im) v -> update_value re_parse im v = Ok None).
Proof. exact update_value_exact_parsed. Qed.
Print Assumptions C10_image_update_exact.

(* "reference of t" spelled out: t, an optional :tag, an optional @sha256:digest, tag characters only *)
Theorem C10_image_ref_text : forall t s,
  image_ref_of t s <-> exists oy oz, s = ref_text t oy oz /\ opt_tag_ok oy /\ opt_tag_ok oz.
Proof. exact image_ref_of_ref_text. Qed.
Print Assumptions C10_image_ref_text.

(* image.Split on a matched reference returns exactly what the match saw — for an entry name that is a
   plain repository path (no ':' / '@' after the registry host; the host may carry a port) *)
Theorem C10_image_split_ref : forall t oy oz,
  plain_repo t = true -> opt_tag_ok oy -> opt_tag_ok oz ->
  split_image (ref_text t oy oz) = (t, tag_of oy, dig_of oz).
Proof. exact split_ref. Qed.
Print Assumptions C10_image_split_ref.

(* closed form of the new value: no Split, no regexp in the statement *)
Theorem C10_image_update_closed : forall im oy oz,
  ascii_text (im_name im) = true -> plain_repo (im_name im) = true -> opt_tag_ok oy -> opt_tag_ok oz ->
  update_value re_parse im (ref_text (im_name im) oy oz) =
  Ok (Some (compose_parts im (im_name im) (tag_of oy) (dig_of oz))).
Proof. exact update_value_closed_parsed. Qed.
Print Assumptions C10_image_update_closed.

(* the newName / newTag / digest / tagSuffix combinations: newName replaces the name and nothing
   else; newTag alone drops the old digest; digest alone drops the old tag; both replace both;
   tagSuffix counts only when neither is set and drops the digest; nothing set rebuilds the reference *)
Theorem C10_image_combinations : forall im t tag dig,
  let n' := if String.eqb (im_new_name im) "" then t else im_new_name im in
  (im_new_tag im <> "" -> im_digest im <> "" ->
     compose_parts im t tag dig = n' ++ ":" ++ im_new_tag im ++ "@" ++ im_digest im) /\
  (im_new_tag im <> "" -> im_digest im = "" ->
     compose_parts im t tag dig = n' ++ ":" ++ im_new_tag im) /\
  (im_new_tag im = "" -> im_digest im <> "" ->
     compose_parts im t tag dig = n' ++ "@" ++ im_digest im) /\
  (im_new_tag im = "" -> im_digest im = "" -> im_tag_suffix im <> "" ->
     compose_parts im t tag dig = n' ++ ":" ++ tag ++ im_tag_suffix im) /\
  (im_new_tag im = "" -> im_digest im = "" -> im_tag_suffix im = "" ->
     compose_parts im t tag dig = build_image n' tag dig).
Proof. exact compose_parts_table. Qed.
Print Assumptions C10_image_combinations.

(* an entry that sets nothing leaves a matched reference textually unchanged, except that an empty
   tag loses its colon ("x:" becomes "x") *)
Theorem C10_image_identity : forall im t oy oz,
  im_new_name im = "" -> im_new_tag im = "" -> im_digest im = "" -> im_tag_suffix im = "" ->
  oy <> Some "" ->
  compose_parts im t (tag_of oy) (dig_of oz) = ref_text t oy oz.
Proof. exact compose_parts_identity. Qed.
Print Assumptions C10_image_identity.

(* "the transformer updates an image field once" is FALSE: ImageTagTransformer runs the legacy filter
   and then the field-spec filter, so tagSuffix -s turns x:1 into x:1-s-s
   (finding C10/image-tagsuffix-applied-twice; the proposed repair was declined) *)
Theorem C10_image_transform_once_refuted :
  update_value twice_parse twice_entry "x:1" = Ok (Some "x:1-s") /\
  image_transform twice_parse twice_entry gen_images_fs [twice_doc] =
  Ok [Map [("kind", Scalar TStr SPlain "Pod");
           ("spec", Map [("containers", Seq [Map [("name", Scalar TStr SPlain "c");
                                                  ("image", Scalar TNone SPlain "x:1-s-s")]])])]].
Proof. exact image_suffix_twice_lemma. Qed.
Print Assumptions C10_image_transform_once_refuted.

(* ------------------------------------------------------------------ replicas *)

(* A resource that the entry does not match by any of its ids (previous or current) under any field
   spec is left untouched; the number of resources is unchanged. *)
Theorem C10_replica_exact : forall rp fss rs rs',
  replica_transform rp fss rs = Ok rs' ->
  List.length rs' = List.length rs /\
  forall i obj, nth_error rs i = Some obj ->
    (forall fs, In fs fss -> replica_hits rp fs obj = Ok false) -> nth_error rs' i = Some obj.
Proof. exact replica_untouched. Qed.
Print Assumptions C10_replica_exact.

(* ... in particular a resource none of whose ids has the entry's name *)
Theorem C10_replica_other_name_untouched : forall rp fs obj prev,
  prev_ids_opt obj = Some prev ->
  (forall id, In id (prev ++ [cur_id obj]) -> id_name id <> rp_name rp) ->
  replica_hits rp fs obj = Ok false.
Proof. exact replica_hits_other_name. Qed.
Print Assumptions C10_replica_other_name_untouched.

(* ... or none of whose ids has a kind with a replicas field spec *)
Theorem C10_replica_other_kind_untouched : forall rp fs obj prev,
  prev_ids_opt obj = Some prev ->
  (forall id, In id (prev ++ [cur_id obj]) -> gvk_selected (id_gvk id) (fs_gvk fs) = false) ->
  replica_hits rp fs obj = Ok false.
Proof. exact replica_hits_other_kind. Qed.
Print Assumptions C10_replica_other_kind_untouched.

(* an entry that matches nothing at all is an error *)
Theorem C10_replica_no_match_is_error : forall rp fss rs,
  (forall fs obj, In fs fss -> In obj rs -> replica_hits rp fs obj = Ok false) ->
  replica_transform rp fss rs = Err.
Proof. exact replica_no_match_is_error. Qed.
Print Assumptions C10_replica_no_match_is_error.

(* a matched resource changes only in spec.replicas, which becomes the count as an int scalar *)
Theorem C10_replica_only_count : forall rp fs kvs skvs t st v,
  is_match_gvk fs (Map kvs) = true -> fs_path fs = "spec/replicas" ->
  find_field "spec" kvs = Some (Map skvs) -> find_field "replicas" skvs = Some (Scalar t st v) ->
  replica_filter rp fs (Map kvs) =
  Ok (Map (set_first "spec" (Map (set_first "replicas" (Scalar TInt st (rp_count rp)) skvs)) kvs)).
Proof. exact replica_filter_spec. Qed.
Print Assumptions C10_replica_only_count.

(* ---- the replicas transformer at full strength: pointwise ---- *)

(* The transformer succeeds with rs' exactly when every resource's own run (all field specs in turn
   on that resource alone) succeeds, rs' are the results, and some (resource, field spec) matched. *)
Theorem C10_replica_pointwise : forall rp fss rs rs',
  replica_transform rp fss rs = Ok rs' <->
  exists ps, mapM (replica_one rp fss) rs = Ok ps /\ rs' = map snd ps /\ existsb fst ps = true.
Proof. exact replica_transform_pointwise. Qed.
Print Assumptions C10_replica_pointwise.

(* ... so every resource of the result depends on that resource only *)
Theorem C10_replica_result_local : forall rp fss rs rs',
  replica_transform rp fss rs = Ok rs' ->
  forall i obj, nth_error rs i = Some obj ->
    exists f obj', replica_one rp fss obj = Ok (f, obj') /\ nth_error rs' i = Some obj'.
Proof. exact replica_transform_nth. Qed.
Print Assumptions C10_replica_result_local.

(* one run: unmatched field specs are skipped, a matched one applies the replicacount filter *)
Theorem C10_replica_one_unmatched : forall rp fss obj,
  (forall fs, In fs fss -> replica_hits rp fs obj = Ok false) -> replica_one rp fss obj = Ok (false, obj).
Proof. exact replica_one_none. Qed.
Print Assumptions C10_replica_one_unmatched.

Theorem C10_replica_one_matched : forall rp fs t obj obj',
  replica_hits rp fs obj = Ok true -> replica_filter rp fs obj = Ok obj' ->
  replica_one rp (fs :: t) obj = (do q <- replica_one rp t obj'; Ok (true, snd q)).
Proof. exact replica_one_hit. Qed.
Print Assumptions C10_replica_one_matched.

(* a replicas field that is present, not null and not a scalar is an error *)
Theorem C10_replica_non_scalar_is_error : forall rp fs,
  fs_path fs = "spec/replicas" ->
  forall kvs skvs x,
  is_match_gvk fs (Map kvs) = true ->
  find_field "spec" kvs = Some (Map skvs) -> find_field "replicas" skvs = Some x ->
  is_null x = false -> (forall t st v, x <> Scalar t st v) ->
  replica_filter rp fs (Map kvs) = Err.
Proof. exact replica_filter_non_scalar. Qed.
Print Assumptions C10_replica_non_scalar_is_error.

(* ------------------------------------------------------------------ replacements *)

(* Resource level: a resource that no target selector wants — its label/annotation selectors
   reject it, or none of its ids is selected, or one of its ids is rejected — is left untouched. *)
Theorem C10_replacement_exact :
  forall parse enc nonstr decodes lsel fuel (tss : list target_selector) (vs : vstate) (rs rs' : list node),
    apply_replacement parse enc nonstr decodes lsel fuel vs tss rs = Ok rs' ->
    List.length rs' = List.length rs /\
    forall i n, nth_error rs i = Some n ->
      (forall ts sel, In ts tss -> ts_select ts = Some sel -> ~ wants lsel ts sel n) ->
      nth_error rs' i = Some n.
Proof. exact replacement_untouched. Qed.
Print Assumptions C10_replacement_exact.

Theorem C10_replacement_rejected_untouched :
  forall lsel (ts : target_selector) (sel : selector) (n : node) (ids : list resid),
    make_res_ids n = Ok ids -> contains_reject_id (ts_reject ts) ids = true ->
    ~ wants lsel ts sel n.
Proof. exact rejected_not_wanted. Qed.
Print Assumptions C10_replacement_rejected_untouched.

(* Field level, for ANY number of field paths and with or without options.create: whatever the
   target held at an address that is not comparable with (at, above or below) an address the matcher
   returned for one of the paths is still there afterwards — existing content outside the selected
   fields is neither changed nor removed (with create the matcher may add new nodes next to it).
   [copy_hits] lists the returned addresses path by path (each path is matched on the document as the
   previous paths left it).  Hypothesis: no field path has an empty part (a.."b": Go's Get("") then
   overwrites the node it stands on). *)
Theorem C10_replacement_fields_exact :
  forall parse enc nonstr decodes fuel (fps : list string) (opts : option field_options) (live : option addr)
         (value n n' : node) (st : node * option addr),
    paths_no_empty fps = true ->
    copy_value_to_target parse enc nonstr decodes fuel opts live value fps n = Ok (n', st) ->
    forall a x, get_at a n = Some x ->
      (forall h, In h (copy_hits parse enc nonstr decodes fuel opts live value fps n) -> comparable a h = false) ->
      get_at a n' = Some x.
Proof. exact copy_value_keeps. Qed.
Print Assumptions C10_replacement_fields_exact.

(* ... the same for one target selector applied to one resource of the list (selected or not) *)
Theorem C10_replacement_target_fields_exact :
  forall parse enc nonstr decodes fuel lsel (vs : vstate) (ts : target_selector) (sel : selector) (i : nat)
         (n n' : node) (vs' : vstate),
    paths_no_empty (target_field_paths ts) = true ->
    apply_target_to_node parse enc nonstr decodes lsel fuel vs ts sel i n = Ok (n', vs') ->
    forall a x, get_at a n = Some x ->
      (forall h, In h (node_hits parse enc nonstr decodes fuel vs ts i n) -> comparable a h = false) ->
      get_at a n' = Some x.
Proof. exact apply_node_keeps. Qed.
Print Assumptions C10_replacement_target_fields_exact.

(* the addresses PathMatcher returns never overlap (no returned node at, above or below another one) *)
Theorem C10_match_hits_disjoint :
  forall parse enc nonstr (create : option kind) fuel (path : list string) (n n' : node) (hits : list hit),
    pm parse enc nonstr create fuel path n = Ok (n', hits) -> pairwise_incomparable (at_addrs hits) = true.
Proof. exact pm_hits_incomparable. Qed.
Print Assumptions C10_match_hits_disjoint.

(* EVERY field the matcher returned receives set_field_value of the value (for a private copy of the
   value, i.e. not the live source node) *)
Theorem C10_replacement_written_all :
  forall parse enc nonstr decodes (create : option kind) fuel (path : list string)
         (opts : option field_options) (value n d : node) (hits : list hit) (n' : node) (st : node * option addr),
    pm parse enc nonstr create fuel path n = Ok (d, hits) ->
    write_hits decodes opts None value hits d = Ok (n', st) ->
    forall h x, In (HAt h) hits -> get_at h d = Some x ->
      exists x', set_field_value decodes opts value x = Ok x' /\ get_at h n' = Some x'.
Proof. exact matched_fields_written. Qed.
Print Assumptions C10_replacement_written_all.

(* the value written at a (single) returned field is what setFieldValue makes of the old node ... *)
Theorem C10_replacement_written_value :
  forall parse enc nonstr decodes fuel (opts : option field_options) (live : option addr) (value : node) (fp : string)
         (n n' : node) (st : node * option addr) (h : addr) (x : node),
    create_kind opts value = None ->
    copy_value_to_target parse enc nonstr decodes fuel opts live value [fp] n = Ok (n', st) ->
    pm parse enc nonstr None fuel (smarter_path_splitter "."%char fp) n = Ok (n, [HAt h]) ->
    get_at h n = Some x ->
    exists x', set_field_value decodes opts (reread live value n) x = Ok x' /\ get_at h n' = Some x'.
Proof. exact copy_value_written. Qed.
Print Assumptions C10_replacement_written_value.

(* ... which, without a delimiter, is the source text verbatim; the field keeps its style, and its tag
   whenever go-yaml can decode the text under that tag — otherwise it becomes a string (repair of
   C10/replacement-keeps-target-tag-not-encodable; [decodes] is Node.Decode, an oracle like [enc]) *)
Theorem C10_replacement_verbatim : forall (decodes : tag -> string -> bool) value t s old,
  set_field_value decodes None value (Scalar t s old) =
  Ok (Scalar (if decodes t (node_value value) then t else TStr) s (node_value value)).
Proof. exact set_field_value_verbatim. Qed.
Print Assumptions C10_replacement_verbatim.

(* with a delimiter: the spliced text, same tag rule *)
Theorem C10_replacement_spliced : forall (decodes : tag -> string -> bool) o value t s old,
  fo_delimiter o <> "" ->
  set_field_value decodes (Some o) value (Scalar t s old) =
  Ok (Scalar (if decodes t (splice o old (get_value value)) then t else TStr) s (splice o old (get_value value))).
Proof. exact set_field_value_spliced. Qed.
Print Assumptions C10_replacement_spliced.

(* what a replacement writes into a scalar field is a well-formed value: it can be decoded (under the
   kept tag or as a string) — provided strings always decode *)
Theorem C10_replacement_written_decodable : forall (decodes : tag -> string -> bool) opts value t s old x',
  (forall x, decodes TStr x = true) ->
  set_field_value decodes opts value (Scalar t s old) = Ok x' ->
  exists t' text, x' = Scalar t' s text /\ decodes t' text = true.
Proof. exact set_field_value_decodable. Qed.
Print Assumptions C10_replacement_written_decodable.

(* regression witness of the finding: `x` written over `replicas: null` and over `replicas: 3` gives the
   string x (it used to stay tagged !!null / !!int, which ResMap.AsYaml cannot encode); 5 over 3 stays an int *)
Theorem C10_replacement_kept_tag_regression :
  let dec := fun (t : tag) (x : string) => match t with TNull | TInt => String.eqb x "5" | _ => true end in
  set_field_value dec None (Scalar TStr SPlain "x") (Scalar TNull SPlain "null") = Ok (Scalar TStr SPlain "x") /\
  set_field_value dec None (Scalar TStr SPlain "x") (Scalar TInt SPlain "3") = Ok (Scalar TStr SPlain "x") /\
  set_field_value dec None (Scalar TStr SPlain "5") (Scalar TInt SPlain "3") = Ok (Scalar TInt SPlain "5").
Proof. exact replacement_kept_tag_regression. Qed.
Print Assumptions C10_replacement_kept_tag_regression.

(* The source value is copied once (repair of C10/replacement-source-aliased-by-target): the
   replacement value is never live ... *)
Theorem C10_replacement_value_not_live : forall rs r vs,
  get_replacement rs r = Ok vs -> vs_live vs = None.
Proof. exact get_replacement_not_live. Qed.
Print Assumptions C10_replacement_value_not_live.

(* ... regression witness: source a = x, targets [a; b] (b = q), delimiter "/", index 1: b becomes q/x
   although a was rewritten first (it used to become q/x/x) *)
Theorem C10_replacement_verbatim_regression :
  splice (mkFO "/" 1%Z false) "q" "x" = "q/x" /\
  replacement_filter (parse_of []) node_value (fun _ => false) (fun _ _ => true) simple_lsel 2 [alias_repl] [alias_doc] =
  Ok [Map [("kind", Scalar TStr SPlain "ConfigMap");
           ("metadata", Map [("name", Scalar TStr SPlain "cm")]);
           ("data", Map [("a", Scalar TStr SPlain "x/x"); ("b", Scalar TStr SPlain "q/x")])]].
Proof. exact replacement_source_copied_regression. Qed.
Print Assumptions C10_replacement_verbatim_regression.

(* the address-returning lookup the replacement model uses for the source is the C14 PathGetter *)
Theorem C10_replacement_lookup_addr : forall ps n,
  lookup ps n = match lookup_addr ps n with
                | Ok (Some a) => Ok (get_at a n)
                | Ok None => Ok None
                | Err => Err
                | Panic => Panic
                | Diverge => Diverge
                end.
Proof. exact lookup_addr_spec. Qed.
Print Assumptions C10_replacement_lookup_addr.

(* "[k=v] selects the list entries whose k EQUALS v" is FALSE for target paths: [name=x] also returns
   the entries ax and x-1 (finding C10/replacement-listkey-unanchored-regex) *)
Theorem C10_match_elem_exact_refuted :
  pm (parse_of [("x", Some (lit "x"))]) node_value (fun _ => false) None 1 ["[name=x]"] near_doc
  = Ok (near_doc, [HAt [0]; HAt [1]; HAt [2]]).
Proof. exact match_elem_not_exact_lemma. Qed.
Print Assumptions C10_match_elem_exact_refuted.

(* what holds instead: entry j is returned iff the regular expression v finds a match INSIDE the text of its field k *)
Theorem C10_match_elem_partial :
  forall parse enc nonstr (k v : string) (r : re) (es es' : list node) (hs : list hit),
    k <> "" -> parse v = Some r ->
    split_index_name_value ("[" ++ k ++ "=" ++ v ++ "]") = Some (k, v) ->
    classify_pm ("[" ++ k ++ "=" ++ v ++ "]") = PPSel ("[" ++ k ++ "=" ++ v ++ "]") ->
    pm parse enc nonstr None 1 ["[" ++ k ++ "=" ++ v ++ "]"] (Seq es) = Ok (Seq es', hs) ->
    forall j, In (HAt [j]) hs <->
      exists kvs x, nth_error es j = Some (Map kvs) /\ find_field k kvs = Some x /\ matches r (enc x) = true.
Proof. exact pm_last_selector_spec. Qed.
Print Assumptions C10_match_elem_partial.

(* the same at ANY position of the path (no "last part" guard): below a sequence, the address j :: a is
   returned iff entry j's field k has a text in which v finds a match and the REST of the path returns a
   inside entry j — a list selector narrows the search to the matching entries and to nothing else *)
Theorem C10_match_selector_exact :
  forall parse enc nonstr (k v : string) (r : re) (rest : list string) (fuel : nat) (es es' : list node) (hs : list hit),
    k <> "" -> parse v = Some r ->
    split_index_name_value ("[" ++ k ++ "=" ++ v ++ "]") = Some (k, v) ->
    classify_pm ("[" ++ k ++ "=" ++ v ++ "]") = PPSel ("[" ++ k ++ "=" ++ v ++ "]") ->
    pm parse enc nonstr None (S fuel) (("[" ++ k ++ "=" ++ v ++ "]") :: rest) (Seq es) = Ok (Seq es', hs) ->
    forall j a, In (HAt (j :: a)) hs <->
      exists kvs x e' hj,
        nth_error es j = Some (Map kvs) /\ find_field k kvs = Some x /\ matches r (enc x) = true /\
        pm parse enc nonstr None (S fuel) rest (Map kvs) = Ok (e', hj) /\ In (HAt a) hj.
Proof. exact pm_selector_spec. Qed.
Print Assumptions C10_match_selector_exact.

(* PathMatcher ALWAYS returns — every path, every document, with or without Create, no hypothesis
   on the selector values: the create-and-retry of doSeq is guarded (repair of
   C10/replacement-create-nonselfmatching-selector-hangs), two units of fuel are enough. *)
Theorem C10_match_total :
  forall parse enc nonstr (create : option kind) fuel (path : list string) (n : node),
    pm parse enc nonstr create (S (S fuel)) path n <> Diverge.
Proof. exact pm_total. Qed.
Print Assumptions C10_match_total.

(* regression witness of the repaired hang: spec.containers.[name=^zz$].image with Create is an error *)
Theorem C10_match_unmatched_create_is_error :
  forall fuel, pm zz_parse node_value (fun _ => false) (Some KScalar) (S (S fuel)) zz_path zz_doc = Err.
Proof. exact match_unmatched_create_is_error. Qed.
Print Assumptions C10_match_unmatched_create_is_error.

(* the invariant behind it: started on created material (no sequence, no null) or on a fresh empty
   sequence entered by an index / list selector, Create-mode matching never answers "nothing" *)
Theorem C10_match_create_not_nothing :
  forall parse enc nonstr (k : kind) fuel (path : list string) (n : node),
    ok_start path n -> forall x, pm parse enc nonstr (Some k) fuel path n <> Ok (x, []).
Proof. exact create_not_nothing. Qed.
Print Assumptions C10_match_create_not_nothing.

(* Create only adds: existing content at an address not comparable with a returned address is kept;
   and when no node of the document is returned the document is unchanged *)
Theorem C10_match_create_keeps :
  forall parse enc nonstr (k : kind) fuel (path : list string) (n n' : node) (hits : list hit),
    no_empty path = true -> pm parse enc nonstr (Some k) fuel path n = Ok (n', hits) ->
    forall a x, get_at a n = Some x -> (forall h, In (HAt h) hits -> comparable a h = false) -> get_at a n' = Some x.
Proof. exact create_keeps. Qed.
Print Assumptions C10_match_create_keeps.

Theorem C10_match_create_same :
  forall parse enc nonstr (k : kind) fuel (path : list string) (n n' : node) (hits : list hit),
    no_empty path = true -> pm parse enc nonstr (Some k) fuel path n = Ok (n', hits) ->
    (forall a, ~ In (HAt a) hits) -> n' = n.
Proof. exact create_same. Qed.
Print Assumptions C10_match_create_same.

Theorem C10_match_nocreate_pure :
  forall parse enc nonstr fuel (path : list string) (n n' : node) (hits : list hit),
    pm parse enc nonstr None fuel path n = Ok (n', hits) -> n' = n.
Proof. exact pm_nocreate_pure. Qed.
Print Assumptions C10_match_nocreate_pure.

(* ------------------------------------------------------------------ delimiter / index algebra (one-byte delimiters) *)

Theorem C10_delim_split_is_split_on : forall (c : ascii) (s : string), split_str (String c "") s = split_on c s.
Proof. exact split_str_one. Qed.
Print Assumptions C10_delim_split_is_split_on.

Theorem C10_delim_join_split : forall (c : ascii) (s : string), join_with (String c "") (split_on c s) = s.
Proof. exact join_split. Qed.
Print Assumptions C10_delim_join_split.

Theorem C10_delim_split_join : forall (c : ascii) (l : list string),
  l <> [] -> forallb (free c) l = true -> split_on c (join_with (String c "") l) = l.
Proof. exact split_join. Qed.
Print Assumptions C10_delim_split_join.

(* writing v (free of the delimiter) at index i replaces exactly piece i *)
Theorem C10_delim_replace_at : forall (c : ascii) (target v : string) (i : nat),
  free c v = true -> i < List.length (split_on c target) ->
  let o := mkFO (String c "") (Z.of_nat i) false in
  split_on c (splice o target v) = replace_nth i v (split_on c target) /\
  nth_error (split_on c (splice o target v)) i = Some v.
Proof. exact splice_get. Qed.
Print Assumptions C10_delim_replace_at.

(* a negative index prepends, an index past the end appends *)
Theorem C10_delim_prepend_append : forall (c : ascii) (target v : string),
  splice (mkFO (String c "") (-1)%Z false) target v = v ++ String c "" ++ target /\
  splice (mkFO (String c "") (Z.of_nat (List.length (split_on c target))) false) target v = target ++ String c "" ++ v.
Proof. exact splice_prepend_append. Qed.
Print Assumptions C10_delim_prepend_append.

(* ------------------------------------------------------------------ obligations over generated tables *)

Theorem Gen_C10_image_pattern :
  gen_image_match_pattern = [PLit "^"; PQuote "t"; PLit "(:[a-zA-Z0-9_.{}-]*)?(@sha256:[a-zA-Z0-9_.{}-]*)?$"] /\
  gen_image_compile_error_ignored = false /\ gen_image_compile_error_returns_false = true.
Proof. exact (conj gen_image_pattern_shape gen_image_compile_error_handled). Qed.
Print Assumptions Gen_C10_image_pattern.

Theorem Gen_C10_anchor_pattern :
  gen_anchor_empty_guard = true /\ gen_anchor_pattern = [PLit "^(?:"; PVar "pattern"; PLit ")$"].
Proof. exact gen_anchor_shape. Qed.
Print Assumptions Gen_C10_anchor_pattern.

Theorem Gen_C10_legacy_image_fields :
  gen_legacy_image_fields = ["containers"; "initContainers"] /\
  gen_legacy_skip_kinds = ["CustomResourceDefinition"] /\
  gen_fsfilter_skip_kinds = ["CustomResourceDefinition"].
Proof. exact gen_legacy_fields_shape. Qed.
Print Assumptions Gen_C10_legacy_image_fields.

Theorem Gen_C10_images_fs_leaf :
  forallb (fun fs => has_suffix "/image" (fs_path fs)) gen_images_fs = true.
Proof. exact gen_images_fs_leaf. Qed.
Print Assumptions Gen_C10_images_fs_leaf.

Theorem Gen_C10_replicas_fs_shape :
  forallb (fun fs => String.eqb (fs_path fs) "spec/replicas" && negb (String.eqb (fs_kind fs) "") && fs_create fs)
          gen_replicas_fs = true.
Proof. exact gen_replicas_fs_shape. Qed.
Print Assumptions Gen_C10_replicas_fs_shape.

Theorem Gen_C10_match_patterns :
  gen_match_visitElem_pattern = [PVar "p.matchRegex"] /\
  gen_match_visitPrimitiveElem_pattern = [PVar "p.matchRegex"] /\
  gen_match_doseq_retries = true.
Proof. exact gen_match_patterns_shape. Qed.
Print Assumptions Gen_C10_match_patterns.

(* the two landed repairs (/repo a578c9a, 7d89942), as the translator reads them out of the source *)
Theorem Gen_C10_repairs :
  gen_match_doseq_guarded = true /\
  (gen_replacement_source_copied = true /\ gen_replacement_source_return_recognised = true).
Proof. exact (conj gen_match_doseq_is_guarded gen_replacement_source_is_copied). Qed.
Print Assumptions Gen_C10_repairs.

(* setFieldValue probes the scalar it wrote with Decode and makes it a string when the kept tag cannot decode the text *)
Theorem Gen_C10_replacement_retags : gen_replacement_retags_undecodable = true.
Proof. exact gen_replacement_retags. Qed.
Print Assumptions Gen_C10_replacement_retags.

(* ImageTagTransformer.Transform still runs its two filters independently (the repair was declined) *)
Theorem Gen_C10_image_transform :
  gen_image_transform_filters = 2 /\ gen_image_transform_shares_visited = false.
Proof. exact gen_image_transform_independent. Qed.
Print Assumptions Gen_C10_image_transform.

Theorem Gen_C10_default_field_path : gen_default_replacement_field_path = "metadata.name".
Proof. exact gen_default_field_path. Qed.
Print Assumptions Gen_C10_default_field_path.
