(* C10 — property theorems only. Every theorem is closed by [exact] of a lemma proved elsewhere. *)
From KV Require Import Base.Regex Base.RegexProofs.

(* An anchored pattern ^(?:r)$ matches a subject (regexp.MatchString, an unanchored search) exactly
   when r matches the WHOLE subject. *)
Theorem C10_anchor : forall (r : re) (s : string), matches (anchor r) s = true <-> full_match r s.
Proof. exact anchor_exact. Qed.
Print Assumptions C10_anchor.
