(* C11, nesting over the integrated pipeline model (Res/Pipeline.v): the names of the DOCUMENTS that
   `Pipeline.build` emits.  Joins C11_prefix_nesting (Res/Compose.v) with the [renamed] relation of
   Res/PipelineWfProofs.v.  Theorems only; proofs in Res/PipelineNestProofs.v. *)
From KV Require Import Res.Pipeline Res.PipelineProofs Res.PipelineFrameProofs Res.PipelineWfProofs Res.RenameProofs
                       Res.NameRefProofs Res.CsvFacts Res.PipelineNestProofs Fs.BuildLoad Fs.C11Relocate.
From Coq Require Import Sorting.Permutation.
Local Open Scope string_scope.

(* What a kustomization accumulates, by identity (apiVersion, kind, name, namespace), for trees of well-formed
   documents without generators and namespace directives (labels / annotations allowed): exactly [pnames t] -
   per layer, every identity below it with prefix and suffix applied once (kinds on a skip list keep that side) -
   in load order; none of the resources asks for a hash suffix. *)
Theorem PIPE_accumulate_names :
  forall nonstr t m, nest_wf t -> accumulate nonstr t = Ok m ->
    Forall W m /\ NH m /\ map idr m = pnames t.
Proof. exact PipelineNestProofs.accumulate_names. Qed.
Print Assumptions PIPE_accumulate_names.

(* The whole build: the identities of the output documents are the prescribed ones minus what IgnoreLocal drops
   ([kept], in load order) - the very list for fifo / no sortOptions (the FIFO law at document level), a
   permutation of it under the legacy order. *)
Theorem PIPE_prefix_nesting :
  forall nonstr o n d ents outs,
    nest_wf (PDir n d ents) -> build nonstr o (PDir n d ents) = Ok outs ->
    exists kept, subrel eq (pnames (PDir n d ents)) kept /\ Permutation (map ident outs) kept /\
                 (match o with PSortLegacy _ _ => True | _ => map ident outs = kept end).
Proof. exact PipelineNestProofs.build_names. Qed.
Print Assumptions PIPE_prefix_nesting.

Theorem PIPE_prefix_nesting_in :
  forall nonstr o n d ents outs,
    nest_wf (PDir n d ents) -> build nonstr o (PDir n d ents) = Ok outs ->
    forall x, In x outs -> In (ident x) (pnames (PDir n d ents)).
Proof. exact PipelineNestProofs.build_names_in. Qed.
Print Assumptions PIPE_prefix_nesting_in.

(* C11_prefix_nesting_chain for Pipeline.build: overlays (p1,s1) ... (pk,sk), outermost first, around one file of
   well-formed documents; every output document is a document of the file named
   p1 ++ ... ++ pk ++ name ++ sk ++ ... ++ s1, same apiVersion, kind and namespace. *)
Theorem PIPE_prefix_nesting_chain :
  forall nonstr o p s rest docs outs,
    Forall wf_node docs ->
    Forall (fun ps => no_char ","%char (fst ps) = true /\ no_char ","%char (snd ps) = true) ((p, s) :: rest) ->
    build nonstr o (pchain ((p, s) :: rest) (PFile docs)) = Ok outs ->
    forall x, In x outs -> exists n, In n docs /\ ident x = nested_idt ((p, s) :: rest) (ident n).
Proof. exact PipelineNestProofs.build_chain_names. Qed.
Print Assumptions PIPE_prefix_nesting_chain.

(* ---------- C11: relocation, over the model build FROM A FILE SYSTEM ----------
   model_build = NewLoader ; load_tree (kustomization files and `resources:` entries read through
   FileLoader.Load / New, Fs/BuildLoad.v) ; Pipeline.build.  Two file systems hold the same tree in two places:
   [phi] maps a directory of the tree to where it lives after the move, and on the directories [D] and the
   (relative, local) references [P] of the tree the two operations the loader uses agree up to [phi]
   (CleanedAbs: moved directory, same file name; ReadFile: same bytes; "in or below": unchanged).
   Then the two builds have the same outcome class and, on success, the SAME output documents; the read events
   differ only in their roots.  Example ex_relocate_hyps / ex_relocate_builds: an in-memory tree at /a and at
   /b/x satisfies every hypothesis and both builds give p-cm, p-svc-s. *)
Theorem C11_relocate_model_build :
  forall is_repo git_new parse_kust parse_docs (fs fs' : fsops) (phi : string -> string)
         (D P Fn : string -> Prop),
    P kust_file ->
    (forall p, P p -> is_abs p = false /\ is_repo p = false) ->
    (forall b d ps, parse_kust b = Ok (d, ps) -> Forall P ps) ->
    (forall r p, D r -> P p ->
       same_place phi D Fn (f_cleaned_abs fs (cd_join r p)) (f_cleaned_abs fs' (cd_join (phi r) p))) ->
    (forall p, P p -> Fn p) ->
    (forall d f, D d -> Fn f -> f_read_file fs' (cd_join (phi d) f) = f_read_file fs (cd_join d f)) ->
    (forall a b, D a -> D b -> cd_has_prefix (phi a) (phi b) = cd_has_prefix a b) ->
    (forall r p, D r -> P p -> String.eqb (cd_join (phi r) p) "" = String.eqb (cd_join r p) "") ->
    forall target target',
      is_repo target = false /\ is_repo target' = false ->
      String.eqb target' "" = String.eqb target "" ->
      same_place phi D Fn (f_cleaned_abs fs target) (f_cleaned_abs fs' target') ->
      forall nonstr o fuel,
        match model_build is_repo git_new parse_kust parse_docs nonstr o fuel fs target,
              model_build is_repo git_new parse_kust parse_docs nonstr o fuel fs' target' with
        | Ok a, Ok b => fst b = fst a
        | Err, Err | Panic, Panic | Diverge, Diverge => True
        | _, _ => False
        end.
Proof. exact C11Relocate.model_build_relocate_out. Qed.
Print Assumptions C11_relocate_model_build.
