(* C11, nesting over the integrated pipeline model (Res/Pipeline.v): the names of the DOCUMENTS that
   `Pipeline.build` emits.  Joins C11_prefix_nesting (Res/Compose.v) with the [renamed] relation of
   Res/PipelineWfProofs.v.  Theorems only; proofs in Res/PipelineNestProofs.v. *)
From KV Require Import Res.Pipeline Res.PipelineProofs Res.PipelineFrameProofs Res.PipelineWfProofs Res.RenameProofs
                       Res.NameRefProofs Res.CsvFacts Res.PipelineNestProofs.
From Coq Require Import Sorting.Permutation.
Local Open Scope string_scope.

(* What a kustomization accumulates, by identity (apiVersion, kind, name, namespace), for trees of well-formed
   documents without generators and namespace directives (labels / annotations allowed): exactly [pnames t] -
   per layer, every identity below it with prefix and suffix applied once (kinds on a skip list keep that side) -
   in load order; none of the resources asks for a hash suffix. *)
Theorem PIPE_accumulate_names :
  forall nonstr t m, nest_wf t -> accumulate nonstr t = Ok m ->
    Forall W m /\ NH m /\ map idr m = pnames t.
Proof. exact accumulate_names. Qed.
Print Assumptions PIPE_accumulate_names.

(* The whole build: the identities of the output documents are the prescribed ones minus what IgnoreLocal drops
   ([kept], in load order) - the very list for fifo / no sortOptions (the FIFO law at document level), a
   permutation of it under the legacy order. *)
Theorem PIPE_prefix_nesting :
  forall nonstr o n d ents outs,
    nest_wf (PDir n d ents) -> build nonstr o (PDir n d ents) = Ok outs ->
    exists kept, subrel eq (pnames (PDir n d ents)) kept /\ Permutation (map ident outs) kept /\
                 (match o with PSortLegacy _ _ => True | _ => map ident outs = kept end).
Proof. exact build_names. Qed.
Print Assumptions PIPE_prefix_nesting.

Theorem PIPE_prefix_nesting_in :
  forall nonstr o n d ents outs,
    nest_wf (PDir n d ents) -> build nonstr o (PDir n d ents) = Ok outs ->
    forall x, In x outs -> In (ident x) (pnames (PDir n d ents)).
Proof. exact build_names_in. Qed.
Print Assumptions PIPE_prefix_nesting_in.

(* C11_prefix_nesting_chain for Pipeline.build: overlays (p1,s1) ... (pk,sk), outermost first, around one file of
   well-formed documents; every output document is a document of the file named
   p1 ++ ... ++ pk ++ name ++ sk ++ ... ++ s1, same apiVersion, kind and namespace. *)
Theorem PIPE_prefix_nesting_chain :
  forall nonstr o p s rest docs outs,
    Forall wf_node docs ->
    Forall (fun ps => no_char ","%char (fst ps) = true /\ no_char ","%char (snd ps) = true) ((p, s) :: rest) ->
    build nonstr o (pchain ((p, s) :: rest) (PFile docs)) = Ok outs ->
    forall x, In x outs -> exists n, In n docs /\ ident x = nested_idt ((p, s) :: rest) (ident n).
Proof. exact build_chain_names. Qed.
Print Assumptions PIPE_prefix_nesting_chain.
