(* C14 — property theorems only. Every theorem is closed by [exact] of a lemma proved elsewhere. *)
From KV Require Import Yaml.Fns Yaml.FnsProofs.

(* Looking a path up (no creation) never modifies the document, whatever the path and document. *)
Theorem C14_lookup_pure :
  forall (ps : list part) (n n' : node) (r : option node),
    walk None ps k_get n = Ok (n', r) -> n' = n.
Proof. exact (fun ps => walk_nocreate_pure k_get ps k_get_pure). Qed.
Print Assumptions C14_lookup_pure.
