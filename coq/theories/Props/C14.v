(* C14 — property theorems only. Every theorem is closed by [exact] of a lemma proved elsewhere
   (Yaml/FnsProofs.v, Yaml/JsonRefProofs.v, Yaml/FieldSpecProofs.v).

   Vocabulary (Yaml/Fns.v = executable model of kyaml PathGetter & co., Yaml/FnsSpec.v = spec notions):
     walk cr ps k n      PathGetter{Path: ps, Create: cr} on n, then the filter k on the node found
     lookup ps n         rn.Pipe(Lookup(ps...))
     put ps name v n     rn.Pipe(LookupCreate(MappingNode, ps...), SetField(name, v))
     put_scalar ps v n   rn.Pipe(LookupCreate(ScalarNode, ps...), FieldSetter{Value: v})
     clear_at ps name n  rn.Pipe(Lookup(ps...), Clear(name))
   Hypotheses that the real code needs (each shown necessary by a [_refuted] theorem below and mirrored
   by the Go oracles):
     (H1) stable ps k / stable_put ps name / stable_put_scalar ps : the write does not overwrite the field a
          [nm=v] selector on its own path matches on
     (H2) no_null_path ps n : no !!null node on the existing part of the path (kyaml drops such writes) *)
(* NodeApi re-exports Yaml/Match.v, whose [child] / [get_at] (addresses) are shadowed by the imports below *)
From KV Require Import Yaml.NodeApi Yaml.NodeApiProofs Yaml.Annot.
From KV Require Yaml.Match Yaml.MatchAgreeProofs.
From KV Require Import Yaml.Fns Yaml.FnsSpec Yaml.FnsProofs Yaml.JsonRef Yaml.JsonRefProofs.
From KV Require Import Yaml.Elems Yaml.ElemsProofs.
From KV Require Import Yaml.FieldSpec Yaml.FieldSpecSpec Yaml.FieldSpecProofs Yaml.FieldSpecGenProofs.

(* ---------- lookup is pure ---------- *)
(* Looking a path up (no creation) never modifies the document, whatever the path and document. *)
Theorem C14_lookup_pure :
  forall (ps : list part) (n n' : node) (r : option node),
    walk None ps k_get n = Ok (n', r) -> n' = n.
Proof. exact (fun ps => walk_nocreate_pure k_get ps k_get_pure). Qed.
Print Assumptions C14_lookup_pure.

(* ---------- PUT-GET ---------- *)
(* General form: after a successful walk (with or without creation) that applied k at the end of the path,
   looking the same path up finds exactly the node k produced, and changes nothing. *)
Theorem C14_put_get_walk :
  forall (A : Type) (cr : option kind) (ps : list part) (k : node -> res (node * A)),
    stable ps k ->
    forall (n n' : node) (a : A),
      no_null_path ps n = true ->
      walk cr ps k n = Ok (n', Some a) ->
      exists x x', is_null x = false /\ k x = Ok (x', a) /\ walk None ps k_get n' = Ok (n', Some x').
Proof. exact (@walk_put_get). Qed.
Print Assumptions C14_put_get_walk.

(* LookupCreate + SetField, then Lookup of path+field returns the value set (up to the scalar style, which
   FieldSetter takes from the value previously there or forces to double quotes for YAML-1.1 keywords). *)
Theorem C14_put_get :
  forall (nonstr : string -> bool) (ps : list part) (name : string) (v n n' : node),
    is_null v = false -> stable_put ps name = true -> no_null_path ps n = true ->
    put nonstr ps name v n = Ok (n', Some tt) ->
    exists s, lookup (ps ++ [PKey name]) n' = Ok (Some (with_style s v)).
Proof. exact put_get. Qed.
Print Assumptions C14_put_get.

Theorem C14_put_scalar_get :
  forall (ps : list part) (v n n' : node),
    is_null v = false -> stable_put_scalar ps = true -> no_null_path ps n = true ->
    put_scalar ps v n = Ok (n', Some tt) ->
    exists s, lookup ps n' = Ok (Some (with_style s v)).
Proof. exact put_scalar_get. Qed.
Print Assumptions C14_put_scalar_get.

(* ---------- GET-PUT ---------- *)
(* Writing back what is there changes nothing (no hypothesis on the path or the document). *)
Theorem C14_get_put_walk :
  forall (A : Type) (cr : option kind) (ps : list part) (k : node -> res (node * A)) (n x : node) (a : A),
    lookup ps n = Ok (Some x) -> k x = Ok (x, a) -> walk cr ps k n = Ok (n, Some a).
Proof. exact (@walk_get_put). Qed.
Print Assumptions C14_get_put_walk.

Theorem C14_get_put :
  forall (nonstr : string -> bool) (cr : option kind) (ps : list part) (name : string) (v n : node),
    is_null v = false ->
    lookup (ps ++ [PKey name]) n = Ok (Some v) ->
    walk cr ps (k_set_field nonstr name v) n = Ok (n, Some tt).
Proof. exact get_put. Qed.
Print Assumptions C14_get_put.

(* ---------- PUT-PUT ---------- *)
(* Fusion: a second walk along the same path equals one walk with the two continuations in sequence. *)
Theorem C14_put_put_fusion :
  forall (A B : Type) (cr : option kind) (ps : list part)
         (k1 : node -> res (node * A)) (k2 : node -> res (node * B)),
    stable ps k1 ->
    forall (n n1 : node) (a1 : A),
      no_null_path ps n = true ->
      walk cr ps k1 n = Ok (n1, Some a1) ->
      walk cr ps k2 n1 = walk cr ps (kseq k1 k2) n.
Proof. exact (@walk_fusion). Qed.
Print Assumptions C14_put_put_fusion.

(* Repeating a put changes nothing further. *)
Theorem C14_put_put_idempotent :
  forall (nonstr : string -> bool) (cr : option kind) (ps : list part) (name : string) (v n n1 : node),
    is_null v = false -> stable_put ps name = true -> no_null_path ps n = true ->
    walk cr ps (k_set_field nonstr name v) n = Ok (n1, Some tt) ->
    walk cr ps (k_set_field nonstr name v) n1 = Ok (n1, Some tt).
Proof. exact put_idempotent. Qed.
Print Assumptions C14_put_put_idempotent.

(* Last write wins: put v2 after put v1 gives what put v2 alone gives — same outcome class, same document up
   to scalar styles (the second write inherits the style of what the first one stored). *)
Theorem C14_put_put_last_wins :
  forall (nonstr : string -> bool) (cr : option kind) (ps : list part) (name : string) (v1 v2 n n1 : node),
    is_null v1 = false -> is_null v2 = false ->
    stable_put ps name = true -> no_null_path ps n = true ->
    walk cr ps (k_set_field nonstr name v1) n = Ok (n1, Some tt) ->
    res_unstyle_eq (walk cr ps (k_set_field nonstr name v2) n1) (walk cr ps (k_set_field nonstr name v2) n).
Proof. exact put_last_wins. Qed.
Print Assumptions C14_put_put_last_wins.

(* ---------- FRAME ---------- *)
(* General form: a walk along ps (whatever it found, created, or failed to find) leaves the outcome of Lookup
   unchanged for every path q that diverges from ps at a key, an index or a selector value.  The side
   condition excludes exactly one thing: q reading the key field of a list element that the walk appended. *)
Theorem C14_frame_walk :
  forall (A : Type) (cr : option kind) (ps : list part) (k : node -> res (node * A)),
    stable ps k ->
    forall (qs : list part) (n n' : node) (r : option A),
      diverges ps qs ->
      (no_sel_key_read qs \/ lookup qs n <> Ok None) ->
      walk cr ps k n = Ok (n', r) ->
      lookup qs n' = lookup qs n.
Proof. exact (@walk_frame). Qed.
Print Assumptions C14_frame_walk.

(* For put: q may also diverge at the field written (siblings of the field are untouched). *)
Theorem C14_frame :
  forall (nonstr : string -> bool) (cr : option kind) (ps : list part) (name : string) (v : node)
         (qs : list part) (n n' : node) (r : option unit),
    stable_put ps name = true ->
    diverges (ps ++ [PKey name]) qs ->
    (no_sel_key_read qs \/ lookup qs n <> Ok None) ->
    walk cr ps (k_set_field nonstr name v) n = Ok (n', r) ->
    lookup qs n' = lookup qs n.
Proof. exact put_frame. Qed.
Print Assumptions C14_frame.

(* ---------- ABSENT PATH ---------- *)
(* Clearing a field whose path is absent leaves the document untouched. *)
Theorem C14_absent_clear_noop :
  forall (ps : list part) (name : string) (n : node),
    lookup (ps ++ [PKey name]) n = Ok None -> exists r, clear_at ps name n = Ok (n, r).
Proof. exact absent_clear_noop. Qed.
Print Assumptions C14_absent_clear_noop.

(* ---------- REFINEMENT to the reference model on plain JSON values (Yaml/JsonRef.v) ---------- *)
Theorem C14_refines_json_get :
  forall (ps : list part) (n x : node),
    lookup ps n = Ok (Some x) -> jget ps (to_json n) = Some (to_json x).
Proof. exact lookup_refines_found. Qed.
Print Assumptions C14_refines_json_get.

Theorem C14_refines_json_get_absent :
  forall (ps : list part) (n : node), lookup ps n = Ok None -> jget ps (to_json n) = None.
Proof. exact lookup_refines_absent. Qed.
Print Assumptions C14_refines_json_get_absent.

Theorem C14_refines_json_walk :
  forall (A : Type) (cr : option kind) (ps : list part) (k : node -> res (node * A)) (f : json -> option json),
    (forall x x' a, k x = Ok (x', a) -> is_null x = false -> f (to_json x) = Some (to_json x')) ->
    forall (n n' : node) (a : A),
      no_null_path ps n = true -> walk cr ps k n = Ok (n', Some a) ->
      jupd cr ps f (to_json n) = Some (to_json n').
Proof. exact (@walk_refines). Qed.
Print Assumptions C14_refines_json_walk.

(* to_json (put ps name v n) = jput (ps ++ [name]) (to_json v) (to_json n); [tagged v]: v is not an untagged
   scalar (for those the JSON view depends on the quoting style FieldSetter chooses). *)
Theorem C14_refines_json :
  forall (nonstr : string -> bool) (ps : list part) (name : string) (v n n' : node),
    is_null v = false -> tagged v = true -> no_null_path ps n = true ->
    put nonstr ps name v n = Ok (n', Some tt) ->
    jput (ps ++ [PKey name]) (to_json v) (to_json n) = Some (to_json n').
Proof. exact put_refines. Qed.
Print Assumptions C14_refines_json.

(* ---------- NO PANIC ---------- *)
(* No path operation panics, for all paths and all documents. (Until the repo fix 5cf7cc6, "-" on an empty or
   null sequence indexed elems[-1]: former finding C14/panic-last-on-empty, former theorems
   C14_last_on_empty_refuted / C14_lookup_panic_only_last / C14_no_panic_partial.) *)
Theorem C14_no_panic :
  forall (A : Type) (cr : option kind) (ps : list part) (k : node -> res (node * A)),
    (forall x, k x <> Panic) -> forall n, walk cr ps k n <> Panic.
Proof. exact (@walk_no_panic). Qed.
Print Assumptions C14_no_panic.

Theorem C14_no_panic_lookup : forall (ps : list part) (n : node), lookup ps n <> Panic.
Proof. exact lookup_no_panic. Qed.
Print Assumptions C14_no_panic_lookup.

Theorem C14_no_panic_lookup_create :
  forall (leaf : kind) (ps : list part) (n : node), lookup_create leaf ps n <> Panic.
Proof. exact lookup_create_no_panic. Qed.
Print Assumptions C14_no_panic_lookup_create.

Theorem C14_no_panic_put :
  forall (nonstr : string -> bool) (ps : list part) (name : string) (v n : node),
    put nonstr ps name v n <> Panic /\ put_nocreate nonstr ps name v n <> Panic.
Proof. exact (fun nonstr ps name v n => conj (put_no_panic nonstr ps name v n) (put_nocreate_no_panic nonstr ps name v n)). Qed.
Print Assumptions C14_no_panic_put.

Theorem C14_no_panic_put_scalar_clear :
  forall (ps : list part) (name : string) (v n : node),
    put_scalar ps v n <> Panic /\ clear_at ps name n <> Panic.
Proof. exact (fun ps name v n => conj (put_scalar_no_panic ps v n) (clear_at_no_panic ps name n)). Qed.
Print Assumptions C14_no_panic_put_scalar_clear.

(* "-" on an empty list or a null node finds nothing *)
Theorem C14_last_on_empty_absent :
  forall (A : Type) (cr : option kind) (ps : list part) (k : node -> res (node * A)) (s : style) (v : string),
    walk cr (PLast :: ps) k (Seq []) = Ok (Seq [], None) /\
    walk cr (PLast :: ps) k (Scalar TNull s v) = Ok (Scalar TNull s v, None).
Proof. exact (fun A cr ps k s v => conj (walk_last_on_empty cr ps k) (walk_last_on_null cr ps k s v)). Qed.
Print Assumptions C14_last_on_empty_absent.

(* ---------- the hypotheses cannot be dropped ---------- *)
(* without (H1): the put succeeds but the path no longer finds the element *)
Theorem C14_put_get_without_H1_refuted :
  exists ps name v n n',
    is_null v = false /\ no_null_path ps n = true /\ put (fun _ => false) ps name v n = Ok (n', Some tt) /\
    lookup (ps ++ [PKey name]) n' = Ok None.
Proof. exact put_get_needs_stable. Qed.
Print Assumptions C14_put_get_without_H1_refuted.

(* without (H2): the put through a null node reports success and the document is unchanged *)
Theorem C14_put_get_without_H2_refuted :
  exists ps name v n n',
    is_null v = false /\ stable_put ps name = true /\ put (fun _ => false) ps name v n = Ok (n', Some tt) /\
    lookup (ps ++ [PKey name]) n' = Ok None /\ n' = n.
Proof. exact put_get_needs_no_null. Qed.
Print Assumptions C14_put_get_without_H2_refuted.

(* without the side condition of the frame law: appending the element [name=z] creates its name field *)
Theorem C14_frame_without_side_condition_refuted :
  exists ps name v qs n n',
    stable_put ps name = true /\ diverges (ps ++ [PKey name]) qs /\
    put (fun _ => false) ps name v n = Ok (n', Some tt) /\ lookup qs n = Ok None /\ lookup qs n' <> Ok None.
Proof. exact frame_needs_side_condition. Qed.
Print Assumptions C14_frame_without_side_condition_refuted.

(* ==================== field-spec traversal (api/filters/fieldspec, fsslice) ==================== *)
(* Yaml/FieldSpec.v: fs_filter = Filter.filter/handleMap/handleSequence, fs_apply = Filter.Filter (GVK test +
   PathSplitter), fsslice_apply = fsslice.Filter.  Yaml/FieldSpecSpec.v: positions (get_at / upd_at /
   apply_at), the reference interpretation [denotes] of a slash path, [fs_diverges]. *)

(* The slash path visits exactly the nodes its reference interpretation denotes: without creation and for
   plain segments, the filter succeeds with d' iff [denotes] is defined and applying SetValue at the denoted
   positions, in document order, yields d'.  (For all SetValue functions, hence SetValue is invoked on
   exactly those nodes; a scalar on the way makes both sides fail.) *)
Theorem C14_fieldspec_denotes :
  forall (create_kind : option kind) (create_tag : tag) (set_value : node -> res node) (path : list string),
    forallb plain_seg path = true ->
    forall obj obj' : node,
      fs_filter create_kind create_tag set_value false path obj = Ok obj' <->
      (exists qs : list jpath, denotes path obj = Ok qs /\ apply_at set_value qs obj = Ok obj').
Proof. exact fs_filter_denotes. Qed.
Print Assumptions C14_fieldspec_denotes.

(* Frame: a position that leaves the field-spec path at some key keeps its value, whatever SetValue does,
   with or without creation, "[]" hints and null promotion. *)
Theorem C14_fieldspec_frame :
  forall (create_kind : option kind) (create_tag : tag) (set_value : node -> res node) (create : bool)
         (path : list string),
    forallb seg_ok path = true ->
    forall (obj obj' : node) (q : jpath),
      fs_filter create_kind create_tag set_value create path obj = Ok obj' ->
      fs_diverges path q = true -> get_at q obj' = get_at q obj.
Proof. exact fs_filter_frame. Qed.
Print Assumptions C14_fieldspec_frame.

Theorem C14_fieldspec_apply_frame :
  forall (create_kind : option kind) (create_tag : tag) (set_value : node -> res node) (fs : fieldspec)
         (obj obj' : node) (q : jpath),
    forallb seg_ok (fs_segments fs) = true ->
    fs_apply create_kind create_tag set_value fs obj = Ok obj' ->
    fs_diverges (fs_segments fs) q = true -> get_at q obj' = get_at q obj.
Proof. exact fs_apply_frame. Qed.
Print Assumptions C14_fieldspec_apply_frame.

Theorem C14_fsslice_frame :
  forall (create_kind : option kind) (create_tag : tag) (set_value : node -> res node) (l : list fieldspec)
         (obj obj' : node) (q : jpath),
    Forall (fun fs => forallb seg_ok (fs_segments fs) = true /\ fs_diverges (fs_segments fs) q = true) l ->
    fsslice_apply create_kind create_tag set_value l obj = Ok obj' ->
    get_at q obj' = get_at q obj.
Proof. exact fsslice_apply_frame. Qed.
Print Assumptions C14_fsslice_frame.

(* ---------- obligations over the tables generated from /repo (Gen/FieldSpecs.v) ---------- *)
(* every segment of every builtin field-spec path is a plain map key, possibly with a "[]" hint *)
Theorem Gen_C14_fieldspec_segments_ok :
  forallb (fun fs => forallb seg_ok (fs_segments fs)) gen_all_fs = true.
Proof. exact gen_fs_segments_ok. Qed.
Print Assumptions Gen_C14_fieldspec_segments_ok.

(* every builtin field spec that does not create has plain segments only *)
Theorem Gen_C14_fieldspec_nocreate_plain :
  forallb (fun fs => fs_create fs || forallb plain_seg (fs_segments fs)) gen_all_fs = true.
Proof. exact gen_fs_nocreate_plain. Qed.
Print Assumptions Gen_C14_fieldspec_nocreate_plain.

Theorem Gen_C14_fieldspec_tables_nonempty :
  (10 <=? List.length gen_all_fs)%nat = true /\
  (1 <=? List.length (filter (fun fs => negb (fs_create fs)) gen_all_fs))%nat = true /\
  (1 <=? List.length (filter (fun fs => existsb seg_hint (fs_segments fs)) gen_all_fs))%nat = true.
Proof. exact gen_fs_nonempty. Qed.
Print Assumptions Gen_C14_fieldspec_tables_nonempty.

(* ==================== more of kyaml's node API (Yaml/Elems.v, Yaml/NodeApi.v) ==================== *)
(* Elems.v: field_matcher = FieldMatcher{Name,Value,Create}; elem_matcher = ElementMatcher{Keys,Values,
   MatchAnyValue,Create} (match_element / get_element_by_key); elem_append = ElementAppender; elem_setter =
   ElementSetter{Keys,Values,Element}; k_tee = Tee; field_clearer = FieldClearer{Name,IfEmpty}; set_label = SetLabel.
   NodeApi.v: raw_find = visitMappingNodeFields(content, fn, name) on a raw Content slice; field / fields /
   visit_fields / elements / map_field_text (GetKind, GetApiVersion); get_field_value / get_string / get_slice. *)

(* ---------- ElementMatcher is the path selector ---------- *)
(* rn.Pipe(MatchElement(nm, v)) returns what rn.Pipe(Lookup("[nm=v]")) returns, on every node *)
Theorem C14_match_element_is_selector :
  forall (nonstr : string -> bool) (nm v : string) (n : node),
    (do r <- match_element nonstr nm v n; Ok (snd r)) = lookup [PSel nm v] n.
Proof. exact match_element_is_selector. Qed.
Print Assumptions C14_match_element_is_selector.

(* ElementMatcher with Create = the element PathGetter appends is LookupCreate("[nm=v]"): document and result *)
Theorem C14_match_element_create_is_lookup_create :
  forall (nonstr : string -> bool) (leaf : kind) (nm v : string) (n : node),
    elem_matcher nonstr [nm] [v] false (Some (sel_new nm v)) n = lookup_create leaf [PSel nm v] n.
Proof. exact match_element_create_is_lookup_create. Qed.
Print Assumptions C14_match_element_create_is_lookup_create.

(* GetElementByKey(k): the first mapping element that has the field k *)
Theorem C14_get_element_by_key :
  forall (nonstr : string -> bool) (k : string) (es : list node),
    k <> "" -> get_element_by_key nonstr k (Seq es) = Ok (Seq es, first_sat (has_field k) es).
Proof. exact get_element_by_key_spec. Qed.
Print Assumptions C14_get_element_by_key.

(* Get(name) is Lookup(name) *)
Theorem C14_field_matcher_get_is_lookup :
  forall (nonstr : string -> bool) (name : string) (x : node),
    name <> "" -> (do r <- fm_get nonstr name x; Ok (snd r)) = lookup [PKey name] x.
Proof. exact fm_get_is_lookup. Qed.
Print Assumptions C14_field_matcher_get_is_lookup.

(* FieldMatcher{Name, Create}: an absent field is created holding the value (and Get then finds it);
   a present one is returned and the mapping is unchanged *)
Theorem C14_field_matcher_create :
  forall (nonstr : string -> bool) (name : string) (c : node) (kvs : list (string * node)),
    name <> "" -> is_null c = false -> find_field name kvs = None ->
    field_matcher nonstr name None (Some c) (Map kvs) =
      Ok (Map (kvs ++ [(name, quote11 nonstr c)]), Some (quote11 nonstr c)) /\
    fm_get nonstr name (Map (kvs ++ [(name, quote11 nonstr c)])) =
      Ok (Map (kvs ++ [(name, quote11 nonstr c)]), Some (quote11 nonstr c)).
Proof. exact field_matcher_create_absent. Qed.
Print Assumptions C14_field_matcher_create.

Theorem C14_field_matcher_create_present :
  forall (nonstr : string -> bool) (name : string) (c : node) (kvs : list (string * node)) (f : node),
    name <> "" -> find_field name kvs = Some f ->
    field_matcher nonstr name None (Some c) (Map kvs) = Ok (Map kvs, Some f).
Proof. exact field_matcher_create_present. Qed.
Print Assumptions C14_field_matcher_create_present.

(* FieldMatcher{StringRegexValue}: the expression is searched (unanchored) in the Value of a scalar; anchored to a
   literal it is Match(v); with a Name it plays no role *)
Theorem C14_field_matcher_regex_anchored_literal :
  forall (nonstr : string -> bool) (v : string) (x : node),
    field_matcher_regex nonstr "" (Some (Regex.anchor (Regex.lit v))) x = fm_match nonstr v x.
Proof. exact field_matcher_regex_anchored_literal. Qed.
Print Assumptions C14_field_matcher_regex_anchored_literal.

Theorem C14_field_matcher_regex_named :
  forall (nonstr : string -> bool) (name : string) (r : option Regex.re) (x : node),
    name <> "" -> field_matcher_regex nonstr name r x = fm_get nonstr name x.
Proof. exact field_matcher_regex_named. Qed.
Print Assumptions C14_field_matcher_regex_named.

(* ---------- ElementSetter on a keyed list: lens laws ----------
   Hypotheses: one non-empty key k with a non-empty value v; [clean es]: the list has no null and no empty-mapping
   element (ElementSetter silently drops those, see C14_elem_setter_unclean_refuted); the element written
   answers to the key itself ([sel_match k v x], the analogue of H1). *)
Theorem C14_elem_setter_put_get :
  forall (nonstr : string -> bool) (k v : string) (x : node) (es : list node),
    k <> "" -> v <> "" -> clean es = true -> sel_match k v x = true ->
    exists es', elem_setter nonstr [k] [v] (Some x) (Seq es) = Ok (Seq es', Some x) /\
                lookup [PSel k v] (Seq es') = Ok (Some x).
Proof. exact elem_setter_put_get_thm. Qed.
Print Assumptions C14_elem_setter_put_get.

(* writing back the element found changes nothing — when it is the only one answering to the key *)
Theorem C14_elem_setter_get_put :
  forall (nonstr : string -> bool) (k v : string) (x : node) (es : list node),
    k <> "" -> v <> "" -> clean es = true ->
    lookup [PSel k v] (Seq es) = Ok (Some x) -> count_sat (sel_match k v) es = 1 ->
    elem_setter nonstr [k] [v] (Some x) (Seq es) = Ok (Seq es, Some x).
Proof. exact elem_setter_get_put_thm. Qed.
Print Assumptions C14_elem_setter_get_put.

(* the last write wins (hence idempotence) *)
Theorem C14_elem_setter_put_put :
  forall (nonstr : string -> bool) (k v : string) (x y : node) (es es1 : list node) (r : option node),
    k <> "" -> v <> "" -> clean es = true -> sel_match k v x = true -> is_null y = false ->
    elem_setter nonstr [k] [v] (Some x) (Seq es) = Ok (Seq es1, r) ->
    elem_setter nonstr [k] [v] (Some y) (Seq es1) = elem_setter nonstr [k] [v] (Some y) (Seq es).
Proof. exact elem_setter_put_put_thm. Qed.
Print Assumptions C14_elem_setter_put_put.

(* elements answering to another value of the key are untouched *)
Theorem C14_elem_setter_frame :
  forall (nonstr : string -> bool) (k v w : string) (x : node) (es es1 : list node) (r : option node),
    k <> "" -> v <> "" -> v <> w -> clean es = true -> sel_match k v x = true ->
    elem_setter nonstr [k] [v] (Some x) (Seq es) = Ok (Seq es1, r) ->
    lookup [PSel k w] (Seq es1) = lookup [PSel k w] (Seq es).
Proof. exact elem_setter_frame_thm. Qed.
Print Assumptions C14_elem_setter_frame.

(* Element == nil removes exactly the elements answering to the key *)
Theorem C14_elem_setter_delete :
  forall (nonstr : string -> bool) (k v : string) (es : list node),
    k <> "" -> v <> "" -> clean es = true ->
    exists es', elem_setter nonstr [k] [v] None (Seq es) = Ok (Seq es', None) /\
                lookup [PSel k v] (Seq es') = Ok None /\
                es' = filter (fun e => negb (sel_match k v e)) es.
Proof. exact elem_setter_delete_thm. Qed.
Print Assumptions C14_elem_setter_delete.

(* [clean] cannot be dropped: unrelated empty-mapping and null elements disappear (3 elements in, 1 out) *)
Theorem C14_elem_setter_unclean_refuted :
  exists es x, sel_match "name" "b" x = true /\
    elem_setter (fun _ => false) ["name"] ["b"] (Some x) (Seq es) = Ok (Seq [x], Some x) /\ List.length es = 3.
Proof. exact elem_setter_drops_empty_elements. Qed.
Print Assumptions C14_elem_setter_unclean_refuted.

(* uniqueness cannot be dropped in get-put: every element answering to the key is replaced *)
Theorem C14_elem_setter_get_put_duplicates_refuted :
  exists es x, child (PSel "name" "b") (Seq es) = Some x /\ clean es = true /\
    elem_setter (fun _ => false) ["name"] ["b"] (Some x) (Seq es) <> Ok (Seq es, Some x).
Proof. exact elem_setter_replaces_all_matches. Qed.
Print Assumptions C14_elem_setter_get_put_duplicates_refuted.

(* ---------- ElementAppender ---------- *)
Theorem C14_elem_append_get :
  forall (e : node) (es : list node),
    elem_append [e] (Seq es) = Ok (Seq (es ++ [e]), Some e) /\ lookup [PLast] (Seq (es ++ [e])) = Ok (Some e).
Proof. exact elem_append_get. Qed.
Print Assumptions C14_elem_append_get.

Theorem C14_elem_append_frame :
  forall (els es : list node) (i : nat) (x : node),
    nth_error es i = Some x ->
    exists r, elem_append els (Seq es) = Ok (Seq (es ++ els), r) /\ nth_error (es ++ els) i = Some x.
Proof. exact elem_append_frame. Qed.
Print Assumptions C14_elem_append_frame.

(* ---------- FieldClearer, Tee, metadata setters ---------- *)
Theorem C14_field_clearer_is_clear :
  forall (name : string) (n : node), (do r <- field_clearer name false n; Ok (fst r)) = clear_field name n.
Proof. exact field_clearer_is_clear_field. Qed.
Print Assumptions C14_field_clearer_is_clear.

(* FieldClearer{IfEmpty} agrees with the clearer of Yaml/Annot.v (w-c05) *)
Theorem C14_field_clearer_if_empty_agrees :
  forall (name : string) (n : node),
    (do r <- field_clearer name true n; Ok (fst r)) = clear_field_if_empty name n.
Proof. exact field_clearer_if_empty_agrees. Qed.
Print Assumptions C14_field_clearer_if_empty_agrees.

(* Tee(f) changes the document exactly as f does *)
Theorem C14_tee :
  forall (A : Type) (cr : option kind) (ps : list part) (k : node -> res (node * A)) (n : node),
    (do r <- walk cr ps (k_tee k) n; Ok (fst r)) = (do r <- walk cr ps k n; Ok (fst r)).
Proof. exact (@walk_tee). Qed.
Print Assumptions C14_tee.

(* SetLabel / SetAnnotation are put on metadata.labels / metadata.annotations (agreement with Yaml/Annot.v) *)
Theorem C14_set_label_is_put :
  forall (nonstr : string -> bool) (k v : string) (n : node),
    (do r <- set_label nonstr k v n; Ok (fst r)) =
    (do r <- put nonstr [PKey "metadata"; PKey "labels"] k (quoted_value v) n; Ok (fst r)).
Proof. exact set_label_is_put. Qed.
Print Assumptions C14_set_label_is_put.

Theorem C14_set_annotation_is_put :
  forall (nonstr : string -> bool) (k v : string) (n : node),
    set_annotation nonstr k v n =
    (do n1 <- clear_empty_annotations n;
     do r <- put nonstr [PKey "metadata"; PKey "annotations"] k (quoted_value v) n1; Ok (fst r)).
Proof. exact set_annotation_is_put. Qed.
Print Assumptions C14_set_annotation_is_put.

Theorem C14_set_label_get :
  forall (nonstr : string -> bool) (k v : string) (n n' : node) (r : option node),
    no_null_path [PKey "metadata"; PKey "labels"] n = true ->
    set_label nonstr k v n = Ok (n', r) ->
    exists s, lookup [PKey "metadata"; PKey "labels"; PKey k] n' = Ok (Some (with_style s (quoted_value v))).
Proof. exact set_label_get. Qed.
Print Assumptions C14_set_label_get.

(* ---------- PathGetter and PathMatcher (Yaml/Match.v, w-c10) agree on plain field paths ---------- *)
Theorem C14_lookup_pm_agree :
  forall (parse : string -> option Regex.re) (enc : node -> string) (nonstr : string -> bool) (fuel : nat)
         (path : list string),
    forallb MatchAgreeProofs.plain_part path = true ->
    forall n : node,
      match lookup (map PKey path) n with
      | Ok (Some x) => exists a, Match.pm parse enc nonstr None fuel path n = Ok (n, [Match.HAt a]) /\
                                 Match.get_at a n = Some x
      | Ok None => Match.pm parse enc nonstr None fuel path n = Ok (n, [])
      | Err => Match.pm parse enc nonstr None fuel path n = Err
      | _ => False
      end.
Proof. exact MatchAgreeProofs.lookup_pm_agree. Qed.
Print Assumptions C14_lookup_pm_agree.

(* ... and beyond plain names: on paths of plain names, indices in range and selectors [fld=v] (fld non-empty) whose regular
   expression is faithful to string equality on the list at hand and which at most one element answers to
   ([MatchAgreeProofs.comm]), the two agree outcome by outcome ([MatchAgreeProofs.agree] = the three-way statement above) *)
Theorem C14_lookup_pm_agree_full :
  forall (parse : string -> option Regex.re) (enc : node -> string) (nonstr : string -> bool) (fuel : nat)
         (path : list string) (n : node),
    MatchAgreeProofs.comm parse enc path n ->
    MatchAgreeProofs.agree (lookup (parse_path path) n) n (Match.pm parse enc nonstr None (S fuel) path n).
Proof. exact MatchAgreeProofs.lookup_pm_agree2. Qed.
Print Assumptions C14_lookup_pm_agree_full.

(* The documented differences, exactly.  (1) an index out of range: no match for PathGetter, an error for PathMatcher *)
Theorem C14_pm_diff_index_out_of_range :
  forall (parse : string -> option Regex.re) (enc : node -> string) (nonstr : string -> bool) (fuel : nat)
         (p : string) (i : nat) (rest : list string) (es : list node),
    MatchAgreeProofs.index_part p i -> nth_error es i = None ->
    Match.pm parse enc nonstr None (S fuel) (p :: rest) (Seq es) = Err /\
    lookup (PIdx i :: parse_path rest) (Seq es) = Ok None.
Proof. exact MatchAgreeProofs.pm_index_out_of_range. Qed.
Print Assumptions C14_pm_diff_index_out_of_range.

(* (2) an index on a null node: likewise *)
Theorem C14_pm_diff_index_on_null :
  forall (parse : string -> option Regex.re) (enc : node -> string) (nonstr : string -> bool) (fuel : nat)
         (p : string) (i : nat) (rest : list string) (s : style) (v : string),
    MatchAgreeProofs.index_part p i ->
    Match.pm parse enc nonstr None (S fuel) (p :: rest) (Scalar TNull s v) = Err /\
    lookup (PIdx i :: parse_path rest) (Scalar TNull s v) = Ok None.
Proof. exact MatchAgreeProofs.pm_index_on_null. Qed.
Print Assumptions C14_pm_diff_index_on_null.

(* (3) with a faithful expression PathMatcher visits exactly the elements the selector [fld=v] answers to, ALL of them;
   PathGetter takes the first *)
Theorem C14_pm_selector_step :
  forall (parse : string -> option Regex.re) (enc : node -> string) (nonstr : string -> bool) (fuel : nat)
         (p fld v : string) (rest : list string) (es : list node),
    MatchAgreeProofs.sel_part p fld v -> MatchAgreeProofs.sel_faithful parse enc fld v es ->
    Match.pm parse enc nonstr None (S fuel) (p :: rest) (Seq es) =
    (do r <- Match.visit_elems
               (fun e => if sel_match fld v e then Match.pm parse enc nonstr None (S fuel) rest e else Ok (e, [])) 0 es;
     Ok (Seq (fst r), snd r)).
Proof. exact MatchAgreeProofs.pm_selector_step. Qed.
Print Assumptions C14_pm_selector_step.

Theorem C14_pm_diff_all_matches :
  forall (parse : string -> option Regex.re) (enc : node -> string) (nonstr : string -> bool) (fuel : nat)
         (p fld v : string) (e1 e2 : node),
    MatchAgreeProofs.sel_part p fld v -> MatchAgreeProofs.sel_faithful parse enc fld v [e1; e2] ->
    sel_match fld v e1 = true -> sel_match fld v e2 = true ->
    Match.pm parse enc nonstr None (S fuel) [p] (Seq [e1; e2]) = Ok (Seq [e1; e2], [Match.HAt [0]; Match.HAt [1]]) /\
    lookup [PSel fld v] (Seq [e1; e2]) = Ok (Some e1).
Proof. exact MatchAgreeProofs.pm_selector_all_matches. Qed.
Print Assumptions C14_pm_diff_all_matches.

(* (4) PathGetter trims parts and drops empty ones; (5) "-" is the last element for PathGetter, a field name for
   PathMatcher; (6) a primitive selector [=v] ends PathMatcher's walk, PathGetter walks on. Witnesses with the
   expression "x" compiled to the literal x and the scalar text as encoder. *)
Theorem C14_pm_diff_trim_dash_primitive :
  let str s := Scalar TStr SPlain s in
  let pmx := Match.pm (Regex.parse_of [("x", Some (Regex.lit "x"))]) node_value (fun _ => false) None 1 in
  (lookup (parse_path [" a "; ""]) (Map [("a", str "v")]) = Ok (Some (str "v")) /\
   pmx [" a "] (Map [("a", str "v")]) = Ok (Map [("a", str "v")], [])) /\
  (lookup (parse_path ["-"]) (Map [("-", str "v")]) = Err /\
   pmx ["-"] (Map [("-", str "v")]) = Ok (Map [("-", str "v")], [Match.HAt [0]]) /\
   lookup (parse_path ["l"; "-"]) (Map [("l", Seq [str "p"; str "q"])]) = Ok (Some (str "q")) /\
   pmx ["l"; "-"] (Map [("l", Seq [str "p"; str "q"])]) = Err) /\
  (pmx ["[=x]"; "a"; "b"] (Seq [str "x"; str "y"]) = Ok (Seq [str "x"; str "y"], [Match.HAt [0]]) /\
   lookup (parse_path ["[=x]"; "a"; "b"]) (Seq [str "x"; str "y"]) = Err).
Proof. exact (conj MatchAgreeProofs.diff_trim (conj MatchAgreeProofs.diff_dash MatchAgreeProofs.diff_primitive_selector_ignores_rest)). Qed.
Print Assumptions C14_pm_diff_trim_dash_primitive.

(* the two models of utils.PathSplitter (Yaml/FieldSpec.v for "/", Yaml/Match.v for any one-byte delimiter) agree *)
Theorem C14_path_splitter_agree :
  forall path : string, path_splitter path = Match.path_splitter_c "/"%char path.
Proof. exact MatchAgreeProofs.path_splitter_agree. Qed.
Print Assumptions C14_path_splitter_agree.

(* ---------- readers on the raw Content ---------- *)
(* on a well-formed mapping the raw reader is find_field and never panics *)
Theorem C14_raw_reader_wellformed :
  forall (name : string) (kvs : list (string * node)), raw_find name (flatten kvs) = Ok (find_field name kvs).
Proof. exact raw_find_flatten. Qed.
Print Assumptions C14_raw_reader_wellformed.

(* No reader of mapping fields panics, whatever the Content: a trailing entry without a partner is ignored
   (repo fix 1d1d852; until then: finding C14/panic-visitFieldsWhileTrue-index-oob, theorems
   C14_raw_reader_panic_refuted / _panic_exact / _no_panic_partial). *)
Theorem C14_raw_reader_no_panic :
  forall (name : string) (c : list node) (k : rawkind) (n : node),
    raw_find name c <> Panic /\ raw_fields k c <> Panic /\ map_field_text name n <> Panic.
Proof. exact (fun name c k n => conj (raw_find_no_panic name c) (conj (raw_fields_never_panics k c) (map_field_text_no_panic name n))). Qed.
Print Assumptions C14_raw_reader_no_panic.

(* the reader sees exactly the complete pairs of an odd Content *)
Theorem C14_raw_reader_unpaired_entry :
  forall (name : string) (kvs : list (string * node)) (x : node),
    raw_find name (flatten kvs ++ [x]) = Ok (find_field name kvs).
Proof. exact raw_find_unpaired. Qed.
Print Assumptions C14_raw_reader_unpaired_entry.

(* fieldspec.Filter on a non-sequence object is fs_apply (a sequence object is read pairwise by the GVK test) *)
Theorem C14_fs_apply_raw_agrees :
  forall ck ct sv fs obj, is_seq obj = false -> fs_apply_raw ck ct sv fs obj = fs_apply ck ct sv fs obj.
Proof. exact fs_apply_raw_agrees. Qed.
Print Assumptions C14_fs_apply_raw_agrees.

(* VisitFields: every field once, in document order, with its own value — when no key is repeated *)
Theorem C14_visit_fields_order :
  forall kvs : list (string * node),
    nodup_keys (keys kvs) = true ->
    visit_fields (Map kvs) = Ok (map (fun kv => (fst kv, Some (snd kv))) kvs).
Proof. exact visit_fields_nodup. Qed.
Print Assumptions C14_visit_fields_order.

(* ... with a repeated key the first value is visited twice and the second never *)
Theorem C14_visit_fields_duplicate_refuted :
  exists kvs, visit_fields (Map kvs) <> Ok (map (fun kv => (fst kv, Some (snd kv))) kvs).
Proof. exact visit_fields_duplicate_key. Qed.
Print Assumptions C14_visit_fields_duplicate_refuted.

(* ---------- JSON refinement for the remaining writers ---------- *)
Theorem C14_refines_json_clear :
  forall (ps : list part) (name : string) (n n' : node),
    no_null_path ps n = true -> clear_at ps name n = Ok (n', Some tt) ->
    jclear ps name (to_json n) = Some (to_json n').
Proof. exact clear_refines. Qed.
Print Assumptions C14_refines_json_clear.

Theorem C14_refines_json_put_scalar :
  forall (ps : list part) (v n n' : node),
    is_null v = false -> tagged v = true -> no_null_path ps n = true ->
    put_scalar ps v n = Ok (n', Some tt) ->
    jput_scalar ps (to_json v) (to_json n) = Some (to_json n').
Proof. exact put_scalar_refines. Qed.
Print Assumptions C14_refines_json_put_scalar.

Theorem C14_refines_json_lookup_create :
  forall (leaf : kind) (ps : list part) (n n' x : node),
    no_null_path ps n = true -> lookup_create leaf ps n = Ok (n', Some x) ->
    jupd (Some leaf) ps (fun j => Some j) (to_json n) = Some (to_json n').
Proof. exact lookup_create_refines. Qed.
Print Assumptions C14_refines_json_lookup_create.
