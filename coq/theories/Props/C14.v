(* C14 — property theorems only. Every theorem is closed by [exact] of a lemma proved elsewhere
   (Yaml/FnsProofs.v, Yaml/JsonRefProofs.v, Yaml/FieldSpecProofs.v).

   Vocabulary (Yaml/Fns.v = executable model of kyaml PathGetter & co., Yaml/FnsSpec.v = spec notions):
     walk cr ps k n      PathGetter{Path: ps, Create: cr} on n, then the filter k on the node found
     lookup ps n         rn.Pipe(Lookup(ps...))
     put ps name v n     rn.Pipe(LookupCreate(MappingNode, ps...), SetField(name, v))
     put_scalar ps v n   rn.Pipe(LookupCreate(ScalarNode, ps...), FieldSetter{Value: v})
     clear_at ps name n  rn.Pipe(Lookup(ps...), Clear(name))
   Hypotheses that the real code needs (each shown necessary by a [_refuted] theorem below and mirrored
   by the Go oracles):
     (H1) stable ps k / stable_put ps name / stable_put_scalar ps : the write does not overwrite the field a
          [nm=v] selector on its own path matches on
     (H2) no_null_path ps n : no !!null node on the existing part of the path (kyaml drops such writes) *)
From KV Require Import Yaml.Fns Yaml.FnsSpec Yaml.FnsProofs Yaml.JsonRef Yaml.JsonRefProofs.
From KV Require Import Yaml.FieldSpec Yaml.FieldSpecSpec Yaml.FieldSpecProofs Yaml.FieldSpecGenProofs.

(* ---------- lookup is pure ---------- *)
(* Looking a path up (no creation) never modifies the document, whatever the path and document. *)
Theorem C14_lookup_pure :
  forall (ps : list part) (n n' : node) (r : option node),
    walk None ps k_get n = Ok (n', r) -> n' = n.
Proof. exact (fun ps => walk_nocreate_pure k_get ps k_get_pure). Qed.
Print Assumptions C14_lookup_pure.

(* ---------- PUT-GET ---------- *)
(* General form: after a successful walk (with or without creation) that applied k at the end of the path,
   looking the same path up finds exactly the node k produced, and changes nothing. *)
Theorem C14_put_get_walk :
  forall (A : Type) (cr : option kind) (ps : list part) (k : node -> res (node * A)),
    stable ps k ->
    forall (n n' : node) (a : A),
      no_null_path ps n = true ->
      walk cr ps k n = Ok (n', Some a) ->
      exists x x', is_null x = false /\ k x = Ok (x', a) /\ walk None ps k_get n' = Ok (n', Some x').
Proof. exact (@walk_put_get). Qed.
Print Assumptions C14_put_get_walk.

(* LookupCreate + SetField, then Lookup of path+field returns the value set (up to the scalar style, which
   FieldSetter takes from the value previously there or forces to double quotes for YAML-1.1 keywords). *)
Theorem C14_put_get :
  forall (nonstr : string -> bool) (ps : list part) (name : string) (v n n' : node),
    is_null v = false -> stable_put ps name = true -> no_null_path ps n = true ->
    put nonstr ps name v n = Ok (n', Some tt) ->
    exists s, lookup (ps ++ [PKey name]) n' = Ok (Some (with_style s v)).
Proof. exact put_get. Qed.
Print Assumptions C14_put_get.

Theorem C14_put_scalar_get :
  forall (ps : list part) (v n n' : node),
    is_null v = false -> stable_put_scalar ps = true -> no_null_path ps n = true ->
    put_scalar ps v n = Ok (n', Some tt) ->
    exists s, lookup ps n' = Ok (Some (with_style s v)).
Proof. exact put_scalar_get. Qed.
Print Assumptions C14_put_scalar_get.

(* ---------- GET-PUT ---------- *)
(* Writing back what is there changes nothing (no hypothesis on the path or the document). *)
Theorem C14_get_put_walk :
  forall (A : Type) (cr : option kind) (ps : list part) (k : node -> res (node * A)) (n x : node) (a : A),
    lookup ps n = Ok (Some x) -> k x = Ok (x, a) -> walk cr ps k n = Ok (n, Some a).
Proof. exact (@walk_get_put). Qed.
Print Assumptions C14_get_put_walk.

Theorem C14_get_put :
  forall (nonstr : string -> bool) (cr : option kind) (ps : list part) (name : string) (v n : node),
    is_null v = false ->
    lookup (ps ++ [PKey name]) n = Ok (Some v) ->
    walk cr ps (k_set_field nonstr name v) n = Ok (n, Some tt).
Proof. exact get_put. Qed.
Print Assumptions C14_get_put.

(* ---------- PUT-PUT ---------- *)
(* Fusion: a second walk along the same path equals one walk with the two continuations in sequence. *)
Theorem C14_put_put_fusion :
  forall (A B : Type) (cr : option kind) (ps : list part)
         (k1 : node -> res (node * A)) (k2 : node -> res (node * B)),
    stable ps k1 ->
    forall (n n1 : node) (a1 : A),
      no_null_path ps n = true ->
      walk cr ps k1 n = Ok (n1, Some a1) ->
      walk cr ps k2 n1 = walk cr ps (kseq k1 k2) n.
Proof. exact (@walk_fusion). Qed.
Print Assumptions C14_put_put_fusion.

(* Repeating a put changes nothing further. *)
Theorem C14_put_put_idempotent :
  forall (nonstr : string -> bool) (cr : option kind) (ps : list part) (name : string) (v n n1 : node),
    is_null v = false -> stable_put ps name = true -> no_null_path ps n = true ->
    walk cr ps (k_set_field nonstr name v) n = Ok (n1, Some tt) ->
    walk cr ps (k_set_field nonstr name v) n1 = Ok (n1, Some tt).
Proof. exact put_idempotent. Qed.
Print Assumptions C14_put_put_idempotent.

(* Last write wins: put v2 after put v1 gives what put v2 alone gives — same outcome class, same document up
   to scalar styles (the second write inherits the style of what the first one stored). *)
Theorem C14_put_put_last_wins :
  forall (nonstr : string -> bool) (cr : option kind) (ps : list part) (name : string) (v1 v2 n n1 : node),
    is_null v1 = false -> is_null v2 = false ->
    stable_put ps name = true -> no_null_path ps n = true ->
    walk cr ps (k_set_field nonstr name v1) n = Ok (n1, Some tt) ->
    res_unstyle_eq (walk cr ps (k_set_field nonstr name v2) n1) (walk cr ps (k_set_field nonstr name v2) n).
Proof. exact put_last_wins. Qed.
Print Assumptions C14_put_put_last_wins.

(* ---------- FRAME ---------- *)
(* General form: a walk along ps (whatever it found, created, or failed to find) leaves the outcome of Lookup
   unchanged for every path q that diverges from ps at a key, an index or a selector value.  The side
   condition excludes exactly one thing: q reading the key field of a list element that the walk appended. *)
Theorem C14_frame_walk :
  forall (A : Type) (cr : option kind) (ps : list part) (k : node -> res (node * A)),
    stable ps k ->
    forall (qs : list part) (n n' : node) (r : option A),
      diverges ps qs ->
      (no_sel_key_read qs \/ lookup qs n <> Ok None) ->
      walk cr ps k n = Ok (n', r) ->
      lookup qs n' = lookup qs n.
Proof. exact (@walk_frame). Qed.
Print Assumptions C14_frame_walk.

(* For put: q may also diverge at the field written (siblings of the field are untouched). *)
Theorem C14_frame :
  forall (nonstr : string -> bool) (cr : option kind) (ps : list part) (name : string) (v : node)
         (qs : list part) (n n' : node) (r : option unit),
    stable_put ps name = true ->
    diverges (ps ++ [PKey name]) qs ->
    (no_sel_key_read qs \/ lookup qs n <> Ok None) ->
    walk cr ps (k_set_field nonstr name v) n = Ok (n', r) ->
    lookup qs n' = lookup qs n.
Proof. exact put_frame. Qed.
Print Assumptions C14_frame.

(* ---------- ABSENT PATH ---------- *)
(* Clearing a field whose path is absent leaves the document untouched. *)
Theorem C14_absent_clear_noop :
  forall (ps : list part) (name : string) (n : node),
    lookup (ps ++ [PKey name]) n = Ok None -> exists r, clear_at ps name n = Ok (n, r).
Proof. exact absent_clear_noop. Qed.
Print Assumptions C14_absent_clear_noop.

(* ---------- REFINEMENT to the reference model on plain JSON values (Yaml/JsonRef.v) ---------- *)
Theorem C14_refines_json_get :
  forall (ps : list part) (n x : node),
    lookup ps n = Ok (Some x) -> jget ps (to_json n) = Some (to_json x).
Proof. exact lookup_refines_found. Qed.
Print Assumptions C14_refines_json_get.

Theorem C14_refines_json_get_absent :
  forall (ps : list part) (n : node), lookup ps n = Ok None -> jget ps (to_json n) = None.
Proof. exact lookup_refines_absent. Qed.
Print Assumptions C14_refines_json_get_absent.

Theorem C14_refines_json_walk :
  forall (A : Type) (cr : option kind) (ps : list part) (k : node -> res (node * A)) (f : json -> option json),
    (forall x x' a, k x = Ok (x', a) -> is_null x = false -> f (to_json x) = Some (to_json x')) ->
    forall (n n' : node) (a : A),
      no_null_path ps n = true -> walk cr ps k n = Ok (n', Some a) ->
      jupd cr ps f (to_json n) = Some (to_json n').
Proof. exact (@walk_refines). Qed.
Print Assumptions C14_refines_json_walk.

(* to_json (put ps name v n) = jput (ps ++ [name]) (to_json v) (to_json n); [tagged v]: v is not an untagged
   scalar (for those the JSON view depends on the quoting style FieldSetter chooses). *)
Theorem C14_refines_json :
  forall (nonstr : string -> bool) (ps : list part) (name : string) (v n n' : node),
    is_null v = false -> tagged v = true -> no_null_path ps n = true ->
    put nonstr ps name v n = Ok (n', Some tt) ->
    jput (ps ++ [PKey name]) (to_json v) (to_json n) = Some (to_json n').
Proof. exact put_refines. Qed.
Print Assumptions C14_refines_json.

(* ---------- NO PANIC ---------- *)
(* No path operation panics, for all paths and all documents. (Until the repo fix 5cf7cc6, "-" on an empty or
   null sequence indexed elems[-1]: former finding C14/panic-last-on-empty, former theorems
   C14_last_on_empty_refuted / C14_lookup_panic_only_last / C14_no_panic_partial.) *)
Theorem C14_no_panic :
  forall (A : Type) (cr : option kind) (ps : list part) (k : node -> res (node * A)),
    (forall x, k x <> Panic) -> forall n, walk cr ps k n <> Panic.
Proof. exact (@walk_no_panic). Qed.
Print Assumptions C14_no_panic.

Theorem C14_no_panic_lookup : forall (ps : list part) (n : node), lookup ps n <> Panic.
Proof. exact lookup_no_panic. Qed.
Print Assumptions C14_no_panic_lookup.

Theorem C14_no_panic_lookup_create :
  forall (leaf : kind) (ps : list part) (n : node), lookup_create leaf ps n <> Panic.
Proof. exact lookup_create_no_panic. Qed.
Print Assumptions C14_no_panic_lookup_create.

Theorem C14_no_panic_put :
  forall (nonstr : string -> bool) (ps : list part) (name : string) (v n : node),
    put nonstr ps name v n <> Panic /\ put_nocreate nonstr ps name v n <> Panic.
Proof. exact (fun nonstr ps name v n => conj (put_no_panic nonstr ps name v n) (put_nocreate_no_panic nonstr ps name v n)). Qed.
Print Assumptions C14_no_panic_put.

Theorem C14_no_panic_put_scalar_clear :
  forall (ps : list part) (name : string) (v n : node),
    put_scalar ps v n <> Panic /\ clear_at ps name n <> Panic.
Proof. exact (fun ps name v n => conj (put_scalar_no_panic ps v n) (clear_at_no_panic ps name n)). Qed.
Print Assumptions C14_no_panic_put_scalar_clear.

(* "-" on an empty list or a null node finds nothing *)
Theorem C14_last_on_empty_absent :
  forall (A : Type) (cr : option kind) (ps : list part) (k : node -> res (node * A)) (s : style) (v : string),
    walk cr (PLast :: ps) k (Seq []) = Ok (Seq [], None) /\
    walk cr (PLast :: ps) k (Scalar TNull s v) = Ok (Scalar TNull s v, None).
Proof. exact (fun A cr ps k s v => conj (walk_last_on_empty cr ps k) (walk_last_on_null cr ps k s v)). Qed.
Print Assumptions C14_last_on_empty_absent.

(* ---------- the hypotheses cannot be dropped ---------- *)
(* without (H1): the put succeeds but the path no longer finds the element *)
Theorem C14_put_get_without_H1_refuted :
  exists ps name v n n',
    is_null v = false /\ no_null_path ps n = true /\ put (fun _ => false) ps name v n = Ok (n', Some tt) /\
    lookup (ps ++ [PKey name]) n' = Ok None.
Proof. exact put_get_needs_stable. Qed.
Print Assumptions C14_put_get_without_H1_refuted.

(* without (H2): the put through a null node reports success and the document is unchanged *)
Theorem C14_put_get_without_H2_refuted :
  exists ps name v n n',
    is_null v = false /\ stable_put ps name = true /\ put (fun _ => false) ps name v n = Ok (n', Some tt) /\
    lookup (ps ++ [PKey name]) n' = Ok None /\ n' = n.
Proof. exact put_get_needs_no_null. Qed.
Print Assumptions C14_put_get_without_H2_refuted.

(* without the side condition of the frame law: appending the element [name=z] creates its name field *)
Theorem C14_frame_without_side_condition_refuted :
  exists ps name v qs n n',
    stable_put ps name = true /\ diverges (ps ++ [PKey name]) qs /\
    put (fun _ => false) ps name v n = Ok (n', Some tt) /\ lookup qs n = Ok None /\ lookup qs n' <> Ok None.
Proof. exact frame_needs_side_condition. Qed.
Print Assumptions C14_frame_without_side_condition_refuted.

(* ==================== field-spec traversal (api/filters/fieldspec, fsslice) ==================== *)
(* Yaml/FieldSpec.v: fs_filter = Filter.filter/handleMap/handleSequence, fs_apply = Filter.Filter (GVK test +
   PathSplitter), fsslice_apply = fsslice.Filter.  Yaml/FieldSpecSpec.v: positions (get_at / upd_at /
   apply_at), the reference interpretation [denotes] of a slash path, [fs_diverges]. *)

(* The slash path visits exactly the nodes its reference interpretation denotes: without creation and for
   plain segments, the filter succeeds with d' iff [denotes] is defined and applying SetValue at the denoted
   positions, in document order, yields d'.  (For all SetValue functions, hence SetValue is invoked on
   exactly those nodes; a scalar on the way makes both sides fail.) *)
Theorem C14_fieldspec_denotes :
  forall (create_kind : option kind) (create_tag : tag) (set_value : node -> res node) (path : list string),
    forallb plain_seg path = true ->
    forall obj obj' : node,
      fs_filter create_kind create_tag set_value false path obj = Ok obj' <->
      (exists qs : list jpath, denotes path obj = Ok qs /\ apply_at set_value qs obj = Ok obj').
Proof. exact fs_filter_denotes. Qed.
Print Assumptions C14_fieldspec_denotes.

(* Frame: a position that leaves the field-spec path at some key keeps its value, whatever SetValue does,
   with or without creation, "[]" hints and null promotion. *)
Theorem C14_fieldspec_frame :
  forall (create_kind : option kind) (create_tag : tag) (set_value : node -> res node) (create : bool)
         (path : list string),
    forallb seg_ok path = true ->
    forall (obj obj' : node) (q : jpath),
      fs_filter create_kind create_tag set_value create path obj = Ok obj' ->
      fs_diverges path q = true -> get_at q obj' = get_at q obj.
Proof. exact fs_filter_frame. Qed.
Print Assumptions C14_fieldspec_frame.

Theorem C14_fieldspec_apply_frame :
  forall (create_kind : option kind) (create_tag : tag) (set_value : node -> res node) (fs : fieldspec)
         (obj obj' : node) (q : jpath),
    forallb seg_ok (fs_segments fs) = true ->
    fs_apply create_kind create_tag set_value fs obj = Ok obj' ->
    fs_diverges (fs_segments fs) q = true -> get_at q obj' = get_at q obj.
Proof. exact fs_apply_frame. Qed.
Print Assumptions C14_fieldspec_apply_frame.

Theorem C14_fsslice_frame :
  forall (create_kind : option kind) (create_tag : tag) (set_value : node -> res node) (l : list fieldspec)
         (obj obj' : node) (q : jpath),
    Forall (fun fs => forallb seg_ok (fs_segments fs) = true /\ fs_diverges (fs_segments fs) q = true) l ->
    fsslice_apply create_kind create_tag set_value l obj = Ok obj' ->
    get_at q obj' = get_at q obj.
Proof. exact fsslice_apply_frame. Qed.
Print Assumptions C14_fsslice_frame.

(* ---------- obligations over the tables generated from /repo (Gen/FieldSpecs.v) ---------- *)
(* every segment of every builtin field-spec path is a plain map key, possibly with a "[]" hint *)
Theorem Gen_C14_fieldspec_segments_ok :
  forallb (fun fs => forallb seg_ok (fs_segments fs)) gen_all_fs = true.
Proof. exact gen_fs_segments_ok. Qed.
Print Assumptions Gen_C14_fieldspec_segments_ok.

(* every builtin field spec that does not create has plain segments only *)
Theorem Gen_C14_fieldspec_nocreate_plain :
  forallb (fun fs => fs_create fs || forallb plain_seg (fs_segments fs)) gen_all_fs = true.
Proof. exact gen_fs_nocreate_plain. Qed.
Print Assumptions Gen_C14_fieldspec_nocreate_plain.

Theorem Gen_C14_fieldspec_tables_nonempty :
  (10 <=? List.length gen_all_fs)%nat = true /\
  (1 <=? List.length (filter (fun fs => negb (fs_create fs)) gen_all_fs))%nat = true /\
  (1 <=? List.length (filter (fun fs => existsb seg_hint (fs_segments fs)) gen_all_fs))%nat = true.
Proof. exact gen_fs_nonempty. Qed.
Print Assumptions Gen_C14_fieldspec_tables_nonempty.
