(* C09 — the namespace directive moves every namespaced resource and nothing else.
   Property theorems only; every theorem is closed by [exact] of a lemma proved in
   Res/NamespaceProofs.v (any scope table / field-spec list) or Res/NamespaceGen.v (the GENERATED
   scope table Gen/NsScope.v and namespace field specs of Gen/FieldSpecs.v).

   Vocabulary (Res/Namespace.v): [ns_filter t c obj] = namespace.Filter.run; [default_ns ns] = the
   configuration the `namespace: ns` directive of a kustomization yields (default field specs, default
   subject mode, unsetOnly = false); [ns_transform] = NamespaceTransformerPlugin.Transform over a resource
   map (filter + ID collision check per resource); [obj_cluster_scoped t obj] = Gvk.IsClusterScoped over
   scope table t; [obj_namespace] = RNode.GetNamespace; [ns_chain] = one resource through the directives
   of its layer chain, [outermost] the last non-empty one. *)
From KV Require Import Res.Pipeline Res.NameRefProofs Res.PipelineWfProofs Res.NamespaceSubjects Res.NamespaceBuild.
From KV Require Import Res.Labels Res.LabelsProofs Res.Namespace Res.NamespaceProofs Res.NamespaceTree Res.NamespaceGen.
From KV Require Import Gen.NsScope Gen.FieldSpecs.

(* ---- obligations on the generated tables (vm_compute) ---- *)

(* every well-known type (17 cluster-scoped, 27 namespaced, listed in Res/Namespace.v as Kubernetes facts)
   is answered correctly by the table regenerated from precomputedIsNamespaceScoped, and no key occurs twice *)
Theorem Gen_scope_table_total : scope_table_total gen_ns_scope = true.
Proof. exact gen_scope_table_total. Qed.
Print Assumptions Gen_scope_table_total.

(* the default namespace field specs are made of plain field names and leave kind, apiVersion,
   metadata/namespace and subjects alone *)
Theorem Gen_namespace_rows_clear : fss_clear gen_namespace_fs = true.
Proof. exact gen_namespace_rows_clear. Qed.
Print Assumptions Gen_namespace_rows_clear.

(* ---- one resource ---- *)

(* every resource that is not certainly cluster-scoped (namespaced and unknown kinds alike) ends in the
   namespace of the directive, whatever namespace it had; kind and apiVersion are untouched.
   Hypothesis: the document is a mapping whose metadata is not a sequence. *)
Theorem C09_moved :
  forall (ns : string) (obj obj' : node),
    meta_not_seq obj = true -> obj_cluster_scoped gen_ns_scope obj = false ->
    ns_filter gen_ns_scope (default_ns ns) obj = Ok obj' ->
    obj_namespace obj' = ns /\ gvk_same obj obj'.
Proof. exact moved_default. Qed.
Print Assumptions C09_moved.

(* cluster-scoped resources: the node at metadata/namespace (usually none) is what it was *)
Theorem C09_cluster_untouched :
  forall (ns : string) (obj obj' : node),
    obj_cluster_scoped gen_ns_scope obj = true ->
    ns_filter gen_ns_scope (default_ns ns) obj = Ok obj' ->
    get_at meta_ns_path obj' = get_at meta_ns_path obj /\ gvk_same obj obj'.
Proof. exact cluster_untouched_default. Qed.
Print Assumptions C09_cluster_untouched.

(* the same two facts for ANY scope table, field-spec list that passes [fss_clear], subject mode *)
Theorem C09_moved_generic :
  forall (t : scope_table) (c : ns_config),
    fss_clear (ns_fss c) = true ->
    forall obj obj' : node,
      ns_unset_only c = false -> meta_not_seq obj = true ->
      obj_cluster_scoped t obj = false -> ns_filter t c obj = Ok obj' ->
      obj_namespace obj' = ns_value c /\ gvk_same obj obj'.
Proof. exact moved. Qed.
Print Assumptions C09_moved_generic.

(* ---- layering ---- *)
Theorem C09_outermost_wins :
  forall (ds : list string) (obj obj' : node),
    meta_not_seq obj = true -> obj_cluster_scoped gen_ns_scope obj = false ->
    outermost ds <> "" -> ns_chain gen_ns_scope gen_namespace_fs ds obj = Ok obj' ->
    obj_namespace obj' = outermost ds.
Proof. exact outermost_wins_default. Qed.
Print Assumptions C09_outermost_wins.

(* whole trees (the function the build correspondence runs): every output resource is the image of a resource
   of some layer under the directives from that layer up to the root, and carries the outermost of them *)
Theorem C09_build_outermost_wins :
  forall (l : nlayer) (out : list node),
    accumulate_ns gen_ns_scope gen_namespace_fs l = Ok out ->
    Forall (fun o => exists r ch, nreaches l r ch /\
                     (meta_not_seq r = true -> obj_cluster_scoped gen_ns_scope r = false ->
                      outermost ch <> "" -> obj_namespace o = outermost ch)) out.
Proof. exact build_outermost_wins. Qed.
Print Assumptions C09_build_outermost_wins.

(* ---- the whole resource map: every resource is the filter's image, ids are pairwise distinct, nothing
   is merged or dropped. Contrapositive: if two resources would carry the same id after the move the
   transformer returns an error (example ex_collision in Res/NamespaceGen.v). ---- *)
Theorem C09_collision_is_error :
  forall (ns : string) (rs out : list node),
    ns <> "" ->
    ns_transform gen_ns_scope (default_ns ns) rs = Ok out ->
    Forall2 (fun r r' =>
               ns_filter gen_ns_scope (default_ns ns) r = Ok r' /\
               (obj_cluster_scoped gen_ns_scope r = true -> get_at meta_ns_path r' = get_at meta_ns_path r) /\
               (obj_cluster_scoped gen_ns_scope r = false -> meta_not_seq r = true -> obj_namespace r' = ns)) rs out /\
    ids_distinct gen_ns_scope out /\ List.length out = List.length rs.
Proof. exact transform_default. Qed.
Print Assumptions C09_collision_is_error.

(* ---- subjects ----
   Full statement (DESIGN): a subject that designates a ServiceAccount of the build ends in that account's
   output namespace. Proved here: the default-mode rule of the namespace filter - subjects named "default"
   receive the namespace, every other subject is left exactly as it was. The second half of the law (subjects
   with other names follow their account through the name-reference transformer, api/filters/nameref) is
   not modelled (C03); it is checked on the implementation by the `subjects` oracle of harness/c09.go. *)
Theorem C09_subjects_partial :
  forall (ns : string) (obj obj' : node) (es : list node),
    is_role_binding (obj_kind obj) = true ->
    get_at ["subjects"] obj = Some (Seq es) ->
    ns_filter gen_ns_scope (default_ns ns) obj = Ok obj' ->
    exists es', get_at ["subjects"] obj' = Some (Seq es') /\
                Forall2 (subject_rel (default_ns ns) "name" "default") es es'.
Proof. exact subjects_default_default. Qed.
Print Assumptions C09_subjects_partial.

(* ---- subjects, full statement: the name-reference pass (C03 model Res/NameRef.v: setMapping) after the
   namespace transformer (Res/Pipeline.v: StorePreviousId + namespace.Filter + id check) ----
   m0 = the accumulated resources of a kustomization with `namespace: ns`, m1 after the namespace transformer,
   m2 after nameReferenceTransformer.Transform with the generated rule table. If, among the candidates the binding
   at position i may refer to (restricted to the namespace the subject names, all of them if it names none), exactly
   one ever bore the subject's name with the kind the rule is about, and that one is the account at position j
   (namespaced, moved by the transformer), then the subject's name and namespace in m2 are the account's name and
   namespace in m2, and that namespace is ns. All hypotheses are equations between computable terms. *)
Theorem C09_subjects :
  forall (nonstr : string -> bool) (ns : string) (m0 m1 m2 : list resource) (rules : list nbr)
         (i j k : nat) (r a0 a : resource) (org : resid) (fs0 : fieldspec) (tg0 : gvk) (rest : list (fieldspec * gvk))
         (kvs ekvs : list (string * node)) (es : list node) (name_node : node) (cands : list cand) (b : cand),
    ns <> "" ->
    namespace_transform ns m0 = Ok m1 -> pipe_rules = Ok rules ->
    nameref_transform pipe_cs nonstr rules m1 = Ok m2 ->
    nth_error m1 i = Some r -> org_id pipe_cs r = Ok org ->
    filters_for rules org = (fs0, tg0) :: rest -> binding_rules_ok ((fs0, tg0) :: rest) = true ->
    r_node r = Map kvs -> find_field "subjects" kvs = Some (Seq es) ->
    nth_error es k = Some (Map ekvs) -> find_field "name" ekvs = Some name_node ->
    nth_error m0 j = Some a0 -> nth_error m1 j = Some a -> nil_or_empty (r_node a0) = false ->
    meta_not_seq (r_node a0) = true -> Namespace.obj_cluster_scoped gen_ns_scope (r_node a0) = false ->
    view pipe_cs a = Ok b -> c_name b <> "" ->
    cands_at pipe_cs m1 i = Ok cands ->
    let x := make_ctx pipe_cs r "subjects" tg0 in
    filter (name_kind_match x (node_value name_node)) (mapping_cands ekvs cands) = [b] ->
    roleref_sieve x b && namespace_sieve x b = true ->
    exists r' a' kvs' es' e',
      nth_error m2 i = Some r' /\ nth_error m2 j = Some a' /\
      r_node r' = Map kvs' /\ find_field "subjects" kvs' = Some (Seq es') /\ nth_error es' k = Some e' /\
      subj_str "name" e' = get_name (r_node a') /\
      subj_str "namespace" e' = get_namespace (r_node a') /\
      get_namespace (r_node a') = ns.
Proof. exact subjects_follow_account. Qed.
Print Assumptions C09_subjects.

(* the name-reference half on its own: any resource map, any scope function, any rule table whose rules are
   plain and identity-safe; the subject takes the CURRENT name and namespace of the unique candidate *)
Theorem C09_subjects_nameref :
  forall (cs : string -> string -> bool) (nonstr : string -> bool)
         rules m m' i r org fs0 tg0 rest kvs es k ekvs name_node cands b,
    (forall b f, In b rules -> In f (nb_referrers b) -> rule_ok f) ->
    nameref_transform cs nonstr rules m = Ok m' ->
    nth_error m i = Some r -> org_id cs r = Ok org ->
    filters_for rules org = (fs0, tg0) :: rest -> binding_rules_ok ((fs0, tg0) :: rest) = true ->
    r_node r = Map kvs -> find_field "subjects" kvs = Some (Seq es) ->
    cands_at cs m i = Ok cands ->
    nth_error es k = Some (Map ekvs) -> find_field "name" ekvs = Some name_node ->
    let x := make_ctx cs r "subjects" tg0 in
    filter (name_kind_match x (node_value name_node)) (mapping_cands ekvs cands) = [b] ->
    roleref_sieve x b && namespace_sieve x b = true ->
    c_name b <> "" -> c_ns b <> "" ->
    exists r' kvs' es' e',
      nth_error m' i = Some r' /\ r_node r' = Map kvs' /\ find_field "subjects" kvs' = Some (Seq es') /\
      nth_error es' k = Some e' /\ subj_str "name" e' = c_name b /\ subj_str "namespace" e' = c_ns b.
Proof. exact subjects_follow. Qed.
Print Assumptions C09_subjects_nameref.

(* in the generated rule table the rules that apply to an rbac RoleBinding / ClusterRoleBinding are the
   `subjects` rule first, then rules whose paths start elsewhere (roleRef/name) *)
Theorem Gen_binding_rules :
  forall (kind name ns version : string),
    kind = "RoleBinding" \/ kind = "ClusterRoleBinding" ->
    version = "v1" \/ version = "v1beta1" ->
    binding_rules_ok (filters_for pipe_rule_list (mkId (gvk_lit "rbac.authorization.k8s.io" version kind) name ns)) = true.
Proof. exact gen_binding_rules_ok. Qed.
Print Assumptions Gen_binding_rules.

(* A subject that spells its namespace as the empty string designates the account like an absent
   namespace does and follows it (repair R-nameref-empty-namespace-subject; before the repair this statement was
   C09_subjects_empty_namespace_refuted, finding C09/subjects/empty-namespace-subject). *)
Theorem C09_subjects_empty_namespace :
  exists m2 r' a',
    sj_run [sj_sa "sa1"; sj_rb [Map [("kind", sj_sc "ServiceAccount"); ("name", sj_sc "sa1"); ("namespace", sj_sc "")]]] = Ok m2 /\
    nth_error m2 0 = Some a' /\ nth_error m2 1 = Some r' /\
    get_namespace (r_node a') = "prod" /\
    option_map (fun s => match s with Seq es => map (fun e => (subj_str "name" e, subj_str "namespace" e)) es | _ => [] end)
               (sj_subjects r') = Some [("sa1", "prod")].
Proof. exact subjects_empty_namespace_follow. Qed.
Print Assumptions C09_subjects_empty_namespace.

(* ---- C09_subjects over a whole build (Pipeline.build) ----
   Target: a kustomization whose only directive is `namespace: ns` ([ns_only ns]); its entries are well-formed
   trees without namespace directives (w-pipe's [tree_wf]: files, sub-kustomizations with prefixes, suffixes,
   labels, annotations, create-generators). m0 = what the entries accumulate, a function of the source tree.
   Guards: output unsorted (no sortOptions or fifo); no accumulated resource asks for a name hash; nothing is dropped
   as local configuration (|out| = |m0|); the designation hypotheses of C09_subjects on m0 and its image m1 under the
   namespace transformer (all equations between computable terms of the source tree).
   Conclusion, on the OUTPUT documents: the subject at position k of output document i has the name and namespace
   of output document j (the account), and that namespace is ns. *)
Theorem C09_subjects_build_partial :
  forall (nonstr : string -> bool) (o : psort) (name ns : string) (ents : list ptree) (m0 m1 : list resource)
         (out : list node) (rules : list nbr) (i j k : nat) (r a0 a : resource) (org : resid) (fs0 : fieldspec)
         (tg0 : gvk) (rest : list (fieldspec * gvk)) (kvs ekvs : list (string * node)) (es : list node)
         (name_node : node) (cands : list cand) (b : cand),
    (o = PSortNone \/ o = PSortFifo) -> ns <> "" -> Forall tree_wf ents ->
    Pipeline.acc_list (Pipeline.accumulate nonstr) ents [] = Ok m0 ->
    Forall (fun r => r_needs_hash r = false) m0 ->
    Pipeline.build nonstr o (PDir name (ns_only ns) ents) = Ok out ->
    List.length out = List.length m0 ->
    pipe_rules = Ok rules -> namespace_transform ns m0 = Ok m1 ->
    nth_error m1 i = Some r -> org_id pipe_cs r = Ok org ->
    filters_for rules org = (fs0, tg0) :: rest -> binding_rules_ok ((fs0, tg0) :: rest) = true ->
    r_node r = Map kvs -> find_field "subjects" kvs = Some (Seq es) ->
    nth_error es k = Some (Map ekvs) -> find_field "name" ekvs = Some name_node ->
    nth_error m0 j = Some a0 -> nth_error m1 j = Some a ->
    Namespace.obj_cluster_scoped gen_ns_scope (r_node a0) = false ->
    view pipe_cs a = Ok b -> c_name b <> "" ->
    cands_at pipe_cs m1 i = Ok cands ->
    let x := make_ctx pipe_cs r "subjects" tg0 in
    filter (name_kind_match x (node_value name_node)) (mapping_cands ekvs cands) = [b] ->
    roleref_sieve x b && namespace_sieve x b = true ->
    exists dr da es' e',
      nth_error out i = Some dr /\ nth_error out j = Some da /\
      map_field_value "subjects" dr = Some (Seq es') /\ nth_error es' k = Some e' /\
      subj_str "name" e' = get_name da /\ subj_str "namespace" e' = get_namespace da /\
      get_namespace da = ns.
Proof. exact subjects_build. Qed.
Print Assumptions C09_subjects_build_partial.
