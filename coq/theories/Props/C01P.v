(* C01, whole-build part: theorems over the integrated pipeline model (Res/Pipeline.v: accumulate -> generators ->
   transformers in the generated builtin order -> hash -> name references -> sort -> strip).
   Statements only: every proof is `exact lemma` (lemmas in Res/PipelineProofs.v).
   These theorems extend the coverage of C02, C11, C19, C01 and C07 to whole builds. *)
From KV Require Import Res.Pipeline Res.PipelineProofs Res.PipelineOrderProofs Res.PipelineFrameProofs Res.PipelineGenProofs Res.PipelinePermProofs.
From KV Require Res.Generators Res.Hash.
From KV Require Import Yaml.FieldSpecSpec Yaml.FieldSpecProofs.
From KV Require Res.Labels Res.Hygiene.
From Coq Require Import Sorting.Permutation.


(* ---------- C01: the name-reference pass is independent of Go's map iteration order ----------
   [nameref_in_order rules order m] visits the referrers in the given order of positions, each visit reading the
   current map and replacing only the visited referrer; [nameref_transform] (the function [build] uses) is the
   list-order instance.  For the generated rule table, every order that visits each position exactly once gives,
   on success, the same map - and succeeds iff the list order does. *)
Theorem PIPE_nameref_order_independent :
  forall nonstr rules order m out,
    effective_rules gen_gvk_order_first gen_gvk_order_last gen_nameref_raw = Ok rules ->
    Permutation order (seq 0 (List.length m)) ->
    nameref_in_order nonstr rules order m = Ok out ->
    nameref_transform pipe_cs nonstr rules m = Ok out.
Proof. exact nameref_order_independent. Qed.
Print Assumptions PIPE_nameref_order_independent.


Theorem PIPE_nameref_order_independent_conv :
  forall nonstr rules order m out,
    effective_rules gen_gvk_order_first gen_gvk_order_last gen_nameref_raw = Ok rules ->
    Permutation order (seq 0 (List.length m)) ->
    nameref_transform pipe_cs nonstr rules m = Ok out ->
    nameref_in_order nonstr rules order m = Ok out.
Proof. exact nameref_order_independent_conv. Qed.
Print Assumptions PIPE_nameref_order_independent_conv.
