(* C06, whole-build part: theorems over the integrated pipeline model (Res/Pipeline.v: accumulate -> generators ->
   transformers in the generated builtin order -> hash -> name references -> sort -> strip).
   Statements only: every proof is `exact lemma` (lemmas in Res/PipelineProofs.v).
   These theorems extend the coverage of C02, C11, C19, C01 and C07 to whole builds. *)
From KV Require Import Res.Pipeline Res.PipelineProofs Res.PipelineOrderProofs Res.PipelineFrameProofs Res.PipelineGenProofs Res.PipelinePermProofs.
From KV Require Res.Generators Res.Hash.
From KV Require Import Yaml.FieldSpecSpec Yaml.FieldSpecProofs.
From KV Require Res.Labels Res.Hygiene.
From Coq Require Import Sorting.Permutation.


(* ---------- C06 bridge: the generated DOCUMENT of the pipeline projects onto C06's abstract generated object ----------
   Same name, namespace, kind and hashed content: the hash suffix the pipeline computes from the document
   (content_of_node) is the hash C06's theorems (name = f(final content)) are about.
   [literal_only secret g]: no env-file / file sources, and for a ConfigMap every value is valid UTF-8 (no binaryData);
   the pipeline itself also models env files, file sources and binaryData (validated by correspondence). *)
Theorem PIPE_generated_projection :
  forall secret g n,
    literal_only secret g ->
    gen_node secret g = Ok n ->
    exists o, Generators.make_generated [] None (genargs_of secret g) = Ok o /\
              content_of_node n = Generators.content_of o /\
              get_name n = Generators.g_name o /\ get_namespace n = Generators.g_ns o /\
              get_kind n = (if Generators.g_secret o then "Secret" else "ConfigMap")%string.
Proof. exact gen_node_projects. Qed.
Print Assumptions PIPE_generated_projection.
