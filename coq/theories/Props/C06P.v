(* C06, whole-build part: theorems over the integrated pipeline model (Res/Pipeline.v: accumulate -> generators ->
   transformers in the generated builtin order -> hash -> name references -> sort -> strip).
   Statements only: every proof is `exact lemma` (lemmas in Res/PipelineProofs.v).
   These theorems extend the coverage of C02, C11, C19, C01 and C07 to whole builds. *)
From KV Require Import Res.Pipeline Res.PipelineProofs Res.PipelineOrderProofs Res.PipelineFrameProofs Res.PipelineGenProofs Res.PipelinePermProofs.
From KV Require Res.Generators Res.Hash.
From KV Require Import Res.PipelineDictProofs.
From KV Require Import Res.PipelineHashProofs Res.PipelineWfProofs Res.RenameProofs Res.C03Facts Res.NameRefProofs Res.BuildRefs Res.FsFacts.
From KV Require Import Yaml.FieldSpecSpec Yaml.FieldSpecProofs.
From KV Require Res.Labels Res.Hygiene.
From Coq Require Import Sorting.Permutation.


(* ---------- C06 bridge: the generated DOCUMENT of the pipeline projects onto C06's abstract generated object ----------
   Same name, namespace, kind and hashed content: the hash suffix the pipeline computes from the document
   (content_of_node) is the hash C06's theorems (name = f(final content)) are about.
   [literal_only secret g]: no env-file / file sources, and for a ConfigMap every value is valid UTF-8 (no binaryData);
   the pipeline itself also models env files, file sources and binaryData (validated by correspondence). *)
Theorem PIPE_generated_projection :
  forall secret g n,
    literal_only secret g ->
    gen_node secret g = Ok n ->
    exists o, Generators.make_generated [] None (genargs_of secret g) = Ok o /\
              content_of_node n = Generators.content_of o /\
              get_name n = Generators.g_name o /\ get_namespace n = Generators.g_ns o /\
              get_kind n = (if Generators.g_secret o then "Secret" else "ConfigMap")%string.
Proof. exact gen_node_projects. Qed.
Print Assumptions PIPE_generated_projection.

(* ---------- C06_name_is_hash over the integrated build ----------
   [m]: what the tree accumulates — every layer, every create / merge / replace of the generators, generatorOptions,
   every transformer.  Guard (exact): the accumulated documents are well formed ([wf_res]: a mapping with a kind, a
   non-empty comma-free metadata.name, a comma-free namespace, consistent rename history).
   Conclusion: the hash step renames each resource that asks for a suffix to  name ++ "-" ++ hash(content of the renamed
   document)  and leaves its content, kind and namespace alone ([hashed]); every OUTPUT document comes from one such
   resource ([subrel]: IgnoreLocal may drop some, the final sort permutes) with the same metadata.name, kind, data,
   binaryData and type ([same_hashed_fields]) — the name-reference pass and the final annotation rewrite cannot reach
   those locations (Gen_C06P_identity_fields_untouched).  So every generated ConfigMap / Secret of the output is named
   base ++ "-" ++ hash(its own content, after all merges). *)
Theorem C06P_name_is_hash_partial :
  forall nonstr o t outs m,
    Pipeline.accumulate nonstr t = Ok m -> Forall wf_res m -> Pipeline.build nonstr o t = Ok outs ->
    exists m1 outs0,
      Forall2 hashed m m1 /\ Permutation outs outs0 /\
      subrel (fun r1 out => same_hashed_fields (r_node r1) out) m1 outs0.
Proof. exact build_generated_names. Qed.
Print Assumptions C06P_name_is_hash_partial.

(* the guard holds for trees of well-formed documents (w-pipe's [tree_wf]: no namespace directive, generators that
   create, comma-free names / prefixes / suffixes; generatorOptions allowed) *)
Theorem C06P_name_is_hash_wf :
  forall nonstr o t outs,
    tree_wf t -> Pipeline.build nonstr o t = Ok outs ->
    exists m m1 outs0,
      Pipeline.accumulate nonstr t = Ok m /\
      Forall2 hashed m m1 /\ Permutation outs outs0 /\
      subrel (fun r1 out => same_hashed_fields (r_node r1) out) m1 outs0.
Proof. exact build_generated_names_wf. Qed.
Print Assumptions C06P_name_is_hash_wf.

Theorem C06P_same_hashed_fields :
  forall n n', same_hashed_fields n n' ->
    get_name n' = get_name n /\ get_kind n' = get_kind n /\ content_of_node n' = content_of_node n.
Proof. exact same_hashed_fields_spec. Qed.
Print Assumptions C06P_same_hashed_fields.

(* obligation on the generated rule table: no referrer path of the name-reference rules (nor metadata/annotations)
   reaches metadata.name, kind, data, binaryData or type *)
Theorem Gen_C06P_identity_fields_untouched :
  untouched_post [JKey "metadata"; JKey "name"]%string /\ untouched_post [JKey "kind"]%string /\
  untouched_post [JKey "data"]%string /\ untouched_post [JKey "binaryData"]%string /\ untouched_post [JKey "type"]%string.
Proof. exact identity_fields_untouched_post. Qed.
Print Assumptions Gen_C06P_identity_fields_untouched.

(* ---------- references carry the same suffix (partial: one rule row, guards of C03_refs_follow_partial) ----------
   A reference that a row of the generated rule table resolves to the hashed resource r1 (the only candidate of the
   row's kind that ever had the referenced name, visible to the referrer) holds afterwards exactly
   name(r) ++ "-" ++ hash(content r1) = metadata.name of r1. Missing for the full statement: the composition over all
   rows and the passage from unambiguous original names to "exactly one candidate" (see C03). *)
Theorem C06P_refs_carry_suffix_partial :
  forall nonstr rules b fs,
    effective_rules gen_gvk_order_first gen_gvk_order_last gen_nameref_raw = Ok rules ->
    In b rules -> In fs (nb_referrers b) ->
    forall cands referrer r' a t s old c r r1,
      reaches (path_splitter (fs_path fs)) a (r_node referrer) = true ->
      get_addr a (r_node referrer) = Some (Scalar t s old) ->
      is_null (Scalar t s old) = false ->
      let x := make_ctx pipe_cs referrer (fs_path fs) (nb_gvk b) in
      filter (name_kind_match x old) cands = [c] ->
      roleref_sieve x c = true -> namespace_sieve x c = true ->
      apply_rule pipe_cs nonstr cands fs (nb_gvk b) referrer = Ok r' ->
      r_needs_hash r = true -> hashed r r1 -> view pipe_cs r1 = Ok c ->
      exists t' h, Hash.hash_content (content_of_node (r_node r1)) = Ok h /\
                   get_name (r_node r1) = (get_name (r_node r) ++ "-" ++ h)%string /\
                   get_addr a (r_node r') = Some (Scalar t' s (get_name (r_node r) ++ "-" ++ h)%string).
Proof. exact refs_carry_suffix. Qed.
Print Assumptions C06P_refs_carry_suffix_partial.

(* ---------- C06_invariance over the integrated build ----------
   The directives of a kustomization (namespace, namePrefix, nameSuffix, labels, commonLabels, commonAnnotations; the
   builtin transformers in the generated order) never change what the hasher reads of any resource, nor whether it asks
   for a suffix: the suffix computed at the top is a function of the generators' declarations alone.
   Guards: `labels` entries without custom `fields`; no `images:` directive; every accumulated document has a kind. *)
Theorem C06P_invariance_transformers :
  forall nonstr d m m',
    no_custom_fields d -> pd_images d = [] -> Forall has_kind m -> run_transformers nonstr d m = Ok m' ->
    Forall2 (fun r r' => content_of_node (r_node r') = content_of_node (r_node r) /\ r_needs_hash r' = r_needs_hash r) m m'.
Proof. exact transformers_keep_content. Qed.
Print Assumptions C06P_invariance_transformers.

(* ---------- C06_dictionary over the integrated build: layering of generators on DOCUMENTS is the dictionary step ----------
   [pdata_of n]: the data / binaryData maps of a document as C06 reads them.  Sources are the pipeline's: env-file
   contents, literals, files with explicit or base-name keys, binary content (binaryData of ConfigMaps). *)

(* what one generator entry declares is what its sources define (loader order env, literals, files; duplicate key = error) *)
Theorem C06P_generator_declares :
  forall secret g n, gen_node secret g = Ok n ->
    exists kvs m, gen_pairs g = Ok kvs /\ Generators.validated_map kvs [] = Ok m /\ pdata_of n = decl_maps secret m.
Proof. exact gen_node_pdata. Qed.
Print Assumptions C06P_generator_declares.

(* behavior: merge against the one matching resource of ANY resource map: the document put back carries C06's dictionary
   merge [merge_dd] of the old and the declared maps (overlay wins, a key lives in one map).  Guard: the top-level keys of
   the new document are distinct (true of every generated document: C06P_generated_keys_distinct). *)
Theorem C06P_dictionary_merge_step :
  forall nonstr m r m' i old,
    top_unique (r_node r) ->
    matching_any (cur_id pipe_cs r) 0 m = Ok [i] -> nth_error m i = Some old ->
    Pipeline.absorb nonstr m Generators.BMerge r = Ok m' ->
    exists r2, m' = replace_nth i r2 m /\
               pdata_of (r_node r2) = GeneratorsProofs.merge_dd (pdata_of (r_node old)) (pdata_of (r_node r)).
Proof. exact absorb_merge_pdata. Qed.
Print Assumptions C06P_dictionary_merge_step.

Theorem C06P_dictionary_replace_step :
  forall nonstr m r m' i old,
    matching_any (cur_id pipe_cs r) 0 m = Ok [i] -> nth_error m i = Some old ->
    Pipeline.absorb nonstr m Generators.BReplace r = Ok m' ->
    exists r1, m' = replace_nth i r1 m /\ pdata_of (r_node r1) = pdata_of (r_node r).
Proof. exact absorb_replace_pdata. Qed.
Print Assumptions C06P_dictionary_replace_step.

(* the four error laws on documents *)
Theorem C06P_dictionary_error_laws :
  forall nonstr m r ms,
    matching_any (cur_id pipe_cs r) 0 m = Ok ms ->
    (ms = [] -> Pipeline.absorb nonstr m Generators.BMerge r = Err /\ Pipeline.absorb nonstr m Generators.BReplace r = Err) /\
    (forall i, ms = [i] -> Pipeline.absorb nonstr m Generators.BCreate r = Err /\ Pipeline.absorb nonstr m Generators.BUnspecified r = Err) /\
    (forall i j t b, ms = i :: j :: t -> Pipeline.absorb nonstr m b r = Err).
Proof. exact absorb_errors_pdata. Qed.
Print Assumptions C06P_dictionary_error_laws.

Theorem C06P_generated_keys_distinct :
  forall secret g n, gen_node secret g = Ok n -> top_unique n.
Proof. exact (gen_node_unique (fun _ => false)). Qed.
Print Assumptions C06P_generated_keys_distinct.
