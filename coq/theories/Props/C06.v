(* C06 — generators layer like dictionaries; the name suffix is a function of the final content.
   Property theorems only: every theorem is closed by [exact] of a lemma proved in Res/HashProofs.v or
   Res/GeneratorsProofs.v.  Model: Res/Hash.v, Res/Generators.v (tied to /repo by Corr/C06.v + harness/c06.go;
   the decision tables are the generated ones of Gen/HasherTables.v). *)
From KV Require Import Res.HashExact.
From KV Require Import Res.Hash Res.HashProofs Res.Generators Res.GeneratorsProofs Res.GeneratorsInvariance.
Local Open Scope string_scope.

(* ---------------------------------------------------------------- dictionary semantics of layering *)

(* C06_dictionary.  For every chain of kustomizations (top first: d over below) all of whose generator
   declarations concern one object (same kind, same name, no explicit namespace) — whatever their sources,
   options, behaviours, and whatever namespace / namePrefix / nameSuffix / commonLabels / commonAnnotations
   surround them — the data and binaryData of what the build accumulates is the fold [chain_data] of the
   dictionary step [dstep] over the declarations, bottom kustomization first:
     nothing yet + create/unspecified -> the declared maps;   nothing yet + merge/replace -> error;
     something   + merge -> entry-wise override of ONE dictionary per object: the overlay wins and takes the key
                            out of the other map;                    + replace -> the declared maps;
     something   + create/unspecified -> error.
   The equation is between outcomes, so it also says the build fails exactly when the fold does
   (the error laws), when a generator's sources are malformed, or when a kustomization file is empty. *)
Theorem C06_dictionary :
  forall (sec : bool) (name : string) (d : ldecl) (below : list ldecl),
    chain_for sec name (d :: below) ->
    res_map (map data_of) (accumulate (chain_layer d below)) = res_map opt_list (chain_data d below).
Proof. exact dictionary_chain. Qed.
Print Assumptions C06_dictionary.

(* what "override" means: the last entry the overlay has for a key wins, every other key keeps the base value *)
Theorem C06_dictionary_override :
  forall (k : string) (over base : dict),
    dict_get k (dict_override base over) =
    match dict_get k (rev over) with Some v => Some v | None => dict_get k base end.
Proof. exact dict_get_override. Qed.
Print Assumptions C06_dictionary_override.

Theorem C06_dictionary_merge_entries :
  forall (old new : option dict * dict) (k : string),
    dict_get k (dict_of_opt (fst (merge_dd old new))) =
      match dict_get k (rev (dict_of_opt (fst new))) with
      | Some v => Some v
      | None => match dict_get k (snd new) with Some _ => None | None => dict_get k (dict_of_opt (fst old)) end
      end /\
    dict_get k (snd (merge_dd old new)) =
      match dict_get k (rev (snd new)) with
      | Some v => Some v
      | None => match dict_get k (dict_of_opt (fst (merge_dd old new))) with Some _ => None | None => dict_get k (snd old) end
      end.
Proof. exact merge_dd_get. Qed.
Print Assumptions C06_dictionary_merge_entries.

(* The laws of resWrangler.appendReplaceOrMerge on an ARBITRARY resmap (any number of objects, matching by any
   current or previous id).  The four error laws: *)
Theorem C06_error_merge_absent :
  forall rm r, indices (matches_any (g_secret r) (cur_id r)) rm = [] -> g_behavior r = BMerge -> absorb rm r = Err.
Proof. exact absorb_merge_absent. Qed.
Print Assumptions C06_error_merge_absent.

Theorem C06_error_replace_absent :
  forall rm r, indices (matches_any (g_secret r) (cur_id r)) rm = [] -> g_behavior r = BReplace -> absorb rm r = Err.
Proof. exact absorb_replace_absent. Qed.
Print Assumptions C06_error_replace_absent.

Theorem C06_error_create_present :
  forall rm r i, indices (matches_any (g_secret r) (cur_id r)) rm = [i] ->
    (g_behavior r = BCreate \/ g_behavior r = BUnspecified) -> absorb rm r = Err.
Proof. exact absorb_create_present. Qed.
Print Assumptions C06_error_create_present.

Theorem C06_error_ambiguous :
  forall rm r i j t, indices (matches_any (g_secret r) (cur_id r)) rm = i :: j :: t -> absorb rm r = Err.
Proof. exact absorb_ambiguous. Qed.
Print Assumptions C06_error_ambiguous.

(* ... and the three success laws *)
Theorem C06_absorb_create :
  forall rm r, indices (matches_any (g_secret r) (cur_id r)) rm = [] ->
    (g_behavior r = BCreate \/ g_behavior r = BUnspecified) -> absorb rm r = Ok (rm ++ [r])%list.
Proof. exact absorb_create. Qed.
Print Assumptions C06_absorb_create.

Theorem C06_absorb_merge :
  forall rm r i old,
    indices (matches_any (g_secret r) (cur_id r)) rm = [i] -> nth_error rm i = Some old ->
    indices (matches_cur (g_secret r) (cur_id old)) rm = [i] -> g_behavior r = BMerge ->
    absorb rm r = Ok (replace_nth i (merge_data (copy_merge_meta r old) old) rm).
Proof. exact absorb_merge. Qed.
Print Assumptions C06_absorb_merge.

Theorem C06_absorb_replace :
  forall rm r i old,
    indices (matches_any (g_secret r) (cur_id r)) rm = [i] -> nth_error rm i = Some old ->
    indices (matches_cur (g_secret r) (cur_id old)) rm = [i] -> g_behavior r = BReplace ->
    absorb rm r = Ok (replace_nth i (copy_merge_meta r old) rm).
Proof. exact absorb_replace. Qed.
Print Assumptions C06_absorb_replace.

(* C06_keys_disjoint (was _partial/_refuted, finding merge-key-in-data-and-binaryData, until the repair 0a87769 of
   MergeDataMapFrom / MergeBinaryDataMapFrom): one dictionary per object — in every build output of every tree no
   object has a key both in data and in binaryData.  Regression example: keys_disjoint_regression. *)
Theorem C06_keys_disjoint :
  forall l out, build l = Ok out -> Forall disjoint_keys out.
Proof. exact build_keys_disjoint. Qed.
Print Assumptions C06_keys_disjoint.

Theorem C06_keys_disjoint_declaration :
  forall files g a r k, make_generated files g a = Ok r ->
    In k (map fst (dict_of_opt (g_data r))) -> In k (map fst (g_bin r)) -> False.
Proof. exact make_generated_disjoint. Qed.
Print Assumptions C06_keys_disjoint_declaration.

(* ---------------------------------------------------------------- the name suffix *)

(* C06_name_is_hash.  For EVERY tree of kustomizations: when the build succeeds, each object that asks for a
   suffix is named <name after all layers> "-" H(content of the object as emitted), H = hash_content
   (first 10 hex digits of SHA-256 of the JSON encoding, substituted); the other objects are unchanged.
   The hash is taken once, over the final content. *)
Theorem C06_name_is_hash :
  forall (l : layer) (out : resmap),
    build l = Ok out -> exists rm, accumulate l = Ok rm /\ Forall2 hashed_from rm out.
Proof. exact build_name_is_hash. Qed.
Print Assumptions C06_name_is_hash.

(* For a chain the two statements combine: the accumulated object [st] carries the dictionary fold as its data
   ([chain_data] reads only files, generator declarations and generatorOptions — no namespace, prefix, suffix,
   label or annotation directive), and the emitted object is [st] renamed with the hash of exactly that content. *)
Theorem C06_name_is_hash_chain :
  forall sec name d below out,
    chain_for sec name (d :: below) ->
    build (chain_layer d below) = Ok out ->
    exists st, chain_sem d below = Ok st /\
               chain_data d below = Ok (option_map data_of st) /\
               (forall o, st = Some o -> g_secret o = sec) /\
               Forall2 hashed_from (opt_list st) out.
Proof. exact chain_name_is_hash. Qed.
Print Assumptions C06_name_is_hash_chain.

(* The law "every acceptable content has a name" still fails for ONE spelling (finding
   hash-yaml-roundtrip-merge-key): the hash is defined exactly when no key is << (partial; the leading-TAB shape was
   repaired by baa93c5, regression examples hash_leading_tab_regression / leading_tab_regression) ... *)
Theorem C06_hash_total_partial :
  forall c, content_rt_fails c = false -> exists s, hash_content c = Ok s.
Proof. exact hash_content_total. Qed.
Print Assumptions C06_hash_total_partial.

(* ... and a well-formed declaration with the key << accumulates but cannot be built *)
Theorem C06_hash_total_refuted :
  (exists o, accumulate merge_key_tree = Ok [o] /\ g_data o = Some [("<<", "v")]) /\ build merge_key_tree = Err.
Proof. exact build_total_refuted. Qed.
Print Assumptions C06_hash_total_refuted.

(* ... EXACTLY: the hash of a content is defined if and only if no entry is keyed << (data, or binaryData of a ConfigMap) —
   the guard of C06_hash_total_partial is the complement of finding hash-yaml-roundtrip-merge-key and nothing more *)
Theorem C06_hash_defined_iff :
  forall c, (exists s, hash_content c = Ok s) <-> ~ has_merge_key c.
Proof. exact hash_defined_iff. Qed.
Print Assumptions C06_hash_defined_iff.

(* C06_invariance: labels, annotations, namespace, name, previous ids do not enter the suffix *)
Theorem C06_invariance :
  forall o o', g_secret o = g_secret o' -> g_data o = g_data o' -> g_bin o = g_bin o' -> g_type o = g_type o' ->
    hash_content (content_of o) = hash_content (content_of o').
Proof. exact hash_invariance. Qed.
Print Assumptions C06_invariance.

(* no directive of a kustomization (namespace, namePrefix, nameSuffix, commonLabels, commonAnnotations) changes what is hashed *)
Theorem C06_invariance_transformers :
  forall d o, content_of (xform1 d o) = content_of o.
Proof. exact xform1_content. Qed.
Print Assumptions C06_invariance_transformers.

(* C06_invariance at the level of whole builds, for EVERY tree of kustomizations: if two trees differ only in
   label / annotation directives (commonLabels, commonAnnotations, labels and annotations of generatorOptions and
   of the generators' own options; [layer_sim]), their builds have the same outcome and, object by object, the same
   kind, name (hence the same suffix), namespace, previous ids, data, binaryData, type, immutable flag
   ([strip] erases labels and annotations only). *)
Theorem C06_invariance_build :
  forall l l', layer_sim l l' -> res_map (map strip) (build l) = res_map (map strip) (build l').
Proof. exact build_meta_invariant. Qed.
Print Assumptions C06_invariance_build.

(* the suffix: 10 characters of "2456789bcdfghkmt" *)
Theorem C06_suffix_shape :
  forall c s, hash_content c = Ok s -> String.length s = 10%nat /\ str_all in_suffix_alphabet s = true.
Proof. exact hash_content_shape. Qed.
Print Assumptions C06_suffix_shape.

(* C06_encode_injective (partial): on UTF-8 contents none of whose keys is spelled ~ / null / Null / NULL, equal
   encodings mean equal contents; so two different contents get the same name only if the 40-bit truncated
   SHA-256 collides (no claim is made about that).  Full statement: the same without [content_no_null]. *)
Theorem C06_encode_injective_partial :
  forall c c',
    content_utf8 c = true -> content_utf8 c' = true -> content_norm c -> content_norm c' ->
    content_no_null c = true -> content_no_null c' = true ->
    encode_content c = encode_content c' -> c = c'.
Proof. exact encode_content_inj. Qed.
Print Assumptions C06_encode_injective_partial.

(* ... refuted in full (finding hash-ignores-null-named-keys; the repair was declined: tagging the keys !!str changes the
   emitted spelling of keys such as 1 / true): entries under a null-spelled key are not hashed *)
Theorem C06_encode_injective_refuted :
  exists c c', content_utf8 c = true /\ content_utf8 c' = true /\ content_norm c /\ content_norm c' /\
               c <> c' /\ encode_content c = encode_content c'.
Proof. exact encode_content_inj_refuted. Qed.
Print Assumptions C06_encode_injective_refuted.

Theorem C06_fresh_name_refuted :
  exists o o', build (null_tree "a") = Ok [o] /\ build (null_tree "b") = Ok [o'] /\
               g_data o <> g_data o' /\ g_name o = g_name o'.
Proof. exact fresh_name_refuted. Qed.
Print Assumptions C06_fresh_name_refuted.

(* ... EXACTLY: two UTF-8 contents have the same encoding if and only if they agree on what [content_view] keeps: kind,
   type (Secrets), presence of binaryData, and every entry whose key is NOT spelled ~ / null / Null / NULL / "" — the
   collisions of the encoding are the finding hash-ignores-null-named-keys and nothing more *)
Theorem C06_encode_collisions_exact :
  forall c c', content_utf8 c = true -> content_utf8 c' = true ->
    (encode_content c = encode_content c' <-> content_view c = content_view c').
Proof. exact encode_eq_iff_view. Qed.
Print Assumptions C06_encode_collisions_exact.

Theorem C06_null_key_spellings :
  forall k, yaml_null_key k = true <-> (k = "~" \/ k = "null" \/ k = "Null" \/ k = "NULL" \/ k = "").
Proof. exact yaml_null_key_spellings. Qed.
Print Assumptions C06_null_key_spellings.

(* JSON string literals written by encoding/json can be read back from the front of any text *)
Theorem C06_json_string_injective :
  forall a b ra rb, valid_utf8 a = true -> valid_utf8 b = true ->
    json_string a ++ ra = json_string b ++ rb -> a = b /\ ra = rb.
Proof. exact json_string_inj. Qed.
Print Assumptions C06_json_string_injective.

(* ---------------------------------------------------------------- sources and options *)

Theorem C06_literal_split :
  forall k v, k <> "" -> count_char "=" k = 0%nat -> parse_literal (k ++ "=" ++ v) = Ok (k, remove_quotes v).
Proof. exact parse_literal_spec. Qed.
Print Assumptions C06_literal_split.

Theorem C06_behavior_names :
  forall s, new_behavior s =
    if String.eqb s "replace" then BReplace else if String.eqb s "merge" then BMerge
    else if String.eqb s "create" then BCreate else BUnspecified.
Proof. exact new_behavior_spec. Qed.
Print Assumptions C06_behavior_names.

(* ---------------------------------------------------------------- SHA-256 vectors and generated tables *)

Theorem C06_sha256_vectors :
  hex256 "" = "e3b0c44298fc1c149afbf4c8996fb92427ae41e4649b934ca495991b7852b855" /\
  hex256 "abc" = "ba7816bf8f01cfea414140de5dae2223b00361a396177a9cb410ff61f20015ad" /\
  hex256 "abcdbcdecdefdefgefghfghighijhijkijkljklmklmnlmnomnopnopq"
    = "248d6a61d20638b8e5c026930c3e6039a33ce45964ff2167f6ecedd419db06c1".
Proof. exact (conj sha256_vector_empty (conj sha256_vector_abc sha256_vector_448)). Qed.
Print Assumptions C06_sha256_vectors.

Theorem Gen_C06_hash_encode_table :
  hash_min_len = 10%N /\ hash_prefix_len = 10%N /\
  hash_subst_table = [(48, 103); (49, 104); (51, 107); (97, 109); (101, 116)]%N.
Proof. exact Gen_hash_encode_table. Qed.
Print Assumptions Gen_C06_hash_encode_table.

Theorem Gen_C06_hash_cm_shape :
  hash_cm_paths = ["metadata/name"; "data"; "binaryData"] /\
  hash_cm_members = [("kind", MConst "ConfigMap"); ("name", MPath "metadata/name"); ("data", MPath "data")] /\
  hash_cm_optional = [("binaryData", MPath "binaryData")].
Proof. exact Gen_hash_cm_shape. Qed.
Print Assumptions Gen_C06_hash_cm_shape.

Theorem Gen_C06_hash_secret_shape :
  hash_secret_paths = ["type"; "metadata/name"; "data"; "stringData"] /\
  hash_secret_members = [("kind", MConst "Secret"); ("type", MPath "type"); ("name", MPath "metadata/name"); ("data", MPath "data")] /\
  hash_secret_optional = [("stringData", MPath "stringData")].
Proof. exact Gen_hash_secret_shape. Qed.
Print Assumptions Gen_C06_hash_secret_shape.

Theorem Gen_C06_hash_lookup : hash_lookup_single_field = true /\ hash_absent_is_empty_string = true.
Proof. exact Gen_hash_lookup. Qed.
Print Assumptions Gen_C06_hash_lookup.

Theorem Gen_C06_behavior_table :
  behavior_table = [("replace", "BehaviorReplace"); ("merge", "BehaviorMerge"); ("create", "BehaviorCreate")] /\
  behavior_default = "BehaviorUnspecified".
Proof. exact Gen_behavior_table. Qed.
Print Assumptions Gen_C06_behavior_table.

Theorem Gen_C06_build_annotations :
  forallb (fun a => str_in a build_annotation_idents)
    ["utils.BuildAnnotationPreviousKinds"; "utils.BuildAnnotationPreviousNames"; "utils.BuildAnnotationPreviousNamespaces";
     "utils.BuildAnnotationPrefixes"; "utils.BuildAnnotationSuffixes";
     "utils.BuildAnnotationsGenBehavior"; "utils.BuildAnnotationsGenAddHashSuffix"] = true.
Proof. exact Gen_build_annotations. Qed.
Print Assumptions Gen_C06_build_annotations.

Theorem Gen_C06_absorb_table :
  absorb_table =
  [("0", "types.BehaviorMerge", "error"); ("0", "types.BehaviorReplace", "error"); ("0", "default", "append");
   ("1", "types.BehaviorReplace", "replace"); ("1", "types.BehaviorMerge", "merge"); ("1", "default", "error");
   ("many", "*", "error")].
Proof. exact Gen_absorb_table. Qed.
Print Assumptions Gen_C06_absorb_table.
