(* C06 — property theorems only. *)
From KV Require Import Res.Hash Res.Generators.
