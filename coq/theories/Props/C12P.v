(* C12, whole-build part: totality of the integrated pipeline model (Res/Pipeline.v).
   Statements only: every proof is `exact lemma` (lemmas in Res/PipelineTotalProofs.v, Res/PipelineWfProofs.v). *)
From KV Require Import Res.Pipeline Res.PipelineProofs Res.PipelineTotalProofs Res.PipelineWfProofs.
From KV Require Import Res.RenameProofs.
From KV Require Glob.TotalityMore.

(* the modelled build never diverges: for ALL kustomization trees, ill-formed documents included, whatever the
   go-yaml resolution oracle and the sort options (no function of the pipeline is fuelled) *)
Theorem PIPE_never_diverges : forall nonstr o t, build nonstr o t <> Diverge.
Proof. exact build_never_diverges. Qed.
Print Assumptions PIPE_never_diverges.

(* the model HAS the PrevIds panic (finding F7a: CSV annotation lists of unequal length): a name containing ','
   under namePrefix in two layers *)
Theorem PIPE_panic_prev_ids_witness :
  build (fun _ => false) PSortNone
        (PDir "top" (mkPDirs "" "p-" "" [] [] [] [] [])
           [PDir "base" (mkPDirs "" "q-" "" [] [] [] [] []) [PFile [comma_doc]]]) = Panic.
Proof. exact build_panic_prev_ids. Qed.
Print Assumptions PIPE_panic_prev_ids_witness.

(* PrevIds panics exactly on rename-history lists of unequal length *)
Theorem PIPE_prev_ids_panic_iff :
  forall r, prev_ids r = Panic <->
    exists s, r_pnames r = Some s /\
      (List.length (split_on ","%char s) <> List.length (split_on ","%char (or_empty (r_pnss r))) \/
       List.length (split_on ","%char s) <> List.length (split_on ","%char (or_empty (r_pkinds r)))).
Proof. exact prev_ids_panic_iff. Qed.
Print Assumptions PIPE_prev_ids_panic_iff.

(* [tree_wf] (Res/PipelineWfProofs.v): every document is a mapping with a kind and a metadata mapping holding a
   non-null scalar name, name and kind neither empty nor containing ',', no ',' in the namespace
   (RenameProofs.wf_node); per layer: no custom labels[].fields, generators that create with a good name, comma-free
   namespace / namePrefix / nameSuffix.  Namespace directives ARE covered (incl. the Namespace-kind rename row). *)

(* accumulating a tree of well-formed documents never panics *)
Theorem PIPE_accumulate_no_panic :
  forall nonstr t, tree_wf t -> accumulate nonstr t <> Panic.
Proof. exact accumulate_no_panic. Qed.
Print Assumptions PIPE_accumulate_no_panic.

(* ... and neither does the whole build: since the HashTransformer re-checks the ids after renaming (/repo 9a490e0;
   [hash_check] in the model) the id collision a hash suffix can produce is an ERROR, and IgnoreLocal no longer panics
   on a collision either (/repo 66fde0c).  The only panic sites left in the model are PrevIds (excluded by [tree_wf]:
   comma-free names) and the name-reference setter on an empty candidate name (FieldSetter with a nil Value), which is
   unreachable on well-formed trees: every candidate is the view of a resource with a non-empty name. *)
Theorem PIPE_build_no_panic :
  forall nonstr o t, tree_wf t -> build nonstr o t <> Panic.
Proof. exact build_no_panic. Qed.
Print Assumptions PIPE_build_no_panic.

(* IgnoreLocal has no panic route left, for ANY resource map (ill-formed documents, colliding ids): the kept
   resources are Appended to a fresh ResMap and the id conflict is returned as an error (/repo 66fde0c; it was
   panic(err) in Factory.FromResourceSlice) *)
Theorem PIPE_ignore_local_no_panic : forall m, ignore_local m <> Panic.
Proof. exact np_ignore_local_any. Qed.
Print Assumptions PIPE_ignore_local_no_panic.

(* regression witness of the repaired defect: a well-formed tree whose hash suffix collides with a file resource *)
Theorem PIPE_clash_tree_regression :
  tree_wf clash_tree /\ build (fun _ => false) PSortNone clash_tree = Err.
Proof. exact (conj clash_tree_wf clash_tree_err). Qed.
Print Assumptions PIPE_clash_tree_regression.

(* regression (was PIPE_panic_hash_clash_witness): a ConfigMap read from a file whose name equals the hash-suffixed
   name of a generated one used to make IgnoreLocal's FromResourceSlice panic; it is an error now
   (corpus/PIPE/case_hashclash.json: Err on both sides) *)
Theorem PIPE_hash_clash_is_error :
  build (fun _ => false) PSortNone
        (PDir "t" (mkPDirs "" "" "" [] [] [] [mkPGen "a" "" "" ["k=v"] "" false [] [] false] [])
           [PFile [Map [("apiVersion", Scalar TStr SPlain "v1"); ("kind", Scalar TStr SPlain "ConfigMap");
                        ("metadata", Map [("name", Scalar TStr SPlain "a-bdg947hgcc")])]]]) = Err.
Proof. exact build_panic_hash_clash. Qed.
Print Assumptions PIPE_hash_clash_is_error.

(* ---- the whole-build statement of C12 over the integrated model, joined with Props/C12.v --------------------
   FULL STATEMENT of the property: forall t, safe (build ... t). PARTIAL: the never-diverges half holds for every
   tree; the never-panics half holds on [tree_wf] trees - the complement of the PrevIds finding (a ',' in a name or
   namespace) and of the empty-name trigger of the name-reference setter (C12_total_core_nameref_transform). The
   model does not carry the other finding classes (non-mapping / empty-key annotations: Res/BuildAnnot.v and
   C12_*_panic_iff; custom schema: C12_init_schema_custom_panic_iff; non-string data keys: search only). *)
Theorem C12_build_total_partial :
  forall nonstr o t,
    build nonstr o t <> Diverge /\ (tree_wf t -> KV.Glob.TotalityMore.safe (build nonstr o t)).
Proof.
  exact (fun nonstr o t =>
           conj (build_never_diverges nonstr o t)
                (fun H => conj (build_no_panic nonstr o t H) (build_never_diverges nonstr o t))).
Qed.
Print Assumptions C12_build_total_partial.
