(* C17 — `kustomize edit` changes exactly what the sub-command says.
   Property theorems only; every theorem is closed by [exact] of a lemma proved in
   Edit/KustfileProofs.v, Edit/OpsProofs.v, Edit/CmdProofs.v.
   Vocabulary: Edit/Kustfile.v (text side: comment scanner, marshal), Edit/Kust.v (the record =
   the in-memory model), Edit/Fix.v (FixKustomization), Edit/Ops.v (one function per sub-command),
   Edit/Cmd.v (one invocation on a file: Read -> command -> Write). *)
From KV Require Import Edit.Cmd Edit.KustfileProofs Edit.OpsProofs Edit.CmdProofs.
Local Open Scope list_scope.

(* ---- content: file content after any command sequence = in-memory model ----
   U = Kustomization.Unmarshal, R = yaml.Marshal of a one-field struct (both external, go-yaml).
   Hypotheses: (D) no rendered field contains a blank/comment-looking line; (S3) the go-yaml round
   trip on texts made of plain comment lines and one-field renderings; the initial file's comment
   lines are plain (blank or '#' in column 0) and reads as k; k's opaque fields are serialised ones.
   The Gen obligation `model_fields_ordered` (every modelled field is in fieldMarshallingOrder, or is
   ImageTags) is used by the proof: a struct field missing from the order list breaks it. *)
Theorem C17_content :
  forall (e : env) (U : file -> res kust) (R : kust -> string -> list line),
    (forall k n l, In l (R k n) -> is_comment_or_blank l = false) ->
    (forall k L, plain_layout L -> covers k L -> U (mkFile (layout_lines R k L) None) = Ok (canon k)) ->
    forall ops f k, plain_file f -> other_ok k -> read_typed U f = Ok k ->
      read_typed U (edit_files e U R f ops) = Ok (model_ops e k ops).
Proof. exact content. Qed.
Print Assumptions C17_content.

(* a command that fails (error or crash) leaves the file untouched *)
Theorem C17_failed_command_writes_nothing :
  forall e U R f o, fst (edit_file e U R f o) <> COk -> snd (edit_file e U R f o) = f.
Proof. exact failed_command_writes_nothing. Qed.
Print Assumptions C17_failed_command_writes_nothing.

(* ---- frame: a command changes only the field(s) it addresses (all 27 sub-commands) ---- *)
Theorem C17_frame :
  forall e k o k' n,
    apply_op e (Ok k) o = Ok (Some k') -> ~ In n (addressed o) -> get n k' = get n k.
Proof. exact apply_op_frame. Qed.
Print Assumptions C17_frame.

(* ---- comments ----
   Full statement (FALSE for the current code):
     forall c, In c (comment_lines f) -> In c (f_lines (write_file R f k)).
   Refuted: the trailing comment of "resources:\n- a.yaml\n# trailing comment\n" is in no rewrite. *)
Theorem C17_comments_refuted :
  exists f c, In c (comment_lines f) /\
              forall (R : kust -> string -> list line) k,
                (forall k n l, In l (R k n) -> is_comment_or_blank l = false) ->
                ~ In c (f_lines (write_file R f k)).
Proof. exact comments_refuted. Qed.
Print Assumptions C17_comments_refuted.

(* What does hold: the comment lines of the original file are, in order, exactly the comment lines
   of the rewritten file followed by the forgotten ones (those pending at EOF) ... *)
Theorem C17_comments_partial :
  forall (R : kust -> string -> list line),
    (forall k n l, In l (R k n) -> is_comment_or_blank l = false) ->
    forall f k, comment_lines f = comment_lines (write_file R f k) ++ forgotten_comments f.
Proof. exact comments_partial. Qed.
Print Assumptions C17_comments_partial.

(* ... and for a file with at least one recognised field line the forgotten ones are exactly the
   trailing ones: the comment lines after the last terminated non-comment line (+ a comment tail) *)
Theorem C17_forgotten_is_trailing :
  forall f, existsb is_field_line (f_lines f) = true -> forgotten_comments f = trailing_comments f.
Proof. exact forgotten_is_trailing. Qed.
Print Assumptions C17_forgotten_is_trailing.

Theorem C17_comments_kept_unless_trailing :
  forall (R : kust -> string -> list line),
    (forall k n l, In l (R k n) -> is_comment_or_blank l = false) ->
    forall f k, existsb is_field_line (f_lines f) = true -> trailing_comments f = [] ->
      comment_lines (write_file R f k) = comment_lines f.
Proof. exact comments_kept_unless_trailing. Qed.
Print Assumptions C17_comments_kept_unless_trailing.

(* ---- obligations over the tables generated from /repo (Gen/KustFields.v) ---- *)
Theorem Gen_every_field_ordered_or_known_gap :
  forallb (fun f => str_in (go_name f) gen_field_order || String.eqb (go_name f) "ImageTags")
          gen_struct_fields = true.
Proof. exact gen_every_field_ordered_or_known_gap. Qed.
Print Assumptions Gen_every_field_ordered_or_known_gap.

Theorem Gen_ordered_fields_exist :
  forallb (fun n => str_in n (map go_name gen_struct_fields)) gen_field_order = true.
Proof. exact gen_ordered_fields_exist. Qed.
Print Assumptions Gen_ordered_fields_exist.

Theorem Gen_ordered_fields_len_safe :
  forallb (fun f => negb (str_in (go_name f) gen_field_order) ||
                    match field_kind f with GOther => false | _ => true end) gen_struct_fields = true.
Proof. exact gen_ordered_fields_len_safe. Qed.
Print Assumptions Gen_ordered_fields_len_safe.

Theorem Gen_model_fields_agree :
  forallb (fun f => str_in (go_name f) model_fields) gen_struct_fields = true /\
  forallb (fun n => str_in n (map go_name gen_struct_fields)) model_fields = true.
Proof. exact gen_model_fields_agree. Qed.
Print Assumptions Gen_model_fields_agree.

Theorem Gen_header_recognised :
  forallb (fun f => negb (str_in (go_name f) gen_field_order) ||
                    match find_matched_field_in gen_field_order (json_name f ++ ":")%string with
                    | Some n => String.eqb n (go_name f)
                    | None => false
                    end) gen_struct_fields = true.
Proof. exact gen_header_recognised. Qed.
Print Assumptions Gen_header_recognised.
