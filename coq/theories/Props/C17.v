(* C17 — property theorems only (filled in as the proofs land). *)
From KV Require Import Edit.Cmd.
