(* C17 — `kustomize edit` changes exactly what the sub-command says.
   Property theorems only; every theorem is closed by [exact] of a lemma proved in
   Edit/KustfileProofs.v, Edit/OpsProofs.v, Edit/CmdProofs.v.
   Vocabulary: Edit/Kustfile.v (text side: comment scanner, marshal), Edit/Kust.v (the record =
   the in-memory model), Edit/Fix.v (FixKustomization), Edit/Ops.v (one function per sub-command),
   Edit/Cmd.v (one invocation on a file: Read -> command -> Write). *)
From KV Require Import Edit.YamlView Edit.YamlViewProofs.
From KV Require Import Edit.Cmd Edit.KustfileProofs Edit.AssocProofs Edit.OpsProofs Edit.CmdProofs Edit.LawsProofs.
Local Open Scope list_scope.

(* ---- content: file content after any command sequence = in-memory model ----
   U = Kustomization.Unmarshal, R = yaml.Marshal of a one-field struct (both external, go-yaml).
   Hypotheses: (D) no rendered field contains a blank/comment-looking line; (S3) the go-yaml round
   trip on texts made of plain comment lines and one-field renderings; the initial file's comment
   lines are plain (blank or '#' in column 0) and reads as k; k's opaque fields are serialised ones.
   The Gen obligation `model_fields_ordered` (every modelled field is in fieldMarshallingOrder, or is
   ImageTags) is used by the proof: a struct field missing from the order list breaks it. *)
Theorem C17_content :
  forall (e : env) (U : file -> res kust) (R : kust -> string -> list line),
    (forall k n l, In l (R k n) -> is_comment_or_blank l = false) ->
    (forall k L, plain_layout L -> covers k L -> U (mkFile (layout_lines R k L) None) = Ok (canon k)) ->
    forall ops f k, plain_file f -> other_ok k -> read_typed U f = Ok k ->
      read_typed U (edit_files e U R f ops) = Ok (model_ops e k ops).
Proof. exact content. Qed.
Print Assumptions C17_content.

(* a command that fails (error or crash) leaves the file untouched *)
Theorem C17_failed_command_writes_nothing :
  forall e U R f o, fst (edit_file e U R f o) <> COk -> snd (edit_file e U R f o) = f.
Proof. exact failed_command_writes_nothing. Qed.
Print Assumptions C17_failed_command_writes_nothing.

(* ---- frame: a command changes only the field(s) it addresses (all 27 sub-commands) ---- *)
Theorem C17_frame :
  forall e k o k' n,
    apply_op e (Ok k) o = Ok (Some k') -> ~ In n (addressed o) -> Kust.get n k' = Kust.get n k.
Proof. exact apply_op_frame. Qed.
Print Assumptions C17_frame.

(* ---- set commands are idempotent ----
   on the in-memory model, including the Write/Read round trip between the two invocations
   (model_step = command, then canon, then FixKustomization).  Guards the code really needs:
   k is a state as Read returns it (FixKustomization applied: with a non-empty imageTags the second
   `set image` would see a different list) and the two label maps are key-sorted (always true of
   values decoded from a file; the model represents Go maps as sorted association lists).
   All 8 set commands: label, annotation, buildmetadata, image, replicas, namespace, nameprefix,
   namesuffix.  A command that fails the first time fails the second time too (state unchanged). *)
Theorem C17_set_idempotent :
  forall e k o, is_set o = true -> fixed k -> maps_sorted k ->
    model_step e (model_step e k o) o = model_step e k o.
Proof. exact set_idempotent. Qed.
Print Assumptions C17_set_idempotent.

(* ---- add followed by the matching remove restores the content ----
   N k = FixKustomization (canon k) is the content of a file holding k after one Write/Read round
   trip (N k = k for every state reached after the first write). One theorem per add/remove pair the
   CLI has (there is no `remove component|generator|base`); guards are the ones the code needs:
   the added item was absent, a literal (no glob meta characters, no comma), not the kustomization
   file itself, and the add succeeded. *)
Theorem C17_add_remove_inverse_resource :
  forall e k r nv k1,
    fixed k -> has_meta r = false -> str_in r (k_resources k) = false -> String.eqb (e_kpath e) r = false ->
    apply_op e (Ok k) (AddResource [r] nv) = Ok (Some k1) ->
    model_step e (model_step e k (AddResource [r] nv)) (RemoveResource [r]) = N k.
Proof. exact add_remove_resource. Qed.
Print Assumptions C17_add_remove_inverse_resource.

Theorem C17_add_remove_inverse_transformer :
  forall e k t k1,
    has_meta t = false -> str_in t (k_transformers k) = false ->
    apply_op e (Ok k) (AddTransformer [t]) = Ok (Some k1) ->
    model_step e (model_step e k (AddTransformer [t])) (RemoveTransformer [t]) = N k.
Proof. exact add_remove_transformer. Qed.
Print Assumptions C17_add_remove_inverse_transformer.

Theorem C17_add_remove_inverse_buildmetadata :
  forall e k args k1,
    apply_op e (Ok k) (AddBuildMetadata args) = Ok (Some k1) ->
    model_step e (model_step e k (AddBuildMetadata args)) (RemoveBuildMetadata args) = N k.
Proof. exact add_remove_buildmetadata. Qed.
Print Assumptions C17_add_remove_inverse_buildmetadata.

Theorem C17_add_remove_inverse_label :
  forall e k a key v,
    sorted_o (k_commonLabels k) ->
    convert_slice_to_map [a] [] = Ok [(key, v)] ->
    split_on ","%char key = [key] -> String.eqb key "" = false ->
    assoc_get key (mapo_or_empty (k_commonLabels k)) = None ->
    model_step e (model_step e k (AddLabel [a] false false false)) (RemoveLabel [key] false) = N k.
Proof. exact add_remove_label. Qed.
Print Assumptions C17_add_remove_inverse_label.

Theorem C17_add_remove_inverse_annotation :
  forall e k a key v,
    sorted_o (k_commonAnnotations k) ->
    convert_slice_to_map [a] [] = Ok [(key, v)] ->
    split_on ","%char key = [key] -> String.eqb key "" = false ->
    assoc_get key (mapo_or_empty (k_commonAnnotations k)) = None ->
    model_step e (model_step e k (AddAnnotation [a] false)) (RemoveAnnotation [key] false) = N k.
Proof. exact add_remove_annotation. Qed.
Print Assumptions C17_add_remove_inverse_annotation.

Theorem C17_add_remove_inverse_configmap :
  forall e k fl name k1,
    cf_args fl = [name] -> split_on ","%char name = [name] ->
    find_gen name (cf_namespace fl) (k_configMapGenerator k) = None ->
    apply_op e (Ok k) (AddConfigMap fl) = Ok (Some k1) ->
    model_step e (model_step e k (AddConfigMap fl)) (RemoveConfigMap [name] (cf_namespace fl)) = N k.
Proof. exact add_remove_configmap. Qed.
Print Assumptions C17_add_remove_inverse_configmap.

Theorem C17_add_remove_inverse_secret :
  forall e k fl name k1,
    cf_args fl = [name] -> split_on ","%char name = [name] ->
    find_gen name (cf_namespace fl) (k_secretGenerator k) = None ->
    apply_op e (Ok k) (AddSecret fl) = Ok (Some k1) ->
    model_step e (model_step e k (AddSecret fl)) (RemoveSecret [name] (cf_namespace fl)) = N k.
Proof. exact add_remove_secret. Qed.
Print Assumptions C17_add_remove_inverse_secret.

(* `remove patch` deletes EVERY patch equal to the flags, and two patches that differ only by an
   explicit empty `options: {}` become equal once written and read back; the guard therefore asks
   that no existing patch equals the new one after canon. *)
Theorem C17_add_remove_inverse_patch :
  forall e k path ptch target k1,
    existsb (fun q => patch_equals (canon_patch q) (cli_patch path ptch target)) (k_patches k) = false ->
    apply_op e (Ok k) (AddPatch path ptch target) = Ok (Some k1) ->
    model_step e (model_step e k (AddPatch path ptch target)) (RemovePatch path ptch target) = N k.
Proof. exact add_remove_patch. Qed.
Print Assumptions C17_add_remove_inverse_patch.

(* N is a projection: a second round trip changes nothing; every state after a write is fixed *)
Theorem C17_roundtrip_idempotent : forall k, N (N k) = N k.
Proof. exact N_idem. Qed.
Print Assumptions C17_roundtrip_idempotent.

(* ---- comments ----
   Until /repo commit f15d834 the comment lines pending at EOF were forgotten by every rewrite
   (finding trailing-comment-dropped; the former theorems C17_comments_refuted / _partial recorded
   that).  The repaired code keeps them (mf.trailingComments), so the full statement now holds:
   the comment-or-blank lines of the rewritten file are EXACTLY those of the original — every
   occurrence, in the same order, an unterminated comment tail included (it comes back
   newline-terminated) — under (D): no rendered field contains a comment-looking line. *)
Theorem C17_comments_kept :
  forall (R : kust -> string -> list line),
    (forall k n l, In l (R k n) -> is_comment_or_blank l = false) ->
    forall f k, comment_lines (write_file R f k) = comment_lines f.
Proof. exact comments_kept. Qed.
Print Assumptions C17_comments_kept.

(* the comment lines split, in order, into those attached to fields and the trailing ones; with at
   least one recognised field line the trailing ones are the comment lines after the last terminated
   non-comment line (+ a comment tail) *)
Theorem C17_comments_decomposition :
  forall f, comment_lines f = kept_comments (parse_commented_fields f) ++ trailing_kept f.
Proof. exact comments_kept_or_forgotten. Qed.
Print Assumptions C17_comments_decomposition.

Theorem C17_trailing_kept_is_trailing_block :
  forall f, existsb is_field_line (f_lines f) = true -> trailing_kept f = trailing_comments f.
Proof. exact forgotten_is_trailing. Qed.
Print Assumptions C17_trailing_kept_is_trailing_block.

(* where they are written: after the original fields, before the fields the command adds — on the
   next read they therefore attach to the first added field (content and C17_content unaffected) *)
Theorem C17_trailing_comments_position :
  forall (R : kust -> string -> list line) f k,
    f_lines (write_file R f k) =
    flat_map (fun c => cf_comment c ++ render_field R k (cf_field c)) (parse_commented_fields f) ++
    trailing_kept f ++
    flat_map (fun n => if has_field (parse_commented_fields f) n then [] else render_field R k n) gen_field_order.
Proof. exact trailing_comments_position. Qed.
Print Assumptions C17_trailing_comments_position.

(* regression: the witness of the former finding keeps its trailing comment *)
Theorem C17_former_witness_kept :
  forall render, In "# trailing comment"
                    (marshal (parse_commented_fields witness_file) (trailing_kept witness_file) render).
Proof. exact (proj2 (proj2 witness_kept)). Qed.
Print Assumptions C17_former_witness_kept.

(* ---- comments as YAML reads them, and the exact guard ----
   C17_comments_kept above is about the lines the (per-line) scanner takes for comments.  In the YAML view
   (Edit/YamlView.v: comment-looking lines OUTSIDE block scalars) the comments survive a rewrite exactly when
   neither of the two block-scalar findings applies:
     guard 1 = no comment-looking line inside a block scalar of the file
               (complement of finding comment-line-absorbed-into-block-scalar),
     guard 2 = every comment the rewrite relocates is plain, i.e. blank or '#' in column 0
               (complement of finding indented-comment-relocated-behind-block-scalar),
   plus clean renderings (what yaml.Marshal writes: column-0 header, comment-looking lines only inside block
   scalars, no trailing blank line) and a newline-terminated file.  The two witnesses show that each guard is
   needed: they are the corpus inputs of the two findings, evaluated on the model. *)
Theorem C17_yaml_comments_kept :
  forall (R : kust -> string -> list line) f k,
    f_tail f = None ->
    ~ has_scalar_comment_line (f_lines f) ->
    plain_comments (kept_comments (parse_commented_fields f) ++ trailing_kept f) ->
    (forall n, clean_rendering (render_field R k n)) ->
    yaml_comment_lines (f_lines (write_file R f k)) = yaml_comment_lines (f_lines f).
Proof. exact yaml_comments_kept. Qed.
Print Assumptions C17_yaml_comments_kept.

(* without guard 1 the YAML comments of the result are still exactly what the scanner collected *)
Theorem C17_yaml_comments_of_write :
  forall (R : kust -> string -> list line) f k,
    plain_comments (kept_comments (parse_commented_fields f) ++ trailing_kept f) ->
    (forall n, clean_rendering (render_field R k n)) ->
    yaml_comment_lines (f_lines (write_file R f k)) = comment_lines f.
Proof. exact yaml_comments_of_write. Qed.
Print Assumptions C17_yaml_comments_of_write.

(* finding comment-line-absorbed-into-block-scalar on the model: guard 1 fails, the renderings are clean; the
   comment-looking last line of the scalar is written back behind the scalar and becomes one more line of it *)
Theorem C17_absorbed_refuted :
  has_scalar_comment_line (f_lines w_f1) /\
  (forall n, clean_rendering (render_field w_R1 w_k1 n)) /\
  f_lines (write_file w_R1 w_f1 w_k1) =
    ["patches:"; "- patch: |-"; "    a: b"; "    # last"; "    # last"; "namespace: x"] /\
  yaml_comment_lines (f_lines (write_file w_R1 w_f1 w_k1)) = [] /\
  comment_lines w_f1 = ["    # last"].
Proof. exact absorbed_witness. Qed.
Print Assumptions C17_absorbed_refuted.

(* finding indented-comment-relocated-behind-block-scalar on the model: guard 1 holds, guard 2 fails; the
   indented comment lands behind a block scalar and is no comment any more *)
Theorem C17_relocated_refuted :
  ~ has_scalar_comment_line (f_lines w_f2) /\
  (forall n, clean_rendering (render_field w_R2 w_k2 n)) /\
  comment_lines w_f2 = ["    # note"] /\
  f_lines (write_file w_R2 w_f2 w_k2) =
    ["patches:"; "- patch: |-"; "    a: b"; "    c: d"; "    # note";
     "configMapGenerator:"; "- literals:"; "  - a=b"; "  name: x"] /\
  yaml_comment_lines (f_lines (write_file w_R2 w_f2 w_k2)) = [].
Proof. exact relocated_witness. Qed.
Print Assumptions C17_relocated_refuted.

(* ---- obligations over the tables generated from /repo (Gen/KustFields.v) ---- *)
Theorem Gen_every_field_ordered_or_known_gap :
  forallb (fun f => str_in (go_name f) gen_field_order || String.eqb (go_name f) "ImageTags")
          gen_struct_fields = true.
Proof. exact gen_every_field_ordered_or_known_gap. Qed.
Print Assumptions Gen_every_field_ordered_or_known_gap.

Theorem Gen_ordered_fields_exist :
  forallb (fun n => str_in n (map go_name gen_struct_fields)) gen_field_order = true.
Proof. exact gen_ordered_fields_exist. Qed.
Print Assumptions Gen_ordered_fields_exist.

Theorem Gen_ordered_fields_len_safe :
  forallb (fun f => negb (str_in (go_name f) gen_field_order) ||
                    match field_kind f with GOther => false | _ => true end) gen_struct_fields = true.
Proof. exact gen_ordered_fields_len_safe. Qed.
Print Assumptions Gen_ordered_fields_len_safe.

Theorem Gen_model_fields_agree :
  forallb (fun f => str_in (go_name f) model_fields) gen_struct_fields = true /\
  forallb (fun n => str_in n (map go_name gen_struct_fields)) model_fields = true.
Proof. exact gen_model_fields_agree. Qed.
Print Assumptions Gen_model_fields_agree.

Theorem Gen_header_recognised :
  forallb (fun f => negb (str_in (go_name f) gen_field_order) ||
                    match find_matched_field_in gen_field_order (json_name f ++ ":")%string with
                    | Some n => String.eqb n (go_name f)
                    | None => false
                    end) gen_struct_fields = true.
Proof. exact gen_header_recognised. Qed.
Print Assumptions Gen_header_recognised.
