(* C15 — three-way merge (kyaml merge3 on the generic walker): property theorems only.
   Model: Yaml/Walk.v (the walker shared with C04) + Yaml/Merge3.v (Visitor). *)
From KV Require Import Yaml.Walk Yaml.WalkProofs Yaml.WalkFields Yaml.Merge2 Yaml.Merge2Frame
     Yaml.Merge3 Yaml.Merge3Proofs Yaml.Merge3Examples Yaml.Merge2Idem Yaml.Merge3Whole Yaml.Merge3WholeUpd Yaml.WalkGenProofs Gen.WalkTables.

(* merge3.Merge at the canonical fuel never runs out of fuel, for every schema, option set and triple. *)
Theorem C15_no_diverge :
  forall (Sc : Type) (sch : schema Sc) (opts : wopts) (nonstr : string -> bool) (l o u : option node),
    merge3 sch opts nonstr l o u <> Diverge.
Proof. exact (@merge3_no_diverge). Qed.
Print Assumptions C15_no_diverge.

(* FULL law: merge3(l,o,o) = l (typed JSON). FALSE for the code as it is: a mapping missing locally but
   present (unchanged) upstream comes back as {} (DESIGN F8; finding
   C15/local_when_upstream_unchanged/container-missing-on-one-side). *)
Theorem C15_local_when_upstream_unchanged_refuted :
  exists l o r, m3 l o o = Ok (Some r) /\ node_eqb r l = false /\
                r = Map [("a"%string, i1); ("m"%string, Map [])].
Proof. exact local_when_upstream_unchanged_refuted. Qed.
Print Assumptions C15_local_when_upstream_unchanged_refuted.

(* What DOES hold of merge3(l,o,o) (partial): on kinds whose lists are atomic (no merge strategy, inference
   off), every non-mapping, non-null value v that local holds at a path q through mappings (pairwise
   different keys) is found at q in the result with the same tag and text (style: at most the forced
   quoting [quote11]), provided the unchanged upstream document has no explicit null on that path.
   MISSING w.r.t. the full law: (a) nothing else appears — false, see the refutation above; (b) paths
   through keyed lists (inference on / schema merge keys); (c) explicit nulls — false, finding
   C15/local_when_upstream_unchanged/explicit-null. *)
Theorem C15_local_kept_partial :
  forall (Sc : Type) (sch : schema Sc) (opts : wopts) (nonstr : string -> bool),
    atomic_lists sch opts ->
    forall (q : list string) (lk : list (string * node)) (o : option node) (r v : node),
      q <> [] ->
      merge3 sch opts nonstr (Some (Map lk)) o o = Ok (Some r) ->
      no_null_along o q -> maps_along q (Map lk) ->
      getp q (Map lk) = Some v -> is_map v = false -> is_null v = false ->
      getp q r = Some (Fns.quote11 nonstr v).
Proof. exact (@merge3_local_kept). Qed.
Print Assumptions C15_local_kept_partial.

(* FULL law: merge3(d,d,d) = d. FALSE: an explicit null field is dropped (finding C15/all_equal/explicit-null). *)
Theorem C15_all_equal_refuted :
  exists d r, m3 d d d = Ok (Some r) /\ node_eqb r d = false /\ r = Map [].
Proof. exact all_equal_refuted. Qed.
Print Assumptions C15_all_equal_refuted.

(* ... with inference on, a document containing an empty list used to be refused (finding
   C15/all_equal/error-no-merge-key-for-empty-list): FIXED in /repo, it merges with itself. *)
Theorem C15_all_equal_empty_list : m3 el_d el_d el_d = Ok (Some el_d).
Proof. exact empty_list_merges. Qed.
Print Assumptions C15_all_equal_empty_list.

(* What does hold of merge3(d,d,d) (partial, same fragment): every non-mapping, non-null value of d on a
   null-free path survives. *)
Theorem C15_all_equal_kept_partial :
  forall (Sc : Type) (sch : schema Sc) (opts : wopts) (nonstr : string -> bool),
    atomic_lists sch opts ->
    forall (q : list string) (dk : list (string * node)) (r v : node),
      q <> [] ->
      merge3 sch opts nonstr (Some (Map dk)) (Some (Map dk)) (Some (Map dk)) = Ok (Some r) ->
      no_null_along (Some (Map dk)) q -> maps_along q (Map dk) ->
      getp q (Map dk) = Some v -> is_map v = false -> is_null v = false ->
      getp q r = Some (Fns.quote11 nonstr v).
Proof. exact (@merge3_all_equal_kept). Qed.
Print Assumptions C15_all_equal_kept_partial.

(* merge3(d,d,d) = d as a WHOLE-DOCUMENT equality (exact node equality), partial: on kinds whose lists are atomic, for a
   mapping d with pairwise different keys in every mapping reached through mappings ([wfk]), without any null reached
   through mappings and without plain strings that FieldSetter force-quotes ([clean3 nonstr]): whenever the merge
   answers at all, it answers d. (Excluded by the hypotheses: explicit / implicit nulls -- refuted above.) *)
Theorem C15_all_equal_partial :
  forall (Sc : Type) (sch : schema Sc) (opts : wopts) (nonstr : string -> bool),
    atomic_lists sch opts ->
    forall (d : node) (r : option node),
      is_map d && wfk d && clean3 nonstr d = true ->
      merge3 sch opts nonstr (Some d) (Some d) (Some d) = Ok r ->
      r = Some d.
Proof. exact (@merge3_all_equal). Qed.
Print Assumptions C15_all_equal_partial.

(* FULL law: merge3(o,o,u) = u. FALSE: a mapping removed upstream leaves {} (finding
   C15/updated_when_local_unchanged/container-missing-on-one-side) ... *)
Theorem C15_updated_when_local_unchanged_refuted :
  exists o u r, m3 o o u = Ok (Some r) /\ node_eqb r u = false /\
                r = Map [("a"%string, i1); ("m"%string, Map [])].
Proof. exact updated_when_local_unchanged_refuted. Qed.
Print Assumptions C15_updated_when_local_unchanged_refuted.

(* What DOES hold of merge3(o,o,u) (partial; covers "one-sided edits upstream survive" for added and changed
   fields): on kinds whose lists are atomic, every non-mapping, non-null value v that updated holds at a path
   q through mappings is at q in the result, spelled [expected3 (what original = local has at q) v]:
     - nothing there before:            quote11 v                       (v itself, up to forced quoting)
     - same text / same list as before: quote11 (old value)             (this is the type-only-change finding)
     - otherwise:                       v with the STYLE of the old value (this is the quoting finding)
   provided original consists, along q, of mappings with pairwise different keys or of nothing, and has no
   explicit null at q.
   MISSING w.r.t. the full law: removals upstream (false: emptied containers stay, see the refutation above),
   keyed lists, local edits made at the same time. *)
Theorem C15_updated_arrives_partial :
  forall (Sc : Type) (sch : schema Sc) (opts : wopts) (nonstr : string -> bool),
    atomic_lists sch opts ->
    forall (q : list string) (o : option node) (uk : list (string * node)) (r v : node),
      q <> [] ->
      merge3 sch opts nonstr o o (Some (Map uk)) = Ok (Some r) ->
      ok_along o q ->
      getp q (Map uk) = Some v -> is_map v = false -> is_null v = false ->
      getp q r = Some (expected3 nonstr (getp_o q o) v).
Proof. exact (@merge3_updated_arrives). Qed.
Print Assumptions C15_updated_arrives_partial.

(* merge3(l,o,o) = l as a WHOLE-DOCUMENT equality (exact node equality), partial: on kinds whose lists are atomic, for a
   mapping l with pairwise different keys ([wfk]), no null reached through mappings and no plain string that FieldSetter
   force-quotes ([clean3 nonstr]), and an (unchanged) upstream pair o that l covers ([ocovers l o], a boolean):
     - where l has a value, o holds no null            -- complement of C15/local_when_upstream_unchanged/explicit-null
       (clean3 l is the local half of that class);
     - every mapping of o is present in l              -- complement of C15/local_when_upstream_unchanged/
                                                           container-missing-on-one-side (and of one_sided_local/...).
   Kind changes (class error-kind-of-field-differs-between-versions) make the merge fail; the statement is about the
   answers it gives. Not restricted otherwise: o may have fields l removed, lists, other values.
   Non-vacuity: local_whole_example (Yaml/Merge3Whole.v). MISSING: keyed lists. *)
Theorem C15_local_when_upstream_unchanged_partial :
  forall (Sc : Type) (sch : schema Sc) (opts : wopts) (nonstr : string -> bool),
    atomic_lists sch opts ->
    forall (l : node) (o r : option node),
      is_map l && wfk l && clean3 nonstr l && ocovers l o = true ->
      merge3 sch opts nonstr (Some l) o o = Ok r ->
      r = Some l.
Proof. exact (@merge3_local_whole). Qed.
Print Assumptions C15_local_when_upstream_unchanged_partial.

(* merge3(o,o,u) = u as a WHOLE-DOCUMENT equality (exact node equality: tags, styles, key order), partial: on kinds whose
   lists are atomic, for mappings o, u with pairwise different keys ([wfk]), u without nulls and without force-quoted
   plain strings ([clean3 nonstr u]), and u agreeing with o place by place ([agrees (Some o) u], a boolean):
     - a scalar of u sits on nothing or on a non-null scalar of o with the same quoting style
                                                        -- complement of .../scalar-keeps-local-quoting and .../explicit-null
       and, when the text is the same, the same tag     -- complement of .../scalar-type-only-change-ignored;
     - a mapping / list of u sits on nothing or on a mapping / list
                                                        -- complement of .../error-kind-of-field-differs-between-versions
                                                           (and explicit-null);
     - a field u no longer has was not a mapping in o   -- complement of .../container-missing-on-one-side;
     - the keys of every mapping of u are in the order the walk produces ([merged_order]: the surviving keys of o in
       o's order, then the new keys sorted; new mappings have sorted keys). This is not a finding class: the
       oracle compares documents up to key order; the theorem states exact equality and so has to fix the order.
   Non-vacuity: updated_whole_example (Yaml/Merge3WholeUpd.v). MISSING: keyed lists. *)
Theorem C15_updated_when_local_unchanged_partial :
  forall (Sc : Type) (sch : schema Sc) (opts : wopts) (nonstr : string -> bool),
    atomic_lists sch opts ->
    forall (o u : node) (r : option node),
      is_map o && is_map u && wfk o && wfk u && clean3 nonstr u && agrees (Some o) u = true ->
      merge3 sch opts nonstr (Some o) (Some o) (Some u) = Ok r ->
      r = Some u.
Proof. exact (@merge3_updated_whole). Qed.
Print Assumptions C15_updated_when_local_unchanged_partial.

(* ... a type-only change upstream (1 -> "1") is ignored, because scalars are compared by their text
   (finding C15/updated_when_local_unchanged/scalar-type-only-change-ignored) ... *)
Theorem C15_type_only_change_refuted : m3 ty_o ty_o ty_u = Ok (Some ty_o).
Proof. exact type_only_change_ignored. Qed.
Print Assumptions C15_type_only_change_refuted.

(* ... and "the result keeps each scalar's type" fails for a number written over a quoted string: the
   value of updated arrives with the quotes of local, i.e. as a string (finding
   C15/one_sided/scalar-keeps-local-quoting). The partial law for merge3(o,o,u) / one-sided edits is not
   proved; it is evaluated on the implementation by the oracles of harness/c15.go. *)
Theorem C15_types_kept_refuted :
  m3 qu_o qu_o qu_u = Ok (Some (Map [("k"%string, Scalar TInt SDouble "2")])).
Proof. exact scalar_keeps_local_quoting. Qed.
Print Assumptions C15_types_kept_refuted.

(* a keyed list (inference on) that is missing locally comes back as [] *)
Theorem C15_keyed_list_comes_back_refuted :
  m3 l1_l kl_o kl_o = Ok (Some (Map [("a"%string, i1); ("f"%string, Seq [])])).
Proof. exact keyed_list_comes_back_empty. Qed.
Print Assumptions C15_keyed_list_comes_back_refuted.

(* ---------- obligations over the tables regenerated from /repo (Gen/WalkTables.v) ---------- *)

(* the model reads dest / original / updated at the source's Sources indexes *)
Theorem Gen_C15_source_indexes :
  gen_source_indexes = [("DestIndex", 0); ("OriginIndex", 1); ("UpdatedIndex", 2)]%string /\
  (forall d o u t, dest_of (d :: o :: u :: t) = d /\ origin_of (d :: o :: u :: t) = o /\ updated_of (d :: o :: u :: t) = u).
Proof. exact gen_source_indexes_ok. Qed.
Print Assumptions Gen_C15_source_indexes.

(* the witnesses infer merge keys from the source's AssociativeSequenceKeys *)
Theorem Gen_C15_assoc_keys : o_assoc_keys iopts = gen_assoc_keys.
Proof. exact (proj2 (proj2 gen_assoc_keys_ok)). Qed.
Print Assumptions Gen_C15_assoc_keys.
