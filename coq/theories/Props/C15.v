(* C15 — placeholder until the proofs land. *)
From KV Require Import Yaml.Merge3.
