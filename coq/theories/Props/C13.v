(* C13 — property theorems only. Every theorem is closed by [exact] of a lemma proved elsewhere. *)
From KV Require Import Yaml.Split Yaml.SplitProofs Yaml.Annot Yaml.AnnotProofs Yaml.Stream Yaml.StreamProofs
  Fs.Path Fs.PathProofs Fs.PkgWriter Fs.PkgWriterProofs.

(* splitDocuments loses nothing: the documents, interleaved in order with the separators it cut out,
   are the input (byte for byte). *)
Theorem C13_split_join :
  forall s ds seps, split_documents_full s = Ok (ds, seps) -> interleave ds seps = s.
Proof. exact SplitProofs.split_join. Qed.
Print Assumptions C13_split_join.

(* … and the pieces alternate: n+1 documents around n separators, each separator being "\n---",
   a rest of line that is blank or a comment, and the newline ending it.  Together with
   C13_split_join this fixes the position, hence the order, of every document in the input. *)
Theorem C13_split_order :
  forall s ds seps, split_documents_full s = Ok (ds, seps) -> s <> "" ->
    List.length ds = S (List.length seps) /\ Forall is_separator seps.
Proof. exact split_shape. Qed.
Print Assumptions C13_split_order.

(* no document contains a separator: splitting a (non-empty) document again returns it unchanged *)
Theorem C13_split_no_inner_separator :
  forall s ds seps, split_documents_full s = Ok (ds, seps) ->
    Forall (fun d => d = "" \/ split_documents d = Ok [d]) ds.
Proof. exact split_no_inner. Qed.
Print Assumptions C13_split_no_inner_separator.

(* Annotation round trip, node level.  [res_wf ks n]: n is a mapping; `metadata`, if present, is a
   mapping and the only field of that name; `annotations`, if present, is a mapping, the only field of
   that name, and carries none of the keys [ks].
   Reader (ByteReader.decode: legacy index, index — each SetAnnotation first drops empty annotation maps,
   then creates metadata / annotations when absent) followed by writer (ByteWriter.Write: clear index,
   legacy index, seqindent; then drop `annotations` if left empty and `metadata` if left empty) is
   exactly ClearEmptyAnnotations of the original resource. *)
Theorem C13_annotations_roundtrip :
  forall (nonstr : string -> bool) (i : N) (n : node),
    res_wf reader_keys n -> rt_node nonstr i n = clear_empty_annotations n.
Proof. exact rt_node_is_cea. Qed.
Print Assumptions C13_annotations_roundtrip.

(* … the same for the package reader / writer, which also set and clear the two path annotations
   (for every path string) *)
Theorem C13_annotations_roundtrip_package :
  forall (nonstr : string -> bool) (i : N) (path : string) (n : node),
    res_wf pkg_reader_keys n -> pkg_rt_node nonstr i path n = clear_empty_annotations n.
Proof. exact pkg_rt_node_is_cea. Qed.
Print Assumptions C13_annotations_roundtrip_package.

(* on well-formed resources ClearEmptyAnnotations succeeds, yields a well-formed resource and is idempotent *)
Theorem C13_clear_empty_total :
  forall ks n, res_wf ks n -> exists n1, clear_empty_annotations n = Ok n1.
Proof. exact cea_total. Qed.
Print Assumptions C13_clear_empty_total.

Theorem C13_clear_empty_idempotent :
  forall ks n n1, res_wf ks n -> clear_empty_annotations n = Ok n1 ->
    res_wf ks n1 /\ clear_empty_annotations n1 = Ok n1.
Proof. exact cea_idempotent. Qed.
Print Assumptions C13_clear_empty_idempotent.

(* second round trip = first, at node level (the index annotation of the second trip may differ) *)
Theorem C13_idempotent_model :
  forall (nonstr : string -> bool) (i j : N) (n n1 : node),
    res_wf reader_keys n -> rt_node nonstr i n = Ok n1 -> rt_node nonstr j n1 = Ok n1.
Proof. exact rt_node_idempotent. Qed.
Print Assumptions C13_idempotent_model.

Theorem C13_idempotent_model_package :
  forall (nonstr : string -> bool) (i j : N) (p q : string) (n n1 : node),
    res_wf pkg_reader_keys n -> pkg_rt_node nonstr i p n = Ok n1 -> pkg_rt_node nonstr j q n1 = Ok n1.
Proof. exact pkg_rt_node_idempotent. Qed.
Print Assumptions C13_idempotent_model_package.

(* a resource without metadata comes back unchanged *)
Theorem C13_roundtrip_identity_no_metadata :
  forall (nonstr : string -> bool) (i : N) kvs,
    find_field "metadata" kvs = None -> rt_node nonstr i (Map kvs) = Ok (Map kvs).
Proof. exact rt_node_identity_no_metadata. Qed.
Print Assumptions C13_roundtrip_identity_no_metadata.

(* Package writes are confined, for ALL path annotation strings (absolute, dot-dot, a/../../b, empty,
   trailing slash, …): an accepted annotation yields the package path followed by good names (non-empty,
   not "." or "..", slash-free). *)
Theorem C13_write_confined :
  forall pc ann p,
    canon_comps pc = true ->
    pkg_out_path (abs_of pc) ann = Ok p ->
    exists rest, canon_comps rest = true /\ p = abs_of (pc ++ rest)%list.
Proof. exact pkg_out_path_confined. Qed.
Print Assumptions C13_write_confined.

(* one resource: the file handed to WriteFile is strictly below the package, the directory handed to
   MkdirAll is the package or below it *)
Theorem C13_write_confined_file_and_dir :
  forall pc ann d f,
    canon_comps pc = true ->
    pkg_write1 (abs_of pc) ann = Ok (d, f) ->
    exists rest, rest <> [] /\ canon_comps rest = true /\
                 f = abs_of (pc ++ rest)%list /\ d = abs_of (pc ++ removelast rest)%list.
Proof. exact pkg_write1_confined. Qed.
Print Assumptions C13_write_confined_file_and_dir.

(* … stated for the path that is actually written, i.e. after kioutil.DefaultPathAndIndexAnnotation:
   copied legacy annotation, or the default path made from metadata.namespace / kind / name when the
   resource has no path annotation — for ALL values of these strings *)
Theorem C13_write_confined_effective_path :
  forall pc (r : pkg_res) d f,
    canon_comps pc = true ->
    pkg_write_res (abs_of pc) r = Ok (d, f) ->
    exists rest, rest <> [] /\ canon_comps rest = true /\
                 f = abs_of (pc ++ rest)%list /\ d = abs_of (pc ++ removelast rest)%list.
Proof. exact pkg_write_res_confined. Qed.
Print Assumptions C13_write_confined_effective_path.

(* a batch is rejected as a whole or all of its targets are inside *)
Theorem C13_write_confined_batch :
  forall pc anns ps,
    canon_comps pc = true ->
    pkg_targets (abs_of pc) anns = Ok ps ->
    Forall (fun p => exists rest, canon_comps rest = true /\ p = abs_of (pc ++ rest)%list) ps.
Proof. exact pkg_targets_confined. Qed.
Print Assumptions C13_write_confined_batch.

(* deletions: only files previously read from the package (and no longer present in the output), each
   of them below the package *)
Theorem C13_delete_confined :
  forall pc read_files new_files p,
    canon_comps pc = true ->
    Forall rel_canon read_files ->
    In p (pkg_delete_set (abs_of pc) read_files new_files) ->
    exists f cs, In f read_files /\ str_in f new_files = false /\
                 cs <> [] /\ canon_comps cs = true /\ p = abs_of (pc ++ cs)%list.
Proof. exact pkg_delete_confined. Qed.
Print Assumptions C13_delete_confined.

(* … over sequences of Writes on ONE LocalPackageReadWriter (refused ones included): the tracked-file set
   is the set read from the package, so every deletion of every step is a read file below the package *)
Theorem C13_delete_confined_sequences :
  forall pc files steps ds p,
    canon_comps pc = true -> Forall rel_canon files ->
    In (Ok ds) (rw_run (abs_of pc) files steps) -> In p ds ->
    exists f cs, In f files /\ cs <> [] /\ canon_comps cs = true /\ p = abs_of (pc ++ cs)%list.
Proof. exact rw_run_deletes_confined. Qed.
Print Assumptions C13_delete_confined_sequences.

(* ---- text level: ByteReader.Read then ByteWriter.Write, bytes in, bytes out ----
   go-yaml's decoder and encoder are parameters ([dec] : chunk -> document root or none, [enc] : document ->
   "\n"-terminated text); everything kustomize itself does in between is modelled (Yaml/Stream.v).
   [stable_doc dec enc n]: n is a well-formed, settled resource; dec (enc n) = n; enc n is a body followed by
   "\n", free of CR, whose body holds no separator candidate — what an `emit_stable` fragment of YAML has to
   guarantee about go-yaml.  The folded-scalar findings are exactly documents that are not stable in this
   sense (dec (enc n) <> n for ">+" scalars; enc (dec (enc n)) <> enc n after a comment). *)

(* the chunks handed to the decoder are exactly the documents a writer wrote *)
Theorem C13_reader_chunks_of_written :
  forall ds,
    ds <> [] ->
    Forall (fun d => exists b, d = add_nl b /\ plain_doc b = true /\ no_cr d = true) ds ->
    reader_chunks (join_docs ds) = Ok ds.
Proof. exact reader_chunks_of_written. Qed.
Print Assumptions C13_reader_chunks_of_written.

(* write (read s) = s, byte for byte, for a stream s of stable documents *)
Theorem C13_text_roundtrip_stable :
  forall (nonstr : string -> bool) (dec : string -> res (option node)) (enc : node -> string) ns,
    ns <> [] -> Forall (stable_doc dec enc) ns ->
    rt_stream nonstr dec enc (join_docs (map enc ns)) = Ok (join_docs (map enc ns)).
Proof. exact rt_stream_stable. Qed.
Print Assumptions C13_text_roundtrip_stable.

(* write (read (write (read s))) = write (read s) whenever the first trip wrote stable documents *)
Theorem C13_text_roundtrip_idempotent :
  forall (nonstr : string -> bool) (dec : string -> res (option node)) (enc : node -> string) s ns0 ns out,
    read_stream nonstr dec s = Ok ns0 ->
    Forall2 (fun n0 n => write_clear n0 = Ok n) ns0 ns -> ns <> [] -> Forall (stable_doc dec enc) ns ->
    rt_stream nonstr dec enc s = Ok out ->
    out = join_docs (map enc ns) /\ rt_stream nonstr dec enc out = Ok out.
Proof. exact rt_stream_idempotent. Qed.
Print Assumptions C13_text_roundtrip_idempotent.

(* ---- LocalPackageReadWriter with its options (Fs/PkgWriter.v: rw_opts, rw_tracked, rw_run_o) ----
   C13_delete_confined at full strength: whatever OmitReaderAnnotations / KeepReaderAnnotations say and whatever
   path annotations the file CONTENTS carry (the reader stamps over them), every path deleted by any Write of
   any sequence is the package path followed by the relative path of a file the reader opened; with
   NoDeleteFiles nothing is deleted at all. *)
Theorem C13_delete_confined_options :
  forall o pc files steps ds p,
    canon_comps pc = true -> Forall (fun pf => rel_canon (fst pf)) files ->
    In (Ok ds) (rw_run_o o (abs_of pc) files steps) -> In p ds ->
    o_nodelete o = false /\
    exists pf cs, In pf files /\ cs <> [] /\ canon_comps cs = true /\ fst pf = join_with sep cs /\ p = abs_of (pc ++ cs)%list.
Proof. exact rw_deletes_confined_options. Qed.
Print Assumptions C13_delete_confined_options.

Theorem C13_nodelete_deletes_nothing :
  forall o pkg files anns ds, o_nodelete o = true -> rw_step_o o pkg files anns = Ok ds -> ds = [].
Proof. exact rw_nodelete_no_deletes. Qed.
Print Assumptions C13_nodelete_deletes_nothing.

(* ---- RNode.DeAnchor (Yaml/Anchor.v: documents with anchors, aliases and merge keys) ---- *)
From KV Require Import Yaml.Anchor Yaml.AnchorProofs.

(* whatever DeAnchor returns has no alias and no anchor … *)
Theorem C13_deanchor_alias_free :
  forall n e, deanchor_doc n = Ok e -> alias_free e = true.
Proof. exact deanchor_doc_alias_free. Qed.
Print Assumptions C13_deanchor_alias_free.

(* … and is therefore a document of the alias-free node type of Yaml/Node.v *)
Theorem C13_deanchor_into_node :
  forall n e, deanchor_doc n = Ok e -> exists x, deanchor n = Ok x.
Proof. exact deanchor_total_on_ok. Qed.
Print Assumptions C13_deanchor_into_node.

(* Full law: "the de-anchored output has no alias, no anchor and no merge key".  Refuted by the faithful model
   (and on the implementation: finding C13/deanchor-chained-merge-key-left): a merge of a mapping that has a
   merge key itself copies that key as an ordinary entry. *)
Theorem C13_deanchor_merge_free_refuted :
  exists e, deanchor_doc chained_merge = Ok e /\ alias_free e = true /\ merge_free e = false.
Proof. exact chained_merge_keeps_merge_key. Qed.
Print Assumptions C13_deanchor_merge_free_refuted.

(* "… and equals the expansion": on documents without merge keys, DeAnchor succeeds exactly when the reference
   expansion (Yaml/Anchor.v: expand — every alias stands for the node that last carried the anchor, anchors
   dropped, no finite expansion for a node that contains itself) exists, and returns it.  Partial: documents
   WITH merge keys are tied to the implementation by correspondence only (D_deanchor cases). *)
Theorem C13_deanchor_equals_expansion_partial :
  forall n e, merge_free n = true -> (deanchor_doc n = Ok e <-> expand_doc n = Some e).
Proof. exact deanchor_equals_expansion. Qed.
Print Assumptions C13_deanchor_equals_expansion_partial.

(* "no alias, no anchor, no merge key" on the domain where it holds: no mapping that can be the source of a
   merge (anchored, or written in place as merge value / item of a merge list) has a merge key itself *)
Theorem C13_deanchor_plain_partial :
  forall n e, flat_merges false n = true -> deanchor_doc n = Ok e -> alias_free e = true /\ merge_free e = true.
Proof. exact deanchor_merge_free_flat. Qed.
Print Assumptions C13_deanchor_plain_partial.
