(* C13 — property theorems only. Every theorem is closed by [exact] of a lemma proved elsewhere. *)
From KV Require Import Yaml.Split Yaml.SplitProofs Yaml.Annot Yaml.AnnotProofs
  Fs.Path Fs.PathProofs Fs.PkgWriter Fs.PkgWriterProofs.

(* splitDocuments loses nothing: the documents, interleaved in order with the separators it cut out,
   are the input (byte for byte). *)
Theorem C13_split_join :
  forall s ds seps, split_documents_full s = Ok (ds, seps) -> interleave ds seps = s.
Proof. exact SplitProofs.split_join. Qed.
Print Assumptions C13_split_join.

(* … and the pieces alternate: n+1 documents around n separators, each separator being "\n---",
   a rest of line that is blank or a comment, and the newline ending it.  Together with
   C13_split_join this fixes the position, hence the order, of every document in the input. *)
Theorem C13_split_order :
  forall s ds seps, split_documents_full s = Ok (ds, seps) -> s <> "" ->
    List.length ds = S (List.length seps) /\ Forall is_separator seps.
Proof. exact split_shape. Qed.
Print Assumptions C13_split_order.

(* no document contains a separator: splitting a (non-empty) document again returns it unchanged *)
Theorem C13_split_no_inner_separator :
  forall s ds seps, split_documents_full s = Ok (ds, seps) ->
    Forall (fun d => d = "" \/ split_documents d = Ok [d]) ds.
Proof. exact split_no_inner. Qed.
Print Assumptions C13_split_no_inner_separator.

(* Annotation round trip — partial.
   Full statement (DESIGN §5 C13): write_clear (read_set i n) = clear_empty_annotations n for every
   resource n that carries none of the reader's keys.  Proved here: the core on the annotation mapping
   itself (set legacy index, set index, then clear index / legacy index / seqindent: the mapping comes
   back, entries and order unchanged).  Missing: the wrapping in metadata (creation of metadata /
   annotations when absent and their removal when left empty), which is covered by the correspondence
   cases A_read / A_write only. *)
Theorem C13_annotations_roundtrip_partial :
  forall (nonstr : string -> bool) akvs v,
    no_reader_keys akvs ->
    (do m1 <- set_field nonstr legacy_index_key (Some (ann_value v)) false (Map akvs);
     do m2 <- set_field nonstr index_key (Some (ann_value v)) false m1;
     do m3 <- clear_field index_key m2;
     do m4 <- clear_field legacy_index_key m3;
     clear_field seqindent_key m4) = Ok (Map akvs).
Proof. exact annotation_map_roundtrip. Qed.
Print Assumptions C13_annotations_roundtrip_partial.

(* Package writes are confined, for ALL path annotation strings (absolute, dot-dot, a/../../b, empty,
   trailing slash, …): an accepted annotation yields the package path followed by good names (non-empty,
   not "." or "..", slash-free). *)
Theorem C13_write_confined :
  forall pc ann p,
    canon_comps pc = true ->
    pkg_out_path (abs_of pc) ann = Ok p ->
    exists rest, canon_comps rest = true /\ p = abs_of (pc ++ rest)%list.
Proof. exact pkg_out_path_confined. Qed.
Print Assumptions C13_write_confined.

(* one resource: the file handed to WriteFile is strictly below the package, the directory handed to
   MkdirAll is the package or below it *)
Theorem C13_write_confined_file_and_dir :
  forall pc ann d f,
    canon_comps pc = true ->
    pkg_write1 (abs_of pc) ann = Ok (d, f) ->
    exists rest, rest <> [] /\ canon_comps rest = true /\
                 f = abs_of (pc ++ rest)%list /\ d = abs_of (pc ++ removelast rest)%list.
Proof. exact pkg_write1_confined. Qed.
Print Assumptions C13_write_confined_file_and_dir.

(* … stated for the path that is actually written, i.e. after kioutil.DefaultPathAndIndexAnnotation:
   copied legacy annotation, or the default path made from metadata.namespace / kind / name when the
   resource has no path annotation — for ALL values of these strings *)
Theorem C13_write_confined_effective_path :
  forall pc (r : pkg_res) d f,
    canon_comps pc = true ->
    pkg_write_res (abs_of pc) r = Ok (d, f) ->
    exists rest, rest <> [] /\ canon_comps rest = true /\
                 f = abs_of (pc ++ rest)%list /\ d = abs_of (pc ++ removelast rest)%list.
Proof. exact pkg_write_res_confined. Qed.
Print Assumptions C13_write_confined_effective_path.

(* a batch is rejected as a whole or all of its targets are inside *)
Theorem C13_write_confined_batch :
  forall pc anns ps,
    canon_comps pc = true ->
    pkg_targets (abs_of pc) anns = Ok ps ->
    Forall (fun p => exists rest, canon_comps rest = true /\ p = abs_of (pc ++ rest)%list) ps.
Proof. exact pkg_targets_confined. Qed.
Print Assumptions C13_write_confined_batch.

(* deletions: only files previously read from the package (and no longer present in the output), each
   of them below the package *)
Theorem C13_delete_confined :
  forall pc read_files new_files p,
    canon_comps pc = true ->
    Forall rel_canon read_files ->
    In p (pkg_delete_set (abs_of pc) read_files new_files) ->
    exists f cs, In f read_files /\ str_in f new_files = false /\
                 cs <> [] /\ canon_comps cs = true /\ p = abs_of (pc ++ cs)%list.
Proof. exact pkg_delete_confined. Qed.
Print Assumptions C13_delete_confined.

(* … over sequences of Writes on ONE LocalPackageReadWriter (refused ones included): the tracked-file set
   is the set read from the package, so every deletion of every step is a read file below the package *)
Theorem C13_delete_confined_sequences :
  forall pc files steps ds p,
    canon_comps pc = true -> Forall rel_canon files ->
    In (Ok ds) (rw_run (abs_of pc) files steps) -> In p ds ->
    exists f cs, In f files /\ cs <> [] /\ canon_comps cs = true /\ p = abs_of (pc ++ cs)%list.
Proof. exact rw_run_deletes_confined. Qed.
Print Assumptions C13_delete_confined_sequences.
