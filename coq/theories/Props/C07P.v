(* C07, whole-build part: theorems over the integrated pipeline model (Res/Pipeline.v: accumulate -> generators ->
   transformers in the generated builtin order -> hash -> name references -> sort -> strip).
   Statements only: every proof is `exact lemma` (lemmas in Res/PipelineProofs.v).
   These theorems extend the coverage of C02, C11, C19, C01 and C07 to whole builds. *)
From KV Require Import Res.Pipeline Res.PipelineProofs Res.PipelineOrderProofs Res.PipelineFrameProofs Res.PipelineGenProofs Res.PipelinePermProofs.
From KV Require Import Res.PipelineWfProofs Res.PipelineFixProofs.
From KV Require Res.Generators Res.Hash.
From KV Require Import Yaml.FieldSpecSpec Yaml.FieldSpecProofs.
From KV Require Res.Labels Res.Hygiene.
From Coq Require Import Sorting.Permutation.


(* ---------- C07: hygiene and id uniqueness ---------- *)

(* every output is the final strip of a document, and the strip leaves none of the kustomize-internal keys
   (the generated list of Res/Hygiene.v) in metadata.annotations - for every document whose metadata does not
   repeat the `annotations` key *)
Theorem PIPE_hygiene :
  forall nonstr o t outs,
    build nonstr o t = Ok outs ->
    exists pre, outs = map strip_node pre /\
      forall n k, In n pre -> annos_once n -> In k Hygiene.internal_keys ->
                  ~ In k (map fst (annos_of (strip_node n))).
Proof. exact build_hygiene. Qed.
Print Assumptions PIPE_hygiene.


(* legacy order: the outputs of a successful build have pairwise distinct ids, unconditionally *)
Theorem PIPE_ids_unique_legacy :
  forall nonstr first last t outs,
    build nonstr (PSortLegacy first last) t = Ok outs -> distinct_node_ids outs.
Proof. exact build_ids_unique_legacy. Qed.
Print Assumptions PIPE_ids_unique_legacy.


(* fifo / no order: distinct whenever the ids are distinct right after the hash suffixes were added
   (the hash step itself can create a clash: C07_ids_unique_hash_refuted) *)
Theorem PIPE_ids_unique_fifo_partial :
  forall nonstr o t outs,
    (o = PSortNone \/ o = PSortFifo) ->
    build nonstr o t = Ok outs ->
    (forall m m1, accumulate nonstr t = Ok m -> mapM (hash_res nonstr) m = Ok m1 -> distinct_ids m1) ->
    distinct_node_ids outs.
Proof. exact build_ids_unique_fifo_partial. Qed.
Print Assumptions PIPE_ids_unique_fifo_partial.


(* ---------- C07_ids_unique over the whole build ---------- *)

(* For every tree of well-formed documents ([tree_wf], Res/PipelineWfProofs.v: the domain of
   PIPE_accumulate_ids_distinct) the outputs of a successful build have pairwise distinct ids, for EVERY sort order and
   without any further hypothesis. The steps done once at the top are covered: the hash suffixes (the HashTransformer
   re-checks the ids it produced since fix 9a490e0: [hash_check]), name references (never touch an identity field),
   IgnoreLocal (only removes) and the sort (legacy: re-Append; otherwise nothing changes). *)
Theorem C07_ids_unique_build :
  forall nonstr o t outs, tree_wf t -> build nonstr o t = Ok outs -> distinct_node_ids outs.
Proof. exact PipelineWfProofs.build_ids_unique_wf. Qed.
Print Assumptions C07_ids_unique_build.

(* the hash step alone: distinct ids in, and the transformer's re-check passed: distinct ids out *)
Theorem C07_ids_unique_hash_step :
  forall nonstr m m1,
    distinct_ids m -> mapM (hash_res nonstr) m = Ok m1 -> hash_check m1 = Ok tt -> distinct_ids m1.
Proof. exact hash_check_distinct. Qed.
Print Assumptions C07_ids_unique_hash_step.

(* what the re-check replaces (model before the fix): with 10-character hashes two hashed names clash only if the names
   did, so the only way the step could break uniqueness was a resource that keeps its name and already carries a
   hashed one *)
Theorem C07_ids_unique_hash_step_unchecked :
  forall nonstr m m1,
    Forall W m -> distinct_ids m -> mapM (hash_res nonstr) m = Ok m1 -> no_plain_clash m1 ->
    Forall W m1 /\ distinct_ids m1.
Proof. exact hash_step_distinct. Qed.
Print Assumptions C07_ids_unique_hash_step_unchecked.


(* ---------- C07_fixpoint over the whole build ---------- *)

(* Building the output of a build again - as a kustomization without directives whose only resources entry is one
   file holding the emitted documents - returns it unchanged:  build (leaf (build t)) = build t,  for EVERY tree
   (no well-formedness needed: IgnoreLocal re-validates).  [pre] are the documents the first build hands to its final
   annotation removal, [map strip_node pre] its output.  Guards:
     * [meta_clean]: metadata has one annotations field with distinct keys (true of every document a YAML parser
       accepts; the node type can represent repeated keys, on which the removal is not idempotent);
     * legacy order: the order decides every pair of outputs with different ids ([node_order_total]; holds for the ids
       C11 calls valid: LegacySortProofs.less_total) - otherwise sort.Sort / insertion sort may permute equal keys;
       fifo / no order: the output ids are pairwise distinct - EXACTLY what the C07 finding (a local-config resource
       named like a hashed generated one) violates, so it cannot be dropped (that no output carries local-config then
       follows: a local-config resource survives IgnoreLocal only by sharing its id with a kept one);
       C07_ids_unique_build discharges it for well-formed trees: C07_fixpoint_build_wf;
     * the name-reference pass of the second build leaves the loaded documents alone (all candidates have an empty
       rename history, so no reference is rewritten; what remains is that the traversal of the reference paths
       neither fails nor promotes a null - not proved in general, stated as a hypothesis).
   Byte level (emitter / parser) is outside the model: oracles on the implementation. *)
Theorem C07_fixpoint_build :
  forall nonstr o t pre rules name,
    build_pre nonstr o t = Ok pre ->
    Forall meta_clean pre ->
    let outs := map strip_node pre in
    (match o with
     | PSortLegacy first last => node_order_total first last outs
     | _ => distinct_node_ids outs
     end) ->
    pipe_rules = Ok rules ->
    nameref_transform pipe_cs nonstr rules (map load outs) = Ok (map load outs) ->
    build nonstr o (leaf name outs) = Ok outs.
Proof. exact build_fixpoint. Qed.
Print Assumptions C07_fixpoint_build.

(* ... for trees of well-formed documents: no guard on the output ids, whatever the order *)
Theorem C07_fixpoint_build_wf :
  forall nonstr o t pre rules name,
    tree_wf t ->
    build_pre nonstr o t = Ok pre ->
    Forall meta_clean pre ->
    let outs := map strip_node pre in
    (match o with
     | PSortLegacy first last => node_order_total first last outs
     | _ => True
     end) ->
    pipe_rules = Ok rules ->
    nameref_transform pipe_cs nonstr rules (map load outs) = Ok (map load outs) ->
    build nonstr o (leaf name outs) = Ok outs.
Proof. exact build_fixpoint_wf. Qed.
Print Assumptions C07_fixpoint_build_wf.

(* [build_pre] is the build up to the final removal *)
Theorem C07_build_pre_spec :
  forall nonstr o t, build nonstr o t = (do pre <- build_pre nonstr o t; Ok (map strip_node pre)).
Proof. exact build_pre_spec. Qed.
Print Assumptions C07_build_pre_spec.

(* the removal is idempotent on documents *)
Theorem C07_strip_node_idempotent :
  forall n, meta_clean n -> strip_node (strip_node n) = strip_node n.
Proof. exact strip_node_idem. Qed.
Print Assumptions C07_strip_node_idempotent.

(* why the name-reference hypothesis of C07_fixpoint_build is mild: a resource read from a file has an empty rename
   history, and against candidates with an empty history Filter.set never rewrites a reference (selectReferral only
   selects a candidate one of whose PREVIOUS ids carries the referenced name) *)
Theorem C07_nameref_history_free_pure :
  forall nonstr x cands n n',
    history_free cands -> nr_set nonstr x cands n = Ok n' -> n' = n.
Proof. exact nr_set_history_free. Qed.
Print Assumptions C07_nameref_history_free_pure.

Theorem C07_loaded_candidates_history_free :
  forall n c, view pipe_cs (load n) = Ok c -> c_prev c = [].
Proof. exact view_loaded. Qed.
Print Assumptions C07_loaded_candidates_history_free.
