(* C07, whole-build part: theorems over the integrated pipeline model (Res/Pipeline.v: accumulate -> generators ->
   transformers in the generated builtin order -> hash -> name references -> sort -> strip).
   Statements only: every proof is `exact lemma` (lemmas in Res/PipelineProofs.v).
   These theorems extend the coverage of C02, C11, C19, C01 and C07 to whole builds. *)
From KV Require Import Res.Pipeline Res.PipelineProofs Res.PipelineOrderProofs Res.PipelineFrameProofs Res.PipelineGenProofs Res.PipelinePermProofs.
From KV Require Res.Generators Res.Hash.
From KV Require Import Yaml.FieldSpecSpec Yaml.FieldSpecProofs.
From KV Require Res.Labels Res.Hygiene.
From Coq Require Import Sorting.Permutation.


(* ---------- C07: hygiene and id uniqueness ---------- *)

(* every output is the final strip of a document, and the strip leaves none of the kustomize-internal keys
   (the generated list of Res/Hygiene.v) in metadata.annotations - for every document whose metadata does not
   repeat the `annotations` key *)
Theorem PIPE_hygiene :
  forall nonstr o t outs,
    build nonstr o t = Ok outs ->
    exists pre, outs = map strip_node pre /\
      forall n k, In n pre -> annos_once n -> In k Hygiene.internal_keys ->
                  ~ In k (map fst (annos_of (strip_node n))).
Proof. exact build_hygiene. Qed.
Print Assumptions PIPE_hygiene.


(* legacy order: the outputs of a successful build have pairwise distinct ids, unconditionally *)
Theorem PIPE_ids_unique_legacy :
  forall nonstr first last t outs,
    build nonstr (PSortLegacy first last) t = Ok outs -> distinct_node_ids outs.
Proof. exact build_ids_unique_legacy. Qed.
Print Assumptions PIPE_ids_unique_legacy.


(* fifo / no order: distinct whenever the ids are distinct right after the hash suffixes were added
   (the hash step itself can create a clash: C07_ids_unique_hash_refuted) *)
Theorem PIPE_ids_unique_fifo_partial :
  forall nonstr o t outs,
    (o = PSortNone \/ o = PSortFifo) ->
    build nonstr o t = Ok outs ->
    (forall m m1, accumulate nonstr t = Ok m -> mapM (hash_res nonstr) m = Ok m1 -> distinct_ids m1) ->
    distinct_node_ids outs.
Proof. exact build_ids_unique_fifo_partial. Qed.
Print Assumptions PIPE_ids_unique_fifo_partial.
