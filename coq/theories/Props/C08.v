(* C08 — labels reach metadata, selectors and templates consistently.
   Property theorems only; every theorem is closed by [exact] of a lemma proved in
   Res/LabelsProofs.v (generic field-spec lists), Res/LabelsGen.v (the GENERATED default tables),
   Res/LabelsChain.v (whole chains) or Res/LabelsTree.v (whole trees).

   Vocabulary (Res/Labels.v): [label_filter nonstr L fss x] = labels.Filter / annotations.Filter with
   labels L and field specs fss on document x; [label_fs tc e] = the field specs the LabelTransformer of
   one `labels` entry is configured with; [sel_of] / [pod_labels_of] = the matchLabels selector / pod
   labels Kubernetes reads for the object's kind; [selects s w] = every requirement of s's selector is met
   by w's pod labels; [apply_chain] = a resource through the directives of its layer chain, innermost first
   (no two locations share a yaml.Node since /repo f5952a1, so this is exact for whole builds). [nonstr] is the go-yaml resolution oracle (any function). *)
From KV Require Import Res.Labels Res.LabelsProofs Res.LabelsGen Res.LabelsTree Res.LabelsChain.

(* ------------------------------------------------------------------------------------------- *)
(* Obligations on the generated tables (vm_compute on Gen/FieldSpecs.v: editing a row in
   api/internal/konfig/builtinpluginconsts changes these statements on the next run)            *)
(* ------------------------------------------------------------------------------------------- *)

(* Whatever is added to a workload's own selector is added to its pod template: every row of the
   common-labels table that ends at the selector of a workload kind has a companion row that ends at the
   pod-template labels, matches at least the same objects and has create=true. *)
Theorem Gen_selector_has_template :
  forall K sp tp fs,
    In (K, Some sp, tp) k8s_workloads -> In fs gen_common_labels_fs ->
    kind_may_match K fs = true -> exactb fs sp = true ->
    exists ft, In ft gen_common_labels_fs /\ covers ft fs = true /\ exactb ft tp = true /\ fs_create ft = true.
Proof. exact gen_selector_has_template. Qed.
Print Assumptions Gen_selector_has_template.

(* ... and conversely every pod-template row of a workload kind is accompanied by a selector row for the
   same objects (so commonLabels never relabel a template while leaving the selector behind). *)
Theorem Gen_template_has_selector : chk_template_has_selector = true.
Proof. exact gen_template_has_selector_b. Qed.
Print Assumptions Gen_template_has_selector.

(* Every row of the four default lists (commonLabels, the two lists of a labels entry without
   includeSelectors, commonAnnotations) that can match one of the 11 kinds is made of plain field names,
   stays clear of kind/apiVersion, and either ends exactly at that kind's selector / pod-label path or
   leaves it at some field (never a prefix or an extension of it, never through a `[]` segment). *)
Theorem Gen_label_rows_wellformed : forallb chk_rows_wf entry_tables = true.
Proof. exact gen_rows_wf. Qed.
Print Assumptions Gen_label_rows_wellformed.

(* The lists of a labels entry without includeSelectors contain no row ending at a selector. *)
Theorem Gen_no_selector_rows : chk_no_selector_rows = true.
Proof. exact gen_no_selector_rows. Qed.
Print Assumptions Gen_no_selector_rows.

(* metadata/labels (metadata/annotations) is a wildcard create=true row of each list and every other row
   leaves it. *)
Theorem Gen_metadata_rows :
  meta_table_ok "metadata/labels" gen_common_labels_fs = true /\
  (forall t, match label_fs default_tc (mkLD [] false t []) with
             | Ok l => meta_table_ok "metadata/labels" l = true
             | _ => False
             end) /\
  meta_table_ok "metadata/annotations" gen_common_annotations_fs = true.
Proof. exact gen_metadata_rows. Qed.
Print Assumptions Gen_metadata_rows.

(* Objects with the apiVersion of a current cluster are covered: a create=true pod-template row and a
   selector row match each of the 8 workload kinds, a selector row matches Service, NetworkPolicy, PDB. *)
Theorem Gen_canonical_covered :
  forall x K g v,
    In (K, (g, v)) k8s_canonical_gv -> obj_kind x = K ->
    parse_group_version (obj_api_version x) = (g, v) ->
    (forall tp, tmpl_path_of x = Some tp -> has_create (path_splitter tp) gen_common_labels_fs x = true) /\
    (forall sp, sel_path_of x = Some sp -> has_exact (path_splitter sp) gen_common_labels_fs x = true).
Proof. exact gen_canonical_covered. Qed.
Print Assumptions Gen_canonical_covered.

(* ------------------------------------------------------------------------------------------- *)
(* One transformer run (exact for a freshly parsed document)                                    *)
(* ------------------------------------------------------------------------------------------- *)

(* commonLabels, or a labels entry with includeSelectors and no custom fields: for all label maps, all
   7 workload kinds with a selector, every apiVersion - a selector that matched its own pod template
   still does. Hypotheses: the document is a mapping and no sequence sits on the pod-label path. *)
Theorem C08_own_selector :
  forall (nonstr : string -> bool) (L : pairs) (w w' : node) (sp tp : string),
    assoc3 (obj_kind w) k8s_workloads = Some (Some sp, tp) ->
    is_map w = true -> no_seq_along (path_splitter tp) w = true ->
    selects w w ->
    label_filter nonstr L gen_common_labels_fs w = Ok w' ->
    selects w' w'.
Proof. exact own_selector_default. Qed.
Print Assumptions C08_own_selector.

(* Full law for labels WITHOUT includeSelectors ("selector_out(w) subset-of templateLabels_out(w)" for
   every tree) is false on the faithful model: includeTemplates overriding a key the selector uses. *)
Theorem C08_own_selector_templates_refuted :
  exists (L : pairs) (fss : list fieldspec) (w w' : node),
    label_fs default_tc (mkLD L false true []) = Ok fss /\
    assoc3 (obj_kind w) k8s_workloads <> None /\ is_map w = true /\
    selects w w /\ label_filter nq L fss w = Ok w' /\ ~ selects w' w'.
Proof. exact own_selector_templates_refuted. Qed.
Print Assumptions C08_own_selector_templates_refuted.

(* What does hold for them: agreement survives when no key overrides a selector requirement with another
   value ([compat]: the key is absent from the selector or required with the very value being set). *)
Theorem C08_own_selector_templates_partial :
  forall (nonstr : string -> bool) (p : pairs) (t : bool) (fss : list fieldspec) (w w' : node) (sp tp : string),
    label_fs default_tc (mkLD p false t []) = Ok fss ->
    assoc3 (obj_kind w) k8s_workloads = Some (Some sp, tp) ->
    is_map w = true -> no_seq_along (path_splitter tp) w = true ->
    (forall kv, In kv p -> compat (fst kv) (snd kv) (sel_of w)) ->
    selects w w ->
    label_filter nonstr p fss w = Ok w' ->
    selects w' w'.
Proof. exact own_selector_nonselector_default. Qed.
Print Assumptions C08_own_selector_templates_partial.

(* With custom `fields` the law fails even with includeSelectors: FsSlice.MergeOne drops a default row
   when a NARROWER custom spec with the same path is present. *)
Theorem C08_own_selector_fields_refuted :
  exists (e : label_dir) (fss : list fieldspec) (w w' : node),
    ld_selectors e = true /\ label_fs default_tc e = Ok fss /\
    assoc3 (obj_kind w) k8s_workloads <> None /\ is_map w = true /\
    selects w w /\ label_filter nq (ld_pairs e) fss w = Ok w' /\ ~ selects w' w'.
Proof. exact own_selector_fields_refuted. Qed.
Print Assumptions C08_own_selector_fields_refuted.

(* Full statement: same_directives s w -> selects s w -> selects (out s) (out w).
   Proved for commonLabels / includeSelectors entries (the same run applied to both objects), for every
   selecting kind and workload kind, under: the workload is covered by a create=true template row
   (Gen_canonical_covered: true for current apiVersions), shape as above, and - only if NO selector row
   matches s's apiVersion - no key overrides a requirement of s. Missing: labels without
   includeSelectors (refuted below). *)
Theorem C08_selects_preserved_partial :
  forall (nonstr : string -> bool) (L : pairs) (s w s' w' : node) (sp tp : string),
    sel_path_of s = Some sp -> tmpl_path_of w = Some tp ->
    is_map w = true -> no_seq_along (path_splitter tp) w = true ->
    has_create (path_splitter tp) gen_common_labels_fs w = true ->
    (has_exact (path_splitter sp) gen_common_labels_fs s = false ->
     forall kv, In kv L -> compat (fst kv) (snd kv) (sel_of s)) ->
    selects s w ->
    label_filter nonstr L gen_common_labels_fs s = Ok s' ->
    label_filter nonstr L gen_common_labels_fs w = Ok w' ->
    selects s' w'.
Proof. exact selects_preserved_default. Qed.
Print Assumptions C08_selects_preserved_partial.

Theorem C08_selects_preserved_refuted :
  exists (L : pairs) (fss : list fieldspec) (s w s' w' : node),
    label_fs default_tc (mkLD L false true []) = Ok fss /\
    sel_path_of s <> None /\ tmpl_path_of w <> None /\
    selects s w /\ label_filter nq L fss s = Ok s' /\ label_filter nq L fss w = Ok w' /\ ~ selects s' w'.
Proof. exact selects_preserved_templates_refuted. Qed.
Print Assumptions C08_selects_preserved_refuted.

(* The generic form behind the three theorems above, for ANY field-spec list (merged custom fields
   included) and two objects going through the same keys: stated with the table-level premises.
   (The former hypotheses [uniform_create] - all matching specs ending at the path carry the same create
   flag, the domain on which the model was tied to the code - are gone with the repair R-setentry-null-scalar.) *)
Theorem C08_selects_preserved_generic :
  forall (nonstr : string -> bool) (sp tp : list string) (fss : list fieldspec) (kvs : pairs) (s w s' w' : node),
    rows_okP sp fss s -> rows_okP tp fss w ->
    is_map w = true -> no_seq_along tp w = true ->
    (has_exact sp fss s = true -> has_create tp fss w = true) ->
    (has_exact sp fss s = false ->
     has_exact tp fss w = false \/ forall kv, In kv kvs -> compat (fst kv) (snd kv) (labels_at sp s)) ->
    sub (labels_at sp s) (labels_at tp w) ->
    keys_pass nonstr fss kvs s = Ok s' -> keys_pass nonstr fss kvs w = Ok w' ->
    sub (labels_at sp s') (labels_at tp w').
Proof. exact selects_preserved_generic_u. Qed.
Print Assumptions C08_selects_preserved_generic.

(* A labels entry without includeSelectors (with or without includeTemplates, no custom fields) leaves
   the selector of every selecting kind untouched - the node read there is the same. *)
Theorem C08_no_selector_change :
  forall (nonstr : string -> bool) (p : pairs) (t : bool) (fss : list fieldspec) (x x' : node) (sp : string),
    label_fs default_tc (mkLD p false t []) = Ok fss ->
    sel_path_of x = Some sp ->
    label_filter nonstr p fss x = Ok x' ->
    get_at (path_splitter sp) x' = get_at (path_splitter sp) x /\ sel_of x' = sel_of x.
Proof. exact no_selector_change_default. Qed.
Print Assumptions C08_no_selector_change.

(* Exact locations, frame: for ANY field-spec list, what is read at a path that every matching field
   spec leaves (instance of the C02 field-spec frame) is unchanged. *)
Theorem C08_exact_locations_frame :
  forall (nonstr : string -> bool) (L : pairs) (fss : list fieldspec) (x x' : node) (qs : list string),
    rows_okb qs fss x = true -> has_exact qs fss x = false ->
    label_filter nonstr L fss x = Ok x' -> get_at qs x' = get_at qs x.
Proof. exact exact_locations_frame. Qed.
Print Assumptions C08_exact_locations_frame.

(* Exact locations, hit: where a matching create=true field spec ends, exactly the labels of the
   directive arrive, in sorted key order, existing keys overwritten in place. *)
Theorem C08_exact_locations_hit :
  forall (nonstr : string -> bool) (L : pairs) (fss : list fieldspec) (x x' : node) (qs : list string),
    rows_okb qs fss x = true ->
    is_map x = true -> no_seq_along qs x = true ->
    has_create qs fss x = true ->
    label_filter nonstr L fss x = Ok x' ->
    labels_at qs x' = upd_all (sort_pairs L) (labels_at qs x).
Proof. exact exact_locations_hit. Qed.
Print Assumptions C08_exact_locations_hit.

Theorem C08_metadata_labels :
  forall (nonstr : string -> bool) (L : pairs) (x x' : node),
    is_map x = true -> no_seq_along ["metadata"; "labels"] x = true ->
    label_filter nonstr L gen_common_labels_fs x = Ok x' ->
    meta_labels_of x' = upd_all (sort_pairs L) (meta_labels_of x).
Proof. exact metadata_labels_default. Qed.
Print Assumptions C08_metadata_labels.

Theorem C08_pod_labels :
  forall (nonstr : string -> bool) (L : pairs) (w w' : node) (tp : string),
    tmpl_path_of w = Some tp -> is_map w = true -> no_seq_along (path_splitter tp) w = true ->
    has_create (path_splitter tp) gen_common_labels_fs w = true ->
    label_filter nonstr L gen_common_labels_fs w = Ok w' ->
    pod_labels_of w' = upd_all (sort_pairs L) (pod_labels_of w).
Proof. exact pod_labels_default. Qed.
Print Assumptions C08_pod_labels.

(* the label set after a chain of runs is the union of the directives, the last writer of a key wins *)
Theorem C08_union_lookup :
  forall (k : string) (l m : pairs),
    lookup k (upd_all l m) = match last_val k l with Some v => Some v | None => lookup k m end.
Proof. exact lookup_upd_all. Qed.
Print Assumptions C08_union_lookup.

(* ------------------------------------------------------------------------------------------- *)
(* Chains of directives and whole trees (default tables, no custom fields)                      *)
(* ------------------------------------------------------------------------------------------- *)

(* How the selector of ANY selecting object (8 workload kinds, Service, NetworkPolicy, PDB) evolves along a
   chain of any length: every key keeps its value (or absence) or takes a value written by commonLabels or
   by a labels entry with includeSelectors of the chain. *)
Theorem C08_selector_evolution :
  forall (nonstr : string -> bool) (ds : list dirs) (x x' : node) (sp : string),
    (forall d, In d ds -> dir_ok d) -> sel_path_of x = Some sp ->
    apply_chain nonstr default_tc ds x = Ok x' ->
    sel_path_of x' = Some sp /\ ev (chain_sel_pairs ds) (sel_of x) (sel_of x').
Proof. exact selector_evolution. Qed.
Print Assumptions C08_selector_evolution.

(* "Labels declared without includeSelectors never alter a selector", for whole chains: a key that no
   commonLabels and no includeSelectors entry of the chain sets is untouched in every selector - however
   many entries without includeSelectors (with or without includeTemplates) and commonAnnotations set it. *)
Theorem C08_no_selector_change_chain :
  forall (nonstr : string -> bool) (ds : list dirs) (x x' : node) (sp k : string),
    (forall d, In d ds -> dir_ok d) -> sel_path_of x = Some sp ->
    apply_chain nonstr default_tc ds x = Ok x' ->
    ~ In k (map fst (chain_sel_pairs ds)) ->
    lookup k (sel_of x') = lookup k (sel_of x).
Proof. exact no_selector_change_chain. Qed.
Print Assumptions C08_no_selector_change_chain.

(* Selector/template agreement after a whole chain; keys may repeat along the chain. Partial only because of
   the documented behaviour refuted above (C08_own_selector_templates_refuted): every pair (k,v) of an entry
   WITHOUT includeSelectors must be compatible with the workload's original selector and agree with every
   value commonLabels / includeSelectors entries of the chain give k ([good]). *)
Theorem C08_own_selector_chain_partial :
  forall (nonstr : string -> bool) (ds : list dirs) (w w' : node) (sp tp : string),
    (forall d, In d ds -> dir_ok d) ->
    (forall d, In d ds -> forall e, In e (d_labels d) -> ld_selectors e = false ->
                          good (sel_of w) (chain_sel_pairs ds) (ld_pairs e)) ->
    assoc3 (obj_kind w) k8s_workloads = Some (Some sp, tp) ->
    is_map w = true -> no_seq_along (path_splitter tp) w = true -> selects w w ->
    apply_chain nonstr default_tc ds w = Ok w' ->
    selects w' w'.
Proof. exact own_selector_chain. Qed.
Print Assumptions C08_own_selector_chain_partial.

(* Whole trees (the function the build correspondence runs): every output resource of [accumulate] is the
   image of a resource of some layer under the directive chain from that layer up to the root. *)
Theorem C08_build_outputs_are_chain_images :
  forall (nonstr : string -> bool) (tc : tconfig) (l : layer) (out : list node),
    accumulate nonstr tc l = Ok out ->
    Forall (fun o => exists r ch, reaches l r ch /\ apply_chain nonstr tc ch r = Ok o) out.
Proof. exact build_outputs_are_chain_images. Qed.
Print Assumptions C08_build_outputs_are_chain_images.

(* the annotation rows end neither at a selector nor at the pod labels of any of the 11 kinds *)
Theorem Gen_annotations_clear : chk_annotations_clear = true.
Proof. exact gen_annotations_clear. Qed.
Print Assumptions Gen_annotations_clear.

(* Who selected whom before a chain still does after it. A selecting object s (workload, Service, NetworkPolicy,
   PDB) and a workload w that go through the SAME chain of directives (any number of layers, keys may repeat, no
   custom fields): if s's selector was met by w's pod labels, it still is. Hypotheses: a selector row of the
   default table matches s and a create=true pod-template row matches w (Gen_canonical_covered: true for current
   apiVersions), w is a mapping without a sequence on its pod-label path, and the pairs of entries WITHOUT
   includeSelectors do not fight s's selector ([good], the complement of the documented-behaviour finding). *)
Theorem C08_selects_preserved_chain_partial :
  forall (nonstr : string -> bool) (ds : list dirs) (s w s' w' : node) (sp tp : string),
    (forall d, In d ds -> dir_ok d) ->
    (forall d, In d ds -> forall e, In e (d_labels d) -> ld_selectors e = false ->
                          good (sel_of s) (chain_sel_pairs ds) (ld_pairs e)) ->
    sel_path_of s = Some sp -> tmpl_path_of w = Some tp ->
    is_map w = true -> no_seq_along (path_splitter tp) w = true ->
    has_exact (path_splitter sp) gen_common_labels_fs s = true ->
    has_create (path_splitter tp) gen_common_labels_fs w = true ->
    selects s w ->
    apply_chain nonstr default_tc ds s = Ok s' -> apply_chain nonstr default_tc ds w = Ok w' ->
    selects s' w'.
Proof. exact selects_preserved_chain. Qed.
Print Assumptions C08_selects_preserved_chain_partial.
