(* C12 - malformed input yields an error, never a panic, exit or hang.
   Property theorems only; every theorem is closed by [exact] of a lemma proved elsewhere.

   PARTIAL BY NATURE. The full statement ("for every tree / byte stream, Run and the YAML readers
   return a result or an error within a time bound") is about go-yaml's parser, regexp, json-patch,
   the Go heap and stack, and about every kustomize function on the build path. What is proved here:
     (1) totality of the modelled kyaml core (PathGetter = walk, fieldspec filter = fs_filter/fs_apply/
         fsslice_apply and the setters used with it) for ALL documents, paths and continuations,
         (walk panics exactly when its continuation does);
     (2) the generated table of explicit panic / fatal / exit / unchecked-assertion sites of the
         packages reachable from api/krusty is covered by the hand-maintained justification list.
   The full statement is still false on the implementation (classes of failing inputs listed in
   findings.d/C12.txt; repaired ones are recorded there as `fixed:` and their witnesses are kept as
   regression inputs); everything else is the business of the mutation search (harness/c12*.go). *)
From KV Require Import Yaml.Fns Yaml.FieldSpec Yaml.TotalityProofs.
From KV Require Import Glob.PanicSiteTypes Glob.PanicAllow Glob.PanicAllowProofs Gen.PanicSites Gen.C12Findings.

(* ---- (1) totality of the kyaml core ------------------------------------------------------- *)

(* walk (PathGetter followed by any continuation k) has no panic of its own: it returns Panic
   EXACTLY when it reaches a node on which k itself panics ([reach] is the continuation-independent
   trace of the traversal). No size bound, any document, any path, creation on or off.
   (Before fix 5cf7cc6 of ElementIndexer there was one more case, "-" on an empty list or null node:
   defect F7c, then exhibited as C12_refuted_last_on_empty.) *)
Theorem C12_total_core_walk_panic_iff :
  forall (A : Type) (k : node -> res (node * A)) (cr : option kind) (ps : list part) (n : node),
    walk cr ps k n = Panic <-> exists x, reach cr ps n = RAt x /\ k x = Panic.
Proof. exact (fun A k cr ps n => walk_panic_iff k cr ps n). Qed.
Print Assumptions C12_total_core_walk_panic_iff.

Theorem C12_total_core_walk_no_panic :
  forall (A : Type) (k : node -> res (node * A)) (cr : option kind) (ps : list part) (n : node),
    (forall x, k x <> Panic) -> walk cr ps k n <> Panic.
Proof. exact (fun A k cr ps n => walk_never_panics k cr ps n). Qed.
Print Assumptions C12_total_core_walk_no_panic.

(* walk has no loop of its own: it returns Diverge only by handing on a Diverge of k *)
Theorem C12_total_core_walk_no_diverge :
  forall (A : Type) (k : node -> res (node * A)) (cr : option kind) (ps : list part) (n : node),
    (forall x, k x <> Diverge) -> walk cr ps k n <> Diverge.
Proof. exact (fun A k cr ps n => walk_never_diverges k cr ps n). Qed.
Print Assumptions C12_total_core_walk_no_diverge.

(* yaml.Lookup(path...) and yaml.LookupCreate(kind, path...) never panic and never diverge *)
Theorem C12_total_core_lookup_no_panic :
  forall (ps : list part) (n : node), lookup ps n <> Panic.
Proof. exact lookup_never_panics. Qed.
Print Assumptions C12_total_core_lookup_no_panic.

Theorem C12_total_core_lookup_no_diverge :
  forall (ps : list part) (n : node), lookup ps n <> Diverge.
Proof. exact lookup_never_diverges. Qed.
Print Assumptions C12_total_core_lookup_no_diverge.

Theorem C12_total_core_lookup_create_no_panic :
  forall (leaf : kind) (ps : list part) (n : node), lookup_create leaf ps n <> Panic.
Proof. exact lookup_create_never_panics. Qed.
Print Assumptions C12_total_core_lookup_create_no_panic.

Theorem C12_total_core_lookup_create_no_diverge :
  forall (leaf : kind) (ps : list part) (n : node), lookup_create leaf ps n <> Diverge.
Proof. exact lookup_create_never_diverges. Qed.
Print Assumptions C12_total_core_lookup_create_no_diverge.

(* the field-spec filter (fieldspec.Filter.filter / handleMap / handleSequence) never panics and
   never diverges, for every document, field-spec path, create flag and create kind, provided the
   SetValue callback does not *)
Theorem C12_total_core_fs_filter_no_panic :
  forall (ck : option kind) (ct : tag) (sv : node -> res node),
    (forall n, sv n <> Panic) ->
    forall create path obj, fs_filter ck ct sv create path obj <> Panic.
Proof. exact fs_filter_no_panic. Qed.
Print Assumptions C12_total_core_fs_filter_no_panic.

Theorem C12_total_core_fs_filter_no_diverge :
  forall (ck : option kind) (ct : tag) (sv : node -> res node),
    (forall n, sv n <> Diverge) ->
    forall create path obj, fs_filter ck ct sv create path obj <> Diverge.
Proof. exact fs_filter_no_diverge. Qed.
Print Assumptions C12_total_core_fs_filter_no_diverge.

(* fsslice.Filter over a whole generated field-spec table *)
Theorem C12_total_core_fsslice_no_panic :
  forall (ck : option kind) (ct : tag) (sv : node -> res node),
    (forall n, sv n <> Panic) ->
    forall l obj, fsslice_apply ck ct sv l obj <> Panic.
Proof. exact fsslice_apply_no_panic. Qed.
Print Assumptions C12_total_core_fsslice_no_panic.

Theorem C12_total_core_fsslice_no_diverge :
  forall (ck : option kind) (ct : tag) (sv : node -> res node),
    (forall n, sv n <> Diverge) ->
    forall l obj, fsslice_apply ck ct sv l obj <> Diverge.
Proof. exact fsslice_apply_no_diverge. Qed.
Print Assumptions C12_total_core_fsslice_no_diverge.

(* the SetValue callbacks kustomize uses (FieldSetter / FieldClearer) meet those hypotheses *)
Theorem C12_total_core_setters :
  forall nonstr name v keep vs n,
    (set_field nonstr name v keep n <> Panic /\ set_field nonstr name v keep n <> Diverge) /\
    (set_scalar vs n <> Panic /\ set_scalar vs n <> Diverge) /\
    (clear_field name n <> Panic /\ clear_field name n <> Diverge).
Proof.
  exact (fun nonstr name v keep vs n =>
           conj (set_field_total nonstr name v keep n)
                (conj (set_scalar_total vs n) (clear_field_total name n))).
Qed.
Print Assumptions C12_total_core_setters.

(* FULL STATEMENT (C12_no_panic of DESIGN section 5, NOT proved and false on the pinned tree):
     forall T, build T <> Panic /\ build T <> Diverge        (T: any file tree; build = krusty.Run)
     forall b, read b  <> Panic /\ read b  <> Diverge        (b: any byte stream; read = the YAML readers)
   What is missing: a model of the build pipeline and of go-yaml. What does hold, with no hypothesis
   left: the field-spec filter with kustomize's own setters, over any field-spec list, document and
   path, and Lookup / LookupCreate on any path, neither panic nor diverge. *)
Theorem C12_no_panic_partial :
  (forall nonstr ck ct name v keep create path obj,
      let r := fs_filter ck ct (set_field nonstr name v keep) create path obj in r <> Panic /\ r <> Diverge) /\
  (forall ck ct v create path obj,
      let r := fs_filter ck ct (set_scalar v) create path obj in r <> Panic /\ r <> Diverge) /\
  (forall nonstr ck ct name v keep l obj,
      let r := fsslice_apply ck ct (set_field nonstr name v keep) l obj in r <> Panic /\ r <> Diverge) /\
  (forall ps n, lookup ps n <> Panic /\ lookup ps n <> Diverge) /\
  (forall leaf ps n, lookup_create leaf ps n <> Panic /\ lookup_create leaf ps n <> Diverge).
Proof. exact core_total_summary. Qed.
Print Assumptions C12_no_panic_partial.

(* ---- (2) explicit panic / fatal / exit / unchecked-assertion sites ---------------------------- *)

(* every site the translator finds in the current source is classified and justified in
   Glob/PanicAllow.v: a new unchecked assertion or panic in the build path breaks this theorem *)
Theorem Gen_panic_sites_ok :
  forall s, In s gen_panic_sites ->
    s_kind s <> SkOther /\
    ((exists j, In (s_pkg s, j) panic_allow_pkgs) \/
     (exists j, In (mkAllow s j) panic_allow)).
Proof. exact panic_sites_justified. Qed.
Print Assumptions Gen_panic_sites_ok.

(* the KnownFinding justifications name documented findings *)
Theorem Gen_panic_known_findings_listed :
  forallb (fun c => str_in c gen_c12_finding_classes) (known_classes panic_allow) = true.
Proof. exact panic_known_findings_listed. Qed.
Print Assumptions Gen_panic_known_findings_listed.

(* on the tree as found no allow-list entry is left over from a site that no longer exists *)
Theorem Gen_panic_allow_stale_now :
  stale_entries gen_panic_sites panic_allow = [].
Proof. exact panic_allow_not_stale. Qed.
Print Assumptions Gen_panic_allow_stale_now.

(* the generated table really contains the sites the property text names *)
Theorem Gen_panic_sites_nonvacuous :
  existsb (site_eqb site_csv_annotation_panic) gen_panic_sites = true /\
  existsb (site_eqb site_previds_panic) gen_panic_sites = true /\
  20 <= List.length gen_panic_sites /\ 40 <= List.length gen_panic_pkgs.
Proof. exact panic_sites_nonempty. Qed.
Print Assumptions Gen_panic_sites_nonvacuous.
