(* C12 - malformed input yields an error, never a panic, exit or hang.
   Property theorems only; every theorem is closed by [exact] of a lemma proved elsewhere.

   PARTIAL BY NATURE. The full statement ("for every tree / byte stream, Run and the YAML readers
   return a result or an error within a time bound") is about go-yaml's parser, regexp, json-patch,
   the Go heap and stack, and about every kustomize function on the build path. What is proved here:
     (1) totality of the modelled kyaml core (PathGetter = walk, fieldspec filter = fs_filter/fs_apply/
         fsslice_apply and the setters used with it) for ALL documents, paths and continuations,
         (walk panics exactly when its continuation does);
     (2) the generated table of explicit panic / fatal / exit / unchecked-assertion sites of the
         packages reachable from api/krusty is covered by the hand-maintained justification list.
   The full statement is still false on the implementation (classes of failing inputs listed in
   findings.d/C12.txt; repaired ones are recorded there as `fixed:` and their witnesses are kept as
   regression inputs); everything else is the business of the mutation search (harness/c12*.go). *)
From KV Require Import Yaml.Fns Yaml.FieldSpec Yaml.TotalityProofs.
From KV Require Import Glob.PanicSiteTypes Glob.PanicAllow Glob.PanicAllowProofs Gen.PanicSites Gen.C12Findings.
From KV Require Import Glob.TotalityMore.
From KV Require Glob.TotalityWalker Glob.TotalityNameRef Res.NameRefProofs Res.NameRefTypes.
From KV Require Res.BuildAnnot Glob.TotalityBuildAnnot Glob.OpenApiState.
From KV Require Import Gen.Annotations.
From KV Require Import Glob.ModelPanicMap Glob.ModelPanicMapProofs Gen.C12ModelPanics.
From KV Require Yaml.Split Yaml.Annot Yaml.Match Yaml.MatchProofs Yaml.MatchTotalProofs Fs.MemFs Fs.DiskFs Fs.DiskFsProofs
     Fs.Loader Res.Resource Res.Labels Res.Namespace Res.Generators Res.NameRef
     Yaml.Walk Yaml.Merge2 Yaml.Merge2Proofs Yaml.Merge3 Yaml.Merge3Proofs Yaml.Fmt Yaml.FmtProofs.

(* ---- (1) totality of the kyaml core ------------------------------------------------------- *)

(* walk (PathGetter followed by any continuation k) has no panic of its own: it returns Panic
   EXACTLY when it reaches a node on which k itself panics ([reach] is the continuation-independent
   trace of the traversal). No size bound, any document, any path, creation on or off.
   (Before fix 5cf7cc6 of ElementIndexer there was one more case, "-" on an empty list or null node:
   defect F7c, then exhibited as C12_refuted_last_on_empty.) *)
Theorem C12_total_core_walk_panic_iff :
  forall (A : Type) (k : node -> res (node * A)) (cr : option kind) (ps : list part) (n : node),
    walk cr ps k n = Panic <-> exists x, reach cr ps n = RAt x /\ k x = Panic.
Proof. exact (fun A k cr ps n => walk_panic_iff k cr ps n). Qed.
Print Assumptions C12_total_core_walk_panic_iff.

Theorem C12_total_core_walk_no_panic :
  forall (A : Type) (k : node -> res (node * A)) (cr : option kind) (ps : list part) (n : node),
    (forall x, k x <> Panic) -> walk cr ps k n <> Panic.
Proof. exact (fun A k cr ps n => walk_never_panics k cr ps n). Qed.
Print Assumptions C12_total_core_walk_no_panic.

(* walk has no loop of its own: it returns Diverge only by handing on a Diverge of k *)
Theorem C12_total_core_walk_no_diverge :
  forall (A : Type) (k : node -> res (node * A)) (cr : option kind) (ps : list part) (n : node),
    (forall x, k x <> Diverge) -> walk cr ps k n <> Diverge.
Proof. exact (fun A k cr ps n => walk_never_diverges k cr ps n). Qed.
Print Assumptions C12_total_core_walk_no_diverge.

(* yaml.Lookup(path...) and yaml.LookupCreate(kind, path...) never panic and never diverge *)
Theorem C12_total_core_lookup_no_panic :
  forall (ps : list part) (n : node), lookup ps n <> Panic.
Proof. exact lookup_never_panics. Qed.
Print Assumptions C12_total_core_lookup_no_panic.

Theorem C12_total_core_lookup_no_diverge :
  forall (ps : list part) (n : node), lookup ps n <> Diverge.
Proof. exact lookup_never_diverges. Qed.
Print Assumptions C12_total_core_lookup_no_diverge.

Theorem C12_total_core_lookup_create_no_panic :
  forall (leaf : kind) (ps : list part) (n : node), lookup_create leaf ps n <> Panic.
Proof. exact lookup_create_never_panics. Qed.
Print Assumptions C12_total_core_lookup_create_no_panic.

Theorem C12_total_core_lookup_create_no_diverge :
  forall (leaf : kind) (ps : list part) (n : node), lookup_create leaf ps n <> Diverge.
Proof. exact lookup_create_never_diverges. Qed.
Print Assumptions C12_total_core_lookup_create_no_diverge.

(* the field-spec filter (fieldspec.Filter.filter / handleMap / handleSequence) never panics and
   never diverges, for every document, field-spec path, create flag and create kind, provided the
   SetValue callback does not *)
Theorem C12_total_core_fs_filter_no_panic :
  forall (ck : option kind) (ct : tag) (sv : node -> res node),
    (forall n, sv n <> Panic) ->
    forall create path obj, fs_filter ck ct sv create path obj <> Panic.
Proof. exact fs_filter_no_panic. Qed.
Print Assumptions C12_total_core_fs_filter_no_panic.

Theorem C12_total_core_fs_filter_no_diverge :
  forall (ck : option kind) (ct : tag) (sv : node -> res node),
    (forall n, sv n <> Diverge) ->
    forall create path obj, fs_filter ck ct sv create path obj <> Diverge.
Proof. exact fs_filter_no_diverge. Qed.
Print Assumptions C12_total_core_fs_filter_no_diverge.

(* fsslice.Filter over a whole generated field-spec table *)
Theorem C12_total_core_fsslice_no_panic :
  forall (ck : option kind) (ct : tag) (sv : node -> res node),
    (forall n, sv n <> Panic) ->
    forall l obj, fsslice_apply ck ct sv l obj <> Panic.
Proof. exact fsslice_apply_no_panic. Qed.
Print Assumptions C12_total_core_fsslice_no_panic.

Theorem C12_total_core_fsslice_no_diverge :
  forall (ck : option kind) (ct : tag) (sv : node -> res node),
    (forall n, sv n <> Diverge) ->
    forall l obj, fsslice_apply ck ct sv l obj <> Diverge.
Proof. exact fsslice_apply_no_diverge. Qed.
Print Assumptions C12_total_core_fsslice_no_diverge.

(* the SetValue callbacks kustomize uses (FieldSetter / FieldClearer) meet those hypotheses *)
Theorem C12_total_core_setters :
  forall nonstr name v keep vs n,
    (set_field nonstr name v keep n <> Panic /\ set_field nonstr name v keep n <> Diverge) /\
    (set_scalar vs n <> Panic /\ set_scalar vs n <> Diverge) /\
    (clear_field name n <> Panic /\ clear_field name n <> Diverge).
Proof.
  exact (fun nonstr name v keep vs n =>
           conj (set_field_total nonstr name v keep n)
                (conj (set_scalar_total vs n) (clear_field_total name n))).
Qed.
Print Assumptions C12_total_core_setters.

(* FULL STATEMENT (C12_no_panic of DESIGN section 5, NOT proved and false on the pinned tree):
     forall T, build T <> Panic /\ build T <> Diverge        (T: any file tree; build = krusty.Run)
     forall b, read b  <> Panic /\ read b  <> Diverge        (b: any byte stream; read = the YAML readers)
   What is missing: a model of the build pipeline and of go-yaml. What does hold, with no hypothesis
   left: the field-spec filter with kustomize's own setters, over any field-spec list, document and
   path, and Lookup / LookupCreate on any path, neither panic nor diverge. *)
Theorem C12_no_panic_partial :
  (forall nonstr ck ct name v keep create path obj,
      let r := fs_filter ck ct (set_field nonstr name v keep) create path obj in r <> Panic /\ r <> Diverge) /\
  (forall ck ct v create path obj,
      let r := fs_filter ck ct (set_scalar v) create path obj in r <> Panic /\ r <> Diverge) /\
  (forall nonstr ck ct name v keep l obj,
      let r := fsslice_apply ck ct (set_field nonstr name v keep) l obj in r <> Panic /\ r <> Diverge) /\
  (forall ps n, lookup ps n <> Panic /\ lookup ps n <> Diverge) /\
  (forall leaf ps n, lookup_create leaf ps n <> Panic /\ lookup_create leaf ps n <> Diverge).
Proof. exact core_total_summary. Qed.
Print Assumptions C12_no_panic_partial.

(* ---- (1b) the other properties' models (Glob/TotalityMore.v; owners' files imported, not copied) ---
   [safe r] := r <> Panic /\ r <> Diverge  (the function returns Ok or Err).
   FULL = for all inputs, no hypothesis. PARTIAL = under the stated hypothesis, or only one of the two
   outcomes excluded. Where the faithful model panics / diverges, the exact condition and its finding. *)

(* FULL. splitDocuments and ByteReader's chunking (Yaml/Split.v, C13), any byte string *)
Theorem C12_total_core_split_documents :
  forall s, safe (Split.split_documents_full s) /\ safe (Split.split_documents s) /\ safe (Split.reader_chunks s).
Proof. exact (fun s => conj (safe_split_documents_full s) (conj (safe_split_documents s) (safe_reader_chunks s))). Qed.
Print Assumptions C12_total_core_split_documents.

(* FULL. the reader / writer annotation helpers (Yaml/Annot.v, C13), any node incl. ill-typed metadata *)
Theorem C12_total_core_annotations :
  forall nonstr k v i n,
    safe (Annot.set_annotation nonstr k v n) /\ safe (Annot.clear_annotation k n) /\
    safe (Annot.clear_empty_annotations n) /\ safe (Annot.read_set nonstr i n) /\ safe (Annot.write_clear n).
Proof.
  exact (fun nonstr k v i n =>
           conj (safe_set_annotation nonstr k v n) (conj (safe_clear_annotation k n)
           (conj (safe_clear_empty_annotations n) (conj (safe_read_set nonstr i n) (safe_write_clear n))))).
Qed.
Print Assumptions C12_total_core_annotations.

(* FULL (Panic). PathMatcher (Yaml/Match.v, C10) never panics: any path, document, Create kind, retry
   budget, regexp compiler and encoder *)
Theorem C12_total_core_match_no_panic :
  forall parse enc nonstr create fuel path n, Match.pm parse enc nonstr create fuel path n <> Panic.
Proof. exact pm_no_panic. Qed.
Print Assumptions C12_total_core_match_no_panic.

(* FULL without Create: Ok or Err with one unit of fuel (Diverge part: owner lemma pm_nocreate_total) *)
Theorem C12_total_core_match_nocreate :
  forall parse enc nonstr fuel path n, safe (Match.pm parse enc nonstr None (S fuel) path n).
Proof. exact safe_pm_nocreate. Qed.
Print Assumptions C12_total_core_match_nocreate.

(* FULL with Create, since /repo fix a578c9a (owner theorem MatchTotalProofs.pm_total): doSeq's second search
   that finds nothing is an error, so two units of fuel suffice for every path, document and Create kind *)
Theorem C12_total_core_match_create :
  forall parse enc nonstr create fuel path n,
    safe (Match.pm parse enc nonstr create (S (S fuel)) path n).
Proof.
  exact (fun parse enc nonstr create fuel path n =>
           conj (pm_no_panic parse enc nonstr create (S (S fuel)) path n)
                (MatchTotalProofs.pm_total parse enc nonstr create fuel path n)).
Qed.
Print Assumptions C12_total_core_match_create.

(* regression of finding F6 (hang in PathMatcher.doSeq, repaired by a578c9a): the former witness
   spec.containers.[name=^zz$].image with Create now returns an error at every fuel >= 2 (owner lemma) *)
Theorem C12_match_create_former_hang_is_error :
  forall fuel, Match.pm MatchProofs.zz_parse node_value (fun _ => false) (Some KScalar) (S (S fuel))
                        MatchProofs.zz_path MatchProofs.zz_doc = Err.
Proof. exact MatchProofs.match_unmatched_create_is_error. Qed.
Print Assumptions C12_match_create_former_hang_is_error.

(* FULL. the in-memory file system (Fs/MemFs.v, C05) and symlink resolution of the on-disk one
   (Fs/DiskFs.v: explicit budget of 255 links, exhaustion is the ELOOP error - owner lemma) *)
Theorem C12_total_core_fs :
  forall mroot droot cwd p b stk todo,
    safe (MemFs.m_cleaned_abs mroot p) /\ safe (MemFs.m_read_file mroot p) /\
    safe (DiskFs.eval_links droot b stk todo) /\ safe (DiskFs.eval_symlinks droot p) /\
    safe (DiskFs.d_read_file droot cwd p) /\ DiskFs.d_cleaned_abs droot cwd p <> Diverge.
Proof.
  exact (fun mroot droot cwd p b stk todo =>
           conj (safe_m_cleaned_abs mroot p) (conj (safe_m_read_file mroot p)
           (conj (safe_eval_links droot b stk todo) (conj (safe_eval_symlinks droot p)
           (conj (safe_d_read_file droot cwd p) (d_cleaned_abs_no_diverge droot cwd p)))))).
Qed.
Print Assumptions C12_total_core_fs.

(* PARTIAL. fsOnDisk.CleanedAbs: its three log.Fatalf branches are dead when the tree is well formed
   and its root is a directory (owner lemma d_cleaned_abs_spec); justifies the three Unreachable
   entries of Glob/PanicAllow.v for kyaml/filesys fsOnDisk.CleanedAbs *)
Theorem C12_disk_cleaned_abs_partial :
  forall root cwd p, DiskFsProofs.is_dir_node root -> DiskFs.wf_dnode root = true ->
    safe (DiskFs.d_cleaned_abs root cwd p).
Proof. exact safe_d_cleaned_abs. Qed.
Print Assumptions C12_disk_cleaned_abs_partial.

(* FULL over the in-memory file system / PARTIAL (well-formed tree) over the disk: FileLoader.Load,
   FileLoader.New, loader.NewLoader (Fs/Loader.v, C05). The remote fetch and the git cloner are
   parameters, assumed safe (they are outside the property: OutOfScope) *)
Theorem C12_total_core_loader_mem :
  forall remote http_get is_repo git_new,
    (forall p, safe (http_get p)) -> (forall l p, safe (git_new l p)) ->
    forall root l p r target,
      safe (Loader.load remote http_get (Loader.mem_ops root) l p) /\
      safe (Loader.new_root is_repo git_new (Loader.mem_ops root) l p) /\
      safe (Loader.new_loader is_repo git_new (Loader.mem_ops root) r target).
Proof. exact safe_loader_mem. Qed.
Print Assumptions C12_total_core_loader_mem.

Theorem C12_loader_disk_partial :
  forall remote http_get is_repo git_new,
    (forall p, safe (http_get p)) -> (forall l p, safe (git_new l p)) ->
    forall root cwd l p r target,
      DiskFsProofs.is_dir_node root -> DiskFs.wf_dnode root = true ->
      safe (Loader.load remote http_get (Loader.disk_ops root cwd) l p) /\
      safe (Loader.new_root is_repo git_new (Loader.disk_ops root cwd) l p) /\
      safe (Loader.new_loader is_repo git_new (Loader.disk_ops root cwd) r target).
Proof. exact safe_loader_disk. Qed.
Print Assumptions C12_loader_disk_partial.

(* EXACT. Resource.PrevIds (Res/Resource.v, C03) panics exactly when the three CSV build annotations
   have different numbers of entries = finding F7a (PrevIds explicit-number-of-previous); never Diverge *)
Theorem C12_prev_ids_panic_iff :
  forall r,
    (Resource.prev_ids r = Panic <->
     exists s, Resource.r_pnames r = Some s /\
       (Nat.eqb (List.length (split_on ","%char s)) (List.length (split_on ","%char (Resource.or_empty (Resource.r_pnss r)))) &&
        Nat.eqb (List.length (split_on ","%char s)) (List.length (split_on ","%char (Resource.or_empty (Resource.r_pkinds r))))) = false)
    /\ Resource.prev_ids r <> Diverge.
Proof. exact (fun r => conj (prev_ids_panic_iff r) (prev_ids_no_diverge r)). Qed.
Print Assumptions C12_prev_ids_panic_iff.

(* witness of F7a: the previous name "a,b" (replayed by corpus/C12/f7a-name-with-comma-prefix.json) *)
Theorem C12_refuted_prev_ids_comma : exists r, Resource.prev_ids r = Panic.
Proof. exact prev_ids_comma_witness. Qed.
Print Assumptions C12_refuted_prev_ids_comma.

(* FULL. labels / annotations filter and transformer (Res/Labels.v, C08) *)
Theorem C12_total_core_label_filter :
  forall nonstr labels fss obj rs,
    safe (Labels.label_filter nonstr labels fss obj) /\ safe (Labels.run_label_transformer nonstr labels fss rs).
Proof. exact (fun nonstr labels fss obj rs => conj (safe_label_filter nonstr labels fss obj) (safe_run_label_transformer nonstr labels fss rs)). Qed.
Print Assumptions C12_total_core_label_filter.

(* FULL. namespace filter incl. the role-binding subjects hack, and the transformer (Res/Namespace.v, C09) *)
Theorem C12_total_core_ns_filter :
  forall t c obj rs, safe (Namespace.ns_filter t c obj) /\ safe (Namespace.ns_transform t c rs).
Proof. exact (fun t c obj rs => conj (safe_ns_filter t c obj) (safe_ns_transform t c rs)). Qed.
Print Assumptions C12_total_core_ns_filter.

(* FULL for the model (Res/Generators.v, C06): appendReplaceOrMerge / AbsorbAll. The model keeps data as
   string dictionaries, so the two SetDataMap / SetBinaryDataMap log.Fatal findings (non-string data
   key + behavior: merge) are OUTSIDE it *)
Theorem C12_total_core_absorb :
  forall rm r l, safe (Generators.absorb rm r) /\ safe (Generators.absorb_all rm l).
Proof. exact (fun rm r l => conj (safe_absorb rm r) (safe_absorb_all l rm)). Qed.
Print Assumptions C12_total_core_absorb.

(* FULL. Filter.selectReferral (Res/NameRef.v, C03) *)
Theorem C12_total_core_select_referral :
  forall x old l identical, safe (NameRef.select_referral x old l identical).
Proof. exact safe_select_referral. Qed.
Print Assumptions C12_total_core_select_referral.

(* FULL. merge2 / merge3 on the generic walker (Yaml/Walk.v, C04 / C15): Ok or Err at the canonical fuel,
   for every schema, option set and documents. Diverge: owner theorems. Panic (Glob/TotalityWalker.v): the
   only Panic constructor of the walker - appendListNode indexing keys[0] of an empty key list - is dead:
   validateKeys returns a non-empty list for a non-empty one, every value tuple the associative-list loop
   visits is non-empty (elementValues / elementPrimitiveValues / mergeValues), and the key list is never
   empty when that loop runs; the walker itself never panics at ANY fuel *)
Theorem C12_merge2_no_panic :
  forall (Sc : Type) (sch : Walk.schema Sc) (opts : Walk.wopts) (nonstr : string -> bool) (patch target : option node),
    Merge2.merge2 sch opts nonstr patch target <> Panic.
Proof. exact (@TotalityWalker.merge2_no_panic). Qed.
Print Assumptions C12_merge2_no_panic.

Theorem C12_merge3_no_panic :
  forall (Sc : Type) (sch : Walk.schema Sc) (opts : Walk.wopts) (nonstr : string -> bool) (l o u : option node),
    Merge3.merge3 sch opts nonstr l o u <> Panic.
Proof. exact (@TotalityWalker.merge3_no_panic). Qed.
Print Assumptions C12_merge3_no_panic.

Theorem C12_total_core_merge :
  forall (Sc : Type) (sch : Walk.schema Sc) (opts : Walk.wopts) (nonstr : string -> bool) (a b c : option node),
    safe (Merge2.merge2 sch opts nonstr a b) /\ safe (Merge3.merge3 sch opts nonstr a b c).
Proof.
  exact (fun Sc sch opts nonstr a b c =>
           conj (conj (@TotalityWalker.merge2_no_panic Sc sch opts nonstr a b) (@Merge2Proofs.merge2_no_diverge Sc sch opts nonstr a b))
                (conj (@TotalityWalker.merge3_no_panic Sc sch opts nonstr a b c) (@Merge3Proofs.merge3_no_diverge Sc sch opts nonstr a b c))).
Qed.
Print Assumptions C12_total_core_merge.

(* nameReferenceTransformer.Transform (Res/NameRef.v, C03; Glob/TotalityNameRef.v). The model has exactly two
   Panic sources: (P1) Resource.PrevIds on CSV annotations of unequal length = finding F7a; (P2) FieldSetter with
   an empty StringValue = a selected candidate whose name is empty (no finding: GetValidatedMetadata rejects an
   empty metadata.name when a resource is loaded).
     - never Diverge, no hypothesis;
     - P1 anywhere in the list IS a panic (exact);
     - without P1 and P2 the transformer is safe, for every rule table that does not write the identity fields
       ([rule_ok]; the generated table satisfies it: C03Facts.gen_rule_ok). PARTIAL in that P2 is excluded by the
       hypothesis on names rather than characterised (which candidate gets selected is data dependent) *)
Theorem C12_total_core_nameref_transform :
  forall cs nonstr rules m,
    NameRef.nameref_transform cs nonstr rules m <> Diverge /\
    ((exists r, In r m /\ Resource.prev_ids r = Panic) -> NameRef.nameref_transform cs nonstr rules m = Panic) /\
    ((forall b f, In b rules -> In f (NameRefTypes.nb_referrers b) -> NameRefProofs.rule_ok f) ->
     (forall r, In r m -> Resource.prev_ids r <> Panic) ->
     (forall r, In r m -> Resource.get_name (Resource.r_node r) <> "") ->
     safe (NameRef.nameref_transform cs nonstr rules m)).
Proof.
  exact (fun cs nonstr rules m =>
           conj (TotalityNameRef.nameref_transform_no_diverge cs nonstr rules m)
                (conj (TotalityNameRef.nameref_transform_panics_on_bad_csv cs nonstr rules m)
                      (TotalityNameRef.nameref_transform_safe cs nonstr rules m))).
Qed.
Print Assumptions C12_total_core_nameref_transform.

(* FULL since /repo fix d64b8e2 (owner theorem re-exported). the formatter (Yaml/Fmt.v, C20) returns Ok on every
   node, schema and path, whatever the sort function; the model has no fuel, so it cannot Diverge *)
Theorem C12_total_core_fmt_node :
  forall nonstr hastype kind api srt n s p,
    exists n', Fmt.fmt_node nonstr hastype srt kind api s p n = Ok n'.
Proof. exact FmtProofs.fmt_no_panic. Qed.
Print Assumptions C12_total_core_fmt_node.

(* ---- (1b') exact triggers of the remaining finding classes, over their models ---------------------------
   PrevIds: C12_prev_ids_panic_iff above. SetDataMap / SetBinaryDataMap (non-string data key + generator merge):
   no model carries non-string keys (Res/Generators.v keeps data as string dictionaries) - search only.
   The three explicit-wrong-node-kind classes: model Res/BuildAnnot.v (GetAnnotations reads Content in pairs,
   SetAnnotations clears the first annotations field and fills what LookupCreate finds next, SetAnnotation is
   Yaml/Annot.v), tied to api/resource.Resource.AddNamePrefix / AllowNameChange / RemoveBuildAnnotations by the
   outcome-class correspondence (core cases `build-annotation-methods`). Domain: root mapping whose first metadata
   field is a non-empty mapping (what GetValidatedMetadata lets through). *)

(* class panic:api/resource Resource.enable explicit-wrong-node-kind *)
Theorem C12_enable_panic_iff :
  forall key n,
    (BuildAnnot.enable key n = Panic <->
     BuildAnnot.set_annotations_fails (BuildAnnot.get_annotations n ++ [(key, K_utils_Enabled)])%list n = true) /\
    BuildAnnot.enable key n <> Diverge.
Proof. exact (fun key n => conj (TotalityBuildAnnot.enable_panic_iff key n) (TotalityBuildAnnot.enable_no_diverge key n)). Qed.
Print Assumptions C12_enable_panic_iff.

(* ... which, when metadata has ONE annotations field, is: some annotation has the empty key text ("": x, or a
   non-scalar / empty element in key position of a list) *)
Theorem C12_enable_panic_iff_unique :
  forall key n, key <> "" -> BuildAnnot.shadow_field n = None ->
    (BuildAnnot.enable key n = Panic <-> BuildAnnot.has_key "" (BuildAnnot.get_annotations n) = true).
Proof. exact (TotalityBuildAnnot.enable_panic_iff_unique (fun _ => false)). Qed.
Print Assumptions C12_enable_panic_iff_unique.

(* class panic:api/resource Resource.RemoveBuildAnnotations explicit-wrong-node-kind *)
Theorem C12_remove_build_annotations_panic_iff :
  forall n,
    (BuildAnnot.remove_build_annotations n = Panic <->
     (BuildAnnot.get_annotations n <> nil) /\
     BuildAnnot.set_annotations_fails
       (filter (fun kv => negb (str_in (fst kv) BuildAnnot.build_annotations)) (BuildAnnot.get_annotations n)) n = true) /\
    BuildAnnot.remove_build_annotations n <> Diverge.
Proof.
  exact (fun n => conj (TotalityBuildAnnot.remove_build_annotations_panic_iff n)
                       (TotalityBuildAnnot.remove_build_annotations_no_diverge n)).
Qed.
Print Assumptions C12_remove_build_annotations_panic_iff.

Theorem C12_remove_build_annotations_panic_iff_unique :
  forall n, BuildAnnot.shadow_field n = None ->
    (BuildAnnot.remove_build_annotations n = Panic <-> BuildAnnot.has_key "" (BuildAnnot.get_annotations n) = true).
Proof. exact TotalityBuildAnnot.remove_build_annotations_panic_iff_unique. Qed.
Print Assumptions C12_remove_build_annotations_panic_iff_unique.

(* class panic:api/resource Resource.appendCsvAnnotation explicit-wrong-node-kind: a non-empty value whose
   yaml.SetAnnotation fails (Yaml/Annot.v: the annotations field that survives ClearEmptyAnnotations is a
   sequence / a non-null scalar; witness and non-witnesses: TotalityBuildAnnot.append_csv_* examples) *)
Theorem C12_append_csv_annotation_panic_iff :
  forall nonstr name value n,
    (BuildAnnot.append_csv_annotation nonstr name value n = Panic <->
     value <> "" /\
     Annot.set_annotation nonstr name
       (join_with ","
          ((match BuildAnnot.assoc_last name (BuildAnnot.get_annotations n) with
            | Some s => split_on ","%char s | None => nil end) ++ [value])%list) n = Err) /\
    BuildAnnot.append_csv_annotation nonstr name value n <> Diverge.
Proof.
  exact (fun nonstr name value n =>
           conj (TotalityBuildAnnot.append_csv_annotation_panic_iff nonstr name value n)
                (TotalityBuildAnnot.append_csv_annotation_no_diverge nonstr name value n)).
Qed.
Print Assumptions C12_append_csv_annotation_panic_iff.

(* witnesses of the three classes in the model (the implementation side: corpus/C12/n5, n7, n8) *)
Theorem C12_refuted_build_annotation_methods :
  BuildAnnot.append_csv_annotation (fun _ => false) K_utils_BuildAnnotationPrefixes "p-"
    (TotalityBuildAnnot.doc_with_annotations (Seq [Scalar TStr SPlain "a"; Scalar TStr SPlain "b"])) = Panic /\
  BuildAnnot.remove_build_annotations (TotalityBuildAnnot.doc_with_annotations (Map [("", Scalar TStr SPlain "x")])) = Panic /\
  BuildAnnot.enable K_utils_BuildAnnotationAllowNameChange (TotalityBuildAnnot.doc_with_annotations (Seq [Map []; Map []])) = Panic.
Proof.
  exact (conj TotalityBuildAnnot.append_csv_panics_on_list
              (conj (proj1 TotalityBuildAnnot.remove_build_panics_on_empty_key)
                    (proj1 (proj2 (proj2 TotalityBuildAnnot.remove_build_panics_on_empty_key))))).
Qed.
Print Assumptions C12_refuted_build_annotation_methods.

(* class panic:kyaml/openapi.initSchema explicit-invalid-schema-file, over Glob/OpenApiState.v (C01 / C16): with a
   custom schema selected and the compiled-in assets intact, initSchema panics EXACTLY when the custom schema
   does not decode *)
Theorem C12_init_schema_custom_panic_iff :
  forall e s c,
    OpenApiState.o_init s = false -> OpenApiState.o_custom s = Some c ->
    (exists s2, OpenApiState.parse_builtin e (OpenApiState.with_init s true) OpenApiState.default_version = Some s2) ->
    OpenApiState.s_valid (OpenApiState.e_kust e) = true ->
    (snd (OpenApiState.init_schema e s) = CPanic <-> OpenApiState.s_valid c = false).
Proof. exact TotalityBuildAnnot.init_schema_custom_panic_iff. Qed.
Print Assumptions C12_init_schema_custom_panic_iff.

(* ---- (1c) every Panic constructor of every model file is accounted for --------------------------------
   Gen/C12ModelPanics.v lists (file, definition, ordinal) of every producer of the outcome Panic in the model
   files of the framework (integrated pipeline of Props/C12P.v included); Glob/ModelPanicMap.v says for each:
   listed finding (class id checked against findings.d), repaired defect (class checked against the fixed: lines),
   dead code (with the theorem that proves it), or outside the build. On the current tree: PrevIds x3 and
   FromResourceSlice x2 are the two remaining finding classes the models reproduce (PIPE_panic_prev_ids_witness,
   PIPE_panic_hash_clash_witness); IsImageMatched is repaired; the walker's keys[0], CleanedAbs x3 and the
   name-reference setter x2 are dead; one producer belongs to `kustomize edit`. *)
Theorem Gen_model_panics_accounted :
  forall k, In k gen_model_panics -> exists d, mp_lookup k = Some d.
Proof. exact model_panics_accounted_spec. Qed.
Print Assumptions Gen_model_panics_accounted.

Theorem Gen_model_panic_classes_listed :
  forallb (fun c => str_in c gen_c12_finding_classes) mp_finding_classes = true /\
  forallb (fun c => str_in c gen_c12_fixed_classes) mp_fixed_classes = true.
Proof. exact model_panic_classes_listed. Qed.
Print Assumptions Gen_model_panic_classes_listed.

Theorem Gen_model_panic_map_stale_now : mp_stale gen_model_panics = [].
Proof. exact model_panic_map_not_stale. Qed.
Print Assumptions Gen_model_panic_map_stale_now.

(* ---- (2) explicit panic / fatal / exit / unchecked-assertion sites ---------------------------- *)

(* every site the translator finds in the current source is classified and justified in
   Glob/PanicAllow.v: a new unchecked assertion or panic in the build path breaks this theorem *)
Theorem Gen_panic_sites_ok :
  forall s, In s gen_panic_sites ->
    s_kind s <> SkOther /\
    ((exists j, In (s_pkg s, j) panic_allow_pkgs) \/
     (exists j, In (mkAllow s j) panic_allow)).
Proof. exact panic_sites_justified. Qed.
Print Assumptions Gen_panic_sites_ok.

(* the KnownFinding justifications name documented findings *)
Theorem Gen_panic_known_findings_listed :
  forallb (fun c => str_in c gen_c12_finding_classes) (known_classes panic_allow) = true.
Proof. exact panic_known_findings_listed. Qed.
Print Assumptions Gen_panic_known_findings_listed.

(* on the tree as found no allow-list entry is left over from a site that no longer exists *)
Theorem Gen_panic_allow_stale_now :
  stale_entries gen_panic_sites panic_allow = [].
Proof. exact panic_allow_not_stale. Qed.
Print Assumptions Gen_panic_allow_stale_now.

(* the generated table really contains the sites the property text names *)
Theorem Gen_panic_sites_nonvacuous :
  existsb (site_eqb site_csv_annotation_panic) gen_panic_sites = true /\
  existsb (site_eqb site_previds_panic) gen_panic_sites = true /\
  20 <= List.length gen_panic_sites /\ 40 <= List.length gen_panic_pkgs.
Proof. exact panic_sites_nonempty. Qed.
Print Assumptions Gen_panic_sites_nonvacuous.
