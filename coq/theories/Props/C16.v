(* C16 — independent builds may run concurrently: property theorems only.
   Every theorem is closed by [exact] of a lemma proved in Glob/*Proofs.v. *)
From KV Require Import Base.Prelude.
From KV Require Import Glob.Conc Glob.ConcProofs Glob.ConcExamples.
From KV Require Import Glob.GlobalsTypes Glob.GlobalsAllow Glob.GlobalsCheck Glob.GlobalsProofs Gen.Globals Gen.DeepCopy.
From KV Require Import Glob.OpenApiState Glob.OpenApiStateProofs Glob.OpenApiConc Glob.OpenApiConcProofs.

(* Lock/once discipline soundness. For ANY program (any number of threads, each a list of atomic actions
   Acq/Rel of read-write locks, reads, writes, once-bodies) whose threads pass the static check [thread_ok D]
   (every write holds all protections of its variable, every read at least one; variables without protection
   are never written), NO schedule has a data race (conflicting accesses unordered by happens-before). *)
Theorem C16_discipline_sound :
  forall (D : discipline) (P : list thread) (tr : trace),
    (forall th, In th P -> thread_ok D th = true) -> schedule_of P tr -> ~ race tr.
Proof. exact discipline_sound. Qed.
Print Assumptions C16_discipline_sound.

(* The same at the level of traces: a valid trace on which every access obeys the discipline in the state
   in which it happens has no race. *)
Theorem C16_discipline_sound_trace :
  forall (D : discipline) (tr : trace), disc_from D tst0 tr -> ~ race tr.
Proof. exact discipline_sound_trace. Qed.
Print Assumptions C16_discipline_sound_trace.

(* Obligation over the GENERATED access table (translate/globals.go -> Gen/Globals.v): every load/store of a
   package-level mutable variable of the kustomize packages linked into krusty.Run obeys the discipline of its
   variable — judged by the very predicates of C16_discipline_sound — or is allow-listed with a reason that
   applies (Glob/GlobalsAllow.v); no allow-list entry is stale. A new unlocked access breaks this. *)
Theorem Gen_globals_disciplined : globals_ok var_prots allow_list gen_accesses = true.
Proof. exact globals_disciplined. Qed.
Print Assumptions Gen_globals_disciplined.

Theorem Gen_globals_vars_covered : forallb (var_covered var_prots allow_list) gen_global_vars = true.
Proof. exact globals_vars_covered. Qed.
Print Assumptions Gen_globals_vars_covered.

(* Obligation over the GENERATED copy table (translate/deepcopy.go -> Gen/DeepCopy.v): the process-global default
   transformer configuration (sync.Once in MakeDefaultConfig) reaches builds only through DeepCopy, which deep-copies
   every reference-typed field with a DeepCopy method that allocates and copies. A field that is shared instead
   (concurrent builds appending into the same backing array) breaks this. *)
Theorem Gen_deepcopy_ok : deepcopy_ok gen_tc_fields gen_tc_copy_types = true.
Proof. exact deepcopy_disciplined. Qed.
Print Assumptions Gen_deepcopy_ok.

(* The only rows excused as known findings: the two rows of the unlocked read in IsNamespaceScoped, and the
   store that clears schemaInit when a build names a built-in version. *)
Theorem Gen_globals_findings_are_f9 :
  map (fun r => (a_fn r, a_var r)) (finding_rows var_prots allow_list gen_accesses)
  = [("IsNamespaceScoped", "kyaml/openapi.globalSchema.namespaceabilityByResourceType");
     ("IsNamespaceScoped", "kyaml/openapi.globalSchema.namespaceabilityByResourceType[]");
     ("SetSchema", "kyaml/openapi.globalSchema.schemaInit")].
Proof. exact globals_findings_are_f9. Qed.
Print Assumptions Gen_globals_findings_are_f9.

(* Full statement "every access on the build path is disciplined" is FALSE on the current tree (finding F9):
   the generated table contains a reachable read of the namespaceability map with an empty context. *)
Theorem C16_globals_strict_refuted :
  exists r, In r gen_accesses /\ a_reach r = true /\ row_disciplined var_prots r = false /\
            a_fn r = "IsNamespaceScoped" /\ a_ctx r = [].
Proof. exact globals_strict_refuted. Qed.
Print Assumptions C16_globals_strict_refuted.

(* ... and in the action model the call sequence of the current IsNamespaceScoped (lock; unlock; unlocked map
   read) next to a build running initSchema does have a racy schedule. *)
Theorem C16_race_free_refuted :
  exists tr, schedule_of [init_schema_call; is_ns_scoped_call] tr /\ race tr.
Proof. exact f9_race. Qed.
Print Assumptions C16_race_free_refuted.

(* What does hold: with the map read under the read lock, any number of concurrent builds
   (SetSchema; IsNamespaceScoped; SchemaForResourceType) are race free under every schedule. *)
Theorem C16_race_free_partial :
  forall n tr, schedule_of (repeat build_a n) tr -> ~ race tr.
Proof. exact disciplined_builds_race_free. Qed.
Print Assumptions C16_race_free_partial.

(* Result independence. Builds that use the built-in schema (no openapi field or the default version spelled
   out, also in sub-kustomizations), run concurrently under ANY schedule of their atomic schema actions:
   every finished build has exactly the outcome and the answers it has when run alone from the initial state.
   [env_ok e]: the default built-in version is compiled in, the kustomization API document parses, and the
   namespaceability paths of both only mention kinds of the precomputed table. *)
Theorem C16_result_independent :
  forall e builds sched i th b,
    env_ok e -> forallb default_build builds = true ->
    nth_error (snd (run_sched e ost0 (map thread_of builds) sched)) i = Some th ->
    nth_error builds i = Some b -> tdone th = true ->
    (ts_class th, ts_ans th) = observe e ost0 b.
Proof. exact result_independent. Qed.
Print Assumptions C16_result_independent.

(* The atomic decomposition is the sequential model: a build's thread running alone computes run_build
   (for every build, not only default ones). *)
Theorem C16_alone_is_sequential :
  forall e s b, exists s' th', steps e s (thread_of b) s' th' /\ tdone th' = true /\
                               (s', ts_class th', ts_ans th') = run_build e s b.
Proof. exact alone_run_build. Qed.
Print Assumptions C16_alone_is_sequential.
