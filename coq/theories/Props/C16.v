(* C16 — property theorems only (under construction). *)
From KV Require Import Glob.OpenApiState.
