(* C16 — independent builds may run concurrently: property theorems only.
   Every theorem is closed by [exact] of a lemma proved in Glob/*Proofs.v. *)
From KV Require Import Base.Prelude.
From KV Require Import Glob.Conc Glob.ConcProofs Glob.ConcExamples.
From KV Require Import Glob.GlobalsTypes Glob.GlobalsAllow Glob.GlobalsCheck Glob.GlobalsProofs Gen.Globals Gen.DeepCopy.
From KV Require Import Glob.OpenApiState Glob.OpenApiStateProofs Glob.OpenApiConc Glob.OpenApiConcProofs.

(* Lock/once discipline soundness. For ANY program (any number of threads, each a list of atomic actions
   Acq/Rel of read-write locks, reads, writes, once-bodies) whose threads pass the static check [thread_ok D]
   (every write holds all protections of its variable, every read at least one; variables without protection
   are never written), NO schedule has a data race (conflicting accesses unordered by happens-before). *)
Theorem C16_discipline_sound :
  forall (D : discipline) (P : list thread) (tr : trace),
    (forall th, In th P -> thread_ok D th = true) -> schedule_of P tr -> ~ race tr.
Proof. exact discipline_sound. Qed.
Print Assumptions C16_discipline_sound.

(* The same at the level of traces: a valid trace on which every access obeys the discipline in the state
   in which it happens has no race. *)
Theorem C16_discipline_sound_trace :
  forall (D : discipline) (tr : trace), disc_from D tst0 tr -> ~ race tr.
Proof. exact discipline_sound_trace. Qed.
Print Assumptions C16_discipline_sound_trace.

(* Obligation over the GENERATED access table (translate/globals.go -> Gen/Globals.v): every load/store of a
   package-level mutable variable of the kustomize packages linked into krusty.Run obeys the discipline of its
   variable — judged by the very predicates of C16_discipline_sound — or is allow-listed with a reason that
   applies (Glob/GlobalsAllow.v); no allow-list entry is stale. A new unlocked access breaks this. *)
Theorem Gen_globals_disciplined : globals_ok var_prots allow_list gen_accesses = true.
Proof. exact globals_disciplined. Qed.
Print Assumptions Gen_globals_disciplined.

(* Every package-level variable of the kustomize packages linked into krusty.Run that is mutable — written outside
   initialisers, OR initialised once but of reference type with its value passed to calls / methods called on it
   (a `var digest = sha256.New()` style object) — is covered by the discipline table or excused by type / by name with
   a justification (Glob/GlobalsAllow.v); no by-name excuse is stale. A NEW shared object on the build path breaks this. *)
Theorem Gen_globals_vars_covered : vars_ok var_prots allow_list gen_global_vars = true.
Proof. exact globals_vars_covered. Qed.
Print Assumptions Gen_globals_vars_covered.

(* Obligation over the GENERATED copy table (translate/deepcopy.go -> Gen/DeepCopy.v): the process-global default
   transformer configuration (sync.Once in MakeDefaultConfig) reaches builds only through DeepCopy, which deep-copies
   every reference-typed field with a DeepCopy method that allocates and copies. A field that is shared instead
   (concurrent builds appending into the same backing array) breaks this. *)
Theorem Gen_deepcopy_ok : deepcopy_ok gen_tc_fields gen_tc_copy_types = true.
Proof. exact deepcopy_disciplined. Qed.
Print Assumptions Gen_deepcopy_ok.

(* No row is excused as a known finding any more: both confirmed races are repaired in /repo
   (db2770f: read lock in IsNamespaceScoped; 5e76c27: SetSchema keeps the parsed schema for the version in use). *)
Theorem Gen_globals_no_findings : finding_rows var_prots allow_list gen_accesses = [].
Proof. exact globals_no_findings. Qed.
Print Assumptions Gen_globals_no_findings.

(* The reachable stores that clear the init flag (on which the once-reading of initSchema depends) are exactly three,
   all under the write lock, each excused as a ResetSite that only executes when the schema selection moves to / away
   from a custom schema or to a different built-in version — never for builds that use the built-in schema. *)
Theorem Gen_globals_reset_sites :
  map (fun r => (a_fn r, a_var r, a_ord r, a_ctx r)) (filter (fun r => is_reset_site r && a_reach r) gen_accesses)
  = [("SetSchema", "kyaml/openapi.globalSchema.schemaInit", 0%N, ["W:kyaml/openapi.schemaLock"]);
     ("SetSchema", "kyaml/openapi.globalSchema.schemaInit", 1%N, ["W:kyaml/openapi.schemaLock"]);
     ("dropParsedSchema", "kyaml/openapi.globalSchema", 0%N, ["W:kyaml/openapi.schemaLock"])].
Proof. exact globals_reset_sites. Qed.
Print Assumptions Gen_globals_reset_sites.

(* The repaired read: IsNamespaceScoped has rows in the table and all of them are judged disciplined (R:schemaLock). *)
Theorem Gen_globals_is_ns_scoped_locked :
  forallb (fun r => negb (String.eqb (a_fn r) "IsNamespaceScoped") || row_disciplined var_prots r) gen_accesses = true /\
  existsb (fun r => String.eqb (a_fn r) "IsNamespaceScoped") gen_accesses = true.
Proof. exact globals_is_ns_scoped_locked. Qed.
Print Assumptions Gen_globals_is_ns_scoped_locked.

(* Builds that use the built-in schema (no openapi field, or the built-in version spelled out) are race free: any
   number of concurrent builds with the call sequences of the current code
   (SetSchema(reset); IsNamespaceScoped with the map read under the read lock; SchemaForResourceType = initSchema
   then an unlocked read of the index that only the once-like initSchema body writes) under every schedule. *)
Theorem C16_race_free_default_schema :
  forall n tr, schedule_of (repeat build_a n) tr -> ~ race tr.
Proof. exact disciplined_builds_race_free. Qed.
Print Assumptions C16_race_free_default_schema.

(* (The former C16_race_free_refuted — the re-run of initSchema provoked by an explicit built-in version racing with the
   unlocked reads — is kept as the regression example ConcExamples.reinit_race: since /repo 5e76c27 a build that names the
   version in use no longer re-arms initSchema, so its call sequence is the one of build_a.) *)

(* Result independence. Builds that use the built-in schema (no openapi field or the default version spelled
   out, also in sub-kustomizations), run concurrently under ANY schedule of their atomic schema actions:
   every finished build has exactly the outcome and the answers it has when run alone from the initial state.
   [env_ok e]: the default built-in version is compiled in, the kustomization API document parses, and the
   namespaceability paths of both only mention kinds of the precomputed table. *)
Theorem C16_result_independent :
  forall e builds sched i th b,
    env_ok e -> forallb default_build builds = true ->
    nth_error (snd (run_sched e ost0 (map thread_of builds) sched)) i = Some th ->
    nth_error builds i = Some b -> tdone th = true ->
    (ts_class th, ts_ans th) = observe e ost0 b.
Proof. exact result_independent. Qed.
Print Assumptions C16_result_independent.

(* The atomic decomposition is the sequential model: a build's thread running alone computes run_build
   (for every build, not only default ones). *)
Theorem C16_alone_is_sequential :
  forall e s b, exists s' th', steps e s (thread_of b) s' th' /\ tdone th' = true /\
                               (s', ts_class th', ts_ans th') = run_build e s b.
Proof. exact alone_run_build. Qed.
Print Assumptions C16_alone_is_sequential.
