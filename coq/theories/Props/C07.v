(* C07 — output is well-formed, identity-unique, free of bookkeeping annotations, and a fixpoint.
   Property theorems only; every theorem is closed by [exact] of a lemma proved in Res/*Proofs.v.

   Vocabulary (Res/ResMapModel.v, Res/Hygiene.v):
     rmap         a resmap: list of (CurId, metadata.annotations, IsNilOrEmpty, payload tag)
     Inv m        no two resources of m have ids that ResId.Equals identifies
     step o m     one resWrangler operation / transformer / build step (Ok / Err / Panic as the Go code)
     finalize h legacy bm m
                  the tail of krusty.Run on the accumulated map m: hash suffixes (oracle table h),
                  KustTarget.IgnoreLocal, SortOrderTransformer (legacy unless fifo), annotation removal
                  for the kustomization's buildMetadata list bm
     strip_run bm a, internal_keys, requested_keys bm
                  annotation removal on one annotation map; the tables are GENERATED from /repo *)
From KV Require Import Base.Prelude Res.HygieneTypes Gen.Annotations Res.Hygiene Res.HygieneProofs
  Res.ResMapModel Res.ResMapProofs Res.FinalizeProofs.
Open Scope list_scope.

(* ---------------------------------------------------------------- identity uniqueness *)

(* The empty map has unique ids and every operation that succeeds preserves that, under the side condition
   [safe] of the few operations that do not re-check ids themselves: prefix/suffix need every resource to
   still have the kind it started with (the skip decision looks at the original kind); the namespace
   transformer needs a map without empty resources; an unchecked rename (JSON patch / replacement writing metadata.name)
   is outside the domain; AbsorbAll and ApplySmPatch are stated for absorbed / patched resources that have a name
   (the model does not distinguish a missing metadata.name from `name: ""`, which these two write). Append, AppendAll (cross-layer merge), Replace, Remove, AbsorbAll, DropEmpties,
   Clear, legacy sort, IgnoreLocal and the annotation removal need nothing. *)
Theorem C07_ids_unique :
  Inv [] /\ forall o m m', Inv m -> safe o m -> step o m = Ok m' -> Inv m'.
Proof. exact (conj Inv_nil step_inv). Qed.
Print Assumptions C07_ids_unique.

(* lifted to whole operation traces (the accumulation of a kustomization is such a trace) *)
Theorem C07_ids_unique_trace :
  forall ops m m', Inv m -> safe_trace ops m -> run ops m = Ok m' -> Inv m'.
Proof. exact run_inv. Qed.
Print Assumptions C07_ids_unique_trace.

(* and to whole trees of kustomization layers: every layer starts from the empty map, merges the accumulators
   of its bases with AppendAll (the cross-layer re-check) and then runs its own trace; [layer_safe] collects
   the side conditions of all traces *)
Theorem C07_ids_unique_layers :
  forall l m, layer_safe l -> accumulate l = Ok m -> Inv m.
Proof. exact accumulate_inv. Qed.
Print Assumptions C07_ids_unique_layers.

(* the injectivity facts that carry uniqueness through the renaming transformers *)
Theorem C07_prefix_injective : forall p a b : string, (p ++ a)%string = (p ++ b)%string -> a = b.
Proof. exact append_inj_l. Qed.
Print Assumptions C07_prefix_injective.

Theorem C07_suffix_injective : forall a b s : string, (a ++ s)%string = (b ++ s)%string -> a = b.
Proof. exact append_inj_r. Qed.
Print Assumptions C07_suffix_injective.

(* operations that rebuild the map with Append give unique ids whatever they started from *)
Theorem C07_ids_unique_after_sort : forall m m', sort_legacy m = Ok m' -> Inv m'.
Proof. exact sort_legacy_inv. Qed.
Print Assumptions C07_ids_unique_after_sort.

Theorem C07_ids_unique_after_sm_patch :
  forall sc sel pn pk an ak del m m', sm_patch sc sel pn pk an ak del m = Ok m' -> Inv m'.
Proof. exact sm_patch_inv. Qed.
Print Assumptions C07_ids_unique_after_sm_patch.

Theorem C07_ids_unique_after_namespace :
  forall ns unset_only m m', ns <> ""%string -> no_empties m -> ns_all ns unset_only m = Ok m' -> Inv m'.
Proof. exact ns_all_unique. Qed.
Print Assumptions C07_ids_unique_after_namespace.

(* Hash suffixes: since the fix "HashTransformer checks that the hash-suffixed names do not collide with the id of
   another resource" the transformer re-checks the ids it produced, and the step preserves uniqueness without any
   side condition (it was refuted before the fix: C07 finding unsorted-localconfig-hash-collision). *)
Theorem C07_ids_unique_hash : forall h m m', Inv m -> hash_all h m = Ok m' -> Inv m'.
Proof. exact hash_all_inv. Qed.
Print Assumptions C07_ids_unique_hash.

(* regression: the former witness (a plain / local-config ConfigMap that already carries the hashed name of a generated
   one) now makes the hash step fail *)
Theorem C07_ids_unique_hash_regression :
  Inv [w_plain; w_gen] /\ hash_all w_hash [w_plain; w_gen] = Err /\ hash_all w_hash [w_local; w_gen] = Err.
Proof. exact hash_all_clash_regression. Qed.
Print Assumptions C07_ids_unique_hash_regression.

(* The output of a successful build under the default (legacy) order has unique ids, for EVERY accumulated
   map m — including maps produced by identity-rewriting patches: IgnoreLocal and the sort re-check. *)
Theorem C07_ids_unique_output_legacy :
  forall h bm m out, finalize h true bm m = Ok out -> Inv out.
Proof. exact finalize_legacy_unique. Qed.
Print Assumptions C07_ids_unique_output_legacy.

(* Without sorting (sortOptions fifo, or the library default options): unique ids in, unique ids out - the statement that
   was refuted before the fix. *)
Theorem C07_ids_unique_output_fifo :
  forall h bm m out, Inv m -> finalize h false bm m = Ok out -> Inv out.
Proof. exact finalize_fifo_unique. Qed.
Print Assumptions C07_ids_unique_output_fifo.

(* regression: the former witnesses (local-config or plain resource named like a hashed generated one) are build
   errors now, for every order; none yields a duplicated id or a panic *)
Theorem C07_ids_unique_output_regression :
  Inv [w_local; w_gen] /\ finalize w_hash false [] [w_local; w_gen] = Err /\
  finalize w_hash true [] [w_local; w_gen] = Err /\ finalize w_hash false [] [w_plain; w_gen] = Err.
Proof. exact finalize_collision_regression. Qed.
Print Assumptions C07_ids_unique_output_regression.

(* uniqueness in the property's own terms: (group, version, kind, namespace, name) as written in the
   documents are pairwise distinct, the scope flag being a function of group/version/kind *)
Theorem C07_raw_identity_unique :
  forall m, Inv m -> scope_consistent m -> NoDup (map raw_identity m).
Proof. exact raw_identity_unique. Qed.
Print Assumptions C07_raw_identity_unique.

(* ---------------------------------------------------------------- well-formedness *)

(* every emitted resource has a kind, and a name unless its kind ends in "List" (the exception
   RNode.GetValidatedMetadata makes) — for every accumulated map, both orders *)
Theorem C07_wellformed :
  forall h legacy bm m out, finalize h legacy bm m = Ok out -> Forall wellformed out.
Proof. exact finalize_wellformed. Qed.
Print Assumptions C07_wellformed.

(* the literal statement "has a kind and a name" is refuted by a FooList document without items and name *)
Theorem C07_wellformed_name_refuted :
  exists h legacy bm m out, finalize h legacy bm m = Ok out /\ ~ Forall has_kind_and_name out.
Proof. exact finalize_name_refuted. Qed.
Print Assumptions C07_wellformed_name_refuted.

(* ---------------------------------------------------------------- hygiene *)

(* obligations over the GENERATED tables: every annotation-like constant / literal of api/ and kyaml/ that
   belongs to a kustomize-owned key family and is not allow-listed (Res/Hygiene.v, each entry justified) is
   among the keys krusty.Run removes when nothing is requested; the translator classified every strip call
   and delete site; a requested key is not also removed unconditionally *)
Theorem Gen_every_written_is_stripped : every_written_is_stripped_b = true.
Proof. exact gen_every_written_is_stripped. Qed.
Print Assumptions Gen_every_written_is_stripped.

Theorem Gen_strips_classified : strips_classified_b = true.
Proof. exact gen_strips_classified. Qed.
Print Assumptions Gen_strips_classified.

(* Kustomizer.Run / KustTarget.makeCustomizedResMap / KustTarget.IgnoreLocal still call the steps of the
   build tail in the order [finalize] models (hash names, IgnoreLocal, sort, annotation removal) *)
Theorem Gen_tail_order : tail_order_b = true.
Proof. exact gen_tail_order. Qed.
Print Assumptions Gen_tail_order.

(* EVERY "<domain>/<name>" string constant / literal of non-test code under api/ and kyaml/ — whatever its family and
   whether or not the build path uses it — is classified: an apiVersion, a key of a kustomize-owned family (then it is
   one of the strings Gen_every_written_is_stripped ranges over), or a key of a listed foreign family; and no key is
   concatenated at run time from a kustomize annotation domain *)
Theorem Gen_qualified_classified : qualified_classified_b = true.
Proof. exact gen_qualified_classified. Qed.
Print Assumptions Gen_qualified_classified.

(* every annotation WRITE SITE of api/ and kyaml/ — yaml.SetAnnotation(k, _), m[k] = _ on an annotation map that is
   later stored with SetAnnotations, map literals given as Annotations, and calls of helpers that forward a parameter
   as the key (appendCsvAnnotation, enable, AnnotateAll, injectAnnotation, copyAnnotations ...: fixpoint over the call
   graph) — writes a constant key that krusty.Run removes (or that is allow-listed / not kustomize's), or is one of
   the reviewed sites that only copy existing or user-supplied keys (Res/Hygiene.v dynamic_write_ok) *)
Theorem Gen_write_sites_covered : write_sites_covered_b = true.
Proof. exact gen_write_sites_covered. Qed.
Print Assumptions Gen_write_sites_covered.

(* the keys of the exec / KRM-function plugin protocol (kustomize.config.k8s.io/id, needs-hash, behavior) are
   allow-listed, i.e. not among the keys krusty.Run strips, ONLY because the protocol itself takes them off again: the
   translator checks that each removal is evaluated unconditionally for every resource read back / generated
   (a removal moved into a branch - e.g. removeIDAnnotation only for resources whose id the old map already holds -
   makes this fail; the build oracles then also find the leaking key with an exec function that renames a resource) *)
Theorem Gen_plugin_protocol_removed : plugin_protocol_removed_b = true.
Proof. exact gen_plugin_protocol_removed. Qed.
Print Assumptions Gen_plugin_protocol_removed.

Theorem Gen_requested_survive : requested_survive_b = true.
Proof. exact gen_requested_survive. Qed.
Print Assumptions Gen_requested_survive.

(* for all annotation maps and all buildMetadata lists: after the removal no internal key remains unless it
   is one of the keys the kustomization asked for (origin / transformations) *)
Theorem C07_hygiene :
  forall bm a k, In k internal_keys -> ~ In k (requested_keys bm) -> ~ In k (map fst (strip_run bm a)).
Proof. exact hygiene. Qed.
Print Assumptions C07_hygiene.

(* and on the output of a build *)
Theorem C07_hygiene_output :
  forall h legacy bm m out, finalize h legacy bm m = Ok out ->
  forall r k, In r out -> In k internal_keys -> ~ In k (requested_keys bm) -> ~ In k (map fst (m_ann r)).
Proof. exact finalize_hygiene. Qed.
Print Assumptions C07_hygiene_output.

(* nothing but the listed keys is touched *)
Theorem C07_strip_frame :
  forall bm a kv, In kv a -> ~ In (fst kv) (run_stripped_keys bm) -> In kv (strip_run bm a).
Proof. exact strip_run_keeps. Qed.
Print Assumptions C07_strip_frame.

(* ---------------------------------------------------------------- fixpoint (partial) *)

(* Full statement of the property: the emitted YAML parses back to the same objects and
   build({resources: [out.yaml]}) == out byte for byte. Byte level and YAML re-parsing live in go-yaml /
   sigs.k8s.io/yaml (assumption S3) and are checked by the oracles on the implementation only.
   Proved at model level: removal is idempotent, sorting a sorted list is the identity, the legacy order is
   asymmetric so sorting is idempotent, and a second build of the output (no directives, no buildMetadata)
   reproduces it. *)
Theorem C07_fixpoint_partial_strip_idempotent :
  forall bm a, strip_run bm (strip_run bm a) = strip_run bm a.
Proof. exact strip_run_idem. Qed.
Print Assumptions C07_fixpoint_partial_strip_idempotent.

Theorem C07_fixpoint_partial_sorted_unchanged :
  forall lt l, sorted_by lt l = true -> isort_by lt l = l.
Proof. exact isort_sorted_id. Qed.
Print Assumptions C07_fixpoint_partial_sorted_unchanged.

Theorem C07_fixpoint_partial_sort_idempotent :
  forall l, isort_by res_less (isort_by res_less l) = isort_by res_less l.
Proof. exact (isort_idem res_less res_less_asym). Qed.
Print Assumptions C07_fixpoint_partial_sort_idempotent.

Theorem C07_fixpoint_partial :
  forall h m out, no_empties m -> finalize h true [] m = Ok out -> forall h', rebuild h' out = Ok out.
Proof. exact finalize_fixpoint. Qed.
Print Assumptions C07_fixpoint_partial.
