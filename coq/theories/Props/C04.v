(* C04 — property theorems only (placeholder until the proofs land). *)
From KV Require Import Yaml.Merge2.
