(* C04 — strategic-merge patch semantics (kyaml merge2 on the generic walker): property theorems only.
   Every theorem is closed by [exact] of a lemma proved in Yaml/*Proofs.v, Yaml/Merge2Frame.v or
   Yaml/Merge2Examples.v.

   Model: Yaml/Walk.v (walker, generic in sources and visitor) + Yaml/Merge2.v (Merger visitor, directives).
   [sch] (openapi projection), [opts] (infer / prepend / AssociativeSequenceKeys) and [nonstr]
   (yaml.IsValueNonString) are universally quantified parameters. *)
From KV Require Import Yaml.Walk Yaml.WalkProofs Yaml.WalkFields Yaml.Merge2 Yaml.Merge2Proofs Yaml.Merge2Identity Yaml.Merge2IdentityProofs Yaml.Merge2Idem Yaml.SmpSpec Yaml.Merge2Spec
     Yaml.Merge2Frame Yaml.Merge2FrameList Yaml.Merge2Examples Corr.SchemaTable Yaml.Merge3 Yaml.Merge3Examples Yaml.WalkGenProofs Gen.WalkTables.

(* merge2.Merge at the canonical fuel S(sum of depths) never runs out of fuel: for every schema, option
   set, patch and target the outcome is Ok / Err / Panic, never Diverge. *)
Theorem C04_no_diverge :
  forall (Sc : Type) (sch : schema Sc) (opts : wopts) (nonstr : string -> bool) (patch target : option node),
    merge2 sch opts nonstr patch target <> Diverge.
Proof. exact (@merge2_no_diverge). Qed.
Print Assumptions C04_no_diverge.

(* ... and any larger fuel gives the same answer (the canonical fuel is not a modelling artefact). *)
Theorem C04_fuel_irrelevant :
  forall (Sc : Type) (sch : schema Sc) (opts : wopts) (nonstr : string -> bool) (srcs : list (option node)) (k : nat),
    walk sch opts nonstr merger (k + fuel_of srcs) None None srcs =
    walk sch opts nonstr merger (fuel_of srcs) None None srcs.
Proof. exact (fun Sc sch opts nonstr => walk_fuel_irrelevant sch opts nonstr merger merger_ok). Qed.
Print Assumptions C04_fuel_irrelevant.

(* Frame law. FULL statement of the property: "everything the patch does not mention is unchanged",
   for all kinds including keyed lists.
   PROVED PART (partial): kinds whose lists are atomic (no merge strategy in [sch], inference off — the
   schema-less custom kinds of the property's quantifier, and any position of a built-in kind that is
   not below a merge list). For every path q through mappings of the target (pairwise different keys)
   that the patch does not mention (no entry at q; only plain mappings without "$patch" above it), a
   non-mapping value v at q that is not an implicit null is found at q in the result with the same tag
   and text; its style changes at most by the forced double-quoting of YAML-1.1-ambiguous strings
   ([quote11], see C04_quote11_same_value).
   Paths that run through elements of keyed (associative) lists: C04_frame_keyed_list_partial below. *)
Theorem C04_frame_partial :
  forall (Sc : Type) (sch : schema Sc) (opts : wopts) (nonstr : string -> bool),
    atomic_lists sch opts ->
    forall (q : list string) (tk : list (string * node)) (p : option node) (r v : node),
      q <> [] ->
      merge2 sch opts nonstr p (Some (Map tk)) = Ok (Some r) ->
      untouched p q -> maps_along q (Map tk) ->
      getp q (Map tk) = Some v -> is_map v = false -> implicit_null v = false ->
      getp q r = Some (Fns.quote11 nonstr v).
Proof. exact (@merge2_frame). Qed.
Print Assumptions C04_frame_partial.

(* Frame law THROUGH KEYED LISTS (partial), for every schema and option set (no [atomic_lists] hypothesis): paths made of
   mapping steps [PK key] and list-element steps [PE k v] (the element whose merge key k has value v).
   If [frame_okb sch opts None t p q = true] -- a boolean that walks down q and checks, with the walker's own schema
   threading ([get_schema] / [child_schema] / [elem_schema]):
     - at a mapping step: target mapping with pairwise different keys; patch absent there or a mapping without "$patch";
     - at a list step: the walker treats the list as associative ([is_associative]) with the single merge key k
       ([aseq_keys]: from the schema, or inferred); target and patch lists (the patch may be absent) consist of good
       elements ([gel]: mappings with pairwise different keys, no "$patch" key -- so no directive elements --, a
       non-null non-empty scalar under k); the target's key values are pairwise different; the patch list has no
       element with key value v;
     - at the end: the patch is absent --
   then a non-null scalar v at q in the target is found at q in the result with the same tag and text (style: at
   most [quote11]). Holds in prepend and in append mode; the other elements may be changed, added (their position is
   not constrained) or deleted by the patch.
   Guards vs findings: "no directive elements" is the complement of C04/reference/replace-directive-on-keyed-list-element
   and of the list-directive idempotence classes; "non-null scalar" excludes C04/frame/unmentioned-null-field-dropped.
   MISSING: elements the patch does mention (below them only the mentioned element's own fields would be framed),
   several merge keys, lists of scalars (set lists), non-scalar leaves below list elements.
   Non-vacuity: frame_keyed_example (Pod containers through the schema, kustomize's options),
   frame_keyed_inferred_example (inferred key) in Yaml/Merge2FrameList.v. *)
Theorem C04_frame_keyed_list_partial :
  forall (Sc : Type) (sch : schema Sc) (opts : wopts) (nonstr : string -> bool)
         (q : list pstep) (t : node) (p : option node) (r v : node),
    q <> [] ->
    merge2 sch opts nonstr p (Some t) = Ok (Some r) ->
    frame_okb sch opts None t p q = true ->
    getpe q t = Some v -> is_scalar v = true -> is_null v = false ->
    getpe q r = Some (Fns.quote11 nonstr v).
Proof. exact (@merge2_frame_keyed). Qed.
Print Assumptions C04_frame_keyed_list_partial.

(* Composite merge keys (Service ports [port, protocol]): "$patch: delete" on a port written without protocol removes it,
   alone or next to an element that spells a protocol (the deletion validates the keys against the element's own
   tuple; was finding C04/reference/composite-key-delete-ignored-when-protocol-spelled-elsewhere). *)
Theorem C04_composite_key_delete :
  smerge cd_p cd_t = Ok (Some (svc [cd_port80])) /\
  smerge cd_p (svc [cd_port53]) =
  Ok (Some (Map [("apiVersion"%string, Scalar TStr SPlain "v1"%string); ("kind"%string, Scalar TStr SPlain "Service"%string);
                 ("spec"%string, Map [("ports"%string, Seq [])])])).
Proof. exact composite_delete_works. Qed.
Print Assumptions C04_composite_key_delete.

Theorem C04_quote11_same_value :
  forall (nonstr : string -> bool) (v : node),
    node_value (Fns.quote11 nonstr v) = node_value v /\
    match Fns.quote11 nonstr v, v with
    | Scalar t _ _, Scalar t' _ _ => t = t'
    | a, b => a = b
    end.
Proof. exact quote11_same. Qed.
Print Assumptions C04_quote11_same_value.

(* The frame law without the implicit-null restriction is FALSE for the code as it is (finding
   C04/frame/unmentioned-null-field-dropped, DESIGN F12): target spec {a: <empty>, b: 1}, patch spec {b: 2}. *)
Theorem C04_frame_refuted :
  exists (p t r : node) (q : list string) (v : node),
    merge2 schemaless kustomize_opts (fun _ => false) (Some p) (Some t) = Ok (Some r) /\
    untouched (Some p) q /\ maps_along q t /\ getp q t = Some v /\ is_map v = false /\
    getp q r = None.
Proof. exact frame_refuted. Qed.
Print Assumptions C04_frame_refuted.

(* ... and this is not an accident of the witness: for every schema and option set, EVERY unmentioned
   implicit null directly under a merged mapping is dropped. *)
Theorem C04_implicit_null_dropped :
  forall (Sc : Type) (sch : schema Sc) (opts : wopts) (nonstr : string -> bool),
    forall (tk : list (string * node)) (p : option node) (r : node) (k : string) (s : style),
      merge2 sch opts nonstr p (Some (Map tk)) = Ok (Some r) ->
      plain_patch p -> field_of k p = None -> nodupk tk ->
      find_field k tk = Some (Scalar TNull s "") ->
      dfield k r = None.
Proof. exact (@merge2_implicit_null_dropped). Qed.
Print Assumptions C04_implicit_null_dropped.

(* Idempotence. The former refutation (a list-level "- $patch: delete" copied into the document on the second
   application; finding C04/idempotent/list-directive-copied-when-target-list-absent) is FIXED in /repo
   (Merger.VisitList processes the directive when Dest is missing): the witness is now idempotent. *)
Theorem C04_idempotent_list_directive :
  exists r1, kmerge idem_patch idem_target = Ok (Some r1) /\ kmerge idem_patch r1 = Ok (Some r1) /\
             r1 = pod [("x"%string, Scalar TInt SPlain "1")].
Proof. exact list_directive_idempotent. Qed.
Print Assumptions C04_idempotent_list_directive.

(* PROVED PART of idempotence (partial): on kinds whose lists are atomic (no merge strategy in [sch], inference
   off), for patch and target that are mappings, have pairwise different keys in every mapping reached through
   mappings ([wfk]) and -- the patch -- in every mapping reached through mappings either no "$patch" key or one of
   "$patch: delete" (not at the root), "$patch: replace", "$patch: merge" ([dirok]):
   applying the patch to the result gives the result again, as exact node equality (tags, styles, order).
   Covers nulls (also inside added / replacing mappings), the three mapping-level directives (on content present
   or absent in the target, nested in each other), added / merged / replaced / unmentioned mappings, scalar and
   list replacement, kind errors (the first application must succeed). The schema is shown to play no part on
   this fragment ([walk_sc]). The fragment is the boolean [idem_fragment_dir]; [idem_example] and
   [idem_dir_example] (Yaml/Merge2Idem.v) are non-trivial instances.
   Guard vs finding: "atomic lists" excludes the list-directive class that remains
   (C04/idempotent/list-directive-copied-when-target-list-absent-inferred-keys); an unknown "$patch" value is an
   error of the first application.
   MISSING w.r.t. the full statement: keyed lists (list-level directives on an absent list with a schema key:
   fixed, see C04_idempotent_list_directive). *)
Theorem C04_idempotent_partial :
  forall (Sc : Type) (sch : schema Sc) (opts : wopts) (nonstr : string -> bool),
    atomic_lists sch opts ->
    forall p t r : node,
      idem_fragment_dir p t = true ->
      merge2 sch opts nonstr (Some p) (Some t) = Ok (Some r) ->
      merge2 sch opts nonstr (Some p) (Some r) = Ok (Some r).
Proof. exact (@merge2_idempotent_dir). Qed.
Print Assumptions C04_idempotent_partial.

(* Refinement to the reference semantics [smp_spec] of Yaml/SmpSpec.v (typed JSON values; maps recursive with the
   target's order kept and new keys appended sorted, scalars and atomic lists replace, null deletes, "$patch: delete"
   deletes, "$patch: replace" puts the patch mapping (directive elided, nulls dropped) in place of the target's value,
   "$patch: merge" merges as if the directive were absent, added mappings lose their nulls, unmentioned implicit nulls
   go -- the last clause is the recorded finding C04/frame/unmentioned-null-field-dropped written into the reference).
   PROVED PART (partial): on [spec_fragment p t = idem_fragment_dir p t && tagged p && tagged t] (the fragment of the
   idempotence law, all three mapping-level directives included; [tagged]: every scalar reached through mappings
   carries a tag, true of every parsed document; then [to_json] does not see the style changes documented in
   C04_quote11_same_value / C04_scalar_replace_refuted) and kinds with atomic lists.
   Guards vs findings: tagged + to_json hide "scalar-type-follows-target-quoting"; no keyed lists excludes
   "replace-directive-on-keyed-list-element", the list-directive class and the composite-key classes.
   MISSING: keyed lists. Non-vacuity: refines_example, refines_dir_example (Yaml/Merge2Spec.v). *)
Theorem C04_refines_spec_partial :
  forall (Sc : Type) (sch : schema Sc) (opts : wopts) (nonstr : string -> bool),
    atomic_lists sch opts ->
    forall p t r : node,
      spec_fragment p t = true ->
      merge2 sch opts nonstr (Some p) (Some t) = Ok (Some r) ->
      Some (to_json r) = smp_spec (to_json p) (Some (to_json t)).
Proof. exact (@merge2_refines_spec). Qed.
Print Assumptions C04_refines_spec_partial.

(* "replaces what $patch: replace addresses" is FALSE for an element of a keyed list in prepend mode
   (the mode kustomize builds use): the element is left exactly as it was
   (finding C04/reference/replace-directive-on-keyed-list-element). *)
Theorem C04_replace_on_element_refuted :
  kmerge repl_patch repl_target = Ok (Some repl_target).
Proof. exact replace_on_element_ignored. Qed.
Print Assumptions C04_replace_on_element_refuted.

(* "replaces scalars" up to typed JSON is FALSE when the replaced value was quoted: the new scalar
   inherits the quotes and is emitted as a string (finding C04/reference/scalar-type-follows-target-quoting). *)
Theorem C04_scalar_replace_refuted :
  kmerge quot_patch quot_target =
  Ok (Some (Map [("spec"%string, Map [("beta"%string, Scalar TFloat SDouble "0.5")])])).
Proof. exact scalar_keeps_target_quoting. Qed.
Print Assumptions C04_scalar_replace_refuted.

(* The field-by-field characterisation of walkMap's loop that the frame proof rests on (generic in the
   visitor and in the number of sources; reused by C15). *)
Theorem C04_walk_fields_fieldwise :
  forall (Sc : Type) (sch : schema Sc) (nonstr : string -> bool) (rec : @rec_t Sc) (sc : option Sc)
         (alias : option nat) (srcs : list (option node)) (names : list string),
    NoDup names ->
    forall kvs d', nodupk kvs ->
      walk_fields sch nonstr rec sc alias srcs names (Map kvs) = Ok d' ->
      exists kvs', d' = Map kvs' /\ nodupk kvs' /\
        (forall k, ~ In k names -> find_field k kvs' = find_field k kvs) /\
        (forall k, In k names ->
           exists r, rec (child_schema sch sc k) alias (fvs alias srcs k (find_field k kvs)) = Ok r /\
                     find_field k kvs' = fval nonstr r (find_field k kvs)).
Proof. exact (@walk_fields_map). Qed.
Print Assumptions C04_walk_fields_fieldwise.

(* ---------- identity preservation (api/resource Resource.ApplySmPatch) ---------- *)

(* After ApplySmPatch, when the resource is not deleted (nil / empty result), the kind and name read back are the
   target's unless the patch carries allowKindChange / allowNameChange, and the namespace read back is ALWAYS the
   target's (absent stays absent) -- for every patch, whatever kind / name / namespace its text carries, every
   schema and every target. Side condition: the merged node is a mapping whose metadata, if present, is a mapping
   with pairwise different keys (SetName / SetNamespace go through Lookup("metadata"), whose errors ApplySmPatch
   drops); C04_identity_kept_inputs discharges it from the inputs for plain patches. *)
Theorem C04_identity_kept :
  forall (Sc : Type) (sch : schema Sc) (assoc_keys : list string) (nonstr : string -> bool) (patch target r : node),
    apply_sm_patch sch assoc_keys nonstr patch target = Ok (Some r) ->
    nil_or_empty r = false ->
    (forall x, merge2 sch (mkOpts false true assoc_keys) nonstr (Some patch) (Some target) = Ok (Some x) -> wf_root x) ->
    (kind_change_allowed patch = false -> get_kind r = get_kind target) /\
    (name_change_allowed patch = false -> get_name r = get_name target) /\
    get_namespace r = get_namespace target.
Proof. exact (@apply_sm_patch_identity). Qed.
Print Assumptions C04_identity_kept.

(* the same from hypotheses on the inputs only: target a mapping with pairwise different keys whose metadata is a
   mapping with pairwise different keys; patch a mapping without "$patch" at the root and on metadata *)
Theorem C04_identity_kept_inputs :
  forall (Sc : Type) (sch : schema Sc) (assoc_keys : list string) (nonstr : string -> bool)
         (pk tk mk : list (string * node)) (r : node),
    nodupk tk -> find_field "metadata"%string tk = Some (Map mk) -> nodupk mk ->
    find_field smp_key pk = None -> plain_patch (find_field "metadata"%string pk) ->
    apply_sm_patch sch assoc_keys nonstr (Map pk) (Map tk) = Ok (Some r) ->
    nil_or_empty r = false ->
    (kind_change_allowed (Map pk) = false -> get_kind r = get_kind (Map tk)) /\
    (name_change_allowed (Map pk) = false -> get_name r = get_name (Map tk)) /\
    get_namespace r = get_namespace (Map tk).
Proof. exact (@apply_sm_patch_identity_plain). Qed.
Print Assumptions C04_identity_kept_inputs.

(* ---------- obligations over the tables regenerated from /repo (Gen/WalkTables.v) ---------- *)

(* the model's directive key and directive spellings are the source's *)
Theorem Gen_C04_smp_key : gen_smp_key = smp_key.
Proof. exact gen_smp_key_ok. Qed.
Print Assumptions Gen_C04_smp_key.

Theorem Gen_C04_smp_directives :
  map smp_of_value gen_smp_directives = [None; Some SmpReplace; Some SmpDelete; Some SmpMerge].
Proof. exact gen_smp_directives_ok. Qed.
Print Assumptions Gen_C04_smp_directives.

(* every patch strategy of the builtin schema is one the model's has_merge_strategy understands *)
Theorem Gen_C04_strategies :
  forallb (fun r : row => str_in (row_strategy r) ["merge"; "merge,retainKeys"; "replace"]%string) gen_merge_lists = true.
Proof. exact gen_strategies_ok. Qed.
Print Assumptions Gen_C04_strategies.

(* the multi-key lists (outside the single-merge-key domain of the property) are exactly these *)
Theorem Gen_C04_multi_key_lists :
  forallb (fun r : row =>
             Nat.leb (List.length (row_keys r)) 1 ||
             strs_eqb (row_keys r) ["containerPort"; "protocol"]%string ||
             strs_eqb (row_keys r) ["port"; "protocol"]%string ||
             strs_eqb (row_keys r) ["topologyKey"; "whenUnsatisfiable"]%string) gen_merge_lists = true.
Proof. exact gen_multi_key_lists_ok. Qed.
Print Assumptions Gen_C04_multi_key_lists.

(* the schema used by the refutation witnesses is the source's *)
Theorem Gen_C04_pod_containers :
  existsb (row_eqb ("Pod", "v1", ["spec"; "containers"], "merge", ["name"])%string) gen_merge_lists = true.
Proof. exact gen_pod_containers_ok. Qed.
Print Assumptions Gen_C04_pod_containers.

Theorem Gen_C04_assoc_keys :
  o_assoc_keys kustomize_opts = gen_assoc_keys /\ o_assoc_keys kopts = gen_assoc_keys /\
  o_assoc_keys Merge3Examples.iopts = gen_assoc_keys.
Proof. exact gen_assoc_keys_ok. Qed.
Print Assumptions Gen_C04_assoc_keys.

(* the identity model reads the source's allow annotations *)
Theorem Gen_C04_allow_keys :
  gen_allow_name_key = allow_name_key /\ gen_allow_kind_key = allow_kind_key /\ gen_enabled = "enabled"%string.
Proof. exact gen_allow_keys_ok. Qed.
Print Assumptions Gen_C04_allow_keys.
