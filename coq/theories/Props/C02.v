(* C02 — property theorems only. *)
From KV Require Import Yaml.FieldSpec Yaml.FieldSpecBasics Gen.FieldSpecs Res.FieldSpecsRef Res.FieldSpecsRefProofs.

(* The field-spec tables regenerated from the current source are the documented ones
   (the frame oracle computes "targeted" locations from the same reference). *)
Theorem Gen_fieldspecs_eq_ref :
  gen_name_prefix_fs = ref_name_prefix_fs /\
  gen_name_suffix_fs = ref_name_suffix_fs /\
  gen_common_labels_fs = ref_common_labels_fs /\
  gen_template_labels_fs = ref_template_labels_fs /\
  gen_common_annotations_fs = ref_common_annotations_fs /\
  gen_namespace_fs = ref_namespace_fs /\
  gen_images_fs = ref_images_fs /\
  gen_replicas_fs = ref_replicas_fs.
Proof. exact fieldspecs_eq_ref. Qed.
Print Assumptions Gen_fieldspecs_eq_ref.

(* A field spec whose GVK does not match the object leaves the whole object untouched,
   whatever the setter does. *)
Theorem C02_gvk_mismatch_identity :
  forall ck ct sv fs obj, is_match_gvk fs obj = false -> fs_apply ck ct sv fs obj = Ok obj.
Proof. exact fs_apply_gvk_mismatch. Qed.
Print Assumptions C02_gvk_mismatch_identity.

Theorem C02_fsslice_no_match_identity :
  forall ck ct sv l obj,
    forallb (fun fs => negb (is_match_gvk fs obj)) l = true -> fsslice_apply ck ct sv l obj = Ok obj.
Proof. exact fsslice_apply_no_match. Qed.
Print Assumptions C02_fsslice_no_match_identity.
