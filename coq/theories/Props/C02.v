(* C02 — property theorems only. *)
From KV Require Import Yaml.FieldSpec Yaml.FieldSpecBasics Gen.FieldSpecs Res.FieldSpecsRef Res.FieldSpecsRefProofs.
From KV Require Import Yaml.FieldSpecSpec Yaml.FieldSpecProofs Yaml.FieldSpecGenProofs Res.BuildFrame.

(* The field-spec tables regenerated from the current source are the documented ones
   (the frame oracle computes "targeted" locations from the same reference). *)
Theorem Gen_fieldspecs_eq_ref :
  gen_name_prefix_fs = ref_name_prefix_fs /\
  gen_name_suffix_fs = ref_name_suffix_fs /\
  gen_common_labels_fs = ref_common_labels_fs /\
  gen_template_labels_fs = ref_template_labels_fs /\
  gen_common_annotations_fs = ref_common_annotations_fs /\
  gen_namespace_fs = ref_namespace_fs /\
  gen_images_fs = ref_images_fs /\
  gen_replicas_fs = ref_replicas_fs.
Proof. exact fieldspecs_eq_ref. Qed.
Print Assumptions Gen_fieldspecs_eq_ref.

(* A field spec whose GVK does not match the object leaves the whole object untouched,
   whatever the setter does. *)
Theorem C02_gvk_mismatch_identity :
  forall ck ct sv fs obj, is_match_gvk fs obj = false -> fs_apply ck ct sv fs obj = Ok obj.
Proof. exact fs_apply_gvk_mismatch. Qed.
Print Assumptions C02_gvk_mismatch_identity.

Theorem C02_fsslice_no_match_identity :
  forall ck ct sv l obj,
    forallb (fun fs => negb (is_match_gvk fs obj)) l = true -> fsslice_apply ck ct sv l obj = Ok obj.
Proof. exact fsslice_apply_no_match. Qed.
Print Assumptions C02_fsslice_no_match_identity.

(* ---------- frame: field-spec driven transformers edit only under their field-spec paths ---------- *)

(* One field-spec filter run (any setter, create flag, create kind/tag, "[]" hints, null promotion):
   a JSON location that diverges from the field-spec path keeps its value. *)
Theorem C02_fieldspec_frame :
  forall ck ct sv fs obj obj' q,
    forallb seg_ok (fs_segments fs) = true ->
    fs_apply ck ct sv fs obj = Ok obj' ->
    fs_diverges (fs_segments fs) q = true -> get_at q obj' = get_at q obj.
Proof. exact fs_apply_frame. Qed.
Print Assumptions C02_fieldspec_frame.

(* Any pipeline of field-spec steps applied to all resources of a build: exactly one output per input, in order
   (identity multiset), and every location not under a field-spec path of any step is unchanged (typed node equality:
   tag, style and text). Holds for arbitrary setters, i.e. whatever the transformers write. *)
Theorem C02_build_frame :
  forall ss objs objs',
    run_all ss objs = Ok objs' ->
    List.length objs' = List.length objs /\
    forall i o o' q, nth_error objs i = Some o -> nth_error objs' i = Some o' ->
      Forall (fun s => segs_ok (st_fs s) /\ untargeted (st_fs s) q) ss ->
      get_at q o' = get_at q o.
Proof. exact run_all_frame. Qed.
Print Assumptions C02_build_frame.

(* Instantiated to the tables regenerated from /repo: steps that draw their field specs from the builtin tables
   leave every location that diverges from all builtin paths untouched. *)
Theorem C02_builtin_pipeline_frame :
  forall ss objs objs',
    Forall builtin_step ss -> run_all ss objs = Ok objs' ->
    List.length objs' = List.length objs /\
    forall i o o' q, nth_error objs i = Some o -> nth_error objs' i = Some o' ->
      untargeted gen_all_fs q -> get_at q o' = get_at q o.
Proof. exact builtin_pipeline_frame. Qed.
Print Assumptions C02_builtin_pipeline_frame.

(* the hypothesis is satisfiable on the real tables, and really excludes targeted locations *)
Theorem C02_untargeted_nonvacuous :
  untargeted gen_all_fs [JKey "spec"; JKey "extra"] /\
  forallb (fun fs => fs_diverges (fs_segments fs) [JKey "metadata"; JKey "labels"; JKey "app"]) gen_all_fs = false.
Proof. exact (conj untargeted_example targeted_example). Qed.
Print Assumptions C02_untargeted_nonvacuous.

(* ---------- type fidelity (partial: the final node -> JSON -> YAML emission is go-yaml, outside the model) ---------- *)

(* FieldSetter stores a new string-ish scalar that YAML 1.1 would re-type in double quotes, keeping tag and text. *)
Theorem C02_quote_partial :
  forall nonstr name s kvs t,
    (t = TStr \/ t = TNone) -> nonstr s = true -> find_field name kvs = None ->
    set_field nonstr name (Some (Scalar t SPlain s)) false (Map kvs) = Ok (Map (kvs ++ [(name, Scalar t SDouble s)])).
Proof. exact set_field_quotes_new_nonstring. Qed.
Print Assumptions C02_quote_partial.

Theorem C02_set_keeps_text :
  forall nonstr name v kvs,
    is_null v = false -> find_field name kvs = None ->
    exists v', set_field nonstr name (Some v) false (Map kvs) = Ok (Map (kvs ++ [(name, v')])) /\
               node_value v' = node_value v.
Proof. exact set_field_keeps_text. Qed.
Print Assumptions C02_set_keeps_text.
