(* C20 — property theorems only (placeholder while the model is being tied to the code). *)
From KV Require Import Yaml.Fmt.
