(* C20 — canonical formatting is idempotent and meaning-preserving.
   Property theorems only; every theorem is closed by [exact] of a lemma proved in Yaml/FmtSort.v or
   Yaml/FmtProofs.v.  Model: Yaml/Fmt.v (kyaml/kio/filters/fmtr.go, yaml/order.go, yaml/compatibility.go).

   Reading guide
     fmt_node nonstr hastype srt kind api s p n   formatter.fmtNode on node n at path p with schema s, for the
                                          document's kind / apiVersion; [srt] is sort.Sort, [isort] the
                                          stable sort (what sort.Stable computes)
     S1 srt      "returns a sorted permutation and leaves a sorted input unchanged" (FmtSort.S1)
     wf_keys     every mapping has pairwise distinct keys *)
From KV Require Import Yaml.Fmt Yaml.FmtSort Yaml.FmtTablesRef Yaml.Resolve11 Yaml.Resolve11Proofs Yaml.FmtProofs.
From Coq Require Import Permutation.

(* ---- generated tables ---- *)

(* distinct names have distinct ranks although fieldSortOrder lists a name twice *)
Theorem Gen_field_order_injective :
  forall a b r, field_order a = Some r -> field_order b = Some r -> a = b.
Proof. exact field_order_injective. Qed.
Print Assumptions Gen_field_order_injective.

Theorem Gen_wl_fields_functional : nodup_strs (map fst wl_fields) = true.
Proof. exact FmtProofs.Gen_wl_fields_functional. Qed.
Print Assumptions Gen_wl_fields_functional.

Theorem Gen_type_to_tag_not_null :
  forallb (fun p => negb (String.eqb (snd p) node_tag_null)) type_to_tag = true.
Proof. exact FmtProofs.Gen_type_to_tag_not_null. Qed.
Print Assumptions Gen_type_to_tag_not_null.

(* the tables regenerated from /repo are the pinned reference tables (Yaml/FmtTablesRef.v): the set of
   lists whose order may change is exactly the documented one, and the canonical key order has not
   drifted.  A deliberate table change must update the reference file. *)
Theorem Gen_fmt_whitelist_eq_ref :
  wl_kinds = ref_wl_kinds /\ wl_apis = ref_wl_apis /\ wl_fields = ref_wl_fields.
Proof. exact FmtProofs.Gen_fmt_whitelist_eq_ref. Qed.
Print Assumptions Gen_fmt_whitelist_eq_ref.

Theorem Gen_field_order_eq_ref : field_sort_order = ref_field_sort_order.
Proof. exact FmtProofs.Gen_field_order_eq_ref. Qed.
Print Assumptions Gen_field_order_eq_ref.

Theorem Gen_type_to_tag_eq_ref : type_to_tag = ref_type_to_tag.
Proof. exact FmtProofs.Gen_type_to_tag_eq_ref. Qed.
Print Assumptions Gen_type_to_tag_eq_ref.

(* ---- the comparison of field names ---- *)

Theorem C20_less_strict_total :
  (forall a, less_key a a = false) /\
  (forall a b c, less_key a b = true -> less_key b c = true -> less_key a c = true) /\
  (forall a b, less_key a b = true -> less_key b a = false) /\
  (forall a b, a <> b -> less_key a b = true \/ less_key b a = true).
Proof. exact less_key_order. Qed.
Print Assumptions C20_less_strict_total.

Theorem C20_less_known_first : forall a b,
  (field_order a <> None -> field_order b = None -> less_key a b = true) /\
  (field_order a = None -> field_order b = None -> less_key a b = String.ltb a b).
Proof. exact less_key_shape. Qed.
Print Assumptions C20_less_known_first.

(* ---- the sort ---- *)

(* the concrete sort of the model meets the hypothesis the abstract statements are made under *)
Theorem C20_isort_meets_S1 : S1 isort.
Proof. exact isort_S1. Qed.
Print Assumptions C20_isort_meets_S1.

(* any two sorts meeting (S1) agree on a collection whose sort keys are pairwise distinct: there the
   result does not depend on the algorithm sort.Sort uses *)
Theorem C20_sort_unique : forall srt srt', S1 srt -> S1 srt' ->
  forall (B : Type) cmp, strict_total cmp -> forall l : list (string * B),
    NoDup (map fst l) -> srt _ (lt_fst cmp) l = srt' _ (lt_fst cmp) l.
Proof. exact S1_unique. Qed.
Print Assumptions C20_sort_unique.

(* the formatter's result does not depend on which (S1) sort is used when every mapping has distinct
   keys and every whitelisted list has distinct sort keys; this is the domain on which the
   correspondence compares the implementation (pdqsort) with the model (insertion sort) beyond 12
   entries *)
Theorem C20_sort_independent : forall nonstr hastype srt srt' kind api, S1 srt -> S1 srt' -> forall n s p,
  distinct_sortkeys kind api p n = true ->
  fmt_node nonstr hastype srt kind api s p n = fmt_node nonstr hastype srt' kind api s p n.
Proof. exact fmt_sort_independent. Qed.
Print Assumptions C20_sort_independent.

(* ---- idempotence ----
   Full statement, all nodes (duplicate keys, equal or missing sort keys, nested lists, aliases included),
   all schemas and paths: formatting a formatted node changes nothing.  [isort] is the stable sort —
   sort.Stable since the repair "formatter sorts ... with sort.Stable"; only mapping elements carry a
   sort field since the repair "formatter reads the sort field ... only from mapping elements".
   Before the two repairs this was refuted (a list nested in `containers`; an element with the sort field
   twice under the non-stable sort.Sort): the former witnesses are the regression Examples
   wit_nested_seq_now_idempotent, wit_dup_sortfield_now_idempotent, unstable_sort_breaks_idempotence. *)
Theorem C20_idempotent : forall nonstr hastype kind api n s p n',
  fmt_node nonstr hastype isort kind api s p n = Ok n' -> fmt_node nonstr hastype isort kind api s p n' = Ok n'.
Proof. exact fmt_idem_isort. Qed.
Print Assumptions C20_idempotent.

(* the same for FormatFilter.Filter on a whole stream (annotation opt-out, kind / apiVersion lookup
   included): filtering the filtered stream returns it unchanged *)
Theorem C20_stream_idempotent : forall nonstr hastype docs outs,
  filter_stream nonstr hastype isort docs = Ok outs ->
  filter_stream nonstr hastype isort (combine outs (map snd docs)) = Ok outs.
Proof. exact filter_stream_idem_isort. Qed.
Print Assumptions C20_stream_idempotent.

(* robustness: with ANY sort meeting (S1), stable or not, idempotence holds for documents whose
   mappings have distinct keys *)
Theorem C20_idempotent_any_sort : forall nonstr hastype kind api srt, S1 srt -> forall n s p n',
  wf_keys n = true ->
  fmt_node nonstr hastype srt kind api s p n = Ok n' -> fmt_node nonstr hastype srt kind api s p n' = Ok n'.
Proof. exact fmt_idem_S1. Qed.
Print Assumptions C20_idempotent_any_sort.

Theorem C20_stream_idempotent_any_sort : forall nonstr hastype srt docs outs, S1 srt ->
  Forall (fun d => wf_keys (fst d) = true) docs ->
  filter_stream nonstr hastype srt docs = Ok outs ->
  filter_stream nonstr hastype srt (combine outs (map snd docs)) = Ok outs.
Proof. exact filter_stream_idem_S1. Qed.
Print Assumptions C20_stream_idempotent_any_sort.

(* ---- canonical order ----
   In a formatted node every mapping is in field order (Less, built on the generated order table) and
   every whitelisted list is ordered by the sort keys of its elements — all nodes, all schemas. *)
Theorem C20_output_canonical_order : forall nonstr hastype kind api n s p n',
  fmt_node nonstr hastype isort kind api s p n = Ok n' -> canon_sorted kind api p n' = true.
Proof. exact fmt_output_sorted. Qed.
Print Assumptions C20_output_canonical_order.

(* ---- no crash ----
   The formatter never panics: all nodes, all schemas and paths, any sort function.
   (Before /repo commit d64b8e2 this was refuted — sortedSeqContents.Less indexed Content[a+1] of an
   odd-length sequence element of a keyed whitelisted list; the guard `a+1 < len(Content)` removed the
   only panic site of the model.) *)
Theorem C20_no_panic : forall nonstr hastype kind api srt n s p,
  exists n', fmt_node nonstr hastype srt kind api s p n = Ok n'.
Proof. exact fmt_no_panic. Qed.
Print Assumptions C20_no_panic.

(* ---- meaning ---- *)

(* without a schema the output is the input with the pairs of each mapping permuted (a key keeps its
   own value node), the elements of the whitelisted lists permuted, all other lists in order, every
   scalar untouched; for all nodes and any sort meeting (S1) *)
Theorem C20_value_preserved : forall nonstr hastype srt kind api, S1 srt -> forall n p n',
  fmt_node nonstr hastype srt kind api SNil p n = Ok n' -> shuffled kind api eq p n n'.
Proof. exact fmt_value_preserved_noschema. Qed.
Print Assumptions C20_value_preserved.

(* with a schema the same holds except that Style and Tag of scalars may change (comments, anchor and
   text of the scalar stay) *)
Theorem C20_value_preserved_schema : forall nonstr hastype srt kind api, S1 srt -> forall n s p n',
  fmt_node nonstr hastype srt kind api s p n = Ok n' -> shuffled kind api hdr_sim p n n'.
Proof. exact fmt_value_preserved. Qed.
Print Assumptions C20_value_preserved_schema.

(* full statement "a document a YAML parser accepts is formatted into one it accepts" is FALSE:
   fmtNode moves nodes without regard to anchors (finding reparse/alias-before-anchor) *)
Theorem C20_anchor_order_refuted : forall nonstr hastype, exists n n',
  wf_keys n = true /\ anchors_ok n = true /\
  filter_doc nonstr hastype isort SNil n = Ok n' /\ anchors_ok n' = false.
Proof. exact fmt_anchor_order_refuted. Qed.
Print Assumptions C20_anchor_order_refuted.

(* ---- reparse (anchors) ----
   Full statement: a document a YAML parser accepts (every alias after its anchor: anchors_ok) is formatted
   into one it accepts.  FALSE for documents with aliases (C20_anchor_order_refuted above, finding
   reparse/alias-before-anchor: fmtNode moves nodes without regard to anchors).  The guard below is exactly the
   complement of that finding's input class (the oracle assigns the class only to inputs that contain an
   alias): on the alias-free fragment — anchors allowed — formatting cannot break the reparse through
   anchors, for fmtNode and for FormatFilter.Filter, with any (S1) sort. *)
Theorem C20_reparse_partial : forall nonstr hastype srt, S1 srt ->
  (forall kind api n s p n',
     alias_free n = true -> fmt_node nonstr hastype srt kind api s p n = Ok n' ->
     alias_free n' = true /\ anchors_ok n' = true) /\
  (forall s n n',
     alias_free n = true -> filter_doc nonstr hastype srt s n = Ok n' ->
     alias_free n' = true /\ anchors_ok n' = true).
Proof.
  exact (fun nonstr hastype srt H =>
    conj (fun kind api => fmt_alias_free nonstr hastype srt kind api H)
         (filter_doc_reparse nonstr hastype srt H)).
Qed.
Print Assumptions C20_reparse_partial.

(* the head / line / foot comments of all nodes: same multiset before and after *)
Theorem C20_comments_preserved : forall nonstr hastype srt kind api, S1 srt -> forall n s p n',
  fmt_node nonstr hastype srt kind api s p n = Ok n' -> Permutation (comments n') (comments n).
Proof. exact fmt_comments. Qed.
Print Assumptions C20_comments_preserved.

(* two documents that differ only in the order of the fields of their mappings format to the same
   node, when keys are unique; any sort meeting (S1) *)
Theorem C20_canonical : forall nonstr hastype srt kind api, S1 srt -> forall n1 n2 s p a b,
  mperm n1 n2 -> wf_keys n1 = true ->
  fmt_node nonstr hastype srt kind api s p n1 = Ok a -> fmt_node nonstr hastype srt kind api s p n2 = Ok b -> a = b.
Proof. exact fmt_canonical. Qed.
Print Assumptions C20_canonical.

(* ---- schema-aware quoting (FormatNonStringStyle) ----
   nonstr = yaml.IsValueNonString; hastype v t = "v, read as an unquoted YAML 1.1 scalar, is of the
   OpenAPI type t" (valueHasType).  Before the repair of schema/mismatched-scalar-retagged the tag was
   set from the schema type alone (`replicas: true` became `!!int true`): regression Example
   wit_mistyped_scalar_untouched. *)
Theorem C20_schema_quote : forall nonstr hastype (h : hdr) (v : string),
  (* text YAML 1.1 reads as a string: untouched *)
  (forall types format, nonstr v = false -> fmt_nonstring nonstr hastype types format h v = h) /\
  (* string-typed position: quoted, !!str *)
  (forall format, nonstr v = true -> String.eqb format "int-or-string" = false ->
     String.eqb (h_tag h) node_tag_null = false ->
     style_quoted (h_style (fmt_nonstring nonstr hastype ["string"] format h v)) = true /\
     h_tag (fmt_nonstring nonstr hastype ["string"] format h v) = "!!str") /\
  (* boolean / integer / number position, value of that type: unquoted, tagged with the type *)
  (forall t format tg, nonstr v = true -> is_num_type t -> hastype v t = true ->
     assoc_str t type_to_tag = Some tg -> String.eqb (h_tag h) node_tag_null = false ->
     style_quoted (h_style (fmt_nonstring nonstr hastype [t] format h v)) = false /\
     h_tag (fmt_nonstring nonstr hastype [t] format h v) = tg) /\
  (* ... value of another type: left exactly as written *)
  (forall t format, is_num_type t -> hastype v t = false ->
     fmt_nonstring nonstr hastype [t] format h v = h) /\
  (* a null stays an unquoted null *)
  (forall t format, nonstr v = true -> String.eqb (h_tag h) node_tag_null = true ->
     (t = "string" /\ String.eqb format "int-or-string" = false \/ is_num_type t /\ hastype v t = true) ->
     h_style (fmt_nonstring nonstr hastype [t] format h v) = 0%N /\
     h_tag (fmt_nonstring nonstr hastype [t] format h v) = h_tag h) /\
  (* a string stays a string at a string-typed position *)
  (forall format, style_quoted (h_style h) = true \/ nonstr v = false ->
     String.eqb (h_tag h) node_tag_null = false ->
     style_quoted (h_style (fmt_nonstring nonstr hastype ["string"] format h v)) = true \/ nonstr v = false).
Proof.
  exact (fun nonstr hastype h v =>
    conj (sq_untouched nonstr hastype h v)
   (conj (sq_string nonstr hastype h v)
   (conj (sq_number nonstr hastype h v)
   (conj (sq_mistyped nonstr hastype h v)
   (conj (sq_null nonstr hastype h v) (sq_string_stays nonstr hastype h v)))))).
Qed.
Print Assumptions C20_schema_quote.

(* the tag after formatting is the tag before, or the YAML tag of an OpenAPI type the schema names and
   the value really has (or "string") — the formatter cannot produce `!!int true` any more *)
Theorem C20_schema_tag_sound : forall nonstr hastype (h : hdr) (v : string) types format,
  h_tag (fmt_nonstring nonstr hastype types format h v) = h_tag h \/
  (exists t, types = [t] /\
     assoc_str t type_to_tag = Some (h_tag (fmt_nonstring nonstr hastype types format h v)) /\
     (t = "string" \/ hastype v t = true)).
Proof. exact sq_tag_sound. Qed.
Print Assumptions C20_schema_tag_sound.

(* the same rules with the YAML 1.1 resolution INSIDE the model: on the fragment of texts that are
   certainly one plain scalar (Yaml/Resolve11.v: word table, ParseInt / ParseFloat syntax, tied to
   go-yaml v2 by the correspondence) the answers of IsValueNonString / valueHasType are computed, the
   oracles o1 / o2 only serve texts outside the fragment *)
Theorem C20_schema_quote_resolved : forall o1 o2 (h : hdr) (v : string) (r : rtag),
  resolve11 v = Some r ->
  let fns := fmt_nonstring (nonstr_m o1) (hastype_m o2) in
  (* a text YAML 1.1 resolves to a string is never touched, whatever the schema says *)
  (forall types format, r = RStr -> fns types format h v = h) /\
  (* a boolean / number / null text at a string-typed position: quoted, !!str *)
  (forall format, r <> RStr -> String.eqb format "int-or-string" = false ->
     String.eqb (h_tag h) node_tag_null = false ->
     style_quoted (h_style (fns ["string"] format h v)) = true /\ h_tag (fns ["string"] format h v) = "!!str") /\
  (* at a boolean / integer / number position: unquoted + tagged when the text has that type ... *)
  (forall t format tg, is_num_type t -> rtag_has_type r t = true -> assoc_str t type_to_tag = Some tg ->
     String.eqb (h_tag h) node_tag_null = false ->
     style_quoted (h_style (fns [t] format h v)) = false /\ h_tag (fns [t] format h v) = tg) /\
  (* ... and left exactly as written otherwise *)
  (forall t format, is_num_type t -> rtag_has_type r t = false -> fns [t] format h v = h).
Proof.
  exact (fun o1 o2 h v r HR =>
    conj (sqr_string_untouched o1 o2 h v r HR)
   (conj (sqr_quoted o1 o2 h v r HR)
   (conj (sqr_typed o1 o2 h v r HR) (sqr_mistyped o1 o2 h v r HR)))).
Qed.
Print Assumptions C20_schema_quote_resolved.

(* ---- the shared instance of the oracle parameter nonstr (yaml.IsValueNonString) ----
   Every model that takes `nonstr : string -> bool` as a parameter can use [nonstr_m o]: *)

(* what the model computes: non-string <=> the text resolves (Resolve11) to bool / int / float / null *)
Theorem C20_nonstr_of_resolve11 : forall s,
  nonstr_of_resolve11 s = true <->
  exists r, resolve11 s = Some r /\ (r = RBool \/ r = RInt \/ r = RFloat \/ r = RNull).
Proof. exact nonstr_of_resolve11_spec. Qed.
Print Assumptions C20_nonstr_of_resolve11.

(* the instance in full: IsValueNonString's two early exits, the computed part, the oracle elsewhere;
   where the model has an answer the residual oracle is not consulted; and two oracles that agree
   outside the model's fragment give the same instance *)
Theorem C20_nonstr_instance : forall o,
  (forall s, nonstr_m o s = true <->
     s <> "" /\ has_newline s = false /\
     (nonstr_of_resolve11 s = true \/ (resolve11 s = None /\ o s = true))) /\
  (forall s, resolved s = true -> nonstr_m o s = nonstr_of_resolve11 s) /\
  (forall o', (forall s, resolve11 s = None -> o s = o' s) -> forall s, nonstr_m o s = nonstr_m o' s).
Proof.
  exact (fun o => conj (nonstr_m_spec o) (conj (nonstr_m_resolved_any o) (nonstr_m_ext o))).
Qed.
Print Assumptions C20_nonstr_instance.

(* ---- documents the filter leaves alone ---- *)
Theorem C20_optout : forall nonstr hastype srt s n v,
  lookup_fields ["metadata"; "annotations"; fmt_annotation] n = Ok (Some v) ->
  cvalue v = fmt_strategy_none ->
  filter_doc nonstr hastype srt s n = Ok n.
Proof. exact filter_doc_optout. Qed.
Print Assumptions C20_optout.

Theorem C20_untyped_untouched : forall nonstr hastype srt s n,
  get_strategy n = Ok StStandard ->
  get_field "kind" n = Ok None \/
    (exists k, get_field "kind" n = Ok (Some k)) /\ get_field "apiVersion" n = Ok None ->
  filter_doc nonstr hastype srt s n = Ok n.
Proof. exact filter_doc_untyped. Qed.
Print Assumptions C20_untyped_untouched.
