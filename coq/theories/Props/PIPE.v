(* Whole-build theorems over the integrated pipeline model (Res/Pipeline.v: accumulate -> generators ->
   transformers in the generated builtin order -> hash -> name references -> sort -> strip).
   Statements only: every proof is `exact lemma` (lemmas in Res/PipelineProofs.v).
   These theorems extend the coverage of C02, C11, C19, C01 and C07 to whole builds. *)
From KV Require Import Res.Pipeline Res.PipelineProofs Res.PipelineOrderProofs Res.PipelineFrameProofs Res.PipelineGenProofs Res.PipelinePermProofs.
From KV Require Res.Generators Res.Hash.
From KV Require Import Yaml.FieldSpecSpec Yaml.FieldSpecProofs.
From KV Require Res.Labels Res.Hygiene.
From Coq Require Import Sorting.Permutation.

(* ---------- generated tables ---------- *)

(* every builtin transformer kind of configureBuiltinTransformers is classified (modelled or out of scope),
   all modelled ones occur, none twice; the model runs them in the generated order *)
Theorem Gen_transformer_order_known : transformer_order_known_b = true.
Proof. exact gen_transformer_order_known. Qed.
Print Assumptions Gen_transformer_order_known.

Theorem Gen_generator_order_known : generator_order_known_b = true.
Proof. exact gen_generator_order_known. Qed.
Print Assumptions Gen_generator_order_known.

(* the relative order the per-property slices assume: namespace, prefix, suffix, labels, annotations *)
Theorem Gen_transformer_order_modelled :
  filter (fun n => str_in n modelled_transformers) gen_transformer_order =
  ["NamespaceTransformer"; "PrefixTransformer"; "SuffixTransformer"; "LabelTransformer"; "AnnotationsTransformer"]%string.
Proof. exact gen_transformer_order_modelled. Qed.
Print Assumptions Gen_transformer_order_modelled.

(* ---------- C11: relocation ----------
   The syntax of the model has no paths: a resources entry is a file's documents or a sub-kustomization, which
   is the faithful abstraction of FileLoader (every path is resolved relative to the referencing root and only
   the loaded CONTENT flows on).  Directory names are carried as uninterpreted labels; the theorem says that no
   function of the build reads them: any renaming of directories (injective or not) leaves the build unchanged. *)
Theorem PIPE_relocate :
  forall nonstr (f : string -> string) o t, build nonstr o (rename_dirs f t) = build nonstr o t.
Proof. exact build_relocate. Qed.
Print Assumptions PIPE_relocate.

(* ---------- C11: wrapping ----------
   Full statement: build (wrap T) = build T for every kustomization directory T.
   Proved: ... whenever the ids T accumulates are pairwise distinct; and (PIPE_wrap_collision) when they are NOT,
   the wrapper fails - MergeAccumulator's AppendAll is the only thing a directive-less layer adds.
   Missing for the unconditional statement: the invariant that accumulateTarget always returns pairwise distinct
   ids (it holds after Append/AppendAll and after the namespace transformer by their own checks; prefix / suffix /
   label transformers do not re-check, and C07_ids_unique_layers proves the invariant at the id level only). *)
Theorem PIPE_wrap_partial :
  forall nonstr name o t,
    (exists n d ents, t = PDir n d ents) ->
    (forall m, accumulate nonstr t = Ok m -> distinct_ids m) ->
    build nonstr o (wrap name t) = build nonstr o t.
Proof. exact build_wrap. Qed.
Print Assumptions PIPE_wrap_partial.

Theorem PIPE_wrap_collision :
  forall nonstr name o n d ents m,
    accumulate nonstr (PDir n d ents) = Ok m -> ~ distinct_ids m ->
    build nonstr o (wrap name (PDir n d ents)) = Err.
Proof. exact build_wrap_collision. Qed.
Print Assumptions PIPE_wrap_collision.

(* unconditionally, for every kustomization directory: the wrapper is transparent, or it fails - and then exactly
   because two of the resources the inner kustomization accumulated share an id *)
Theorem PIPE_wrap_total :
  forall nonstr name o n d ents,
    build nonstr o (wrap name (PDir n d ents)) = build nonstr o (PDir n d ents) \/
    (build nonstr o (wrap name (PDir n d ents)) = Err /\
     exists m, accumulate nonstr (PDir n d ents) = Ok m /\ ~ distinct_ids m).
Proof. exact build_wrap_total. Qed.
Print Assumptions PIPE_wrap_total.

(* ---------- C19: commonLabels vs labels[{pairs, includeSelectors: true}] ----------
   Rewriting commonLabels of ANY subset of layers (selected by directory name) into a trailing `labels` entry
   with includeSelectors - what FixKustomizationPreMarshalling does - never changes the build. *)
Theorem PIPE_deprecated_spellings :
  forall nonstr (which : string -> bool) o t, build nonstr o (respell_tree which t) = build nonstr o t.
Proof. exact build_respell. Qed.
Print Assumptions PIPE_deprecated_spellings.

(* ---------- C07: hygiene and id uniqueness ---------- *)

(* every output is the final strip of a document, and the strip leaves none of the kustomize-internal keys
   (the generated list of Res/Hygiene.v) in metadata.annotations - for every document whose metadata does not
   repeat the `annotations` key *)
Theorem PIPE_hygiene :
  forall nonstr o t outs,
    build nonstr o t = Ok outs ->
    exists pre, outs = map strip_node pre /\
      forall n k, In n pre -> annos_once n -> In k Hygiene.internal_keys ->
                  ~ In k (map fst (annos_of (strip_node n))).
Proof. exact build_hygiene. Qed.
Print Assumptions PIPE_hygiene.

(* legacy order: the outputs of a successful build have pairwise distinct ids, unconditionally *)
Theorem PIPE_ids_unique_legacy :
  forall nonstr first last t outs,
    build nonstr (PSortLegacy first last) t = Ok outs -> distinct_node_ids outs.
Proof. exact build_ids_unique_legacy. Qed.
Print Assumptions PIPE_ids_unique_legacy.

(* fifo / no order: distinct whenever the ids are distinct right after the hash suffixes were added
   (the hash step itself can create a clash: C07_ids_unique_hash_refuted) *)
Theorem PIPE_ids_unique_fifo_partial :
  forall nonstr o t outs,
    (o = PSortNone \/ o = PSortFifo) ->
    build nonstr o t = Ok outs ->
    (forall m m1, accumulate nonstr t = Ok m -> mapM (hash_res nonstr) m = Ok m1 -> distinct_ids m1) ->
    distinct_node_ids outs.
Proof. exact build_ids_unique_fifo_partial. Qed.
Print Assumptions PIPE_ids_unique_fifo_partial.

(* ---------- C02: the whole-build frame theorem ----------
   [frame_fs]: every builtin field-spec table (prefix, suffix, labels incl. templates and selectors, annotations,
   namespace, images, replicas, var references: Gen/FieldSpecs.v), the referrer paths of the merged name-reference
   rule table (Gen/NameRefRules.v), metadata/labels, metadata/namespace, `subjects` (RoleBinding hack) and
   metadata/annotations (final rewrite).  [untouched q]: the JSON location q leaves each of these paths at some key. *)

(* obligations on the generated tables: all paths are made of plain segments; nothing can reach kind / apiVersion *)
Theorem Gen_frame_paths_wellformed : forallb (fun fs => forallb seg_ok (fs_segments fs)) frame_fs = true.
Proof. exact frame_fs_segments_ok. Qed.
Print Assumptions Gen_frame_paths_wellformed.

Theorem Gen_kind_untouched : untouched [JKey "kind"%string] /\ untouched [JKey "apiVersion"%string].
Proof. exact (conj kind_untouched api_version_untouched). Qed.
Print Assumptions Gen_kind_untouched.

(* For every successful build of a tree whose documents have a `kind` and whose `labels` entries carry no custom
   `fields`: the outputs are, up to the order chosen by the final sort, in one-to-one positional correspondence
   with a source list [srcs] whose [Some] entries are EXACTLY the input documents in accumulation order (every
   input document appears exactly once; the [None] entries are the generated ConfigMaps / Secrets), and every
   untouched location of an output holds the very node the input held there (tags, styles and text included). *)
Theorem PIPE_build_frame :
  forall nonstr o t outs,
    tree_ok t -> build nonstr o t = Ok outs ->
    exists (srcs : list (option node)) (outs0 : list node),
      Permutation outs outs0 /\ somes srcs = inputs t /\
      Forall2 (fun s out => match s with
                            | Some src => forall q, untouched q -> get_at q out = get_at q src
                            | None => True
                            end) srcs outs0.
Proof. exact build_frame. Qed.
Print Assumptions PIPE_build_frame.

Theorem PIPE_identity_count :
  forall nonstr o t outs,
    tree_ok t -> build nonstr o t = Ok outs ->
    exists srcs : list (option node), List.length outs = List.length srcs /\ somes srcs = inputs t.
Proof. exact build_frame_count. Qed.
Print Assumptions PIPE_identity_count.

(* ---------- C01: the name-reference pass is independent of Go's map iteration order ----------
   [nameref_in_order rules order m] visits the referrers in the given order of positions, each visit reading the
   current map and replacing only the visited referrer; [nameref_transform] (the function [build] uses) is the
   list-order instance.  For the generated rule table, every order that visits each position exactly once gives,
   on success, the same map - and succeeds iff the list order does. *)
Theorem PIPE_nameref_order_independent :
  forall nonstr rules order m out,
    effective_rules gen_gvk_order_first gen_gvk_order_last gen_nameref_raw = Ok rules ->
    Permutation order (seq 0 (List.length m)) ->
    nameref_in_order nonstr rules order m = Ok out ->
    nameref_transform pipe_cs nonstr rules m = Ok out.
Proof. exact nameref_order_independent. Qed.
Print Assumptions PIPE_nameref_order_independent.

Theorem PIPE_nameref_order_independent_conv :
  forall nonstr rules order m out,
    effective_rules gen_gvk_order_first gen_gvk_order_last gen_nameref_raw = Ok rules ->
    Permutation order (seq 0 (List.length m)) ->
    nameref_transform pipe_cs nonstr rules m = Ok out ->
    nameref_in_order nonstr rules order m = Ok out.
Proof. exact nameref_order_independent_conv. Qed.
Print Assumptions PIPE_nameref_order_independent_conv.

(* ---------- C06 bridge: the generated DOCUMENT of the pipeline projects onto C06's abstract generated object ----------
   Same name, namespace, kind and hashed content: the hash suffix the pipeline computes from the document
   (content_of_node) is the hash C06's theorems (name = f(final content)) are about. *)
Theorem PIPE_generated_projection :
  forall secret g n,
    gen_node secret g = Ok n ->
    exists o, Generators.make_generated [] None (genargs_of secret g) = Ok o /\
              content_of_node n = Generators.content_of o /\
              get_name n = Generators.g_name o /\ get_namespace n = Generators.g_ns o /\
              get_kind n = (if Generators.g_secret o then "Secret" else "ConfigMap")%string.
Proof. exact gen_node_projects. Qed.
Print Assumptions PIPE_generated_projection.

(* ---------- C11: permuting resources lists (partial) ----------
   Full statement: permuting the entries of any resources list permutes the output documents of `build`.
   Proved: for trees without a `namespace:` directive whose generators only create, permuting the entries of
   resources lists AT ANY DEPTH ([tperm]: entries rewritten recursively, then permuted) permutes the resource map the
   build holds after accumulation and hash suffixes - whole documents with their rename history, through prefixes,
   suffixes, labels, annotations, generated ConfigMaps / Secrets (collision checks included: the permuted tree
   succeeds whenever the original does).
   Missing: the namespace transformer's id-conflict loop (it compares each visited resource with the not yet
   visited ones) and the name-reference pass (its candidate lists are in map order); the final legacy sort then
   makes the output order canonical (C11_legacy_canonical). *)
Theorem PIPE_permute_multiset_partial :
  forall nonstr t t' m1,
    tperm t t' -> perm_ok t ->
    (do m <- accumulate nonstr t; mapM (hash_res nonstr) m) = Ok m1 ->
    exists m1', (do m <- accumulate nonstr t'; mapM (hash_res nonstr) m) = Ok m1' /\ Permutation m1 m1'.
Proof. exact accumulate_hash_perm. Qed.
Print Assumptions PIPE_permute_multiset_partial.
