(* Whole-build theorems over the integrated pipeline model (Res/Pipeline.v).  Statements only:
   every proof is `exact lemma` (lemmas in Res/PipelineProofs.v). *)
From KV Require Import Res.Pipeline Res.PipelineProofs.

(* the generated transformer / generator order is fully classified by the model *)
Theorem Gen_transformer_order_known : transformer_order_known_b = true.
Proof. exact gen_transformer_order_known. Qed.
Print Assumptions Gen_transformer_order_known.

Theorem Gen_generator_order_known : generator_order_known_b = true.
Proof. exact gen_generator_order_known. Qed.
Print Assumptions Gen_generator_order_known.
