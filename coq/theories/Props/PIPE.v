(* Whole-build theorems over the integrated pipeline model (Res/Pipeline.v: accumulate -> generators ->
   transformers in the generated builtin order -> hash -> name references -> sort -> strip).
   Statements only: every proof is `exact lemma` (lemmas in Res/PipelineProofs.v).
   These theorems extend the coverage of C02, C11, C19, C01 and C07 to whole builds. *)
From KV Require Import Res.Pipeline Res.PipelineProofs.
From KV Require Res.Labels Res.Hygiene.

(* ---------- generated tables ---------- *)

(* every builtin transformer kind of configureBuiltinTransformers is classified (modelled or out of scope),
   all modelled ones occur, none twice; the model runs them in the generated order *)
Theorem Gen_transformer_order_known : transformer_order_known_b = true.
Proof. exact gen_transformer_order_known. Qed.
Print Assumptions Gen_transformer_order_known.

Theorem Gen_generator_order_known : generator_order_known_b = true.
Proof. exact gen_generator_order_known. Qed.
Print Assumptions Gen_generator_order_known.

(* the relative order the per-property slices assume: namespace, prefix, suffix, labels, annotations *)
Theorem Gen_transformer_order_modelled :
  filter (fun n => str_in n modelled_transformers) gen_transformer_order =
  ["NamespaceTransformer"; "PrefixTransformer"; "SuffixTransformer"; "LabelTransformer"; "AnnotationsTransformer"]%string.
Proof. exact gen_transformer_order_modelled. Qed.
Print Assumptions Gen_transformer_order_modelled.

(* ---------- C11: relocation ----------
   The syntax of the model has no paths: a resources entry is a file's documents or a sub-kustomization, which
   is the faithful abstraction of FileLoader (every path is resolved relative to the referencing root and only
   the loaded CONTENT flows on).  Directory names are carried as uninterpreted labels; the theorem says that no
   function of the build reads them: any renaming of directories (injective or not) leaves the build unchanged. *)
Theorem PIPE_relocate :
  forall nonstr (f : string -> string) o t, build nonstr o (rename_dirs f t) = build nonstr o t.
Proof. exact build_relocate. Qed.
Print Assumptions PIPE_relocate.

(* ---------- C11: wrapping ----------
   Full statement: build (wrap T) = build T for every kustomization directory T.
   Proved: ... whenever the ids T accumulates are pairwise distinct; and (PIPE_wrap_collision) when they are NOT,
   the wrapper fails - MergeAccumulator's AppendAll is the only thing a directive-less layer adds.
   Missing for the unconditional statement: the invariant that accumulateTarget always returns pairwise distinct
   ids (it holds after Append/AppendAll and after the namespace transformer by their own checks; prefix / suffix /
   label transformers do not re-check, and C07_ids_unique_layers proves the invariant at the id level only). *)
Theorem PIPE_wrap_partial :
  forall nonstr name o t,
    (exists n d ents, t = PDir n d ents) ->
    (forall m, accumulate nonstr t = Ok m -> distinct_ids m) ->
    build nonstr o (wrap name t) = build nonstr o t.
Proof. exact build_wrap. Qed.
Print Assumptions PIPE_wrap_partial.

Theorem PIPE_wrap_collision :
  forall nonstr name o n d ents m,
    accumulate nonstr (PDir n d ents) = Ok m -> ~ distinct_ids m ->
    build nonstr o (wrap name (PDir n d ents)) = Err.
Proof. exact build_wrap_collision. Qed.
Print Assumptions PIPE_wrap_collision.

(* ---------- C19: commonLabels vs labels[{pairs, includeSelectors: true}] ----------
   Rewriting commonLabels of ANY subset of layers (selected by directory name) into a trailing `labels` entry
   with includeSelectors - what FixKustomizationPreMarshalling does - never changes the build. *)
Theorem PIPE_deprecated_spellings :
  forall nonstr (which : string -> bool) o t, build nonstr o (respell_tree which t) = build nonstr o t.
Proof. exact build_respell. Qed.
Print Assumptions PIPE_deprecated_spellings.

(* ---------- C07: hygiene and id uniqueness ---------- *)

(* every output is the final strip of a document, and the strip leaves none of the kustomize-internal keys
   (the generated list of Res/Hygiene.v) in metadata.annotations - for every document whose metadata does not
   repeat the `annotations` key *)
Theorem PIPE_hygiene :
  forall nonstr o t outs,
    build nonstr o t = Ok outs ->
    exists pre, outs = map strip_node pre /\
      forall n k, In n pre -> annos_once n -> In k Hygiene.internal_keys ->
                  ~ In k (map fst (annos_of (strip_node n))).
Proof. exact build_hygiene. Qed.
Print Assumptions PIPE_hygiene.

(* legacy order: the outputs of a successful build have pairwise distinct ids, unconditionally *)
Theorem PIPE_ids_unique_legacy :
  forall nonstr first last t outs,
    build nonstr (PSortLegacy first last) t = Ok outs -> distinct_node_ids outs.
Proof. exact build_ids_unique_legacy. Qed.
Print Assumptions PIPE_ids_unique_legacy.

(* fifo / no order: distinct whenever the ids are distinct right after the hash suffixes were added
   (the hash step itself can create a clash: C07_ids_unique_hash_refuted) *)
Theorem PIPE_ids_unique_fifo_partial :
  forall nonstr o t outs,
    (o = PSortNone \/ o = PSortFifo) ->
    build nonstr o t = Ok outs ->
    (forall m m1, accumulate nonstr t = Ok m -> mapM (hash_res nonstr) m = Ok m1 -> distinct_ids m1) ->
    distinct_node_ids outs.
Proof. exact build_ids_unique_fifo_partial. Qed.
Print Assumptions PIPE_ids_unique_fifo_partial.
