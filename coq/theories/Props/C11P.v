(* C11, whole-build part: theorems over the integrated pipeline model (Res/Pipeline.v: accumulate -> generators ->
   transformers in the generated builtin order -> hash -> name references -> sort -> strip).
   Statements only: every proof is `exact lemma` (lemmas in Res/PipelineProofs.v).
   These theorems extend the coverage of C02, C11, C19, C01 and C07 to whole builds. *)
From KV Require Import Res.Pipeline Res.PipelineProofs Res.PipelineOrderProofs Res.PipelineFrameProofs Res.PipelineGenProofs Res.PipelinePermProofs Res.PipelineWfProofs Res.PipelineComposeProofs.
From KV Require Res.Generators Res.Hash Res.Compose Res.ComposeProofs Res.C11Gen Res.LegacySort Res.LegacySortProofs Gen.LegacyOrder.
From KV Require Import Yaml.FieldSpecSpec Yaml.FieldSpecProofs.
From KV Require Res.Labels Res.Hygiene.
From Coq Require Import Sorting.Permutation.


(* ---------- C11: relocation ----------
   The syntax of the model has no paths: a resources entry is a file's documents or a sub-kustomization, which
   is the faithful abstraction of FileLoader (every path is resolved relative to the referencing root and only
   the loaded CONTENT flows on).  Directory names are carried as uninterpreted labels; the theorem says that no
   function of the build reads them: any renaming of directories (injective or not) leaves the build unchanged. *)
Theorem PIPE_relocate :
  forall nonstr (f : string -> string) o t, build nonstr o (rename_dirs f t) = build nonstr o t.
Proof. exact build_relocate. Qed.
Print Assumptions PIPE_relocate.


(* ---------- C11: wrapping ----------
   Full statement: build (wrap T) = build T for every kustomization directory T.
   Proved: ... whenever the ids T accumulates are pairwise distinct; and (PIPE_wrap_collision) when they are NOT,
   the wrapper fails - MergeAccumulator's AppendAll is the only thing a directive-less layer adds.
   Missing for the unconditional statement: the invariant that accumulateTarget always returns pairwise distinct
   ids (it holds after Append/AppendAll and after the namespace transformer by their own checks; prefix / suffix /
   label transformers do not re-check, and C07_ids_unique_layers proves the invariant at the id level only). *)
Theorem PIPE_wrap_partial :
  forall nonstr name o t,
    (exists n d ents, t = PDir n d ents) ->
    (forall m, accumulate nonstr t = Ok m -> distinct_ids m) ->
    build nonstr o (wrap name t) = build nonstr o t.
Proof. exact build_wrap. Qed.
Print Assumptions PIPE_wrap_partial.


Theorem PIPE_wrap_collision :
  forall nonstr name o n d ents m,
    accumulate nonstr (PDir n d ents) = Ok m -> ~ distinct_ids m ->
    build nonstr o (wrap name (PDir n d ents)) = Err.
Proof. exact build_wrap_collision. Qed.
Print Assumptions PIPE_wrap_collision.


(* unconditionally, for every kustomization directory: the wrapper is transparent, or it fails - and then exactly
   because two of the resources the inner kustomization accumulated share an id *)
Theorem PIPE_wrap_total :
  forall nonstr name o n d ents,
    build nonstr o (wrap name (PDir n d ents)) = build nonstr o (PDir n d ents) \/
    (build nonstr o (wrap name (PDir n d ents)) = Err /\
     exists m, accumulate nonstr (PDir n d ents) = Ok m /\ ~ distinct_ids m).
Proof. exact build_wrap_total. Qed.
Print Assumptions PIPE_wrap_total.


(* ---------- C11: permuting resources lists (partial) ----------
   Full statement: permuting the entries of any resources list permutes the output documents of `build`.
   Proved: for trees without a `namespace:` directive whose generators only create, permuting the entries of
   resources lists AT ANY DEPTH ([tperm]: entries rewritten recursively, then permuted) permutes the resource map the
   build holds after accumulation and hash suffixes - whole documents with their rename history, through prefixes,
   suffixes, labels, annotations, generated ConfigMaps / Secrets (collision checks included: the permuted tree
   succeeds whenever the original does).
   Missing: the namespace transformer's id-conflict loop (it compares each visited resource with the not yet
   visited ones) and the name-reference pass (its candidate lists are in map order); the final legacy sort then
   makes the output order canonical (C11_legacy_canonical). *)
Theorem PIPE_permute_multiset_partial :
  forall nonstr t t' m1,
    tperm t t' -> perm_ok t ->
    (do m <- accumulate nonstr t; mapM (hash_res nonstr) m) = Ok m1 ->
    exists m1', (do m <- accumulate nonstr t'; mapM (hash_res nonstr) m) = Ok m1' /\ Permutation m1 m1'.
Proof. exact accumulate_hash_perm. Qed.
Print Assumptions PIPE_permute_multiset_partial.


(* ---------- C11: wrapping, without a hypothesis on the accumulated ids ----------
   For trees of well-formed documents ([tree_wf], Res/PipelineWfProofs.v: wf_node documents; per layer no custom
   labels[].fields, create-only generators with good names, comma-free namespace / namePrefix / nameSuffix) the
   ids a kustomization accumulates are pairwise distinct - Append / AppendAll check them, the namespace
   transformer re-checks them itself (and keeps documents well-formed, the Namespace-kind rename included),
   prefix and suffix rewrite the names of one kind uniformly and injectively, labels and annotations never
   reach kind, apiVersion, name or namespace (obligation label_tbl_clear on the generated tables) - hence a
   directive-less wrapper layer is transparent. *)
Theorem PIPE_accumulate_ids_distinct :
  forall nonstr t m, tree_wf t -> accumulate nonstr t = Ok m -> Forall W m /\ distinct_ids m.
Proof. exact accumulate_Inv. Qed.
Print Assumptions PIPE_accumulate_ids_distinct.

Theorem PIPE_wrap_wellformed :
  forall nonstr name o n d ents,
    tree_wf (PDir n d ents) -> build nonstr o (wrap name (PDir n d ents)) = build nonstr o (PDir n d ents).
Proof. exact build_wrap_wf. Qed.
Print Assumptions PIPE_wrap_wellformed.

Theorem Gen_label_rows_clear_of_identity : clear_of_identity label_tbl = true.
Proof. exact label_tbl_clear. Qed.
Print Assumptions Gen_label_rows_clear_of_identity.


(* ---------- C11 / C07: the Compose bridge ----------
   [proj] maps a pipeline tree to the id-level tree of Res/Compose.v (documents to their ids, a kustomization to its
   entries with namePrefix / nameSuffix); [frag]: the common fragment - well-formed documents, kustomizations with
   namePrefix / nameSuffix only (comma-free).  On it the pipeline and Compose.accumulate agree on the outcome class
   and, on success, on the ids of the accumulated documents IN ORDER ([Rel]: same current id), so every theorem of
   Props/C11.v about Compose (closed form, wrap, permutation, nesting, distinct ids, legacy order) speaks about the
   documents `build` works on. *)
Theorem PIPE_compose_bridge :
  forall nonstr t, frag t -> sim acc_sim (accumulate nonstr t) (C11Gen.accumulate_gen csL (proj t)).
Proof. exact accumulate_bridge. Qed.
Print Assumptions PIPE_compose_bridge.

Theorem PIPE_compose_bridge_ids :
  forall nonstr t m, frag t -> accumulate nonstr t = Ok m ->
    exists c, C11Gen.accumulate_gen csL (proj t) = Ok c /\ map rid_of m = map Compose.r_cur c.
Proof. exact accumulate_bridge_ids. Qed.
Print Assumptions PIPE_compose_bridge_ids.

(* prefix nesting at document level (C11_prefix_nesting through the bridge): outer prefix outermost *)
Theorem PIPE_prefix_nesting :
  forall nonstr t m r, frag t -> accumulate nonstr t = Ok m -> In r m ->
    exists d layers, ComposeProofs.occurs (proj t) d layers /\
                     rid_of r = Compose.set_name (C11Gen.out_name_gen d layers) d.
Proof. exact bridge_prefix_nesting. Qed.
Print Assumptions PIPE_prefix_nesting.

(* permutation of resources lists at any depth (C11_permute_multiset through the bridge): same outcome class, ids of
   the accumulated documents permuted - on the fragment this is the FULL law, collisions included *)
Theorem PIPE_permute_ids :
  forall nonstr t t', frag t -> frag t' -> ComposeProofs.tperm (proj t) (proj t') ->
    match accumulate nonstr t, accumulate nonstr t' with
    | Ok m, Ok m' => Permutation (map rid_of m) (map rid_of m')
    | Err, Err => True
    | _, _ => False
    end.
Proof. exact bridge_permute. Qed.
Print Assumptions PIPE_permute_ids.

(* ... and the legacy-sorted ids do not depend on the order of the resources lists (C11_legacy_canonical) *)
Theorem PIPE_permute_legacy_ids :
  forall nonstr t t' m m', frag t -> frag t' -> ComposeProofs.tperm (proj t) (proj t') ->
    accumulate nonstr t = Ok m -> accumulate nonstr t' = Ok m' ->
    LegacySortProofs.valid_ids (map rid_of m) -> NoDup (map rid_of m) ->
    LegacySort.sort_legacy LegacyOrder.gen_order_first LegacyOrder.gen_order_last (map rid_of m) =
    LegacySort.sort_legacy LegacyOrder.gen_order_first LegacyOrder.gen_order_last (map rid_of m').
Proof. exact bridge_permute_legacy. Qed.
Print Assumptions PIPE_permute_legacy_ids.


(* C07 on well-formed trees: since the HashTransformer re-checks the ids (/repo 9a490e0, [hash_check]) the outputs of a
   successful build have pairwise distinct ids WHATEVER the sort option (the fifo case of C07_ids_unique was refuted by
   the hash clash before the fix) *)
Theorem PIPE_ids_unique_wellformed :
  forall nonstr o t outs, tree_wf t -> build nonstr o t = Ok outs -> distinct_node_ids outs.
Proof. exact build_ids_unique_wf. Qed.
Print Assumptions PIPE_ids_unique_wellformed.
