(* C01, state half (history independence w.r.t. the OpenAPI globals): property theorems only.
   To be folded into Props/C01.v by the coordinator (the other half is iteration-order independence). *)
From KV Require Import Base.Prelude.
From KV Require Import Glob.OpenApiState Glob.OpenApiStateProofs.

(* Full statement: forall e H T, observe e (run_history e ost0 H) T = observe e ost0 T.
   It is FALSE on the faithful model (F1): SetSchema(reset=true) with no version/path leaves customSchema,
   schemaInit and every parsed definition in place. *)
Theorem C01_history_refuted :
  exists e h b, env_ok e /\ default_build b = true /\
                observe e (run_history e ost0 h) b <> observe e ost0 b.
Proof. exact history_refuted. Qed.
Print Assumptions C01_history_refuted.

(* The leak also runs from a default history into a custom-schema build (built-in definitions stay visible). *)
Theorem C01_history_refuted_builtin_leak :
  exists e h b, env_ok e /\ forallb default_build h = true /\
                observe e (run_history e ost0 h) b <> observe e ost0 b.
Proof. exact history_refuted_builtin_leak. Qed.
Print Assumptions C01_history_refuted_builtin_leak.

(* What does hold, for histories of any length: if no earlier build installs a custom schema or a non-default
   version, a build that uses the built-in schema observes the same as when run first. *)
Theorem C01_history_partial :
  forall e h b, env_ok e -> forallb default_build h = true -> default_build b = true ->
                observe e (run_history e ost0 h) b = observe e ost0 b.
Proof. exact history_partial. Qed.
Print Assumptions C01_history_partial.
