(* C03 — property theorems only. Every theorem is closed by [exact] of a lemma proved elsewhere. *)
From KV Require Import Res.NameRef Res.NameRefProofs.

Theorem C03_no_retarget :
  forall x old cands identical c,
    select_referral x old cands identical = Ok (Some c) ->
    In c cands /\ prev_name_matches old c = true /\ prev_id_selected_by (x_target x) c = true.
Proof. exact select_referral_sound. Qed.
Print Assumptions C03_no_retarget.
