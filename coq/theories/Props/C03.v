(* C03 — name references follow every rename and never change their referent.
   Property theorems only. Every theorem is closed by [exact] of a lemma proved elsewhere
   (Res/NameRefProofs.v, Res/RenameProofs.v, Res/C03Facts.v). *)
From KV Require Import Res.BuildRefs Res.FsFacts Res.CsvFacts Res.NameRefProofs Res.RenameProofs Res.RewriteProofs Res.ProgressProofs Res.BuildProofs Res.C03Facts.
From KV Require Import Res.Pipeline Res.PipelineWfProofs Res.PipelineRefsProofs Res.PipelineNamesProofs.
From KV Require Import Gen.NameRefRules Gen.FieldSpecs Res.NameRefRulesRef.

(* ================= obligations over the tables regenerated from /repo ================= *)

(* The rule table (namereference.go) merges without conflict; no two rows are equivalent for
   Gvk.IsLessThan (so sort.Sort has one possible result: the model's); every row names a kind and has
   referrers; every referrer path splits into ordinary field names (parses) and cannot reach kind,
   apiVersion, metadata.name or metadata.namespace of the referrer. *)
Theorem Gen_nameref_table_wf :
  nameref_table_wf gen_gvk_order_first gen_gvk_order_last gen_nameref_raw = true.
Proof. exact gen_nameref_table_wf. Qed.
Print Assumptions Gen_nameref_table_wf.

(* The rule table, the Gvk order and the skip lists regenerated from /repo are exactly the documented
   ones (Res/NameRefRulesRef.v, the committed copy of the pinned source): any edited, added, deleted or
   reordered row -- kind, group, version, path or create flag -- breaks this obligation. *)
Theorem Gen_nameref_rules_eq_ref :
  gen_nameref_raw = ref_nameref_raw /\
  gen_gvk_order_first = ref_gvk_order_first /\ gen_gvk_order_last = ref_gvk_order_last /\
  gen_prefix_skip = ref_prefix_skip /\ gen_suffix_skip = ref_suffix_skip.
Proof. exact gen_rules_eq_ref. Qed.
Print Assumptions Gen_nameref_rules_eq_ref.

(* Every reference family the property names (ConfigMap / Secret references in pod specs, service
   accounts, volume claims, autoscaler targets, ingress backends, role bindings, StatefulSet service
   names, storage / priority / ingress classes) has its row in the table. *)
Theorem Gen_nameref_covers_named_rules : forallb (rule_present gen_nameref_raw) named_rules = true.
Proof. exact gen_covers_named_rules. Qed.
Print Assumptions Gen_nameref_covers_named_rules.

(* The namespace field specs can reach identity fields only through metadata/name. *)
Theorem Gen_namespace_table_ok : forallb ns_spec_ok gen_namespace_fs = true.
Proof. exact gen_namespace_table_ok. Qed.
Print Assumptions Gen_namespace_table_ok.

(* namePrefix / nameSuffix apply to metadata/name of every kind, and to nothing else. *)
Theorem Gen_name_prefix_table : gen_name_prefix_fs = name_fs.
Proof. exact gen_prefix_table. Qed.
Print Assumptions Gen_name_prefix_table.
Theorem Gen_name_suffix_table : gen_name_suffix_fs = name_fs.
Proof. exact gen_suffix_table. Qed.
Print Assumptions Gen_name_suffix_table.

(* No row of the table is dead: each selects objects of its kind carrying the row's group / version as
   a PARSED apiVersion.  (Was refuted -- C03_rule_rows_reachable_refuted, finding
   C03/rule-row-never-selects:IngressClass -- until the repair 9f584a1 in /repo.) *)
Theorem C03_rule_rows_reachable :
  forall b, In b gen_nameref_raw ->
            gvk_is_selected (gvk_of (row_api_version b) (nb_kind b) false) (nb_gvk b) = true.
Proof. exact all_rows_reachable. Qed.
Print Assumptions C03_rule_rows_reachable.

(* ================= every renaming transformer records the previous id first ================= *)

(* Whatever sequence of renaming transformers (namePrefix, nameSuffix, namespace, content hash, in any
   order and number, comma free arguments) runs on a well formed resource, its rename history
   (recorded previous ids followed by the current id) only grows at the end: nothing recorded is ever
   lost or reordered, and a rename is never applied without the id before it being recorded. *)
Theorem C03_history_grows :
  forall cs nonstr (l : list rename_step) (r r' : resource),
    forallb step_ok l = true -> wf_res r -> gen_apply_steps cs nonstr l r = Ok r' ->
    wf_res r' /\ (exists ext, history cs r' = (history cs r ++ ext)%list) /\
    get_kind (r_node r') = get_kind (r_node r) /\
    get_api_version (r_node r') = get_api_version (r_node r).
Proof. exact gen_history_prefix. Qed.
Print Assumptions C03_history_grows.

(* Hence the ORIGINAL name stays findable: for a resource entering the build without history, after
   any such sequence either nothing was recorded and the name is still the original one, or the
   original name is the first recorded previous name (what OrgId and the first sieve look at). *)
Theorem C03_history_inv :
  forall cs nonstr (l : list rename_step) (r r' : resource),
    forallb step_ok l = true -> wf_res r -> ptriples r = [] -> gen_apply_steps cs nonstr l r = Ok r' ->
    exists p, prev_ids r' = Ok p /\
      ((p = [] /\ get_name (r_node r') = get_name (r_node r)) \/
       (exists id rest, p = id :: rest /\ id_name id = get_name (r_node r))).
Proof. exact gen_history_inv. Qed.
Print Assumptions C03_history_inv.

(* The bridge to candidate selection: a resource that entered the build fresh either was never renamed
   (no previous id, same name: references to it are already right), or the first two sieves of
   selectReferral accept it for its ORIGINAL name, for every rule row that selects its original
   group / version / kind. *)
Theorem C03_original_referent_findable :
  forall cs nonstr (l : list rename_step) (r r' : resource),
    forallb step_ok l = true -> wf_res r -> ptriples r = [] -> gen_apply_steps cs nonstr l r = Ok r' ->
    exists c, view cs r' = Ok c /\
      ((c_prev c = [] /\ c_name c = get_name (r_node r)) \/
       (prev_name_matches (get_name (r_node r)) c = true /\
        forall tg, gvk_is_selected (gvk_of (get_api_version (r_node r)) (get_kind (r_node r)) false) tg = true ->
                   prev_id_selected_by tg c = true)).
Proof. exact original_referent_findable. Qed.
Print Assumptions C03_original_referent_findable.

(* ================= candidate selection ================= *)

(* Whatever selectReferral returns had the referenced name as one of its previous names, with a previous
   kind the rule row is about, and is one of the candidates (sieve order cannot introduce anything). *)
Theorem C03_no_retarget :
  forall x old cands identical c,
    select_referral x old cands identical = Ok (Some c) ->
    In c cands /\ prev_name_matches old c = true /\ prev_id_selected_by (x_target x) c = true.
Proof. exact select_referral_sound. Qed.
Print Assumptions C03_no_retarget.

(* Unambiguous graphs: when exactly one candidate ever had the referenced name with the right kind,
   the outcome is that candidate if it is visible to the referrer (roleRef kind and namespace sieves),
   and nothing otherwise.  Never an error, never another resource. *)
Theorem C03_unique_candidate :
  forall x old cands identical b,
    filter (name_kind_match x old) cands = [b] ->
    select_referral x old cands identical =
    if roleref_sieve x b && namespace_sieve x b then Ok (Some b) else Ok None.
Proof. exact select_unique. Qed.
Print Assumptions C03_unique_candidate.

(* The layering hypothesis (SameEndingSubSlice condition) as a boolean: several candidates pass the first
   four sieves, exactly one of them lives in a prefix/suffix context compatible with the referrer's. *)
Theorem C03_unique_in_context :
  forall x old cands identical b,
    filter (prefix_suffix_sieve x true) (sieve4 x old cands) = [b] ->
    select_referral x old cands identical = Ok (Some b).
Proof. exact select_unique_in_context. Qed.
Print Assumptions C03_unique_in_context.

Theorem C03_unique_in_strict_context :
  forall x old cands identical b c1 c2 t,
    filter (prefix_suffix_sieve x true) (sieve4 x old cands) = c1 :: c2 :: t ->
    filter (prefix_suffix_sieve x false) (c1 :: c2 :: t) = [b] ->
    select_referral x old cands identical = Ok (Some b).
Proof. exact select_unique_strict. Qed.
Print Assumptions C03_unique_in_strict_context.

(* ================= one rule of the generated table applied to one referrer ================= *)

(* FULL STATEMENT (DESIGN §5 C03_refs_follow), not proved -- it is refuted below on the faithful model:
     for every layering T of a graph with unambiguous original names, build T = Ok out ->
     for every edge (a.f -> b): get f (out a) = name (out b).
   PROVED PART: one application of one rule row (nameref.Filter.run) on the state just before
   FixBackReferences.  A scalar field reached by the rule's path that holds a name exactly one candidate
   ever had (with the kind the row is about), that candidate being visible, holds the candidate's
   CURRENT name afterwards.  Missing for the full statement: (i) the composition over all rows that reach
   the same field (C03_no_retarget_whole_refuted: a later row can rewrite the field again),
   (ii) the passage from "unambiguous original names" to "exactly one candidate"
   (C03_refs_follow_build_refuted: intermediate names are recorded like original ones). *)
Theorem C03_refs_follow_partial :
  forall cs nonstr rules b fs,
    effective_rules gen_gvk_order_first gen_gvk_order_last gen_nameref_raw = Ok rules ->
    In b rules -> In fs (nb_referrers b) ->
    forall cands referrer r' a t s old c,
      reaches (path_splitter (fs_path fs)) a (r_node referrer) = true ->
      get_addr a (r_node referrer) = Some (Scalar t s old) ->
      is_null (Scalar t s old) = false ->
      let x := make_ctx cs referrer (fs_path fs) (nb_gvk b) in
      filter (name_kind_match x old) cands = [c] ->
      roleref_sieve x c = true -> namespace_sieve x c = true ->
      apply_rule cs nonstr cands fs (nb_gvk b) referrer = Ok r' ->
      exists t', get_addr a (r_node r') = Some (Scalar t' s (c_name c)).
Proof. exact gen_refs_follow_rule. Qed.
Print Assumptions C03_refs_follow_partial.

(* One rule application never retargets: a reached scalar keeps its text, or receives the current name of
   a candidate that once had exactly that text as its name and was of the kind the row is about. *)
Theorem C03_no_retarget_rule :
  forall cs nonstr rules b fs,
    effective_rules gen_gvk_order_first gen_gvk_order_last gen_nameref_raw = Ok rules ->
    In b rules -> In fs (nb_referrers b) ->
    forall cands referrer r' a t s old,
      reaches (path_splitter (fs_path fs)) a (r_node referrer) = true ->
      get_addr a (r_node referrer) = Some (Scalar t s old) ->
      is_null (Scalar t s old) = false ->
      apply_rule cs nonstr cands fs (nb_gvk b) referrer = Ok r' ->
      get_addr a (r_node r') = Some (Scalar t s old) \/
      exists c, In c cands /\ prev_name_matches old c = true /\ prev_id_selected_by (nb_gvk b) c = true /\
                get_addr a (r_node r') = Some (Scalar TNone s (c_name c)).
Proof. exact gen_no_retarget_rule. Qed.
Print Assumptions C03_no_retarget_rule.

(* References to objects outside the build: when no candidate ever had the name, the field is untouched. *)
Theorem C03_external_untouched :
  forall cs nonstr rules b fs,
    effective_rules gen_gvk_order_first gen_gvk_order_last gen_nameref_raw = Ok rules ->
    In b rules -> In fs (nb_referrers b) ->
    forall cands referrer r' a t s old,
      reaches (path_splitter (fs_path fs)) a (r_node referrer) = true ->
      get_addr a (r_node referrer) = Some (Scalar t s old) ->
      (forall c, In c cands -> prev_name_matches old c = false) ->
      apply_rule cs nonstr cands fs (nb_gvk b) referrer = Ok r' ->
      get_addr a (r_node r') = Some (Scalar t s old).
Proof. exact gen_external_untouched_rule. Qed.
Print Assumptions C03_external_untouched.

(* ... and selectReferral itself answers "nothing" (no error) in that case *)
Theorem C03_external_no_candidate :
  forall x old cands identical,
    (forall c, In c cands -> prev_name_matches old c = false) ->
    select_referral x old cands identical = Ok None.
Proof. exact select_none. Qed.
Print Assumptions C03_external_no_candidate.

(* ================= the whole transformer ================= *)

(* FixBackReferences (all rows of the generated table, all referrers) only rewrites documents, and never
   the fields a resource is identified by: the resources come out in the same number and order, each with
   the apiVersion, kind, metadata.name, metadata.namespace and rename history it had before.  "The
   referent's final name" is therefore its name just before FixBackReferences. *)
Theorem C03_transform_preserves_identity :
  forall cs nonstr rules m m',
    effective_rules gen_gvk_order_first gen_gvk_order_last gen_nameref_raw = Ok rules ->
    nameref_transform cs nonstr rules m = Ok m' -> Forall2 same_identity m m'.
Proof. exact gen_transform_identity. Qed.
Print Assumptions C03_transform_preserves_identity.

(* What the whole transformer (all rows, all referrers, in table order) can do to ANY scalar of ANY
   document, read at an address that does not pass through a key "namespace" (setMapping writes the
   referent's namespace there): the scalar is still there, and its text followed a CHAIN of renames --
   each link goes from a text to the current name of a resource that once had exactly that text as its
   name.  (A chain of length > 1 is the rewrite cascade of C03_no_retarget_whole_refuted.) *)
Theorem C03_no_retarget_chain :
  forall cs nonstr rules m m' C,
    effective_rules gen_gvk_order_first gen_gvk_order_last gen_nameref_raw = Ok rules ->
    mapM (view cs) m = Ok C -> no_empty_prev C = true ->
    nameref_transform cs nonstr rules m = Ok m' ->
    forall i r r' a t s v,
      nth_error m i = Some r -> nth_error m' i = Some r' ->
      no_ns_key a -> get_addr a (r_node r) = Some (Scalar t s v) ->
      exists t' s' v', get_addr a (r_node r') = Some (Scalar t' s' v') /\ chain C v v'.
Proof. exact gen_whole_chain. Qed.
Print Assumptions C03_no_retarget_chain.

(* References to objects outside the build, whole transformer: a text that no resource of the map ever
   had as a name is left exactly as it is, wherever it stands. *)
Theorem C03_external_untouched_whole :
  forall cs nonstr rules m m' C,
    effective_rules gen_gvk_order_first gen_gvk_order_last gen_nameref_raw = Ok rules ->
    mapM (view cs) m = Ok C -> no_empty_prev C = true ->
    nameref_transform cs nonstr rules m = Ok m' ->
    forall i r r' a t s v,
      nth_error m i = Some r -> nth_error m' i = Some r' ->
      no_ns_key a -> get_addr a (r_node r) = Some (Scalar t s v) ->
      (forall c, In c C -> prev_name_matches v c = false) ->
      exists t' s', get_addr a (r_node r') = Some (Scalar t' s' v).
Proof. exact gen_whole_external. Qed.
Print Assumptions C03_external_untouched_whole.

(* Whole transformer, unambiguous names: when everything that was ever called [v] is called [new] now,
   and so is everything that was ever called [new] (no cascade possible), a field holding [v] ends as
   [v] or as [new] -- it cannot end up designating anything else. *)
Theorem C03_refs_follow_closed :
  forall cs nonstr rules m m' C,
    effective_rules gen_gvk_order_first gen_gvk_order_last gen_nameref_raw = Ok rules ->
    mapM (view cs) m = Ok C -> no_empty_prev C = true ->
    nameref_transform cs nonstr rules m = Ok m' ->
    forall i r r' a t s v,
      nth_error m i = Some r -> nth_error m' i = Some r' ->
      no_ns_key a -> get_addr a (r_node r) = Some (Scalar t s v) ->
      forall new,
        (forall c, In c C -> prev_name_matches v c = true -> c_name c = new) ->
        (forall c, In c C -> prev_name_matches new c = true -> c_name c = new) ->
        exists t' s' v', get_addr a (r_node r') = Some (Scalar t' s' v') /\ (v' = v \/ v' = new).
Proof. exact gen_whole_closed. Qed.
Print Assumptions C03_refs_follow_closed.

(* PROGRESS THROUGH THE WHOLE TRANSFORMER.  Full statement (DESIGN §5 C03_refs_follow) is build-level and
   refuted below; this is its proved part at the level of nameReferenceTransformer.Transform with the
   generated table, all rows, all referrers.  A scalar field of referrer r (not under a key "namespace",
   a roleRef/name field only when nothing was ever called like the binding's roleRef apiGroup / kind)
   that a row of the referent's kind reaches and that holds a text [old] such
   that, among the resources r may refer to (SubsetThatCouldBeReferencedByResource), exactly one candidate b
   ever had that name with the row's kind, b passing the namespace sieve, and such that in the WHOLE map
   everything ever called [old] is called like b now and so is everything ever called like b now (no
   intermediate-name collision, no cascade), holds b's current name afterwards -- whatever the other rows
   that reach or do not reach the field do before and after.  ("No other row reaches this address" is NOT
   needed: the closedness hypotheses make the other rows harmless.) *)
Theorem C03_refs_follow_transform_partial :
  forall cs nonstr rules m m' C,
    effective_rules gen_gvk_order_first gen_gvk_order_last gen_nameref_raw = Ok rules ->
    mapM (view cs) m = Ok C -> no_empty_prev C = true ->
    nameref_transform cs nonstr rules m = Ok m' ->
    forall i r r' org row fs flags cands b a t s old,
      nth_error m i = Some r -> nth_error m' i = Some r' -> org_id cs r = Ok org ->
      In row rules -> In fs (nb_referrers row) -> gvk_is_selected (id_gvk org) (fs_gvk fs) = true ->
      roleref_sieve (make_ctx cs r (fs_path fs) (nb_gvk row)) b = true ->
      (has_suffix "roleRef/name" (fs_path fs) = false \/
       exists g, roleref_gvk (r_node r) = Some g /\ external C (g_group g) /\ external C (g_kind g)) ->
      referencable cs m r = Ok flags -> mapM (view cs) (select_by flags m) = Ok cands ->
      no_ns_key a -> reaches (path_splitter (fs_path fs)) a (r_node r) = true ->
      get_addr a (r_node r) = Some (Scalar t s old) -> is_null (Scalar t s old) = false ->
      filter (name_kind_match (make_ctx cs r (fs_path fs) (nb_gvk row)) old) cands = [b] ->
      namespace_sieve (make_ctx cs r (fs_path fs) (nb_gvk row)) b = true ->
      (forall c, In c C -> prev_name_matches old c = true -> c_name c = c_name b) ->
      (forall c, In c C -> prev_name_matches (c_name b) c = true -> c_name c = c_name b) ->
      exists t' s', get_addr a (r_node r') = Some (Scalar t' s' (c_name b)).
Proof. exact gen_refs_follow_transform. Qed.
Print Assumptions C03_refs_follow_transform_partial.

(* THE LAYERING LEMMA.  When every resource of the map is [produced] -- a fresh well formed document on
   which its layers ran renaming transformers (namePrefix, nameSuffix, namespace, hash; comma free) -- and
   no OTHER resource [may_have_been] called like the referent originally or like the referent is called
   now (original name, or anything a sub-sequence of its transformers makes of it), then the closedness
   hypotheses of C03_refs_follow_transform_partial hold for the referent's original name ... *)
Theorem C03_layering_closed :
  forall cs nonstr prov m C, Forall2 (produced cs nonstr) prov m -> mapM (view cs) m = Ok C ->
  forall j pb b, nth_error prov j = Some pb -> nth_error C j = Some b ->
    (forall k p, k <> j -> nth_error prov k = Some p ->
                 may_have_been p (get_name (r_node (fst pb))) = false /\ may_have_been p (c_name b) = false) ->
    (forall c, In c C -> prev_name_matches (get_name (r_node (fst pb))) c = true -> c_name c = c_name b) /\
    (forall c, In c C -> prev_name_matches (c_name b) c = true -> c_name c = c_name b).
Proof. exact (fun cs nonstr prov m C H1 H2 j pb b _ => layering_closed cs nonstr prov m C H1 H2 j pb b). Qed.
Print Assumptions C03_layering_closed.

(* ... and so does its uniqueness hypothesis, for any visible subset that contains the referent. *)
Theorem C03_layering_unique :
  forall cs nonstr prov m C, Forall2 (produced cs nonstr) prov m -> mapM (view cs) m = Ok C ->
  forall j pb b, nth_error prov j = Some pb -> nth_error C j = Some b ->
    (forall k p, k <> j -> nth_error prov k = Some p ->
                 may_have_been p (get_name (r_node (fst pb))) = false /\ may_have_been p (c_name b) = false) ->
    forall flags cands x,
      mapM (view cs) (select_by flags m) = Ok cands -> nth_error flags j = Some true ->
      name_kind_match x (get_name (r_node (fst pb))) b = true ->
      filter (name_kind_match x (get_name (r_node (fst pb)))) cands = [b].
Proof. exact (fun cs nonstr prov m C H1 H2 j pb b _ => layering_unique cs nonstr prov m C H1 H2 j pb b). Qed.
Print Assumptions C03_layering_unique.

(* BUILD LEVEL (rename model followed by the name reference model = build_refs, Res/BuildRefs.v;
   Res/Pipeline.v runs the same two models inside the integrated build).  [build_prov l hs] lists every leaf
   of the layering with the renaming transformers of the kustomizations on its way (namespace, prefix,
   suffix of each layer, innermost first, then the content hash); theorem build_names_prov
   (Res/BuildProofs.v) shows the map just before FixBackReferences is exactly these leaves so transformed.
   Then: a reference (scalar, not under "namespace", not roleRef/name) reached by a row of the referent's
   kind, holding the ORIGINAL name of leaf j, that leaf being visible to the referrer and accepted by the
   first two sieves and the namespace sieve, ends as leaf j's FINAL name, provided no other leaf
   [may_have_been] called like leaf j originally or finally (original name or anything a sub-sequence of
   its transformers makes of it -- the "no prefix/suffix extension of another along the chain" boolean).
   build_refs = Ok out is equivalent to the first three premises (lemma build_refs_split).
   This is the proved part of the DESIGN's C03_refs_follow; the full statement (only "original triples
   unique") is refuted below. *)
Theorem C03_refs_follow_build_partial :
  forall cs nonstr l hs m rules out C,
    gen_build_names cs nonstr l hs = Ok m ->
    effective_rules gen_gvk_order_first gen_gvk_order_last gen_nameref_raw = Ok rules ->
    nameref_transform cs nonstr rules m = Ok out ->
    Forall leaf_ok (build_prov l hs) -> mapM (view cs) m = Ok C -> no_empty_prev C = true ->
    forall i r r' org row fs flags cands j pb b a t s,
      nth_error m i = Some r -> nth_error out i = Some r' -> org_id cs r = Ok org ->
      In row rules -> In fs (nb_referrers row) -> gvk_is_selected (id_gvk org) (fs_gvk fs) = true ->
      roleref_sieve (make_ctx cs r (fs_path fs) (nb_gvk row)) b = true ->
      (has_suffix "roleRef/name" (fs_path fs) = false \/
       exists g, roleref_gvk (r_node r) = Some g /\ external C (g_group g) /\ external C (g_kind g)) ->
      referencable cs m r = Ok flags -> mapM (view cs) (select_by flags m) = Ok cands ->
      no_ns_key a -> reaches (path_splitter (fs_path fs)) a (r_node r) = true ->
      get_addr a (r_node r) = Some (Scalar t s (get_name (r_node (fst pb)))) ->
      is_null (Scalar t s (get_name (r_node (fst pb)))) = false ->
      nth_error (build_prov l hs) j = Some pb -> nth_error C j = Some b -> nth_error flags j = Some true ->
      name_kind_match (make_ctx cs r (fs_path fs) (nb_gvk row)) (get_name (r_node (fst pb))) b = true ->
      namespace_sieve (make_ctx cs r (fs_path fs) (nb_gvk row)) b = true ->
      (forall k p, k <> j -> nth_error (build_prov l hs) k = Some p ->
                   may_have_been p (get_name (r_node (fst pb))) = false /\ may_have_been p (c_name b) = false) ->
      exists t' s', get_addr a (r_node r') = Some (Scalar t' s' (c_name b)).
Proof. exact refs_follow_build. Qed.
Print Assumptions C03_refs_follow_build_partial.

(* THROUGH THE INTEGRATED BUILD (Res/Pipeline.v: krusty.Run with labels, annotations, generators,
   namespace / prefix / suffix, hash, FixBackReferences, IgnoreLocal, legacy sort, RemoveBuildAnnotations).
   Every emitted document is the stripped document of a resource exactly as FixBackReferences left it. *)
Theorem C03_pipeline_outputs :
  forall nonstr o t outs,
    Pipeline.build nonstr o t = Ok outs ->
    exists m1 m2 rules,
      before_refs nonstr t = Ok m1 /\ pipe_rules = Ok rules /\
      nameref_transform pipe_cs nonstr rules m1 = Ok m2 /\
      forall n, In n outs -> exists r2, In r2 m2 /\ n = strip_node (r_node r2).
Proof. exact build_outputs. Qed.
Print Assumptions C03_pipeline_outputs.

(* ... and the steps after FixBackReferences touch neither a reference field outside metadata nor a name:
   under the hypotheses of C03_refs_follow_transform_partial on the map just before FixBackReferences
   ([before_refs t = Ok m1]: accumulateTarget of the whole tree, then the hashes), the referrer's EMITTED
   document holds, at the reference field, the metadata.name of the referent's EMITTED document.
   Partial: the hypotheses are on m1; C03_refs_follow_pipeline_tree_partial below derives the global ones
   from the source tree for well-formed trees. *)
Theorem C03_refs_follow_pipeline_partial :
  forall nonstr o t outs m1 m2 rules C,
    Pipeline.build nonstr o t = Ok outs ->
    before_refs nonstr t = Ok m1 -> pipe_rules = Ok rules ->
    nameref_transform pipe_cs nonstr rules m1 = Ok m2 ->
    mapM (view pipe_cs) m1 = Ok C -> no_empty_prev C = true ->
    forall i r r' org row fs flags cands j b b2 a t0 s old,
      nth_error m1 i = Some r -> nth_error m2 i = Some r' -> org_id pipe_cs r = Ok org ->
      In row rules -> In fs (nb_referrers row) -> gvk_is_selected (id_gvk org) (fs_gvk fs) = true ->
      roleref_sieve (make_ctx pipe_cs r (fs_path fs) (nb_gvk row)) b = true ->
      (has_suffix "roleRef/name" (fs_path fs) = false \/
       exists g, roleref_gvk (r_node r) = Some g /\ external C (g_group g) /\ external C (g_kind g)) ->
      referencable pipe_cs m1 r = Ok flags -> mapM (view pipe_cs) (select_by flags m1) = Ok cands ->
      no_ns_key a -> match a with AKey k :: _ => k <> "metadata" | _ => False end ->
      reaches (path_splitter (fs_path fs)) a (r_node r) = true ->
      get_addr a (r_node r) = Some (Scalar t0 s old) -> is_null (Scalar t0 s old) = false ->
      nth_error C j = Some b -> nth_error m2 j = Some b2 ->
      filter (name_kind_match (make_ctx pipe_cs r (fs_path fs) (nb_gvk row)) old) cands = [b] ->
      namespace_sieve (make_ctx pipe_cs r (fs_path fs) (nb_gvk row)) b = true ->
      (forall c, In c C -> prev_name_matches old c = true -> c_name c = c_name b) ->
      (forall c, In c C -> prev_name_matches (c_name b) c = true -> c_name c = c_name b) ->
      exists t' s',
        get_addr a (strip_node (r_node r')) = Some (Scalar t' s' (get_name (strip_node (r_node b2)))).
Proof. exact refs_follow_pipeline. Qed.
Print Assumptions C03_refs_follow_pipeline_partial.

(* ---- tree level: the global hypotheses of C03_refs_follow_pipeline_partial from the SOURCE TREE ----
   [tree_prov t] is a function of the source tree alone: per accumulated resource, in accumulation order, the
   name it has in the tree (a document's metadata.name or a generator's name), the renaming directives of the
   kustomizations on its way (namespace, namePrefix, nameSuffix, in the generated transformer order) and whether it is
   generated.  [tracked1 p r]: r is well formed and every previous name and the current name of r is a name p may have
   (had) ([may_be]: what a sub-sequence of the directives makes of the original name, for a generated resource also such
   a name followed by "-" and a hash) and is non-empty. *)
Theorem C03_accumulate_names_tracked :
  forall nonstr t m, tree_wf t -> Pipeline.accumulate nonstr t = Ok m -> Forall2 tracked (tree_prov t) m.
Proof. exact accumulate_tracked. Qed.
Print Assumptions C03_accumulate_names_tracked.

Theorem C03_before_refs_tracked :
  forall nonstr t m1, tree_wf t -> before_refs nonstr t = Ok m1 -> Forall2 tracked1 (tree_prov t) m1.
Proof. exact before_refs_tracked. Qed.
Print Assumptions C03_before_refs_tracked.

(* For a well-formed tree (w-pipe's tree_wf: well-formed documents, create-only generators with good names, comma-free
   directives, no custom label fields, no replicas / images) the views of the map before FixBackReferences exist and,
   when no OTHER entry of [tree_prov t] may be called like the referent is called in the source or at the end, the
   referrer's emitted document holds the metadata.name of the referent's emitted document.  The hypotheses
   [no_empty_prev], "exactly one visible candidate" and the closed pair of C03_refs_follow_pipeline_partial are gone;
   what is left about the map before FixBackReferences is local to the referrer (field content, [referencable] flags)
   and to the referent (visible, accepted by the kind / roleRef / namespace sieves).
   The guard is exactly the complement of the findings: intermediate-name-collision and the rewrite cascades all need
   another resource that may be called like the referent originally or finally. *)
Theorem C03_refs_follow_pipeline_tree_partial :
  forall nonstr o t outs m1 m2 rules,
    tree_wf t -> Pipeline.build nonstr o t = Ok outs ->
    before_refs nonstr t = Ok m1 -> pipe_rules = Ok rules -> nameref_transform pipe_cs nonstr rules m1 = Ok m2 ->
    exists C, mapM (view pipe_cs) m1 = Ok C /\
    forall i r r' org row fs flags cands j pb b b2 a t0 s,
      nth_error m1 i = Some r -> nth_error m2 i = Some r' -> org_id pipe_cs r = Ok org ->
      In row rules -> In fs (nb_referrers row) -> gvk_is_selected (id_gvk org) (fs_gvk fs) = true ->
      roleref_sieve (make_ctx pipe_cs r (fs_path fs) (nb_gvk row)) b = true ->
      (has_suffix "roleRef/name" (fs_path fs) = false \/
       exists g, roleref_gvk (r_node r) = Some g /\ external C (g_group g) /\ external C (g_kind g)) ->
      referencable pipe_cs m1 r = Ok flags -> mapM (view pipe_cs) (select_by flags m1) = Ok cands ->
      no_ns_key a -> match a with AKey k :: _ => k <> "metadata" | _ => False end ->
      reaches (path_splitter (fs_path fs)) a (r_node r) = true ->
      nth_error (tree_prov t) j = Some pb ->
      get_addr a (r_node r) = Some (Scalar t0 s (pv_name pb)) -> is_null (Scalar t0 s (pv_name pb)) = false ->
      nth_error C j = Some b -> nth_error m2 j = Some b2 -> nth_error flags j = Some true ->
      name_kind_match (make_ctx pipe_cs r (fs_path fs) (nb_gvk row)) (pv_name pb) b = true ->
      namespace_sieve (make_ctx pipe_cs r (fs_path fs) (nb_gvk row)) b = true ->
      (forall k p, k <> j -> nth_error (tree_prov t) k = Some p ->
                   may_be p (pv_name pb) = false /\ may_be p (c_name b) = false) ->
      exists t' s',
        get_addr a (strip_node (r_node r')) = Some (Scalar t' s' (get_name (strip_node (r_node b2)))).
Proof. exact refs_follow_pipeline_tree. Qed.
Print Assumptions C03_refs_follow_pipeline_tree_partial.

(* ================= what the faithful model refutes (each confirmed on the implementation) ================= *)

(* Finding C03/rewrite-cascade.  "After the whole transformer, a changed field holds the current name of
   a resource that once had the field's old text as its name" is false: in w2_state (Deployment app ->
   app-s, StatefulSet app-s -> app-s-s, HPA scaleTargetRef.name = app) the field ends as "app-s-s",
   the name of the StatefulSet, which never was called "app". *)
Theorem C03_no_retarget_whole_refuted :
  exists rules m' cands r r' t s old t' s' new,
    effective_rules gen_gvk_order_first gen_gvk_order_last gen_nameref_raw = Ok rules /\
    nameref_transform no_cs no_nonstr rules w2_state = Ok m' /\
    mapM (view no_cs) w2_state = Ok cands /\
    nth_error w2_state 2 = Some r /\ nth_error m' 2 = Some r' /\
    get_addr w2_addr (r_node r) = Some (Scalar t s old) /\
    get_addr w2_addr (r_node r') = Some (Scalar t' s' new) /\
    retargeted cands old new = true.
Proof. exact cascade_witness. Qed.
Print Assumptions C03_no_retarget_whole_refuted.

(* Finding C03/intermediate-name-collision.  The build-level statement is false: in w3_layer (base with
   nameSuffix -s holding ServiceAccounts a and a-s; overlay with namePrefix dev- holding a Pod with
   serviceAccountName: a-s) kinds and original names are pairwise distinct, the build succeeds, the
   account originally named a-s ends as dev-a-s-s, and the Pod still says a-s. *)
Theorem C03_refs_follow_build_refuted :
  exists out referent referrer t s,
    distinct_kind_name (layer_leaves w3_layer) = true /\
    gen_build_refs w3_layer [""; ""; ""] = Ok out /\
    option_map (fun r => get_name (r_node r)) (nth_error (layer_leaves w3_layer) 1) = Some "a-s" /\
    nth_error out 1 = Some referent /\ nth_error out 2 = Some referrer /\
    get_name (r_node referent) = "dev-a-s-s" /\
    get_addr w3_addr (r_node referrer) = Some (Scalar t s "a-s").
Proof. exact collision_witness. Qed.
Print Assumptions C03_refs_follow_build_refuted.
