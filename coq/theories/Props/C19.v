(* C19 — deprecated field spellings build like their replacements.
   Property theorems only (closed by [exact]); lemmas in Edit/FixProofs.v.
   Scope of the proved part: the two normalisations on the typed record (Edit/Fix.v):
   FixKustomization (bases / imageTags / env, applied by every load, so both spellings reach the
   build pipeline as THE SAME record) and FixKustomizationPreMarshalling (patchesJson6902 /
   patchesStrategicMerge / commonLabels, applied by `kustomize edit fix`), and what `edit fix` writes.
   The equivalence of the two PIPELINES for the fix-time spellings (transformer order, label field
   specs) is not modelled here: it is checked on the implementation by the metamorphic oracle of
   harness/c19.go (see design.d/C19.md). *)
From KV Require Import Edit.Cmd Edit.CmdProofs Edit.LawsProofs Edit.FixProofs Edit.FixPipe.
From KV Require Import Res.Pipeline Res.PipelineProofs.
From KV Require Res.PipelinePatchProofs.
Local Open Scope list_scope.

(* load-time spellings: a kustomization and its hand-rewritten form (bases appended to resources,
   imageTags to images, env to envs) are the same record after FixKustomization, which every
   build and every edit command applies first *)
Theorem C19_load_spellings :
  forall k, fix_kustomization (rewrite_load k) = fix_kustomization k.
Proof. exact fix_rewrite_load. Qed.
Print Assumptions C19_load_spellings.

Theorem C19_load_idempotent :
  forall k, fix_kustomization (fix_kustomization k) = fix_kustomization k.
Proof. exact fix_idem. Qed.
Print Assumptions C19_load_idempotent.

Theorem C19_rewrite_load_idempotent :
  forall k, rewrite_load (rewrite_load k) = rewrite_load k.
Proof. exact rewrite_load_idem. Qed.
Print Assumptions C19_rewrite_load_idempotent.

(* the rewritten form really uses none of the three deprecated spellings and keeps items and order *)
Theorem C19_rewrite_load_clean :
  forall k,
    k_bases (rewrite_load k) = [] /\ k_imageTags (rewrite_load k) = [] /\
    Forall (fun g => ga_env g = "") (k_configMapGenerator (rewrite_load k)) /\
    Forall (fun g => ga_env g = "") (k_secretGenerator (rewrite_load k)).
Proof. exact rewrite_load_clean. Qed.
Print Assumptions C19_rewrite_load_clean.

(* edit fix on the record: the three fix-time spellings disappear; patches = patches ++ json6902 ++
   strategic-merge (a readable path stays a path, anything else becomes an inline patch);
   commonLabels becomes ONE more labels entry {pairs, includeSelectors: true} *)
Theorem C19_fix_record :
  forall readable k k',
    fix_premarshal readable k = Ok k' ->
    k_patchesSM k' = [] /\ k_patchesJson k' = [] /\
    k_patches k' = k_patches k ++ k_patchesJson k ++ map (smp_to_patch readable) (k_patchesSM k) /\
    match label_from_common (k_commonLabels k) with
    | None => k_labels k' = k_labels k /\ k_commonLabels k' = k_commonLabels k
    | Some cl => k_labels k' = k_labels k ++ [cl] /\ k_commonLabels k' = None /\
                 labels_conflict (k_labels k) (mapo_or_empty (l_pairs cl)) = false
    end.
Proof. exact fix_premarshal_ok. Qed.
Print Assumptions C19_fix_record.

Theorem C19_common_labels :
  forall cl l, label_from_common cl = Some l ->
    exists m, cl = Some m /\ m <> [] /\ l = mkLabel (Some m) true false None.
Proof. exact label_from_common_shape. Qed.
Print Assumptions C19_common_labels.

(* it fails exactly on a key defined both in commonLabels and in a labels entry *)
Theorem C19_fix_conflict :
  forall readable k,
    fix_premarshal readable k = Err <->
    exists cl, label_from_common (k_commonLabels k) = Some cl /\
               labels_conflict (k_labels k) (mapo_or_empty (l_pairs cl)) = true.
Proof. exact fix_premarshal_err. Qed.
Print Assumptions C19_fix_conflict.

Theorem C19_fix_idempotent :
  forall readable k k', fix_premarshal readable k = Ok k' -> fix_premarshal readable k' = Ok k'.
Proof. exact fix_premarshal_idem. Qed.
Print Assumptions C19_fix_idempotent.

(* fix touches nothing else *)
Theorem C19_fix_frame :
  forall readable k k' n,
    fix_premarshal readable k = Ok k' -> ~ In n fix_addressed -> Kust.get n k' = Kust.get n k.
Proof. exact fix_premarshal_frame. Qed.
Print Assumptions C19_fix_frame.

(* `kustomize edit fix` (RunFix without --vars) writes marshal (fix_premarshal (read file)) with the
   original comments (trailing ones included), and that file reads back as the fixed record — same go-yaml hypotheses (D),
   (S3) and plain-comment domain as C17_content *)
Theorem C19_fix_file :
  forall (e : env) (U : file -> res kust) (R : kust -> string -> list line),
    (forall k n l, In l (R k n) -> is_comment_or_blank l = false) ->
    (forall k L, plain_layout L -> covers k L -> U (mkFile (layout_lines R k L) None) = Ok (canon k)) ->
    forall f k k', plain_file f -> other_ok k -> read_typed U f = Ok k ->
      fix_premarshal (file_exists e) k = Ok k' ->
      fix_file e U R f = (COk, mkFile (marshal (parse_commented_fields f) (trailing_kept f) (render_field R k')) None) /\
      read_typed U (snd (fix_file e U R f)) = Ok (fix_kustomization (canon k')).
Proof. exact fix_file_content. Qed.
Print Assumptions C19_fix_file.

Theorem C19_fix_failure_writes_nothing :
  forall e U R f, fst (fix_file e U R f) <> COk -> snd (fix_file e U R f) = f.
Proof. exact fix_file_failure. Qed.
Print Assumptions C19_fix_failure_writes_nothing.

(* ---- `edit fix` preserves the BUILD (over the integrated pipeline model Res/Pipeline.v) ----
   Full statement of the property: build (fix T) = build T for every tree whose patches address disjoint
   fields.  Proved part (hence _partial): the layer being fixed uses only directives the pipeline model has —
   namespace, namePrefix, nameSuffix, labels (without custom `fields:`), commonLabels, commonAnnotations,
   literal-only configMap/secret generators (no immutable), generatorOptions, replicas, images and
   strategic-merge `patches:` entries (through the loader L: Edit/Kust.v keeps patch texts opaque) — and has NO
   patchesStrategicMerge / patchesJson6902; the layers BELOW it are arbitrary trees of the pipeline model.
   [to_pdirs L F k = Some d] is exactly that guard.
   The guard on patchesStrategicMerge is needed, not just unproved: C19_fix_patch_spelling_refuted (finding
   PIPE/patch-spelling).  The pipeline model has no transformer for the two deprecated patch fields, so the
   positive half for patches without metadata maps stays with the bytewise build oracle of harness/c19.go.
   fix_premarshal is the Edit/Fix.v function that the `edit fix` correspondence compares with the real command
   on every run; the load-time spellings (bases, imageTags, env) give the same record before the build starts
   (C19_load_spellings), i.e. the same tree. *)
Theorem C19_fix_preserves_build_partial :
  forall (L : patch -> option ppatch) (F : Z -> string) nonstr o n ents readable k k' d,
    to_pdirs L F k = Some d -> fix_premarshal readable k = Ok k' ->
    exists d', to_pdirs L F k' = Some d' /\
               build nonstr o (PDir n d' ents) = build nonstr o (PDir n d ents).
Proof. exact fix_preserves_build. Qed.
Print Assumptions C19_fix_preserves_build_partial.

(* the tie between the two models: on the pipeline's directives FixKustomizationPreMarshalling is the
   respelling of Res/PipelineProofs.v *)
Theorem C19_fix_is_respell :
  forall (L : patch -> option ppatch) (F : Z -> string) readable k k' d,
    to_pdirs L F k = Some d -> fix_premarshal readable k = Ok k' -> to_pdirs L F k' = Some (respell d).
Proof. exact to_pdirs_fix. Qed.
Print Assumptions C19_fix_is_respell.

(* the hand rewrite of ONE layer (labels ++ [{pairs: commonLabels, includeSelectors: true}]) preserves the
   build unconditionally — including the case `edit fix` refuses (C19_fix_conflict): the same key in a
   labels entry and in commonLabels with different values, which the build oracle now generates *)
Theorem C19_respell_layer_preserves_build :
  forall nonstr o n d ents, build nonstr o (PDir n (respell d) ents) = build nonstr o (PDir n d ents).
Proof. exact build_respell_layer. Qed.
Print Assumptions C19_respell_layer_preserves_build.

(* patchesStrategicMerge -> target-less `patches:` is NOT build-preserving in general: a targeted entry (which
   takes the resWrangler.ApplySmPatch path of the deprecated field) and the target-less entry `edit fix` writes
   give different labels on w-pipe's witness tree (`keep: null` deletes vs becomes the string "null") *)
Theorem C19_fix_patch_spelling_refuted :
  Res.PipelinePatchProofs.labels_of
    (build (fun s => String.eqb s "1") PSortNone (Res.PipelinePatchProofs.spelling_tree None)) <>
  Res.PipelinePatchProofs.labels_of
    (build (fun s => String.eqb s "1") PSortNone
           (Res.PipelinePatchProofs.spelling_tree (Some Res.PipelinePatchProofs.kind_only))).
Proof. exact fix_patch_spelling_refuted. Qed.
Print Assumptions C19_fix_patch_spelling_refuted.
