(* C02, whole-build part: theorems over the integrated pipeline model (Res/Pipeline.v: accumulate -> generators ->
   transformers in the generated builtin order -> hash -> name references -> sort -> strip).
   Statements only: every proof is `exact lemma` (lemmas in Res/PipelineProofs.v).
   These theorems extend the coverage of C02, C11, C19, C01 and C07 to whole builds. *)
From KV Require Import Res.Pipeline Res.PipelineProofs Res.PipelineOrderProofs Res.PipelineFrameProofs Res.PipelineGenProofs Res.PipelinePermProofs.
From KV Require Res.Generators Res.Hash.
From KV Require Import Yaml.FieldSpecSpec Yaml.FieldSpecProofs.
From KV Require Res.Labels Res.Hygiene.
From Coq Require Import Sorting.Permutation.

(* ---------- generated tables ---------- *)

(* every builtin transformer kind of configureBuiltinTransformers is classified (modelled or out of scope),
   all modelled ones occur, none twice; the model runs them in the generated order *)
Theorem Gen_transformer_order_known : transformer_order_known_b = true.
Proof. exact gen_transformer_order_known. Qed.
Print Assumptions Gen_transformer_order_known.


Theorem Gen_generator_order_known : generator_order_known_b = true.
Proof. exact gen_generator_order_known. Qed.
Print Assumptions Gen_generator_order_known.


(* the relative order the per-property slices assume: namespace, prefix, suffix, labels, annotations *)
Theorem Gen_transformer_order_modelled :
  filter (fun n => str_in n modelled_transformers) gen_transformer_order =
  ["PatchTransformer"; "NamespaceTransformer"; "PrefixTransformer"; "SuffixTransformer"; "LabelTransformer";
   "AnnotationsTransformer"; "ReplicaCountTransformer"; "ImageTagTransformer"]%string.
Proof. exact gen_transformer_order_modelled. Qed.
Print Assumptions Gen_transformer_order_modelled.


(* ---------- C02: the whole-build frame theorem ----------
   [frame_fs]: every builtin field-spec table (prefix, suffix, labels incl. templates and selectors, annotations,
   namespace, images, replicas, var references: Gen/FieldSpecs.v), the referrer paths of the merged name-reference
   rule table (Gen/NameRefRules.v), metadata/labels, metadata/namespace, `subjects` (RoleBinding hack) and
   metadata/annotations (final rewrite).  [untouched q]: the JSON location q leaves each of these paths at some key. *)

(* obligations on the generated tables: all paths are made of plain segments; nothing can reach kind / apiVersion *)
Theorem Gen_frame_paths_wellformed : forallb (fun fs => forallb seg_ok (fs_segments fs)) frame_fs = true.
Proof. exact frame_fs_segments_ok. Qed.
Print Assumptions Gen_frame_paths_wellformed.


Theorem Gen_kind_untouched : untouched [JKey "kind"%string] /\ untouched [JKey "apiVersion"%string].
Proof. exact (conj kind_untouched api_version_untouched). Qed.
Print Assumptions Gen_kind_untouched.


(* For every successful build of a tree whose documents have a `kind`, whose `labels` entries carry no custom
   `fields` and whose generators create: the outputs are, up to the order chosen by the final sort, obtained from a
   source list [srcs] - whose [Some] entries are EXACTLY the input documents in accumulation order, the [None]
   entries being the generated ConfigMaps / Secrets - by DROPPING some positions (IgnoreLocal: resources marked
   config.kubernetes.io/local-config) and keeping the others in order: every input document appears at most once,
   and every untouched location of a kept output holds the very node the input held there (tags, styles and text
   included).  [subrel R l l']: l' is l with some elements dropped, corresponding elements related by R. *)
Theorem PIPE_build_frame :
  forall nonstr o t outs,
    tree_ok t -> build nonstr o t = Ok outs ->
    exists (srcs : list (option node)) (outs0 : list node),
      Permutation outs outs0 /\ somes srcs = inputs t /\
      subrel (fun s out => match s with
                           | Some src => forall q, untouched q -> get_at q out = get_at q src
                           | None => True
                           end) srcs outs0.
Proof. exact build_frame. Qed.
Print Assumptions PIPE_build_frame.

(* ... and when nothing was dropped (as many outputs as sources) every input document appears EXACTLY once *)
Theorem PIPE_build_frame_exact :
  forall nonstr o t outs,
    tree_ok t -> build nonstr o t = Ok outs ->
    exists (srcs : list (option node)) (outs0 : list node),
      Permutation outs outs0 /\ somes srcs = inputs t /\
      (List.length outs = List.length srcs ->
       Forall2 (fun s out => match s with
                             | Some src => forall q, untouched q -> get_at q out = get_at q src
                             | None => True
                             end) srcs outs0).
Proof. exact build_frame_exact. Qed.
Print Assumptions PIPE_build_frame_exact.

Theorem PIPE_identity_count :
  forall nonstr o t outs,
    tree_ok t -> build nonstr o t = Ok outs ->
    exists srcs : list (option node), List.length outs <= List.length srcs /\ somes srcs = inputs t.
Proof. exact build_frame_count. Qed.
Print Assumptions PIPE_identity_count.

(* ---------- patches: (C10 at the level of one entry of the integrated model) ----------
   An entry with a target changes only what the target selects: every resource of the map whose current id is not
   among the selected ones (resWrangler.Select over the documents WITH their build annotations, w-c10's
   Res/Selector.v) and that is not nil / empty is in the result unchanged - whatever the patch, the schema
   projection and the go-yaml oracle. *)
From KV Require Res.PipelinePatchProofs Res.Selector.
Theorem PIPE_patch_changes_only_selected :
  forall nonstr p s m m',
    pp_target p = Some s -> patch_transform nonstr p m = Ok m' ->
    exists ids, PipelinePatchProofs.selected_ids s m = Ok ids /\
      forall r, In r m -> existsb (resid_raw_eqb (cur_id pipe_cs r)) ids = false ->
                nil_or_empty (r_node r) = false -> In r m'.
Proof. exact PipelinePatchProofs.patch_changes_only_selected. Qed.
Print Assumptions PIPE_patch_changes_only_selected.
