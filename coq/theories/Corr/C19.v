(* Correspondence cases for C19: one `kustomize edit fix` on a kustomization file.
   Same shape as a C17 step: observed outcome class, file afterwards, its strict Unmarshal and the
   yaml.Marshal table; the model is FixCmd.fix_cmd (Read -> FixKustomizationPreMarshalling -> Write). *)
From KV Require Export Corr.C17.
From KV Require Export Edit.FixCmd.
Local Open Scope list_scope.

Record case19 := mkCase19 {
  d_env : env;
  d_file : file;                          (* file before *)
  d_k : res kust;                         (* observed Unmarshal of it *)
  d_class : oclass;                       (* observed outcome of `edit fix` *)
  d_after : file;                         (* observed file afterwards *)
  d_after_k : res kust;                   (* observed Unmarshal of it *)
  d_render : list (string * list line);   (* yaml.Marshal of each one-field struct of d_after_k *)
  d_vars : option vars_oracle             (* Some: the command was `edit fix --vars`, with the conversion oracle *)
}.

Definition diag19 (c : case19) : list string :=
  let f := d_file c in
  match (match d_vars c with
         | None => fix_cmd (d_env c) (do k <- d_k c; Ok (fix_kustomization k))
         | Some vo => fix_vars_cmd (d_env c) (do k <- d_k c; Ok (fix_kustomization k)) vo
         end) with
  | Ok (Some k') =>
      let R := tbl_render (d_render c) in
      let d1 := if oclass_eqb COk (d_class c) then [] else ["class"] in
      if negb (write_is_plain R f k') then d1
      else
        d1 ++ (if file_eqb (write_file R f k') (d_after c) then [] else ["file"]) ++
        (match d_after_k c with
         | Ok b => diff_fields (canon k') b
         | _ => ["typed-class"]
         end)
  | Ok None => ["model-no-write"]
  | r =>
      (if oclass_eqb (class_of r) (d_class c) then [] else ["class"]) ++
      (if file_eqb f (d_after c) then [] else ["file-changed-on-failure"])
  end.

Definition agree19 (c : case19) : bool := nilb (diag19 c).
Definition mismatches19 (l : list case19) : list N := mism_from agree19 0%N l.
