(* Correspondence cases for the integrated pipeline model (check id PIPE).

   CPipe : a generated kustomization tree (1-3 layers; resources of ~14 kinds with cross references drawn from
           the name-reference rule table; namespace / namePrefix / nameSuffix / labels / commonLabels /
           commonAnnotations / configMapGenerator / secretGenerator per layer; sortOptions at the top) built by
           krusty.MakeKustomizer(krusty.MakeDefaultOptions()).Run on an in-memory file system
           vs. [build] of Res/Pipeline.v on the same abstract tree.
           Compared: the outcome class and, on success, the output documents IN ORDER, each as a WHOLE
           document at the typed-JSON level (every scalar with its tag, its quotedness when untagged and its
           text; sequences in order) modulo the order of mapping keys (the final emission goes through
           encoding/json, which sorts them) and modulo the canonical form of metadata.annotations that
           Resource.SetAnnotations produces at the end of every build (the observed side is only re-canonicalised,
           no key is removed from it). *)
From KV Require Export Res.Pipeline.

Inductive casePIPE :=
| CPipe (nonstr : list string) (o : psort) (t : ptree) (cls : oclass) (outs : list node).

Definition oclass_eqbP (a b : oclass) : bool :=
  match a, b with
  | COk, COk | CErr, CErr | CPanic, CPanic | CDiverge, CDiverge => true
  | _, _ => false
  end.

(* typed JSON with mapping keys sorted (stable insertion, byte order) *)
Fixpoint jins (kv : string * json) (l : list (string * json)) : list (string * json) :=
  match l with
  | [] => [kv]
  | x :: t => if String.ltb (fst kv) (fst x) then kv :: x :: t else x :: jins kv t
  end.

Fixpoint json_canon (j : json) : json :=
  match j with
  | JAtom t q v => JAtom t q v
  | JObj kvs => JObj (fold_right jins [] (map (fun kv => (fst kv, json_canon (snd kv))) kvs))
  | JArr es => JArr (map json_canon es)
  end.

Fixpoint json_eqbP (a b : json) {struct a} : bool :=
  match a, b with
  | JAtom t q v, JAtom t' q' v' => tag_eqb t t' && Bool.eqb q q' && String.eqb v v'
  | JObj kvs, JObj kvs' =>
      (fix go (l l' : list (string * json)) : bool :=
         match l, l' with
         | [], [] => true
         | (k, x) :: t, (k', x') :: t' => String.eqb k k' && json_eqbP x x' && go t t'
         | _, _ => false
         end) kvs kvs'
  | JArr es, JArr es' =>
      (fix go (l l' : list json) : bool :=
         match l, l' with
         | [], [] => true
         | x :: t, x' :: t' => json_eqbP x x' && go t t'
         | _, _ => false
         end) es es'
  | _, _ => false
  end.

(* the canonical form Resource.SetAnnotations leaves metadata.annotations in (keys sorted, values !!str, at the
   end of metadata) - WITHOUT removing any key: an internal annotation left in an observed output is a mismatch *)
Definition canon_annos (n : node) : node :=
  match annos_of n with
  | [] => n
  | a =>
      match n with
      | Map kvs =>
          match find_field "metadata" kvs with
          | Some (Map mkvs) =>
              Map (set_first "metadata" (Map (remove_first "annotations" mkvs ++ meta_map_field "annotations" a)%list) kvs)
          | _ => n
          end
      | _ => n
      end
  end.

(* model output vs observed output document *)
Definition doc_agree (m o : node) : bool :=
  json_eqbP (json_canon (to_json m)) (json_canon (to_json (canon_annos o))).

Fixpoint all2P {A} (f : A -> A -> bool) (l l' : list A) : bool :=
  match l, l' with
  | [], [] => true
  | x :: t, x' :: t' => f x x' && all2P f t t'
  | _, _ => false
  end.

Definition run_pipe (nonstr : list string) (o : psort) (t : ptree) : res (list node) :=
  build (fun s => str_in s nonstr) o t.

Definition agreePIPE (c : casePIPE) : bool :=
  match c with
  | CPipe ns o t cls outs =>
      match run_pipe ns o t with
      | Ok ms => oclass_eqbP cls COk && all2P doc_agree ms outs
      | r => oclass_eqbP cls (class_of r)
      end
  end.

Fixpoint mism_fromP (i : N) (l : list casePIPE) : list N :=
  match l with
  | [] => []
  | c :: t => if agreePIPE c then mism_fromP (i + 1)%N t else i :: mism_fromP (i + 1)%N t
  end.

Definition mismatchesPIPE (l : list casePIPE) : list N := mism_fromP 0%N l.

(* debugging aid used by the harness's PIPE_DEBUG mode: the model's own output *)
Definition model_outs (c : casePIPE) : res (list json) :=
  match c with
  | CPipe ns o t _ _ => do ms <- run_pipe ns o t; Ok (map (fun m => json_canon (to_json m)) ms)
  end.
Definition observed_outs (c : casePIPE) : list json :=
  match c with
  | CPipe _ _ _ _ outs => map (fun o => json_canon (to_json (canon_annos o))) outs
  end.

(* debugging aid: the locations (as key paths) where two canonical documents differ *)
Fixpoint jdiff (fuel : nat) (pre : string) (a b : json) : list string :=
  match fuel with
  | O => [pre ++ " <fuel>"]
  | S f =>
      match a, b with
      | JAtom t q v, JAtom t' q' v' =>
          if tag_eqb t t' && Bool.eqb q q' && String.eqb v v' then []
          else [pre ++ " : model=" ++ v ++ (if q then "(q)" else "") ++ " impl=" ++ v' ++ (if q' then "(q)" else "") ++
                (if tag_eqb t t' then "" else " TAG")]
      | JObj kvs, JObj kvs' =>
          List.app ((fix go (l : list (string * json)) : list string :=
              match l with
              | [] => []
              | (k, x) :: t =>
                  match find (fun kv => String.eqb (fst kv) k) kvs' with
                  | Some (_, x') => List.app (jdiff f (pre ++ "/" ++ k) x x') (go t)
                  | None => (pre ++ "/" ++ k ++ " only-in-model") :: go t
                  end
              end) kvs)
           (flat_map (fun kv => match find (fun kv' => String.eqb (fst kv') (fst kv)) kvs with
                               | Some _ => []
                               | None => [pre ++ "/" ++ fst kv ++ " only-in-impl"]
                               end) kvs')
      | JArr es, JArr es' =>
          (fix go (l l' : list json) (i : nat) : list string :=
             match l, l' with
             | [], [] => []
             | x :: t, x' :: t' => List.app (jdiff f (pre ++ "/#") x x') (go t t' (S i))
             | _, _ => [pre ++ " seq-length"]
             end) es es' 0
      | _, _ => [pre ++ " kind-differs"]
      end
  end.

Definition case_diff (c : casePIPE) : string * list (list string) :=
  match c with
  | CPipe ns o t cls outs =>
      match run_pipe ns o t with
      | Ok ms =>
          ((if oclass_eqbP cls COk then "ok/ok" else "model-ok/impl-fails") ++
           (if Nat.eqb (List.length ms) (List.length outs) then "" else " LENGTH"),
           map (fun mo => jdiff 50 "" (json_canon (to_json (fst mo))) (json_canon (to_json (canon_annos (snd mo)))))
               (combine ms outs))
      | Err => ((if oclass_eqbP cls CErr then "err/err" else "model-err/impl-other"), [])
      | Panic => ("model-panic", [])
      | Diverge => ("model-diverge", [])
      end
  end.
