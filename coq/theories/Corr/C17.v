(* Correspondence cases for C17: an initial kustomization file, the file-system facts the commands
   look at, and a sequence of `kustomize edit` invocations with, after each, the OBSERVED outcome
   class, file bytes (as lines) and strict Unmarshal of those bytes.
   The model is run independently from the initial file: only the initial Unmarshal and, per step,
   the yaml.Marshal text of each single-field struct (oracle table [s_render]) come from go-yaml. *)
From KV Require Export Edit.Cmd.
Local Open Scope list_scope.

Record step17 := mkStep17 {
  s_op : op;
  s_class : oclass;                       (* observed *)
  s_file : file;                          (* observed file after the command *)
  s_k : res kust;                         (* observed Kustomization.Unmarshal of s_file (no Fix) *)
  s_render : list (string * list line)    (* Go field name -> lines of yaml.Marshal of that one field of s_k *)
}.

Record case17 := mkCase17 {
  c_env : env;
  c_file : file;                          (* initial file *)
  c_k : res kust;                         (* observed Unmarshal of the initial file *)
  c_steps : list step17
}.

Definition oclass_eqb (a b : oclass) : bool :=
  match a, b with
  | COk, COk | CErr, CErr | CPanic, CPanic | CDiverge, CDiverge => true
  | _, _ => false
  end.

Definition opt_str_eqb (a b : option string) : bool :=
  match a, b with
  | None, None => true
  | Some x, Some y => String.eqb x y
  | _, _ => false
  end.

Fixpoint strs_eqb (a b : list string) : bool :=
  match a, b with
  | [], [] => true
  | x :: a', y :: b' => String.eqb x y && strs_eqb a' b'
  | _, _ => false
  end.

Definition file_eqb (a b : file) : bool :=
  strs_eqb (f_lines a) (f_lines b) && opt_str_eqb (f_tail a) (f_tail b).

Definition rkust_eqb (a b : res kust) : bool :=
  match a, b with
  | Ok x, Ok y => kust_eqb x y
  | Err, Err | Panic, Panic | Diverge, Diverge => true
  | _, _ => false
  end.

Definition tbl_render (tbl : list (string * list line)) (_ : kust) (n : string) : list line :=
  match assoc_get n tbl with Some ls => ls | None => ["{}"] end.

(* model state: the file and what Unmarshal gives on it.
   A write outside the domain of the go-yaml round-trip assumption (Cmd.write_is_plain: a re-emitted
   comment line may be lexed as scalar content, so neither "the file decodes to what was written"
   nor "the oracle table, computed from the decoded file, is the text of what was written" can be
   relied on) is flagged: only the outcome class of that step is compared and the model continues
   from the observed file. Such steps are rare (flavour B of the generator) and are covered by the
   law oracles on the implementation. *)
Definition mstep (e : env) (tbl : list (string * list line))
           (st : file * res kust) (o : op)
  : oclass * bool * (file * res kust) :=
  let '(f, rk) := st in
  match apply_op e (do k <- rk; Ok (fix_kustomization k)) o with
  | Ok (Some k') =>
      (COk, write_is_plain (tbl_render tbl) f k', (write_file (tbl_render tbl) f k', Ok (canon k')))
  | Ok None => (COk, true, st)
  | Err => (CErr, true, st)
  | Panic => (CPanic, true, st)
  | Diverge => (CDiverge, true, st)
  end.

(* which observable of which step disagrees: (step index, what) *)
Fixpoint diag_steps (e : env) (i : nat) (st : file * res kust) (steps : list step17) : list (nat * string) :=
  match steps with
  | [] => []
  | s :: t =>
      let '(cls, plain, st') := mstep e (s_render s) st (s_op s) in
      let d1 := if oclass_eqb cls (s_class s) then [] else [(i, "class")] in
      if negb plain then
        match d1 with
        | [] => diag_steps e (S i) (s_file s, s_k s) t
        | d => d
        end
      else
      let d2 := if file_eqb (fst st') (s_file s) then [] else [(i, "file")] in
      let d3 := if rkust_eqb (snd st') (s_k s) then []
                else match snd st', s_k s with
                     | Ok a, Ok b => match diff_fields a b with
                                     | [] => [(i, "typed-other")]
                                     | d => map (fun n => (i, n)) d
                                     end
                     | _, _ => [(i, "typed-class")]
                     end in
      match d1 ++ d2 ++ d3 with
      | [] => diag_steps e (S i) st' t
      | d => d
      end
  end.

(* number of steps compared in full / by class only (printed into the evidence by the harness) *)
Definition diag17 (c : case17) : list (nat * string) :=
  diag_steps (c_env c) 0 (c_file c, c_k c) (c_steps c).

Definition agree17 (c : case17) : bool := nilb (diag17 c).

Fixpoint mism_from {A} (agree : A -> bool) (i : N) (l : list A) : list N :=
  match l with
  | [] => []
  | c :: t => if agree c then mism_from agree (i + 1)%N t else i :: mism_from agree (i + 1)%N t
  end.

Definition mismatches17 (l : list case17) : list N := mism_from agree17 0%N l.
