(* Correspondence cases for C03: the harness writes (input, observed implementation output);
   [mismatches03] returns the indices where the model disagrees.

   CTable : the rule table an accumulator holds at run time (after merging the default config)
            vs. the model's merge + sort of the GENERATED table (translator cross-check).
   CRef   : the resource map just before FixBackReferences (documents + rename history)
            vs. the documents just after it (every field of every resource).
   CBook  : a layering of kustomizations (namespace / namePrefix / nameSuffix per layer, resources,
            generated resources, bases) and the content hashes
            vs. identity + rename history of every resource just before FixBackReferences. *)
From KV Require Export Res.NameRef Res.NameRefResolved Res.Rename Gen.NameRefRules Gen.FieldSpecs.
From KV Require Import Corr.C14.   (* oclass_eqb, mism_from *)

(* identity and rename history of one resource *)
Record book := mkBook {
  b_api_version : string;
  b_kind : string;
  b_name : string;
  b_ns : string;
  b_pnames : option string;
  b_pnss : option string;
  b_pkinds : option string;
  b_prefixes : option string;
  b_suffixes : option string
}.

Inductive case03 :=
| CTable (observed : list nbr)
| CRef (cluster_scoped : list (string * string)) (nonstr : list string)
       (before : list resource) (cls : oclass) (after : list (option node))
         (* None = the document is unchanged *)
| CRefR (cluster_scoped : list (string * string)) (nonstr : list string)
        (before : list resource) (cls : oclass) (after : list (option node))
         (* the same observation on a tree that carries the repair nameref.ResolvedFields
            (the harness detects the field Filter.Resolved): compared with Res/NameRefResolved.v *)
| CBook (cluster_scoped : list (string * string)) (nonstr : list string)
        (l : layer) (hashes : list string) (cls : oclass) (expected : list book).

Definition cs_of (l : list (string * string)) (av k : string) : bool :=
  existsb (fun p => String.eqb (fst p) av && String.eqb (snd p) k) l.

(* the rule table of the model: merge + sort of the generated source table, evaluated once *)
Definition default_rules : res (list nbr) :=
  Eval vm_compute in effective_rules gen_gvk_order_first gen_gvk_order_last gen_nameref_raw.

Definition opt_str_eqb (a b : option string) : bool :=
  match a, b with
  | None, None => true
  | Some x, Some y => String.eqb x y
  | _, _ => false
  end.

Definition fs_eqb (a b : fieldspec) : bool :=
  String.eqb (fs_group a) (fs_group b) && String.eqb (fs_version a) (fs_version b) &&
  String.eqb (fs_kind a) (fs_kind b) && String.eqb (fs_path a) (fs_path b) &&
  Bool.eqb (fs_create a) (fs_create b).

Fixpoint list_eqb {A} (eq : A -> A -> bool) (a b : list A) : bool :=
  match a, b with
  | [], [] => true
  | x :: a', y :: b' => eq x y && list_eqb eq a' b'
  | _, _ => false
  end.

Definition nbr_eqb (a b : nbr) : bool :=
  String.eqb (nb_group a) (nb_group b) && String.eqb (nb_version a) (nb_version b) &&
  String.eqb (nb_kind a) (nb_kind b) && list_eqb fs_eqb (nb_referrers a) (nb_referrers b).

Definition book_of (r : resource) : book :=
  mkBook (get_api_version (r_node r)) (get_kind (r_node r)) (get_name (r_node r)) (get_namespace (r_node r))
         (r_pnames r) (r_pnss r) (r_pkinds r) (r_prefixes r) (r_suffixes r).

Definition book_eqb (a b : book) : bool :=
  String.eqb (b_api_version a) (b_api_version b) && String.eqb (b_kind a) (b_kind b) &&
  String.eqb (b_name a) (b_name b) && String.eqb (b_ns a) (b_ns b) &&
  opt_str_eqb (b_pnames a) (b_pnames b) && opt_str_eqb (b_pnss a) (b_pnss b) &&
  opt_str_eqb (b_pkinds a) (b_pkinds b) && opt_str_eqb (b_prefixes a) (b_prefixes b) &&
  opt_str_eqb (b_suffixes a) (b_suffixes b).

Definition run_ref (csl : list (string * string)) (nonstr : list string) (m : list resource)
  : res (list resource) :=
  do rules <- default_rules;
  nameref_transform (cs_of csl) (fun s => str_in s nonstr) rules m.

Definition run_ref_r (csl : list (string * string)) (nonstr : list string) (m : list resource)
  : res (list resource) :=
  do rules <- default_rules;
  nameref_transform_r (cs_of csl) (fun s => str_in s nonstr) rules m.

Definition run_book (csl : list (string * string)) (nonstr : list string) (l : layer) (hs : list string)
  : res (list resource) :=
  build_names (cs_of csl) (fun s => str_in s nonstr)
              gen_name_prefix_fs gen_name_suffix_fs gen_namespace_fs gen_prefix_skip gen_suffix_skip l hs.

(* observed documents, given relative to the input documents *)
Fixpoint after_eqb (before model : list node) (obs : list (option node)) : bool :=
  match before, model, obs with
  | [], [], [] => true
  | b :: before', m :: model', o :: obs' =>
      node_eqb m (match o with Some x => x | None => b end) && after_eqb before' model' obs'
  | _, _, _ => false
  end.

Definition agree03 (c : case03) : bool :=
  match c with
  | CTable obs =>
      match default_rules with
      | Ok l => list_eqb nbr_eqb l obs
      | _ => false
      end
  | CRef csl ns m cls after =>
      match run_ref csl ns m with
      | Ok m' => oclass_eqb cls COk && after_eqb (map r_node m) (map r_node m') after
      | r => oclass_eqb cls (class_of r)
      end
  | CRefR csl ns m cls after =>
      match run_ref_r csl ns m with
      | Ok m' => oclass_eqb cls COk && after_eqb (map r_node m) (map r_node m') after
      | r => oclass_eqb cls (class_of r)
      end
  | CBook csl ns l hs cls expected =>
      match run_book csl ns l hs with
      | Ok m' => oclass_eqb cls COk && list_eqb book_eqb (map book_of m') expected
      | r => oclass_eqb cls (class_of r)
      end
  end.

Definition mismatches03 (l : list case03) : list N := mism_from agree03 0%N l.
