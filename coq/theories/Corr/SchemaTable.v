(* A finite projection of the running openapi schema, as dumped by the harness for one case (or by
   the translator for the builtin kinds): per (kind, apiVersion) a tree that follows
   ResourceSchema.Field / Elements along the paths present in the documents; every tree node carries
   the answer of PatchStrategyAndKeyList. A field / element schema that is not in the tree does not
   exist (Field / Elements returned nil).

   The case files are large; their terms are written with the monomorphic builders below
   (no implicit arguments to infer), which keeps Coq's elaboration linear. *)
From KV Require Export Yaml.Walk.

Inductive stree :=
| ST (strategy : string) (keys : list string) (fields : list (string * stree)) (elems : list stree).

Definition sroots := list (string * string * stree).     (* kind, apiVersion, schema tree *)

Fixpoint st_find (key : string) (fs : list (string * stree)) : option stree :=
  match fs with
  | [] => None
  | (k, t) :: r => if String.eqb k key then Some t else st_find key r
  end.
Fixpoint st_root (k av : string) (rs : sroots) : option stree :=
  match rs with
  | [] => None
  | (k', av', t) :: r => if String.eqb k k' && String.eqb av av' then Some t else st_root k av r
  end.

Definition tree_schema (rs : sroots) : schema stree :=
  mkSchema stree
    (fun k av => st_root k av rs)
    (fun s key => match s with ST _ _ fs _ => st_find key fs end)
    (fun s => match s with ST _ _ _ (t :: _) => Some t | _ => None end)
    (fun s => match s with ST st ks _ _ => (st, ks) end).

(* ---- monomorphic builders used by the generated case files ---- *)
Definition kn : list (string * node) := [].
Definition kc (k : string) (v : node) (l : list (string * node)) : list (string * node) := (k, v) :: l.
Definition nn : list node := [].
Definition nc (x : node) (l : list node) : list node := x :: l.
Definition sn : list string := [].
Definition sc (x : string) (l : list string) : list string := x :: l.
Definition fn : list (string * stree) := [].
Definition fc (k : string) (t : stree) (l : list (string * stree)) : list (string * stree) := (k, t) :: l.
Definition en : list stree := [].
Definition e1 (t : stree) : list stree := [t].
Definition rn : sroots := [].
Definition rc (k av : string) (t : stree) (l : sroots) : sroots := (k, av, t) :: l.
Definition oN : option node := None.
Definition oS (x : node) : option node := Some x.

(* shared by the Corr files of the walker properties *)
Definition oclass_eqb (a b : oclass) : bool :=
  match a, b with
  | COk, COk | CErr, CErr | CPanic, CPanic | CDiverge, CDiverge => true
  | _, _ => false
  end.
Definition opt_node_eqb (a b : option node) : bool :=
  match a, b with
  | None, None => true
  | Some x, Some y => node_eqb x y
  | _, _ => false
  end.
Fixpoint mism_from {A} (agree : A -> bool) (i : N) (l : list A) : list N :=
  match l with
  | [] => []
  | c :: t => if agree c then mism_from agree (i + 1)%N t else i :: mism_from agree (i + 1)%N t
  end.
