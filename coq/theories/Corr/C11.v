(* Correspondence cases for C11.  The harness writes (input, observed implementation output);
   [mismatches11] returns the indices where the model disagrees.
     CLess   one evaluation of legacyIDSorter.Less (through the verif hook)
     CBuild  one krusty.Run of a generated tree within the scope of Res/Compose.v: observed outcome
             class and the ids of the output documents in output order *)
From KV Require Export Res.Compose Res.LabelNest Gen.LegacyOrder Gen.FieldSpecs.
(* the configurations model lives on the C03 slice, whose gvk type has the same field names as LegacySort's:
   required, not imported *)
From KV Require Res.ConfigMerge Gen.NameRefRules.
Open Scope string_scope.

(* a document id as it is written in YAML: apiVersion, kind, namespace, name *)
Record ydoc := mkDoc { d_api : string; d_kind : string; d_ns : string; d_name : string }.

(* resid.ParseGroupVersion *)
Definition parse_gv (av : string) : string * string :=
  match split_first "/"%char av with
  | Some (g, v) => (g, v)
  | None => ("", av)
  end.

Definition gvk_of (api kind : string) : gvk :=
  let (g, v) := parse_gv api in mkGvk g v kind.

(* resid.FromRNode / Resource.CurId *)
Definition rid_of (d : ydoc) : rid := mkId (gvk_of (d_api d) (d_kind d)) (d_ns d) (d_name d).

(* generated trees, with YAML-level ids *)
Inductive ytree :=
| YFile (docs : list ydoc)
| YDir (ents : list ytree) (pfx sfx : string).

Fixpoint tree_of (t : ytree) : tree :=
  match t with
  | YFile docs => File (map rid_of docs)
  | YDir ents p s => Dir (map tree_of ents) p s
  end.

(* legacy sort options: None = the built-in default lists (GENERATED from the source) *)
Definition order_lists (o : option (list string * list string)) : list string * list string :=
  match o with
  | None => (gen_order_first, gen_order_last)
  | Some fl => fl
  end.

Inductive ysort :=
| YNone
| YFifo
| YLegacy (o : option (list string * list string)).

(* trees for the label-layering model, with YAML-level ids *)
Inductive yltree :=
| YLFile (docs : list (ydoc * labels))
| YLDir (ents : list yltree) (lbls : list labels) (common : labels).

Fixpoint ltree_of (t : yltree) : ltree :=
  match t with
  | YLFile docs => LFile (map (fun dl => (rid_of (fst dl), snd dl)) docs)
  | YLDir ents lbls common => LDir (map ltree_of ents) lbls common
  end.

Fixpoint labelled_eqb (a b : list (rid * labels)) : bool :=
  match a, b with
  | [], [] => true
  | (i, l) :: a', (j, m) :: b' => rid_eqb i j && labels_eqb l m && labelled_eqb a' b'
  | _, _ => false
  end.

Inductive case11 :=
| CLess (o : option (list string * list string)) (a b : ydoc) (observed : bool)
| CBuild (t : ytree) (s : ysort)
         (cs : list (string * string))     (* (apiVersion, kind) of this case's cluster-scoped types *)
         (cls : oclass) (out : list ydoc)
(* a successful krusty.Run of a tree in the scope of Res/LabelNest.v (no renaming, no sortOptions): the output
   documents in order, each with its metadata.labels *)
| CLabels (t : yltree) (out : list (ydoc * labels))
(* a successful krusty.Run of a tree of the nameref-configurations family: the accumulated nameReference table
   decides which of the candidate targets (apiVersion, kind) the referrer field is rewritten to *)
| CCfg (t : ConfigMerge.ctree) (ref_api ref_kind path : string) (cands : list (string * string))
       (observed : option (string * string)).

Definition oclass_eqb (a b : oclass) : bool :=
  match a, b with
  | COk, COk | CErr, CErr | CPanic, CPanic | CDiverge, CDiverge => true
  | _, _ => false
  end.

Fixpoint rids_eqb (a b : list rid) : bool :=
  match a, b with
  | [], [] => true
  | x :: a', y :: b' => rid_eqb x y && rids_eqb a' b'
  | _, _ => false
  end.

(* multiset equality of id lists (used where the order is unspecified) *)
Fixpoint remove_one (x : rid) (l : list rid) : option (list rid) :=
  match l with
  | [] => None
  | y :: t => if rid_eqb x y then Some t
              else match remove_one x t with Some t' => Some (y :: t') | None => None end
  end.
Fixpoint perm_b (a b : list rid) : bool :=
  match a with
  | [] => match b with [] => true | _ => false end
  | x :: a' => match remove_one x b with Some b' => perm_b a' b' | None => false end
  end.

Definition cs_fun (cs : list (string * string)) (g : gvk) : bool :=
  existsb (fun p => gvk_eqb g (gvk_of (fst p) (snd p))) cs.

Definition model_accumulate (cs : list (string * string)) (t : tree) : res (list resource) :=
  accumulate (cs_fun cs) gen_name_prefix_fs gen_name_suffix_fs gen_prefix_skip gen_suffix_skip t.

Definition agree11 (c : case11) : bool :=
  match c with
  | CLess o a b observed =>
      let (f, l) := order_lists o in
      Bool.eqb (legacy_less_g gen_ns_reversal_guarded f l (rid_of a) (rid_of b)) observed
  | CBuild t s cs cls out =>
      let t' := tree_of t in
      if is_empty_kust t' && match s with YNone => false | _ => true end
      then oclass_eqb cls COk && match out with [] => true | _ => false end else
      match model_accumulate cs t' with
      | Ok acc =>
          let ids := map r_cur acc in
          let obs := map rid_of out in
          oclass_eqb cls COk &&
          match s with
          | YNone | YFifo => rids_eqb ids obs
          | YLegacy o =>
              let (f, l) := order_lists o in
              (* sort.Sort promises an order only when Less is a strict total order on the input *)
              if total_on_g_b gen_ns_reversal_guarded f l ids
              then rids_eqb (sort_legacy_g gen_ns_reversal_guarded f l ids) obs else perm_b ids obs
          end
      | r => oclass_eqb cls (class_of r)
      end
  | CLabels t out =>
      labelled_eqb (lflat (ltree_of t)) (map (fun dl => (rid_of (fst dl), snd dl)) out)
  | CCfg t ra rk path cands observed =>
      let gv := fun (ak : string * string) => let (g, v) := parse_gv (fst ak) in ResId.gvk_lit g v (snd ak) in
      match ConfigMerge.resolve NameRefRules.gen_gvk_order_first NameRefRules.gen_gvk_order_last
                                NameRefRules.gen_nameref_raw (gv (ra, rk)) path (map gv cands) t with
      | Ok w =>
          match w, observed with
          | None, None => true
          | Some x, Some o => ResId.gvk_equals x (gv o)
          | _, _ => false
          end
      | _ => false
      end
  end.

Fixpoint mism_from {A} (agree : A -> bool) (i : N) (l : list A) : list N :=
  match l with
  | [] => []
  | c :: t => if agree c then mism_from agree (i + 1)%N t else i :: mism_from agree (i + 1)%N t
  end.

Definition mismatches11 (l : list case11) : list N := mism_from agree11 0%N l.
