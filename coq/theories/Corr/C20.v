(* Correspondence cases for C20: the harness writes (input, observed implementation output);
   [mismatches20] returns the indices where the model disagrees.

   KDocs  : one stream.  [docs] are the nodes FormatFilter.Filter received (after ByteReader.Read,
            reader annotations included) with the schema projection of each; [cls]/[outs] the
            observed outcome of Filter (the nodes afterwards, comments and styles included);
            [written] (optional) the re-parsed output of ByteWriter for the same stream, compared
            with the model's output after the writer's annotation clean-up, on the projection
            [skel] (structure, key order, values, tags, quoting) plus the comment-line multiset.
   KTable : runtime values of the tables the model takes from the translators (yaml.FieldOrder,
            the three whitelists) and of the go-yaml style bits, probed by name. *)
From KV Require Export Yaml.Fmt Yaml.FmtTablesRef Yaml.Resolve11.

(* short forms used by the harness' term printer *)
Definition h0 (tag : string) (style : N) : hdr := mkHdr "" "" "" "" tag style.
Definition hc (head line foot tag : string) (style : N) : hdr := mkHdr head line foot "" tag style.
(* the three most frequent node shapes: plain untagged-style string scalar, block mapping, block sequence *)
Definition s0 (v : string) : cnode := CScalar (h0 "!!str" 0) v.
Definition m0 (kvs : list (cnode * cnode)) : cnode := CMap (h0 "!!map" 0) kvs.
Definition q0 (es : list cnode) : cnode := CSeq (h0 "!!seq" 0) es.

(* (text, IsValueNonString, valueHasType boolean / integer / number) observed on the implementation *)
Definition scal_obs : Type := string * (bool * (bool * (bool * bool))).

(* the shared instance [nonstr_m] / [hastype_m] (Yaml/Resolve11.v), given the observed answer as residual
   oracle, reproduces the observed answer: i.e. wherever the model computes (its fragment, the empty
   text, texts with a newline) it agrees with go-yaml v2; outside, the oracle fallback is used *)
Definition scal_agree (o : scal_obs) : bool :=
  let '(v, (ns, (tb, (ti, tn)))) := o in
  let ho := fun (_ t : string) =>
              if String.eqb t "boolean" then tb else if String.eqb t "integer" then ti else tn in
  Bool.eqb (nonstr_m (fun _ => ns) v) ns &&
  (negb ns ||
   (Bool.eqb (hastype_m ho v "boolean") tb && Bool.eqb (hastype_m ho v "integer") ti &&
    Bool.eqb (hastype_m ho v "number") tn)).

Inductive case20 :=
| KDocs (docs : list (cnode * sch)) (nonstr : list string)
        (hastype : list (string * string))       (* (value, OpenAPI type) pairs for which valueHasType holds *)
        (cls : oclass) (outs : list cnode)
        (written : option (list cnode * bool))   (* re-parsed ByteWriter output; compare comments? *)
        (dc_in dc_out : list string)             (* comments on the DocumentNodes (outside fmtNode's reach)
                                                    of the input / of the re-parsed output *)
        (scal : list scal_obs)                   (* every distinct scalar text of the stream with what go-yaml v2
                                                    says about it (checked against Resolve11 on its fragment) *)
| KScalars (scal : list scal_obs)                (* the same for a fixed pool of adversarial texts *)
| KTable (ranks : list (string * option N))
         (kinds apis : list (string * bool))
         (fields : list (string * option string))
         (sizes : list N)            (* len(FieldOrder), len(kinds), len(apis), len(fields) at run time *)
         (sdouble ssingle : N)
         (* the harness' own pinned copy of the reorderable lists (used by its value oracles) *)
         (rkinds rapis : list string) (rfields : list (string * string)).

Definition oclass_eqb20 (a b : oclass) : bool :=
  match a, b with
  | COk, COk | CErr, CErr | CPanic, CPanic | CDiverge, CDiverge => true
  | _, _ => false
  end.

Fixpoint list_eqb {A} (eqb : A -> A -> bool) (l l' : list A) : bool :=
  match l, l' with
  | [], [] => true
  | x :: t, x' :: t' => eqb x x' && list_eqb eqb t t'
  | _, _ => false
  end.

(* ---------- projection used for the written (encoded and re-parsed) output ----------
   The encoder/decoder pair of go-yaml is outside the model (S3): it may move a comment to a
   neighbouring node and normalises some styles.  What the property talks about survives: the
   structure, the order of keys and elements, scalar values, tags, whether a scalar is quoted,
   anchors, and the comment lines as a multiset. *)
Inductive skel :=
| KS (tag : string) (quoted : bool) (anchor : string) (v : string)
| KM (tag : string) (anchor : string) (kvs : list (skel * skel))
| KQ (tag : string) (anchor : string) (es : list skel)
| KA (v : string).

Fixpoint skel_of (n : cnode) : skel :=
  match n with
  | CScalar h v => KS (h_tag h) (style_quoted (h_style h)) (h_anchor h) v
  | CAlias _ v => KA v
  | CMap h kvs => KM (h_tag h) (h_anchor h) (map (fun kv => (skel_of (fst kv), skel_of (snd kv))) kvs)
  | CSeq h es => KQ (h_tag h) (h_anchor h) (map skel_of es)
  end.

(* first argument: model side; second: re-parsed written output *)
Fixpoint skel_eqb (a b : skel) {struct a} : bool :=
  match a, b with
  | KS t q an v, KS t' q' an' v' =>
      (* a node built in code (reader annotations) has an empty tag until go-yaml resolves it *)
      (* ... and the encoder may add quotes the syntax requires (e.g. "a:b" inside a flow mapping) but
         must keep requested ones; an unwanted quote on a non-string shows up as a tag change *)
      (String.eqb t "" || String.eqb t t') && implb q q' && String.eqb an an' && String.eqb v v'
  | KA v, KA v' => String.eqb v v'
  | KM t an kvs, KM t' an' kvs' =>
      String.eqb t t' && String.eqb an an' &&
      (fix go (l l' : list (skel * skel)) : bool :=
         match l, l' with
         | [], [] => true
         | kv :: r, kv' :: r' => skel_eqb (fst kv) (fst kv') && skel_eqb (snd kv) (snd kv') && go r r'
         | _, _ => false
         end) kvs kvs'
  | KQ t an es, KQ t' an' es' =>
      String.eqb t t' && String.eqb an an' &&
      (fix go (l l' : list skel) : bool :=
         match l, l' with
         | [], [] => true
         | x :: r, x' :: r' => skel_eqb x x' && go r r'
         | _, _ => false
         end) es es'
  | _, _ => false
  end.

(* comment lines: a comment string holds one or more "#..." lines separated by newlines *)
Definition nl : ascii := ascii_of_N 10.
Definition comment_lines (n : cnode) : list string :=
  filter (fun s => negb (String.eqb s ""))
         (flat_map (fun c => map trim_space (split_on nl c)) (comments n)).

(* multiset equality of string lists by sorting *)
Definition sort_strs (l : list string) : list string := isort_list String.ltb l.
Definition same_multiset (a b : list string) : bool :=
  list_eqb String.eqb (sort_strs a) (sort_strs b).

(* [with_comments] is false when go-yaml alone (reader + writer, no formatter) already loses or
   duplicates a comment line of this input (S3): then only the skeleton is compared *)
Definition lines_of (cs : list string) : list string :=
  filter (fun s => negb (String.eqb s "")) (flat_map (fun c => map trim_space (split_on nl c)) cs).

Definition written_agree (model_out : list cnode) (w : list cnode) (with_comments : bool)
           (dc_in dc_out : list string) : bool :=
  match mapM writer_clean model_out with
  | Ok cleaned =>
      list_eqb skel_eqb (map skel_of cleaned) (map skel_of w) &&
      (negb with_comments ||
       (* a comment may move between the document node and its first / last key when keys move *)
       same_multiset (flat_map comment_lines cleaned ++ lines_of dc_in)%list
                     (flat_map comment_lines w ++ lines_of dc_out)%list)
  | _ => false
  end.

Definition opt_N_eqb (a b : option N) : bool :=
  match a, b with
  | None, None => true
  | Some x, Some y => (x =? y)%N
  | _, _ => false
  end.
Definition opt_str_eqb (a b : option string) : bool :=
  match a, b with
  | None, None => true
  | Some x, Some y => String.eqb x y
  | _, _ => false
  end.

Fixpoint count_distinct (l : list string) : N :=
  match l with
  | [] => 0%N
  | x :: t => if str_in x t then count_distinct t else (1 + count_distinct t)%N
  end.

Definition agree20 (c : case20) : bool :=
  match c with
  | KDocs docs ns ht cls outs written dci dco scal =>
      (* the model answers by Resolve11 on its fragment and by the per-case oracle tables elsewhere *)
      let nonstr := nonstr_m (fun s => str_in s ns) in
      let hastype := hastype_m (fun v t => existsb (fun p => String.eqb (fst p) v && String.eqb (snd p) t) ht) in
      forallb scal_agree scal &&
      match filter_stream nonstr hastype isort docs with
      | Ok outs' =>
          oclass_eqb20 cls COk && list_eqb cnode_eqb outs' outs &&
          match written with
          | None => true
          | Some w => written_agree outs' (fst w) (snd w) dci dco
          end
      | r => oclass_eqb20 cls (class_of r)
      end
  | KScalars scal => forallb scal_agree scal
  | KTable ranks kinds apis fields sizes sd ss rk ra rf =>
      forallb (fun p => opt_N_eqb (field_order (fst p)) (snd p)) ranks &&
      forallb (fun p => Bool.eqb (str_in (fst p) wl_kinds) (snd p)) kinds &&
      forallb (fun p => Bool.eqb (str_in (fst p) wl_apis) (snd p)) apis &&
      forallb (fun p => opt_str_eqb (assoc_str (fst p) wl_fields) (snd p)) fields &&
      list_eqb N.eqb sizes
        [count_distinct field_sort_order; count_distinct wl_kinds; count_distinct wl_apis;
         count_distinct (map fst wl_fields)] &&
      (sd =? style_double)%N && (ss =? style_single)%N &&
      list_eqb String.eqb rk ref_wl_kinds && list_eqb String.eqb ra ref_wl_apis &&
      list_eqb (fun a b => String.eqb (fst a) (fst b) && String.eqb (snd a) (snd b)) rf ref_wl_fields
  end.

Fixpoint mism_from20 (i : N) (l : list case20) : list N :=
  match l with
  | [] => []
  | c :: t => if agree20 c then mism_from20 (i + 1)%N t else i :: mism_from20 (i + 1)%N t
  end.

Definition mismatches20 (l : list case20) : list N := mism_from20 0%N l.

(* diagnostic: which comparison fails (0 = none) — used when investigating a disagreement *)
Definition diag20 (c : case20) : N :=
  match c with
  | KDocs docs ns ht cls outs written dci dco scal =>
      (* the model answers by Resolve11 on its fragment and by the per-case oracle tables elsewhere *)
      let nonstr := nonstr_m (fun s => str_in s ns) in
      let hastype := hastype_m (fun v t => existsb (fun p => String.eqb (fst p) v && String.eqb (snd p) t) ht) in
      if negb (forallb scal_agree scal) then 7%N else
      match filter_stream nonstr hastype isort docs with
      | Ok outs' =>
          if negb (oclass_eqb20 cls COk) then 1%N
          else if negb (list_eqb cnode_eqb outs' outs) then 2%N
          else match written with
               | None => 0%N
               | Some (w, wc) =>
                   match mapM writer_clean outs' with
                   | Ok cleaned =>
                       if negb (list_eqb skel_eqb (map skel_of cleaned) (map skel_of w)) then 4%N
                       else if wc && negb (same_multiset (flat_map comment_lines cleaned ++ lines_of dci)%list
                                                           (flat_map comment_lines w ++ lines_of dco)%list) then 5%N
                       else 0%N
                   | _ => 3%N
                   end
               end
      | r => if oclass_eqb20 cls (class_of r) then 0%N else 1%N
      end
  | KTable _ _ _ _ _ _ _ _ _ _ => if agree20 c then 0%N else 6%N
  | KScalars scal => if forallb scal_agree scal then 0%N else 7%N
  end.
