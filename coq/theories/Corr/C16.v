(* Correspondence cases for C16 (and the state half of C01): sequences of calls of the public API of
   kyaml/openapi and of whole krusty builds, executed by the harness in one process starting from the
   pristine state; after every step the harness records the outcome class, the answer, and a snapshot of
   the package-level state taken through the verif hook (zz_verif_c16.go).  [mismatches16] returns the
   indices of the cases on which the model (Glob/OpenApiState.v) disagrees at some step. *)
From KV Require Export Base.Prelude Glob.OpenApiState.
From KV Require Gen.OpenApiTables.

Inductive op16 :=
| PSet (fver : option string) (sch : option schema) (reset : bool)
| PIsNs (t : tm)
| PCluster (t : tm)
| PSchemaFor (t : tm)
| PVersion
| PReset
| PSuppress
| PAddSchema (d : schema)
| PBuild (b : build).

(* observed answers; for builds only what the output reveals *)
Inductive obs16 :=
| RNone
| RNs (namespaced found : bool)
| RBool (b : bool)
| RSchema (r : option (string * bool))
| RStr (s : string)
| RBuild (l : list (option bool)).   (* per query: None = not observable, Some b = cluster-scoped / list merged by key *)

Record snap16 := mkSnap {
  n_ver : string;
  n_custom : option N;
  n_init : bool;
  n_dflt : N;
  n_nobuiltin : bool;
  n_defs_nil : bool;
  n_bytype_nil : bool;
  n_ns_nil : bool;
  n_defs : list (option string);     (* per universe definition name: marker *)
  n_bytype : list (option string);   (* per universe type meta: marker *)
  n_ns : list (option bool);         (* per universe type meta *)
  n_ns_extra : list tm               (* keys of the namespaceability map outside the precomputed table *)
}.

Record step16 := mkStep { st_op : op16; st_class : oclass; st_obs : obs16; st_snap : snap16 }.

Record case16 := mk16 {
  c_env : env;
  c_names : list string;
  c_tms : list tm;
  c_first : snap16;            (* snapshot before the first step *)
  c_steps : list step16;
  c_precomp : list (string * string * bool)
                               (* runtime value of precomputedIsNamespaceScoped read through the hook ([] = not
                                  recorded in this case): must equal the translated table Gen/OpenApiTables.v *)
}.

(* ---------- model snapshot ---------- *)
Definition is_none {A} (o : option A) : bool := match o with None => true | Some _ => false end.
Definition dflt_code (p : pstatus) : N := match p with NotParsed => 0 | Delayed => 1 | Parsed => 2 end%N.

Definition model_snap (names : list string) (tms : list tm) (s : ost) : snap16 :=
  mkSnap (o_ver s) (option_map s_id (o_custom s)) (o_init s) (dflt_code (o_dflt s)) (o_nobuiltin s)
         (is_none (o_defs s)) (is_none (o_bytype s)) (is_none (o_ns s))
         (map (fun n => alook String.eqb n (opt_list (o_defs s))) names)
         (map (fun t => option_map fst (alook tm_eqb t (opt_list (o_bytype s)))) tms)
         (map (fun t => alook tm_eqb t (opt_list (o_ns s))) tms)
         (filter (fun t => is_none (precomputed t)) (map fst (opt_list (o_ns s)))).

(* ---------- equality tests ---------- *)
Definition opt_eqb {A} (eq : A -> A -> bool) (a b : option A) : bool :=
  match a, b with None, None => true | Some x, Some y => eq x y | _, _ => false end.
Fixpoint list_eqb {A} (eq : A -> A -> bool) (a b : list A) : bool :=
  match a, b with
  | [], [] => true
  | x :: a', y :: b' => eq x y && list_eqb eq a' b'
  | _, _ => false
  end.
Definition oclass_eqb16 (a b : oclass) : bool :=
  match a, b with COk, COk | CErr, CErr | CPanic, CPanic | CDiverge, CDiverge => true | _, _ => false end.
Definition subset_tm (a b : list tm) : bool := forallb (fun x => existsb (tm_eqb x) b) a.

Definition snap_eqb (a b : snap16) : bool :=
  String.eqb (n_ver a) (n_ver b) && opt_eqb N.eqb (n_custom a) (n_custom b) && Bool.eqb (n_init a) (n_init b)
  && N.eqb (n_dflt a) (n_dflt b) && Bool.eqb (n_nobuiltin a) (n_nobuiltin b)
  && Bool.eqb (n_defs_nil a) (n_defs_nil b) && Bool.eqb (n_bytype_nil a) (n_bytype_nil b) && Bool.eqb (n_ns_nil a) (n_ns_nil b)
  && list_eqb (opt_eqb String.eqb) (n_defs a) (n_defs b)
  && list_eqb (opt_eqb String.eqb) (n_bytype a) (n_bytype b)
  && list_eqb (opt_eqb Bool.eqb) (n_ns a) (n_ns b)
  && subset_tm (n_ns_extra a) (n_ns_extra b) && subset_tm (n_ns_extra b) (n_ns_extra a).

(* what a build's output reveals of one answer *)
Definition reveal (a : answer) : option bool :=
  match a with
  | ANs b => Some b
  | ASchema (Some (_, mk)) => Some mk
  | ASchema None => Some false
  | ASub => None
  end.
Fixpoint build_obs_agree (model : list answer) (obs : list (option bool)) : bool :=
  match model, obs with
  | [], [] => true
  | a :: m', o :: o' =>
      match o with
      | None => true
      | Some b => opt_eqb Bool.eqb (reveal a) (Some b)
      end && build_obs_agree m' o'
  | _, _ => false
  end.

Definition schema_ans_eqb (a b : option (string * bool)) : bool :=
  opt_eqb (fun x y => String.eqb (fst x) (fst y) && Bool.eqb (snd x) (snd y)) a b.

(* one step of the model; returns the new state and whether class + answer agree with the observation *)
Definition step_model (e : env) (s : ost) (st : step16) : ost * bool :=
  let okc := fun c => oclass_eqb16 c (st_class st) in
  match st_op st with
  | PSet fv sc r =>
      let '(s1, c) := set_schema s fv sc r in (s1, okc c)
  | PIsNs t =>
      let '(s1, c, (nsd, found)) := is_ns_scoped e s t in
      (s1, okc c && match c, st_obs st with
                    | COk, RNs a b => Bool.eqb a nsd && Bool.eqb b found
                    | COk, _ => false
                    | _, _ => true
                    end)
  | PCluster t =>
      let '(s1, c, b) := is_cluster_scoped e s t in
      (s1, okc c && match c, st_obs st with
                    | COk, RBool a => Bool.eqb a b
                    | COk, _ => false
                    | _, _ => true
                    end)
  | PSchemaFor t =>
      let '(s1, c, r) := schema_for e s t in
      (s1, okc c && match c, st_obs st with
                    | COk, RSchema a => schema_ans_eqb a r
                    | COk, _ => false
                    | _, _ => true
                    end)
  | PVersion =>
      (s, okc COk && match st_obs st with RStr a => String.eqb a (get_version s) | _ => false end)
  | PReset => (reset_openapi s, okc COk)
  | PSuppress => (suppress_builtin s, okc COk)
  | PAddSchema d => let '(s1, c) := add_schema s d in (s1, okc c)
  | PBuild b =>
      let '(s1, c, l) := run_build e s b in
      (s1, okc c && match c, st_obs st with
                    | COk, RBuild o => build_obs_agree l o
                    | COk, _ => false
                    | _, _ => true
                    end)
  end.

Fixpoint run_steps (e : env) (names : list string) (tms : list tm) (s : ost) (l : list step16) : bool :=
  match l with
  | [] => true
  | st :: t =>
      let '(s1, ok) := step_model e s st in
      ok && snap_eqb (model_snap names tms s1) (st_snap st) && run_steps e names tms s1 t
  end.

Definition row_eqb (a b : string * string * bool) : bool :=
  String.eqb (fst (fst a)) (fst (fst b)) && String.eqb (snd (fst a)) (snd (fst b)) && Bool.eqb (snd a) (snd b).
Definition rows_subset (a b : list (string * string * bool)) : bool :=
  forallb (fun x => existsb (row_eqb x) b) a.
Definition precomp_agree (l : list (string * string * bool)) : bool :=
  match l with
  | [] => true
  | _ => rows_subset l Gen.OpenApiTables.gen_precomputed_ns && rows_subset Gen.OpenApiTables.gen_precomputed_ns l
         && Nat.eqb (List.length l) (List.length Gen.OpenApiTables.gen_precomputed_ns)
  end.

Definition agree16 (c : case16) : bool :=
  snap_eqb (model_snap (c_names c) (c_tms c) ost0) (c_first c)
  && run_steps (c_env c) (c_names c) (c_tms c) ost0 (c_steps c)
  && precomp_agree (c_precomp c).

Fixpoint mism_from16 {A} (agree : A -> bool) (i : N) (l : list A) : list N :=
  match l with
  | [] => []
  | c :: t => if agree c then mism_from16 agree (i + 1)%N t else i :: mism_from16 agree (i + 1)%N t
  end.

Definition mismatches16 (l : list case16) : list N := mism_from16 agree16 0%N l.

(* diagnostics (used by hand / by replay): first step at which the model disagrees:
   (step index, class+answer agreed?, model snapshot after the step) *)
Fixpoint diag_steps (e : env) (names : list string) (tms : list tm) (s : ost) (i : N) (l : list step16)
  : option (N * bool * snap16) :=
  match l with
  | [] => None
  | st :: t =>
      let '(s1, ok) := step_model e s st in
      if ok && snap_eqb (model_snap names tms s1) (st_snap st) then diag_steps e names tms s1 (i + 1)%N t
      else Some (i, ok, model_snap names tms s1)
  end.
Definition diag16 (c : case16) : option (N * bool * snap16) :=
  diag_steps (c_env c) (c_names c) (c_tms c) ost0 0%N (c_steps c).
