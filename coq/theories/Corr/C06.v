(* Correspondence cases for C06: the harness writes (input, observed implementation output);
   [mismatches06] returns the indices where the model disagrees.
     CSha   : crypto/sha256 (hex) on a byte string                         vs [hex256]
     CJson  : encoding/json.Marshal of a Go string                         vs [json_string]
     CGen   : resource.Factory.MakeConfigMap/MakeSecret on in-memory key/value sources, then
              hasher.Hasher.Hash of the result                             vs [make_generated], [hash_content]
     CBuild : krusty build of a tree of kustomizations                     vs [build] *)
From KV Require Export Res.Generators.
Local Open Scope string_scope.

Record obs06 := mkObs {
  ob_secret : bool;
  ob_name : string;
  ob_ns : string;
  ob_labels : dict;
  ob_annos : dict;
  ob_data : dict;
  ob_bin : dict;
  ob_type : string;
  ob_immutable : bool
}.

Inductive case06 :=
| CSha (input hex : string)
| CJson (input out : string)
| CGen (files : list (string * string)) (a : genargs)
       (cls_make : oclass) (data bin : dict) (type : string) (cls_hash : oclass) (suffix : string)
| CBuild (l : layer) (cls : oclass) (out : list obs06).

Definition oclass_eqb (a b : oclass) : bool :=
  match a, b with
  | COk, COk | CErr, CErr | CPanic, CPanic | CDiverge, CDiverge => true
  | _, _ => false
  end.

Fixpoint dict_eqb (a b : dict) : bool :=
  match a, b with
  | [], [] => true
  | (k, v) :: ta, (k', v') :: tb => String.eqb k k' && String.eqb v v' && dict_eqb ta tb
  | _, _ => false
  end.

Definition obs_eqb (a b : obs06) : bool :=
  Bool.eqb (ob_secret a) (ob_secret b) && String.eqb (ob_name a) (ob_name b) && String.eqb (ob_ns a) (ob_ns b) &&
  dict_eqb (ob_labels a) (ob_labels b) && dict_eqb (ob_annos a) (ob_annos b) &&
  dict_eqb (ob_data a) (ob_data b) && dict_eqb (ob_bin a) (ob_bin b) &&
  String.eqb (ob_type a) (ob_type b) && Bool.eqb (ob_immutable a) (ob_immutable b).

Fixpoint obs_list_eqb (a b : list obs06) : bool :=
  match a, b with
  | [], [] => true
  | x :: ta, y :: tb => obs_eqb x y && obs_list_eqb ta tb
  | _, _ => false
  end.

Definition obs_of (o : gobj) : obs06 :=
  mkObs (g_secret o) (g_name o) (g_ns o) (g_labels o) (g_annos o) (dict_of_opt (g_data o)) (g_bin o) (g_type o) (g_immutable o).

(* output order is not compared: both sides are sorted by (kind, namespace, name) *)
Definition obs_leb (a b : obs06) : bool :=
  match ob_secret a, ob_secret b with
  | false, true => true
  | true, false => false
  | _, _ =>
      match String.compare (ob_ns a) (ob_ns b) with
      | Lt => true
      | Gt => false
      | Eq => match String.compare (ob_name a) (ob_name b) with Gt => false | _ => true end
      end
  end.

Fixpoint obs_insert (x : obs06) (l : list obs06) : list obs06 :=
  match l with
  | [] => [x]
  | y :: t => if obs_leb x y then x :: l else y :: obs_insert x t
  end.
Definition obs_sort (l : list obs06) : list obs06 := fold_right obs_insert [] l.

Definition agree06 (c : case06) : bool :=
  match c with
  | CSha input hex => String.eqb (hex256 input) hex
  | CJson input out => String.eqb (json_string input) out
  | CGen files a cls_make data bin type cls_hash suffix =>
      match make_generated files None a with
      | Ok o =>
          oclass_eqb cls_make COk && dict_eqb (dict_of_opt (g_data o)) data && dict_eqb (g_bin o) bin &&
          String.eqb (g_type o) type &&
          match hash_content (content_of o) with
          | Ok s => oclass_eqb cls_hash COk && String.eqb s suffix
          | r => oclass_eqb cls_hash (class_of r)
          end
      | r => oclass_eqb cls_make (class_of r)
      end
  | CBuild l cls out =>
      match build l with
      | Ok rm => oclass_eqb cls COk && obs_list_eqb (obs_sort (map obs_of rm)) (obs_sort out)
      | r => oclass_eqb cls (class_of r)
      end
  end.

Fixpoint mism_from06 (i : N) (l : list case06) : list N :=
  match l with
  | [] => []
  | c :: t => if agree06 c then mism_from06 (i + 1)%N t else i :: mism_from06 (i + 1)%N t
  end.

Definition mismatches06 (l : list case06) : list N := mism_from06 0%N l.
