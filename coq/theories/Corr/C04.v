(* Correspondence cases for C04.
   CM: (patch, target, options, schema projection) with the observed result of
       walk.Walker{Sources: [target, patch], Visitor: merge2.Merger{}}.Walk() (= merge2.Merge /
       patchstrategicmerge.Filter): the whole result node is compared.
   CI: (patch resource, target resource) with the observed outcome of api/resource Resource.ApplySmPatch:
       outcome class, "resource deleted" (nil or empty), and the identity read back (GetKind / GetName /
       GetNamespace) are compared. *)
From KV Require Export Yaml.Merge2 Yaml.Merge2Identity Corr.SchemaTable.

Record case04 := mk04 {
  c4_patch : node;
  c4_target : node;
  c4_infer : bool;
  c4_prepend : bool;
  c4_assoc_keys : list string;          (* yaml.AssociativeSequenceKeys at run time *)
  c4_schema : sroots;                   (* observed projection of the openapi schema on the paths of this case *)
  c4_nonstr : list string;              (* scalar texts for which yaml.IsValueNonString holds *)
  c4_class : oclass;                    (* observed outcome class *)
  c4_out : option node                  (* observed result (None = nil RNode) when class = COk *)
}.

Definition run04 (c : case04) : res (option node) :=
  merge2 (tree_schema (c4_schema c))
         (mkOpts (c4_infer c) (c4_prepend c) (c4_assoc_keys c))
         (fun s => str_in s (c4_nonstr c))
         (Some (c4_patch c)) (Some (c4_target c)).

Definition agree04 (c : case04) : bool :=
  match run04 c with
  | Ok r => oclass_eqb (c4_class c) COk && opt_node_eqb r (c4_out c)
  | r => oclass_eqb (c4_class c) (class_of r)
  end.

Record case04i := mk04i {
  ci_patch : node;                      (* the patch resource as handed to ApplySmPatch (allow annotations included) *)
  ci_target : node;
  ci_assoc_keys : list string;
  ci_schema : sroots;
  ci_nonstr : list string;
  ci_class : oclass;
  ci_deleted : bool;                    (* observed Resource.IsNilOrEmpty afterwards *)
  ci_kind : string;                     (* observed GetKind / GetName / GetNamespace afterwards *)
  ci_name : string;
  ci_namespace : string
}.

Definition run04i (c : case04i) : res (option node) :=
  apply_sm_patch (tree_schema (ci_schema c)) (ci_assoc_keys c) (fun s => str_in s (ci_nonstr c))
                 (ci_patch c) (ci_target c).

Definition agree04i (c : case04i) : bool :=
  match run04i c with
  | Ok r =>
      oclass_eqb (ci_class c) COk && Bool.eqb (res_empty r) (ci_deleted c) &&
      (ci_deleted c ||
       match r with
       | Some x => String.eqb (get_kind x) (ci_kind c) && String.eqb (get_name x) (ci_name c) &&
                   String.eqb (get_namespace x) (ci_namespace c)
       | None => false
       end)
  | r => oclass_eqb (ci_class c) (class_of r)
  end.

Inductive case04x := CM (c : case04) | CI (c : case04i).

Definition agree04x (c : case04x) : bool :=
  match c with CM c => agree04 c | CI c => agree04i c end.

Definition mismatches04 (l : list case04) : list N := mism_from agree04 0%N l.
Definition mismatches04x (l : list case04x) : list N := mism_from agree04x 0%N l.
