(* Correspondence cases for C04: (patch, target, options, schema projection) with the observed result of
   walk.Walker{Sources: [target, patch], Visitor: merge2.Merger{}}.Walk() (= merge2.Merge /
   patchstrategicmerge.Filter). [mismatches04] lists the indices where the model disagrees. *)
From KV Require Export Yaml.Merge2 Corr.SchemaTable.

Record case04 := mk04 {
  c4_patch : node;
  c4_target : node;
  c4_infer : bool;
  c4_prepend : bool;
  c4_assoc_keys : list string;          (* yaml.AssociativeSequenceKeys at run time *)
  c4_schema : sroots;                   (* observed projection of the openapi schema on the paths of this case *)
  c4_nonstr : list string;              (* scalar texts for which yaml.IsValueNonString holds *)
  c4_class : oclass;                    (* observed outcome class *)
  c4_out : option node                  (* observed result (None = nil RNode) when class = COk *)
}.

Definition run04 (c : case04) : res (option node) :=
  merge2 (tree_schema (c4_schema c))
         (mkOpts (c4_infer c) (c4_prepend c) (c4_assoc_keys c))
         (fun s => str_in s (c4_nonstr c))
         (Some (c4_patch c)) (Some (c4_target c)).

Definition agree04 (c : case04) : bool :=
  match run04 c with
  | Ok r => oclass_eqb (c4_class c) COk && opt_node_eqb r (c4_out c)
  | r => oclass_eqb (c4_class c) (class_of r)
  end.

Definition mismatches04 (l : list case04) : list N := mism_from agree04 0%N l.
