(* Correspondence cases for C08.
   CFilter : labels.Filter / annotations.Filter run directly on one document with an explicit FsSlice;
             the whole document afterwards is compared (typed JSON, field order included).
   CBuild  : a krusty build of a 1-3 layer tree; per output resource the whole document is compared
             modulo mapping-key order (the runtime order of the default field-spec tables is the
             result of an unstable sort and only decides the order in which missing fields are
             created) and modulo the final rewrite of metadata.annotations by
             Resource.SetAnnotations (sorted, string-typed); the label maps the property talks about
             (metadata, selector, pod template) are compared with their key order. *)
From KV Require Export Res.Labels.
From KV Require Export Res.LabelsDefaults.

Inductive case08 :=
| CFilter (labels : pairs) (fss : list fieldspec) (doc : node) (cls : oclass) (after : node)
| CBuild (l : layer) (cls : oclass) (outs : list node).

Definition oclass_eqb08 (a b : oclass) : bool :=
  match a, b with
  | COk, COk | CErr, CErr | CPanic, CPanic | CDiverge, CDiverge => true
  | _, _ => false
  end.

Fixpoint json_eqb (a b : json) {struct a} : bool :=
  match a, b with
  | JAtom t q v, JAtom t' q' v' => tag_eqb t t' && Bool.eqb q q' && String.eqb v v'
  | JObj kvs, JObj kvs' =>
      (fix go (l l' : list (string * json)) : bool :=
         match l, l' with
         | [], [] => true
         | (k, x) :: t, (k', x') :: t' => String.eqb k k' && json_eqb x x' && go t t'
         | _, _ => false
         end) kvs kvs'
  | JArr es, JArr es' =>
      (fix go (l l' : list json) : bool :=
         match l, l' with
         | [], [] => true
         | x :: t, x' :: t' => json_eqb x x' && go t t'
         | _, _ => false
         end) es es'
  | _, _ => false
  end.

(* sort the keys of every object (insertion sort, stable) *)
Fixpoint jinsert (kv : string * json) (l : list (string * json)) : list (string * json) :=
  match l with
  | [] => [kv]
  | x :: t => if String.ltb (fst x) (fst kv) then x :: jinsert kv t else kv :: x :: t
  end.
Fixpoint canon (j : json) : json :=
  match j with
  | JAtom _ _ _ => j
  | JObj kvs =>
      JObj ((fix go (l : list (string * json)) : list (string * json) :=
               match l with
               | [] => []
               | (k, x) :: t => jinsert (k, canon x) (go t)
               end) kvs)
  | JArr es => JArr (map canon es)
  end.

(* Resource.SetAnnotations(GetAnnotations()) as run by RemoveBuildAnnotations / SetOrigin(nil) at the
   end of every build: metadata.annotations is cleared and, when non-empty, rebuilt with sorted keys
   and string-typed values. Applied to both sides before comparing. *)
Definition norm_annos (obj : node) : node :=
  match obj with
  | Map kvs =>
      match find_field "metadata" kvs with
      | Some (Map mkvs) =>
          let annos := match find_field "annotations" mkvs with
                       | Some (Map a) => map (fun kv => (fst kv, node_value (snd kv))) a
                       | _ => []
                       end in
          let m' := remove_first "annotations" mkvs in
          let m'' := match annos with
                     | [] => m'
                     | _ => (m' ++ [("annotations",
                                     Map (map (fun kv => (fst kv, Scalar TStr SPlain (snd kv)))
                                              (sort_pairs annos)))])%list
                     end in
          Map (set_first "metadata" (Map m'') kvs)
      | _ => obj
      end
  | _ => obj
  end.

Fixpoint pairs_eqb (a b : pairs) : bool :=
  match a, b with
  | [], [] => true
  | (k, v) :: t, (k', v') :: t' => String.eqb k k' && String.eqb v v' && pairs_eqb t t'
  | _, _ => false
  end.

Definition res_agree (m o : node) : bool :=
  json_eqb (canon (to_json (norm_annos m))) (canon (to_json (norm_annos o))) &&
  pairs_eqb (meta_labels_of m) (meta_labels_of o) &&
  pairs_eqb (sel_of m) (sel_of o) &&
  pairs_eqb (pod_labels_of m) (pod_labels_of o).

Fixpoint all2 {A} (f : A -> A -> bool) (l l' : list A) : bool :=
  match l, l' with
  | [], [] => true
  | x :: t, x' :: t' => f x x' && all2 f t t'
  | _, _ => false
  end.

Definition no_nonstr (_ : string) : bool := false.

Definition agree08 (c : case08) : bool :=
  match c with
  | CFilter labels fss doc cls after =>
      match label_filter no_nonstr labels fss doc with
      | Ok d' => oclass_eqb08 cls COk && json_eqb (to_json d') (to_json after)
      | r => oclass_eqb08 cls (class_of r)
      end
  | CBuild l cls outs =>
      match build no_nonstr default_tc l with
      | Ok ms => oclass_eqb08 cls COk && all2 res_agree ms outs
      | r => oclass_eqb08 cls (class_of r)
      end
  end.

Fixpoint mism_from08 (i : N) (l : list case08) : list N :=
  match l with
  | [] => []
  | c :: t => if agree08 c then mism_from08 (i + 1)%N t else i :: mism_from08 (i + 1)%N t
  end.

Definition mismatches08 (l : list case08) : list N := mism_from08 0%N l.
