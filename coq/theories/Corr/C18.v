(* Correspondence cases for C18.  One case = one generated tree + localize arguments together with
   what the real localizer did on a recording, fault-injecting file system for "no fault" and for
   EVERY fault index: outcome class, complete effect trace (op, path, ok) and final file-system
   state.  [mismatches18] lists the cases on which the model disagrees on any run. *)
From KV Require Export Fs.Localize Fs.LocalizeBuild.

Inductive oclass18 := KOk (dst : string) | KErr | KFatal | KPanic.

Inductive final18 :=
| FSame                                          (* final state = initial state *)
| FList (l : list (string * entry)).             (* complete listing (absolute path strings) *)

Record obs18 := mkObs {
  ro_fault : option nat;
  ro_class : oclass18;
  ro_trace : list event;                          (* oldest first *)
  ro_final : final18
}.

Record case18 := mk18 {
  c_fs : list (string * entry);
  c_target : string;
  c_scope : string;
  c_newdir : string;
  c_kusts : list (N * kust);
  c_res : list N;
  c_plugs : list (N * list (prefkind * string));
  c_inline : list string;
  c_runs : list obs18
}.

(* compact event constructor used by the harness *)
Definition op_of (n : nat) : opcode :=
  match n with
  | 0 => OExists | 2 => OMkdir | 3 => OMkdirAll | 4 => OCleanedAbs
  | 5 => OReadFile | 6 => OWriteFile | 7 => ORemoveAll | _ => OWalk
  end.
Definition ev (n : nat) (p : string) (ok : bool) : event := mkEv (op_of n) p ok.

Definition opcode_eqb (a b : opcode) : bool :=
  match a, b with
  | OExists, OExists | OMkdir, OMkdir | OMkdirAll, OMkdirAll
  | OCleanedAbs, OCleanedAbs | OReadFile, OReadFile | OWriteFile, OWriteFile
  | ORemoveAll, ORemoveAll | OWalk, OWalk => true
  | _, _ => false
  end.

Definition event_eqb (a b : event) : bool :=
  opcode_eqb (ev_op a) (ev_op b) && String.eqb (ev_path a) (ev_path b) && Bool.eqb (ev_ok a) (ev_ok b).

Fixpoint list_eqb {A} (eqb : A -> A -> bool) (a b : list A) : bool :=
  match a, b with
  | [], [] => true
  | x :: a', y :: b' => eqb x y && list_eqb eqb a' b'
  | _, _ => false
  end.

Definition genargs_eqb (a b : genargs) : bool :=
  String.eqb (g_env a) (g_env b) && list_eqb String.eqb (g_envs a) (g_envs b)
  && list_eqb String.eqb (g_files a) (g_files b).

Definition opt_str_eqb (a b : option string) : bool :=
  match a, b with
  | None, None => true
  | Some x, Some y => String.eqb x y
  | _, _ => false
  end.

Definition kust_eqb (a b : kust) : bool :=
  opt_str_eqb (k_openapi a) (k_openapi b)
  && list_eqb String.eqb (k_bases a) (k_bases b)
  && list_eqb String.eqb (k_components a) (k_components b)
  && list_eqb String.eqb (k_configurations a) (k_configurations b)
  && list_eqb String.eqb (k_crds a) (k_crds b)
  && list_eqb String.eqb (k_resources a) (k_resources b)
  && list_eqb genargs_eqb (k_cmgens a) (k_cmgens b)
  && list_eqb genargs_eqb (k_secgens a) (k_secgens b)
  && list_eqb (fun x y => String.eqb (fst x) (fst y) && String.eqb (snd x) (snd y)) (k_helminfl a) (k_helminfl b)
  && list_eqb (fun x y => String.eqb (fst x) (fst y) && list_eqb String.eqb (snd x) (snd y))
              (k_helmcharts a) (k_helmcharts b)
  && opt_str_eqb (k_helmglobals a) (k_helmglobals b)
  && list_eqb String.eqb (k_patches a) (k_patches b)
  && list_eqb String.eqb (k_patches6902 a) (k_patches6902 b)
  && list_eqb String.eqb (k_psm a) (k_psm b)
  && list_eqb String.eqb (k_replacements a) (k_replacements b)
  && list_eqb String.eqb (k_generators a) (k_generators b)
  && list_eqb String.eqb (k_transformers a) (k_transformers b)
  && list_eqb String.eqb (k_validators a) (k_validators b).

Definition content_eqb (a b : content) : bool :=
  match a, b with
  | CRaw x, CRaw y => N.eqb x y
  | CKust i x, CKust j y => N.eqb i j && kust_eqb x y
  | CPlug i x, CPlug j y => N.eqb i j && list_eqb String.eqb x y
  | _, _ => false
  end.

Definition entry_eqb (a b : entry) : bool :=
  match a, b with
  | EDir, EDir => true
  | EFile x, EFile y => content_eqb x y
  | _, _ => false
  end.

Definition opt_entry_eqb (a b : option entry) : bool :=
  match a, b with
  | None, None => true
  | Some x, Some y => entry_eqb x y
  | _, _ => false
  end.

Definition fs_of_listing (l : list (string * entry)) : fs :=
  List.map (fun pe => (clean_abs_str (fst pe), snd pe)) l.

(* same bindings: every key of either side looks up to equal entries on both *)
Definition fs_same (a b : fs) : bool :=
  forallb (fun pe => opt_entry_eqb (lookup (fst pe) a) (lookup (fst pe) b)) a
  && forallb (fun pe => opt_entry_eqb (lookup (fst pe) a) (lookup (fst pe) b)) b.

Definition orc_of (c : case18) : oracles :=
  mkOrc
    (fun id => match find (fun p => N.eqb (fst p) id) (c_kusts c) with Some p => Some (snd p) | None => None end)
    (fun id => existsb (N.eqb id) (c_res c))
    (fun id => match find (fun p => N.eqb (fst p) id) (c_plugs c) with Some p => snd p | None => [] end)
    (fun s => str_in s (c_inline c)).

(* Go's map iteration order is read off the observed trace: the next field is the one whose first
   file-system call is the next observed event. *)
Definition chooser_of (observed : list event) : chooser :=
  fun tr cands =>
    match nth_error observed (List.length tr) with
    | Some e =>
        match find (fun c => String.eqb (snd c) (ev_path e)) cands with
        | Some c => fst c
        | None => match cands with c :: _ => fst c | [] => 0 end
        end
    | None => match cands with c :: _ => fst c | [] => 0 end
    end.

Definition fuel18 : nat := 64.

Definition model_run (c : case18) (o : obs18) : world * outcome string :=
  run_localize (orc_of c) (chooser_of (ro_trace o)) fuel18
               (c_target c) (c_scope c) (c_newdir c) (ro_fault o) (fs_of_listing (c_fs c)).

Definition class_agrees (o : oclass18) (m : outcome string) : bool :=
  match o, m with
  | KOk d, OOk d' => String.eqb d d'
  | KErr, OExn XErr => true
  | KFatal, OExn XFatal => true
  | KPanic, OExn XPanic => true
  | _, _ => false
  end.

(* ---- equivalence on successful runs: the final state is a faithful image of the source
   ([mirror_ok], whose soundness is Fs/LocalizeBuildProofs.mirror_build_eq), and whenever the source
   reads as a resources-only tree the destination reads as the SAME tree ---- *)
Fixpoint rtree_eqb (a b : rtree) : bool :=
  match a, b with
  | RFile x, RFile y => N.eqb x y
  | RDir i l, RDir j m =>
      N.eqb i j && (fix go (l m : list rtree) : bool :=
                      match l, m with
                      | [], [] => true
                      | x :: l', y :: m' => rtree_eqb x y && go l' m'
                      | _, _ => false
                      end) l m
  | _, _ => false
  end.

Definition equiv_ok (c : case18) (s' : fs) : bool :=
  let s0 := fs_of_listing (c_fs c) in
  let troot := query_comps (c_target c) in
  let sc := if String.eqb (c_scope c) "" then troot else query_comps (c_scope c) in
  let nd := query_comps (if String.eqb (c_newdir c) "" then default_new_dir troot else c_newdir c) in
  mirror_ok (orc_of c) sc nd s0 s'
  && match drop_prefix sc troot with
     | Some r =>
         match read_tree (orc_of c) 16 s0 troot with
         | Some t =>
             match read_tree (orc_of c) 16 s' (nd ++ r)%list with
             | Some t' => rtree_eqb t t'
             | None => false
             end
         | None => true
         end
     | None => false
     end.

Definition agree_run (c : case18) (o : obs18) : bool :=
  let '(w, out) := model_run c o in
  (match out with OOk _ => equiv_ok c (w_fs w) | _ => true end) &&
  class_agrees (ro_class o) out
  && list_eqb event_eqb (rev (w_trace w)) (ro_trace o)
  && fs_same (w_fs w)
       (match ro_final o with FSame => fs_of_listing (c_fs c) | FList l => fs_of_listing l end).

Definition agree18 (c : case18) : bool := forallb (agree_run c) (c_runs c).

Fixpoint mism_from18 (i : N) (l : list case18) : list N :=
  match l with
  | [] => []
  | c :: t => if agree18 c then mism_from18 (i + 1)%N t else i :: mism_from18 (i + 1)%N t
  end.

Definition mismatches18 (l : list case18) : list N := mism_from18 0%N l.

(* debugging aid: per run, (fault, class ok, trace ok, fs ok) and the model's trace *)
Definition debug_run (c : case18) (o : obs18) :=
  let '(w, out) := model_run c o in
  (ro_fault o, class_agrees (ro_class o) out,
   list_eqb event_eqb (rev (w_trace w)) (ro_trace o),
   fs_same (w_fs w)
     (match ro_final o with FSame => fs_of_listing (c_fs c) | FList l => fs_of_listing l end)).
Definition debug18 (c : case18) := filter (fun x => negb (let '(_, a, b, d) := x in a && b && d))
                                          (List.map (debug_run c) (c_runs c)).
Definition model_trace (c : case18) (o : obs18) :=
  let '(w, out) := model_run c o in (out, rev (w_trace w)).
