(* Correspondence cases for C15: (local, original, updated, infer, schema projection) with the observed result
   of walk.Walker{Sources: [local, original, updated], Visitor: merge3.Visitor{}, VisitKeysAsScalars: true}.Walk()
   (= merge3.Merge / MergeStrings). *)
From KV Require Export Yaml.Merge3 Corr.SchemaTable.

Record case15 := mk15 {
  c15_local : node;
  c15_orig : node;
  c15_upd : node;
  c15_infer : bool;
  c15_assoc_keys : list string;
  c15_schema : sroots;
  c15_nonstr : list string;
  c15_class : oclass;
  c15_out : option node
}.

Definition run15 (c : case15) : res (option node) :=
  merge3 (tree_schema (c15_schema c))
         (mkOpts (c15_infer c) false (c15_assoc_keys c))
         (fun s => str_in s (c15_nonstr c))
         (Some (c15_local c)) (Some (c15_orig c)) (Some (c15_upd c)).

Definition agree15 (c : case15) : bool :=
  match run15 c with
  | Ok r => oclass_eqb (c15_class c) COk && opt_node_eqb r (c15_out c)
  | r => oclass_eqb (c15_class c) (class_of r)
  end.

Definition mismatches15 (l : list case15) : list N := mism_from agree15 0%N l.
