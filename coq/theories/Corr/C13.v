(* Correspondence cases for C13. *)
From KV Require Export Yaml.Split Yaml.Annot Yaml.Stream Yaml.Anchor Fs.PkgWriter.

Definition oclass_eqb13 (a b : oclass) : bool :=
  match a, b with
  | COk, COk | CErr, CErr | CPanic, CPanic | CDiverge, CDiverge => true
  | _, _ => false
  end.

Fixpoint strs_eqb (a b : list string) : bool :=
  match a, b with
  | [], [] => true
  | x :: a', y :: b' => String.eqb x y && strs_eqb a' b'
  | _, _ => false
  end.

Fixpoint ns_eqb (a b : list N) : bool :=
  match a, b with
  | [], [] => true
  | x :: a', y :: b' => N.eqb x y && ns_eqb a' b'
  | _, _ => false
  end.

Inductive case13 :=
| S_split (s : string) (cls : oclass) (docs : list string)          (* splitDocuments *)
| S_crlf (s out : string)                                           (* strings.ReplaceAll(s, "\r\n", "\n") *)
| S_tails (input : string) (tails : list N)                         (* per decoded document: trailing line breaks seen by a keep-chomped last scalar *)
| P_res (pkg : string) (r : pkg_res) (cls : oclass) (mkdir write : string)  (* LocalPackageWriter incl. path/index defaulting *)
(* Read, then a sequence of Writes on one LocalPackageReadWriter: per step the path annotations written,
   whether the Write was accepted, and the set of paths handed to RemoveAll *)
| P_seq (pkg : string) (files : list string) (steps : list (list string)) (obs : list (oclass * list string))
(* the text-level round trip with go-yaml as tables: [decs] chunk -> decoded root (None: no document),
   [encs] cleared node -> its encoding; observed: ByteReader.Read then ByteWriter.Write of the stream *)
| T_stream (s : string) (decs : list (string * option node)) (encs : list (node * string))
           (nonstr : list string) (cls : oclass) (out : string)
(* LocalPackageReadWriter with options: the files the reader opened (relative path, and per resource the path
   annotation carried in the content), then Writes; per step accepted-or-not and the RemoveAll arguments *)
| P_rwo (o : rw_opts) (pkg : string) (files : list pkg_file) (steps : list (list string)) (obs : list (oclass * list string))
(* RNode.DeAnchor on a document with anchors / aliases / merge keys: outcome class and resulting tree *)
| D_deanchor (doc : anode) (cls : oclass) (out : anode)
(* … a generated document, inside the model's domain (flat_merges): also the conclusion of C13_deanchor_plain_partial *)
| D_deanchor_flat (doc : anode) (cls : oclass) (out : anode)
| P_write (pkg ann : string) (cls : oclass) (mkdir write : string)  (* LocalPackageWriter, one resource, fresh package *)
| A_read (index : N) (doc after : node) (nonstr : list string)      (* reader annotations set on a decoded document *)
| A_pkgread (index : N) (path : string) (doc after : node) (nonstr : list string)  (* … with SetAnnotations = path keys (package reader) *)
| A_pkgwrite (doc after : node) (cls : oclass)                                    (* clearing sequence of the package writer *)
| A_write (doc after : node) (cls : oclass) (nonstr : list string). (* writer clearing (the filter sequence of ByteWriter) *)

Definition agree13 (c : case13) : bool :=
  match c with
  | S_split s cls docs =>
      match split_documents s with
      | Ok ds => oclass_eqb13 cls COk && strs_eqb ds docs
      | r => oclass_eqb13 cls (class_of r)
      end
  | S_crlf s out => String.eqb (crlf_norm s) out
  | S_tails input tails =>
      match reader_chunks input with
      (* an empty chunk decodes to no document *)
      | Ok cs => ns_eqb (map trailing_nl (filter (fun c => negb (String.eqb c "")) cs)) tails
      | _ => false
      end
  | P_res pkg r cls mk wr =>
      match pkg_write_res pkg r with
      | Ok (d, f) => oclass_eqb13 cls COk && String.eqb d mk && String.eqb f wr
      | x => oclass_eqb13 cls (class_of x)
      end
  | P_rwo o pkg files steps obs =>
      (fix go (rs : list (res (list string))) (os : list (oclass * list string)) : bool :=
         match rs, os with
         | [], [] => true
         | r :: rs', (cls, dels) :: os' =>
             match r with
             | Ok ds => oclass_eqb13 cls COk && forallb (fun x => str_in x dels) ds && forallb (fun x => str_in x ds) dels
             | _ => oclass_eqb13 cls CErr && match dels with [] => true | _ => false end
             end && go rs' os'
         | _, _ => false
         end) (rw_run_o o pkg files steps) obs
  | P_seq pkg files steps obs =>
      (fix go (rs : list (res (list string))) (os : list (oclass * list string)) : bool :=
         match rs, os with
         | [], [] => true
         | r :: rs', (cls, dels) :: os' =>
             match r with
             | Ok ds => oclass_eqb13 cls COk && forallb (fun x => str_in x dels) ds && forallb (fun x => str_in x ds) dels
             | _ => oclass_eqb13 cls CErr && match dels with [] => true | _ => false end
             end && go rs' os'
         | _, _ => false
         end) (rw_run pkg files steps) obs
  | T_stream s decs encs ns cls out =>
      let dec := fun c => match find (fun kv => String.eqb (fst kv) c) decs with
                          | Some kv => Ok (snd kv) | None => Err end in
      (* a node missing from the table encodes to a marker, which never equals the observed text *)
      let enc := fun n => match find (fun kv => node_eqb (fst kv) n) encs with
                          | Some kv => snd kv | None => "<<no encoding>>" end in
      match rt_stream (fun x => str_in x ns) dec enc s with
      | Ok o => oclass_eqb13 cls COk && String.eqb o out
      | r => oclass_eqb13 cls (class_of r)
      end
  | D_deanchor doc cls out =>
      match deanchor_doc doc with
      | Ok e => oclass_eqb13 cls COk && anode_eqb e out
      | r => oclass_eqb13 cls (class_of r)
      end
  | D_deanchor_flat doc cls out =>
      flat_merges false doc &&
      match deanchor_doc doc with
      | Ok e => oclass_eqb13 cls COk && anode_eqb e out && alias_free out && merge_free out
      | r => oclass_eqb13 cls (class_of r)
      end
  | P_write pkg ann cls mk wr =>
      match pkg_write1 pkg ann with
      | Ok (d, f) => oclass_eqb13 cls COk && String.eqb d mk && String.eqb f wr
      | r => oclass_eqb13 cls (class_of r)
      end
  | A_read i doc after ns =>
      match read_set (fun s => str_in s ns) i doc with
      | Ok n => node_eqb n after
      | _ => false
      end
  | A_pkgread i path doc after ns =>
      match pkg_read_set (fun s => str_in s ns) i path doc with
      | Ok n => node_eqb n after
      | _ => false
      end
  | A_pkgwrite doc after cls =>
      match pkg_write_clear doc with
      | Ok n => oclass_eqb13 cls COk && node_eqb n after
      | r => oclass_eqb13 cls (class_of r)
      end
  | A_write doc after cls ns =>
      match write_clear doc with
      | Ok n => oclass_eqb13 cls COk && node_eqb n after
      | r => oclass_eqb13 cls (class_of r)
      end
  end.

Fixpoint mism_from13 {A} (agree : A -> bool) (i : N) (l : list A) : list N :=
  match l with
  | [] => []
  | c :: t => if agree c then mism_from13 agree (i + 1)%N t else i :: mism_from13 agree (i + 1)%N t
  end.

Definition mismatches13 (l : list case13) : list N := mism_from13 agree13 0%N l.
