(* Correspondence cases for C05: the harness writes (input, observed implementation output);
   [mismatches05] returns the indices where the model disagrees. *)
From KV Require Export Fs.Loader Fs.LoadTree.

Definition oclass_eqb (a b : oclass) : bool :=
  match a, b with
  | COk, COk | CErr, CErr | CPanic, CPanic | CDiverge, CDiverge => true
  | _, _ => false
  end.

Fixpoint mism_from {A} (agree : A -> bool) (i : N) (l : list A) : list N :=
  match l with
  | [] => []
  | c :: t => if agree c then mism_from agree (i + 1)%N t else i :: mism_from agree (i + 1)%N t
  end.

Inductive vfs :=
| VMem (m : mnode)
| VDisk (d : dnode)
| VDiskAt (d : dnode) (cwd : string).   (* process working directory = cwd (a physical, clean path) *)

(* VDisk: absolute paths only; VDiskAt: the harness chdir'ed to cwd, relative paths allowed *)
Definition ops_of (v : vfs) : fsops :=
  match v with
  | VMem m => mem_ops m
  | VDisk d => disk_ops d "/"
  | VDiskAt d cwd => disk_ops d cwd
  end.

Inductive chainop :=
| CLoad (p : string)
| CNew (p : string)
| CNone.

Inductive case05 :=
| K_clean (p out : string)                                  (* filepath.Clean *)
| K_join (a b out : string)                                 (* filepath.Join(a, b) *)
| K_split (p d f : string)                                  (* filepath.Split *)
| K_dirbase (p d b : string)                                (* filepath.Dir, filepath.Base *)
| K_isabs (p : string) (b : bool)
| K_strip (p lead trail : string)                           (* StripLeadingSeps, StripTrailingSeps *)
| K_hasprefix (d r : string) (b : bool)                     (* ConfirmedDir(d).HasPrefix(r) *)
| K_abs (fs : vfs) (p : string) (cls : oclass) (d f : string)       (* FileSystem.CleanedAbs *)
| K_read (fs : vfs) (p : string) (cls : oclass) (content : string)  (* FileSystem.ReadFile *)
| K_isdir (fs : vfs) (p : string) (b : bool)                        (* FileSystem.IsDir *)
| K_evalsym (fs : vfs) (p : string) (cls : oclass) (out : string)   (* filepath.EvalSymlinks (disk) *)
(* NewLoader(restr, target); then New(p) for each p of [news]; then [op].
   stage = number of loaders successfully built; cls = class of the first failing step, or of [op];
   root = Root() of the last loader built; bytes = loaded content when [op] is a successful load. *)
(* a build over kustomizations that only list bases: [bases] = for every root (physical path) the directory
   references of its kustomization; observed: the roots whose kustomization file was read, in order, and
   the outcome class of the build *)
| K_visit (fs : vfs) (target : string) (bases : list (string * list string)) (cls : oclass) (trace : list string)
(* a build over kustomizations listing resource files and bases: [kusts] maps the text of every
   kustomization file to its resources: entries; observed: outcome class and, on success, every path handed
   to ReadFile, in order *)
| K_build (fs : vfs) (target : string) (kusts : list (string * list string)) (cls : oclass) (reads : list string)
| K_chain (fs : vfs) (rootonly : bool) (target : string) (news : list string) (op : chainop)
          (stage : N) (cls : oclass) (root : string) (bytes : string).

Definition never (_ : string) : bool := false.
Definition no_http (_ : string) : res string := Err.
Definition no_git (_ : loader) (_ : string) : res loader := Err.

Definition m_load := load never no_http.
Definition m_new := new_root never no_git.
Definition m_new_loader := new_loader never no_git.

Definition res_str_agree (r : res string) (cls : oclass) (s : string) : bool :=
  match r with
  | Ok x => oclass_eqb cls COk && String.eqb x s
  | _ => oclass_eqb cls (class_of r)
  end.

Fixpoint run_news (fs : fsops) (l : loader) (news : list string) (n : N) : (N * res loader) :=
  match news with
  | [] => (n, Ok l)
  | p :: t =>
      match m_new fs l p with
      | Ok l' => run_news fs l' t (n + 1)%N
      | r => (n, r)
      end
  end.

Fixpoint strs_eqb05 (a b : list string) : bool :=
  match a, b with
  | [], [] => true
  | x :: a', y :: b' => String.eqb x y && strs_eqb05 a' b'
  | _, _ => false
  end.

Definition agree05 (c : case05) : bool :=
  match c with
  | K_clean p out => String.eqb (clean p) out
  | K_join a b out => String.eqb (join2 a b) out
  | K_split p d f => let (d', f') := split_path p in String.eqb d d' && String.eqb f f'
  | K_dirbase p d b => String.eqb (dir_of p) d && String.eqb (base_of p) b
  | K_isabs p b => Bool.eqb (is_abs p) b
  | K_strip p a b => String.eqb (strip_leading_seps p) a && String.eqb (strip_trailing_seps p) b
  | K_hasprefix d r b => Bool.eqb (cd_has_prefix d r) b
  | K_abs fs p cls d f =>
      match f_cleaned_abs (ops_of fs) p with
      | Ok (d', f') => oclass_eqb cls COk && String.eqb d d' && String.eqb f f'
      | r => oclass_eqb cls (class_of r)
      end
  | K_read fs p cls content => res_str_agree (f_read_file (ops_of fs) p) cls content
  | K_isdir fs p b =>
      match fs with
      | VMem m => Bool.eqb (m_is_dir_path m p) b
      | VDisk d => Bool.eqb (d_is_dir d "/" p) b
      | VDiskAt d cwd => Bool.eqb (d_is_dir d cwd p) b
      end
  | K_evalsym fs p cls out =>
      match fs with
      | VMem _ => false
      | VDisk d => res_str_agree (eval_symlinks d p) cls out
      | VDiskAt d cwd => res_str_agree (eval_symlinks_at d cwd p) cls out
      end
  | K_visit fs target bases cls trace =>
      let ops := ops_of fs in
      let bf := fun r => match find (fun kv => String.eqb (fst kv) r) bases with Some kv => snd kv | None => [] end in
      match m_new_loader ops RootOnly target with
      | Ok l0 =>
          let (tr, c) := visit_trace never no_git 64 ops bf l0 in
          oclass_eqb c cls && strs_eqb05 tr trace
      | r => oclass_eqb cls (class_of r) && match trace with [] => true | _ => false end
      end
  | K_build fs target kusts cls reads =>
      let ops := ops_of fs in
      let pk := fun txt => match find (fun kv => String.eqb (fst kv) txt) kusts with
                           | Some kv => Ok (tt, snd kv) | None => Err end in
      match m_new_loader ops RootOnly target with
      | Ok l0 =>
          match load_tree_gen unit unit unit (fun _ => tt) (fun _ _ _ => tt) never no_git pk (fun _ => Ok tt) 64 ops l0 with
          | Ok (_, evs) => oclass_eqb cls COk && strs_eqb05 (map ev_path evs) reads
          | r => oclass_eqb cls (class_of r)
          end
      | r => oclass_eqb cls (class_of r)
      end
  | K_chain fs ro target news op stage cls root bytes =>
      let ops := ops_of fs in
      match m_new_loader ops (if ro then RootOnly else RestrNone) target with
      | Ok l0 =>
          match run_news ops l0 news 1%N with
          | (n, Ok l) =>
              match op with
              | CNone => N.eqb n stage && oclass_eqb cls COk && String.eqb (l_root l) root
              | CLoad p =>
                  N.eqb n stage && String.eqb (l_root l) root && res_str_agree (m_load ops l p) cls bytes
              | CNew p =>
                  match m_new ops l p with
                  | Ok l' => N.eqb (n + 1)%N stage && oclass_eqb cls COk && String.eqb (l_root l') root
                  | r => N.eqb n stage && oclass_eqb cls (class_of r) && String.eqb (l_root l) root
                  end
              end
          | (n, r) => N.eqb n stage && oclass_eqb cls (class_of r)
          end
      | r => N.eqb 0%N stage && oclass_eqb cls (class_of r)
      end
  end.

Definition mismatches05 (l : list case05) : list N := mism_from agree05 0%N l.
