(* Correspondence cases for C14: the harness writes (input, observed implementation output);
   [mismatches14] returns the indices where the model disagrees. *)
From KV Require Export Yaml.Fns Yaml.FieldSpec.

Inductive op14 :=
| OLookup
| OLookupCreate (k : kind)
| OPut (name : string) (v : node)
| OPutNC (name : string) (v : node)
| OClear (name : string)
| OPutScalar (v : node)
| OFieldSpec (fs : fieldspec) (ck : option kind) (ct : tag) (sv : setval14)
| OFsSlice (l : list fieldspec) (ck : option kind) (ct : tag) (sv : setval14)
(* Filter.SetValue used by the harness (a fresh value node per invocation) *)
with setval14 :=
| SVScalar (v : node)                 (* FieldSetter{Value: v} *)
| SVEntry (name : string) (v : node)  (* FieldSetter{Name: name, Value: v} *)
| SVNone.                             (* records the node, changes nothing *)

Record case14 := mk14 {
  c_op : op14;
  c_path : list string;
  c_doc : node;
  c_class : oclass;            (* observed outcome class *)
  c_after : node;              (* observed document afterwards (meaningful when class = COk) *)
  c_found : option node;       (* observed returned node *)
  c_nonstr : list string       (* the scalar texts of this case for which yaml.IsValueNonString is true *)
}.

Definition oclass_eqb (a b : oclass) : bool :=
  match a, b with
  | COk, COk | CErr, CErr | CPanic, CPanic | CDiverge, CDiverge => true
  | _, _ => false
  end.

Definition opt_node_eqb (a b : option node) : bool :=
  match a, b with
  | None, None => true
  | Some x, Some y => node_eqb x y
  | _, _ => false
  end.

(* the node FieldSetter returns: the stored value, or (null value = Clear) the removed one.
   On a null node the value is appended to the (invisible) Content of the null scalar and returned
   as it is after the forced YAML-1.1 quoting. *)
Definition set_ret (nonstr : string -> bool) (name : string) (v m m' : node) : option node :=
  if is_null v then match m with Map kvs => find_field name kvs | _ => None end
  else match m' with
       | Map kvs => find_field name kvs
       | _ => Some (quote11 nonstr v)
       end.

Definition sv_fn (nonstr : string -> bool) (sv : setval14) : node -> res node :=
  match sv with
  | SVScalar v => set_scalar (Some v)
  | SVEntry name v => set_field nonstr name (Some v) false
  | SVNone => fun x => Ok x
  end.

(* model outcome: document afterwards and the node the pipe returned *)
Definition run14 (c : case14) : res (node * option node) :=
  let nonstr := fun s => str_in s (c_nonstr c) in
  let ps := parse_path (c_path c) in
  let d := c_doc c in
  match c_op c with
  | OLookup => do r <- walk None ps k_get d; Ok r
  | OLookupCreate k => lookup_create k ps d
  | OPut name v =>
      do r <- walk (Some KMap) ps
                (fun m => do m' <- set_field nonstr name (Some v) false m;
                          Ok (m', set_ret nonstr name v m m')) d;
      Ok (fst r, match snd r with Some (Some x) => Some x | _ => None end)
  | OPutNC name v =>
      do r <- walk None ps
                (fun m => do m' <- set_field nonstr name (Some v) false m;
                          Ok (m', set_ret nonstr name v m m')) d;
      Ok (fst r, match snd r with Some (Some x) => Some x | _ => None end)
  | OClear name =>
      do r <- walk None ps
                (fun m => do m' <- clear_field name m;
                          Ok (m', match m with
                                  | Map kvs => find_field name kvs
                                  | _ => None
                                  end)) d;
      Ok (fst r, match snd r with Some (Some x) => Some x | _ => None end)
  | OPutScalar v =>
      do r <- walk (Some KScalar) ps
                (fun x => do x' <- set_scalar (Some v) x; Ok (x', x')) d;
      Ok r
  | OFieldSpec fs ck ct sv =>
      do d' <- fs_apply ck ct (sv_fn nonstr sv) fs d; Ok (d', None)
  | OFsSlice l ck ct sv =>
      do d' <- fsslice_apply ck ct (sv_fn nonstr sv) l d; Ok (d', None)
  end.

Definition agree14 (c : case14) : bool :=
  match run14 c with
  | Ok (d', f) =>
      oclass_eqb (c_class c) COk && node_eqb d' (c_after c) && opt_node_eqb f (c_found c)
  | r => oclass_eqb (c_class c) (class_of r)
  end.

Fixpoint mism_from {A} (agree : A -> bool) (i : N) (l : list A) : list N :=
  match l with
  | [] => []
  | c :: t => if agree c then mism_from agree (i + 1)%N t else i :: mism_from agree (i + 1)%N t
  end.

Definition mismatches14 (l : list case14) : list N := mism_from agree14 0%N l.
