(* Correspondence cases for C14: the harness writes (input, observed implementation output);
   [mismatches14] returns the indices where the model disagrees. *)
From KV Require Export Yaml.Fns Yaml.FieldSpec.
(* not re-exported: Corr.C14 is imported by other properties' files for oclass_eqb / mism_from *)
From KV Require Import Yaml.Elems Yaml.NodeApi Yaml.Annot.

Inductive op14 :=
| OLookup
| OLookupCreate (k : kind)
| OPut (name : string) (v : node)
| OPutNC (name : string) (v : node)
| OClear (name : string)
| OPutScalar (v : node)
(* Lookup(path) | Clear(name); cp := Copy(); put zz1 on cp at path; put zz2 on the document at path:
   the document afterwards and (as the returned node) the copy afterwards — a copy is an independent value *)
| OCopyIndep (name : string)
| OFieldSpec (fs : fieldspec) (ck : option kind) (ct : tag) (sv : setval14)
| OFsSlice (l : list fieldspec) (ck : option kind) (ct : tag) (sv : setval14)
(* filters applied to the node Lookup(path) returns:  rn.Pipe(Lookup(path...), F) *)
| OElemMatch (keys values : list string) (any : bool) (create : option node)
| OElemSet (keys values : list string) (element : option node)
| OElemAppend (els : list node)
| OFieldMatch (name : string) (value : option string) (create : option node)
| OFieldMatchRe (name : string) (compiled : option Regex.re)   (* FieldMatcher{Name, StringRegexValue}; the compiled expression *)
| OFieldClear (name : string) (if_empty : bool)
| OTeeSet (name : string) (v : node)          (* Tee(SetField(name, v)) *)
(* kfns.go, applied to the document *)
| OSetLabel (k v : string)
| OSetAnnotation (k v : string)
| OSetK8sMeta (k v : string)
(* readers, applied to the node Lookup(path) returns (nothing found: observation ONotFound) *)
| OFields | OVisitFields | OElements | OElementValues (key : string) | OMapFieldText (name : string)
| OField (name : string)
(* readers applied to the document *)
| OGetFieldValue (path : string) | OGetString (path : string) | OGetSlice (path : string)
(* readers applied to a hand-built node (kind + arbitrary Content) *)
| ORawField (k : rawkind) (c : list node) (name : string)
| ORawMapFieldValue (k : rawkind) (c : list node) (name : string)
| ORawFields (k : rawkind) (c : list node)
(* kyaml/utils: PathSplitter(path, "/") as used by fieldspec.Filter (Yaml/FieldSpec.v), PathSplitter(path, d) and
   SmarterPathSplitter(path, d) for a one-byte delimiter (Yaml/Match.v) *)
| OPathSplit (path : string)
| OPathSplitC (d : ascii) (path : string)
| OSmartSplit (d : ascii) (path : string)
(* Filter.SetValue used by the harness (a fresh value node per invocation) *)
with setval14 :=
| SVScalar (v : node)                 (* FieldSetter{Value: v} *)
| SVEntry (name : string) (v : node)  (* FieldSetter{Name: name, Value: v} *)
| SVNone.                             (* records the node, changes nothing *)

(* what a reader returned *)
Inductive obs14 :=
| ObNone
| ObNotFound
| ObStrs (l : list string)
| ObStr (s : string)
| ObPairs (l : list (string * option node))
| ObNodes (l : list node)
| ObVal (g : gval).

Record case14 := mk14 {
  c_op : op14;
  c_path : list string;
  c_doc : node;
  c_class : oclass;            (* observed outcome class *)
  c_after : node;              (* observed document afterwards (meaningful when class = COk) *)
  c_found : option node;       (* observed returned node *)
  c_nonstr : list string;      (* the scalar texts of this case for which yaml.IsValueNonString is true *)
  c_obs : obs14;               (* observed result of a reader *)
  c_floatok : list string      (* the scalar texts of this case that strconv.ParseFloat accepts *)
}.

Definition oclass_eqb (a b : oclass) : bool :=
  match a, b with
  | COk, COk | CErr, CErr | CPanic, CPanic | CDiverge, CDiverge => true
  | _, _ => false
  end.

Definition opt_node_eqb (a b : option node) : bool :=
  match a, b with
  | None, None => true
  | Some x, Some y => node_eqb x y
  | _, _ => false
  end.

(* the node FieldSetter returns: the stored value, or (null value = Clear) the removed one.
   On a null node the value is appended to the (invisible) Content of the null scalar and returned
   as it is after the forced YAML-1.1 quoting. *)
Definition set_ret (nonstr : string -> bool) (name : string) (v m m' : node) : option node :=
  if is_null v then match m with Map kvs => find_field name kvs | _ => None end
  else match m' with
       | Map kvs => find_field name kvs
       | _ => Some (quote11 nonstr v)
       end.

Definition sv_fn (nonstr : string -> bool) (sv : setval14) : node -> res node :=
  match sv with
  | SVScalar v => set_scalar (Some v)
  | SVEntry name v => set_field nonstr name (Some v) false
  | SVNone => fun x => Ok x
  end.

(* ---------- comparison of observations ---------- *)
Fixpoint strs_eqb (a b : list string) : bool :=
  match a, b with
  | [], [] => true
  | x :: a', y :: b' => String.eqb x y && strs_eqb a' b'
  | _, _ => false
  end.

Fixpoint nodes_eqb (a b : list node) : bool :=
  match a, b with
  | [], [] => true
  | x :: a', y :: b' => node_eqb x y && nodes_eqb a' b'
  | _, _ => false
  end.

Fixpoint pairs_eqb (a b : list (string * option node)) : bool :=
  match a, b with
  | [], [] => true
  | (k, x) :: a', (k', y) :: b' => String.eqb k k' && opt_node_eqb x y && pairs_eqb a' b'
  | _, _ => false
  end.

Definition gval_eqb (a b : gval) : bool :=
  match a, b with
  | GMap, GMap | GSlice, GSlice => true
  | GStr x, GStr y => String.eqb x y
  | GFloat _, GFloat _ => true     (* the float64 itself is not compared (strconv.ParseFloat is external) *)
  | GInt s n, GInt s' n' => Bool.eqb (s && negb (n =? 0)%N) (s' && negb (n' =? 0)%N) && (n =? n')%N
  | GBool x, GBool y => Bool.eqb x y
  | _, _ => false
  end.

Definition obs_eqb (a b : obs14) : bool :=
  match a, b with
  | ObNone, ObNone | ObNotFound, ObNotFound => true
  | ObStrs x, ObStrs y => strs_eqb x y
  | ObStr x, ObStr y => String.eqb x y
  | ObPairs x, ObPairs y => pairs_eqb x y
  | ObNodes x, ObNodes y => nodes_eqb x y
  | ObVal x, ObVal y => gval_eqb x y
  | _, _ => false
  end.

Definition flat_found {A} (o : option (option A)) : option A :=
  match o with Some (Some x) => Some x | _ => None end.

(* a reader applied to the node Lookup(path) returns *)
Definition read_at (ps : list part) (d : node) (f : node -> res obs14) : res (node * option node * obs14) :=
  do r <- lookup ps d;
  match r with
  | None => Ok (d, None, ObNotFound)
  | Some x => do o <- f x; Ok (d, None, o)
  end.

(* model outcome: document afterwards, the node the pipe returned, what a reader returned *)
Definition run14 (c : case14) : res (node * option node * obs14) :=
  let nonstr := fun s => str_in s (c_nonstr c) in
  let floatok := fun s => str_in s (c_floatok c) in
  let ps := parse_path (c_path c) in
  let d := c_doc c in
  let plain (r : res (node * option node)) : res (node * option node * obs14) :=
    do x <- r; Ok (fst x, snd x, ObNone) in
  let piped (k : node -> res (node * option node)) : res (node * option node * obs14) :=
    do r <- walk None ps k d; Ok (fst r, flat_found (snd r), ObNone) in
  match c_op c with
  | OLookup => plain (do r <- walk None ps k_get d; Ok r)
  | OLookupCreate k => plain (lookup_create k ps d)
  | OPut name v =>
      plain (do r <- walk (Some KMap) ps
                (fun m => do m' <- set_field nonstr name (Some v) false m;
                          Ok (m', set_ret nonstr name v m m')) d;
      Ok (fst r, match snd r with Some (Some x) => Some x | _ => None end))
  | OPutNC name v =>
      plain (do r <- walk None ps
                (fun m => do m' <- set_field nonstr name (Some v) false m;
                          Ok (m', set_ret nonstr name v m m')) d;
      Ok (fst r, match snd r with Some (Some x) => Some x | _ => None end))
  | OClear name =>
      plain (do r <- walk None ps
                (fun m => do m' <- clear_field name m;
                          Ok (m', match m with
                                  | Map kvs => find_field name kvs
                                  | _ => None
                                  end)) d;
      Ok (fst r, match snd r with Some (Some x) => Some x | _ => None end))
  | OPutScalar v =>
      plain (do r <- walk (Some KScalar) ps
                (fun x => do x' <- set_scalar (Some v) x; Ok (x', x')) d;
      Ok r)
  | OCopyIndep name =>
      plain (do r <- clear_at ps name d;
             do o <- put nonstr ps "zz2" (Scalar TNone SPlain "2") (fst r);
             do c <- put nonstr ps "zz1" (Scalar TNone SPlain "1") (fst r);
             Ok (fst o, Some (fst c)))
  | OFieldSpec fs ck ct sv =>
      plain (do d' <- fs_apply_raw ck ct (sv_fn nonstr sv) fs d; Ok (d', None))
  | OFsSlice l ck ct sv =>
      plain (do d' <- fsslice_apply_raw ck ct (sv_fn nonstr sv) l d; Ok (d', None))
  | OElemMatch keys values any create => piped (elem_matcher nonstr keys values any create)
  | OElemSet keys values element => piped (elem_setter nonstr keys values element)
  | OElemAppend els => piped (elem_append els)
  | OFieldMatch name value create => piped (field_matcher nonstr name value create)
  | OFieldMatchRe name cre => piped (field_matcher_regex nonstr name cre)
  | OFieldClear name ie => piped (field_clearer name ie)
  | OTeeSet name v =>
      do r <- walk None ps (k_tee (k_set_field nonstr name v)) d; Ok (fst r, snd r, ObNone)
  | OSetLabel k v => plain (set_label nonstr k v d)
  | OSetAnnotation k v => plain (do d' <- set_annotation nonstr k v d; Ok (d', None))
  | OSetK8sMeta k v => plain (do d' <- set_k8s_meta nonstr k v d; Ok (d', None))
  | OFields => read_at ps d (fun x => do l <- fields x; Ok (ObStrs l))
  | OVisitFields => read_at ps d (fun x => do l <- visit_fields x; Ok (ObPairs l))
  | OElements => read_at ps d (fun x => do l <- elements x; Ok (ObNodes l))
  | OElementValues key => read_at ps d (fun x => do l <- element_values key x; Ok (ObStrs l))
  | OMapFieldText name => read_at ps d (fun x => do s <- map_field_text name x; Ok (ObStr s))
  | OField name => read_at ps d (fun x => Ok (ObNodes (match field name x with Some v => [v] | None => [] end)))
  | OGetFieldValue p => do g <- get_field_value floatok p d; Ok (d, None, ObVal g)
  | OGetString p => do s <- get_string floatok p d; Ok (d, None, ObStr s)
  | OGetSlice p => do _ <- get_slice floatok p d; Ok (d, None, ObNone)
  | ORawField k cn name =>
      do r <- raw_field k cn name; Ok (d, None, ObNodes (match r with Some v => [v] | None => [] end))
  | ORawMapFieldValue _ cn name =>
      do r <- raw_map_field_value cn name; Ok (d, None, ObStr (match r with Some v => node_value v | None => "" end))
  | ORawFields k cn => do l <- raw_fields k cn; Ok (d, None, ObStrs l)
  | OPathSplit p => Ok (d, None, ObStrs (path_splitter p))
  | OPathSplitC c p => Ok (d, None, ObStrs (path_splitter_c c p))
  | OSmartSplit c p => Ok (d, None, ObStrs (smarter_path_splitter c p))
  end.

Definition agree14 (c : case14) : bool :=
  match run14 c with
  | Ok (d', f, o) =>
      oclass_eqb (c_class c) COk && node_eqb d' (c_after c) && opt_node_eqb f (c_found c) &&
      obs_eqb o (c_obs c)
  | r => oclass_eqb (c_class c) (class_of r)
  end.

Fixpoint mism_from {A} (agree : A -> bool) (i : N) (l : list A) : list N :=
  match l with
  | [] => []
  | c :: t => if agree c then mism_from agree (i + 1)%N t else i :: mism_from agree (i + 1)%N t
  end.

Definition mismatches14 (l : list case14) : list N := mism_from agree14 0%N l.
