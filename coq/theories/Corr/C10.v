(* Correspondence cases for C10: one constructor per matcher; every case carries the input and
   the OBSERVED implementation output, [agree10] recomputes the output with the model. *)
From KV Require Export Res.Image Res.Selector Res.Replica Res.Replacement Res.PatchSelect Base.RegexParse.
From KV Require Import Corr.C14.   (* oclass_eqb, mism_from *)

Definition cs_of (l : list gvk) : gvk -> bool := fun g => existsb (gvk_eqb g) l.
Definition nonstr_of (l : list string) : string -> bool := fun s => str_in s l.
(* Node.Decode on a scalar with tag t and text x: the harness ships the pairs on which it FAILS *)
Definition decodes_of (l : list (tag * string)) : tag -> string -> bool :=
  fun t x => negb (existsb (fun p => tag_eqb (fst p) t && String.eqb (snd p) x) l).

(* strings.TrimSpace(RNode.String()) on the domain the harness restricts PathMatcher cases to:
   scalars whose emitted form is their text *)
Definition enc10 (n : node) : string := node_value n.

Fixpoint nodes_eqb (a b : list node) : bool :=
  match a, b with
  | [], [] => true
  | x :: a', y :: b' => node_eqb x y && nodes_eqb a' b'
  | _, _ => false
  end.
Fixpoint nats_eqb (a b : list nat) : bool :=
  match a, b with
  | [], [] => true
  | x :: a', y :: b' => Nat.eqb x y && nats_eqb a' b'
  | _, _ => false
  end.
Fixpoint strs_eqb (a b : list string) : bool :=
  match a, b with
  | [], [] => true
  | x :: a', y :: b' => String.eqb x y && strs_eqb a' b'
  | _, _ => false
  end.

Definition corr_fuel : nat := 6.

Inductive case10 :=
(* derivative matcher vs regexp.MatchString on the AST regexp/syntax produced *)
| KRegex (r : re) (s : string) (obs : bool)
(* for every entry name, Go's parser yields for the quoted pattern the AST the theorems assume (hypothesis parse_quoted) *)
| KImgAst (t : string) (r : option re)
(* imagetag.Filter with the single field spec "image" on the document {image: <v>} *)
| KImageVal (tab : ptab) (im : image) (doc : node) (cls : oclass) (after : node)
(* LegacyFilter then Filter (default field specs) over a list of resources = ImageTagTransformer.Transform *)
| KImageTr (tab : ptab) (im : image) (docs : list node) (cls : oclass) (after : list node)
(* resWrangler.Select *)
| KSelect (tab : ptab) (cs : list gvk) (sel : selector) (docs : list node) (cls : oclass) (obs : list nat)
(* ReplicaCountTransformer.Transform with the default field specs *)
| KReplica (rp : replica) (docs : list node) (cls : oclass) (after : list node)
(* utils.SmarterPathSplitter(path, ".") *)
| KSplit (path : string) (obs : list string)
(* PathMatcher{Path, Create}.Filter, then every returned node overwritten by the scalar HIT *)
| KMatch (tab : ptab) (ns : list string) (create : option kind) (path : list string) (doc : node)
         (cls : oclass) (after marked : node) (nhits : nat)
(* the default images / replicas field specs at run time: the same entries as the translated tables *)
| KFsTab (img rep : list fieldspec)
(* PatchTransformer (targeted or by-name strategic-merge entry adding a fresh annotation): the indices of the resources that changed *)
| KPatch (tab : ptab) (cs : list gvk) (e : patch_entry) (docs : list node) (cls : oclass) (changed : list nat)
(* replacement.Filter *)
| KRepl (tab : ptab) (ns : list string) (undec : list (tag * string)) (cs : list gvk) (rps : list replacement) (docs : list node)
        (cls : oclass) (after : list node).

Definition agree_res {A} (eqb : A -> A -> bool) (r : res A) (cls : oclass) (obs : A) : bool :=
  match r with
  | Ok a => oclass_eqb cls COk && eqb a obs
  | _ => oclass_eqb cls (class_of r)
  end.

Definition hit_marker : node := Scalar TNone SPlain "HIT".
Fixpoint mark_all (hits : list hit) (doc : node) : res node :=
  match hits with
  | [] => Ok doc
  | HAt a :: t => do d <- update_at (fun _ => Ok hit_marker) a doc; mark_all t d
  | HDetached _ :: t => mark_all t doc
  end.

Definition fs_eqb (a b : fieldspec) : bool :=
  String.eqb (fs_group a) (fs_group b) && String.eqb (fs_version a) (fs_version b) &&
  String.eqb (fs_kind a) (fs_kind b) && String.eqb (fs_path a) (fs_path b) && Bool.eqb (fs_create a) (fs_create b).
Definition same_entries (a b : list fieldspec) : bool :=
  Nat.eqb (List.length a) (List.length b) &&
  forallb (fun x => existsb (fs_eqb x) b) a && forallb (fun x => existsb (fs_eqb x) a) b.

Definition agree10 (c : case10) : bool :=
  match c with
  | KRegex r s obs => Bool.eqb (matches r s) obs
  | KImgAst t r =>
      match r with
      | Some r' =>
          re_eqb (norm r') (norm (img_re t)) &&
          (* the Gallina parser reads the same pattern text as Go's regexp/syntax did *)
          match img_pattern t with
          | Some p => match re_parse p with
                      | Some r0 => re_eqb (norm r0) (norm r')
                      | None => negb (ascii_text t)
                      end
          | None => false
          end
      | None => false      (* a quoted name always compiles *)
      end
  | KImageVal tab im doc cls after =>
      agree_res node_eqb
        (fsslice_apply None TNone (set_image_value (parse_of tab) im) [mkFs "" "" "" "image" false] doc) cls after
  | KImageTr tab im docs cls after =>
      agree_res nodes_eqb (image_transform (parse_of tab) im gen_images_fs docs) cls after
  | KSelect tab cs sel docs cls obs =>
      agree_res nats_eqb (select (parse_of tab) (cs_of cs) simple_lsel sel docs) cls obs
  | KReplica rp docs cls after =>
      agree_res nodes_eqb (replica_transform rp gen_replicas_fs docs) cls after
  | KFsTab img rep => same_entries img gen_images_fs && same_entries rep gen_replicas_fs
  | KPatch tab cs e docs cls changed =>
      agree_res nats_eqb (patch_targets (parse_of tab) (cs_of cs) simple_lsel e docs) cls changed
  | KSplit path obs => strs_eqb (smarter_path_splitter "."%char path) obs
  | KMatch tab ns create path doc cls after marked nhits =>
      match pm (parse_of tab) enc10 (nonstr_of ns) create corr_fuel path doc with
      | Ok (d, hits) =>
          oclass_eqb cls COk && node_eqb d after && Nat.eqb (List.length hits) nhits &&
          match mark_all hits d with Ok m => node_eqb m marked | _ => false end
      | r => oclass_eqb cls (class_of r)
      end
  | KRepl tab ns undec cs rps docs cls after =>
      agree_res nodes_eqb
        (replacement_filter (parse_of tab) enc10 (nonstr_of ns) (decodes_of undec) simple_lsel corr_fuel rps docs) cls after
  end.

Definition mismatches10 (l : list case10) : list N := mism_from agree10 0%N l.
