(* Correspondence cases for the state half of C01 (history independence): a history H of builds, a build T,
   and whether the implementation's output of T after H differed (bytewise) from T alone.  The model predicts a
   difference iff what T's output reveals of its OpenAPI answers differs (Glob/OpenApiState.v). *)
From KV Require Export Base.Prelude Glob.OpenApiState Corr.C16.

Record case01s := mk01s {
  h_env : env;
  h_hist : list build;
  h_build : build;
  h_mask : list bool;        (* per query of the build: does the output reveal the answer? *)
  h_alone_class : oclass;    (* observed outcome class of the build alone *)
  h_after_class : oclass;    (* ... and after the history *)
  h_differs : bool           (* observed: output/error text after H <> alone *)
}.

Fixpoint revealed (mask : list bool) (l : list answer) : list (option bool) :=
  match mask, l with
  | m :: mask', a :: l' => (if m then reveal a else None) :: revealed mask' l'
  | _, _ => []
  end.

Definition obs01 (e : env) (s : ost) (b : build) (mask : list bool) : oclass * list (option bool) :=
  let '(c, l) := observe e s b in
  (c, match c with COk => revealed mask l | _ => [] end).

Definition obs01_eqb (a b : oclass * list (option bool)) : bool :=
  oclass_eqb16 (fst a) (fst b) && list_eqb (opt_eqb Bool.eqb) (snd a) (snd b).

Definition agree01s (c : case01s) : bool :=
  let alone := obs01 (h_env c) ost0 (h_build c) (h_mask c) in
  let after := obs01 (h_env c) (run_history (h_env c) ost0 (h_hist c)) (h_build c) (h_mask c) in
  oclass_eqb16 (fst alone) (h_alone_class c) && oclass_eqb16 (fst after) (h_after_class c)
  && Bool.eqb (negb (obs01_eqb alone after)) (h_differs c).

Definition mismatches01s (l : list case01s) : list N := mism_from16 agree01s 0%N l.
