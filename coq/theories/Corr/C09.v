(* Correspondence cases for C09.
   CNsFilter : namespace.Filter run directly on one document (all modes, explicit FsSlice); the whole
               document afterwards is compared (typed JSON, field order included).
   CNsBuild  : a krusty build of a 1-3 layer tree with `namespace:` directives; per output resource the
               whole document is compared (typed JSON with field order) modulo the final rewrite of
               metadata.annotations (Resource.SetAnnotations) and - only when the tree contains a
               ServiceAccount - modulo the `subjects` of (Cluster)RoleBindings, which the name-reference
               transformer (C03, not modelled here) may rewrite afterwards.
   CScope    : openapi.IsCertainlyClusterScoped(apiVersion, kind) against the GENERATED scope table. *)
From KV Require Export Res.Namespace.
From KV Require Export Gen.NsScope Gen.FieldSpecs.

Inductive case09 :=
| CNsFilter (c : ns_config) (doc : node) (cls : oclass) (after : node)
| CNsBuild (l : nlayer) (mask_subjects : bool) (cls : oclass) (outs : list node)
| CScope (av kind : string) (cluster : bool).

Definition oclass_eqb09 (a b : oclass) : bool :=
  match a, b with
  | COk, COk | CErr, CErr | CPanic, CPanic | CDiverge, CDiverge => true
  | _, _ => false
  end.

Fixpoint json_eqb09 (a b : json) {struct a} : bool :=
  match a, b with
  | JAtom t q v, JAtom t' q' v' => tag_eqb t t' && Bool.eqb q q' && String.eqb v v'
  | JObj kvs, JObj kvs' =>
      (fix go (l l' : list (string * json)) : bool :=
         match l, l' with
         | [], [] => true
         | (k, x) :: t, (k', x') :: t' => String.eqb k k' && json_eqb09 x x' && go t t'
         | _, _ => false
         end) kvs kvs'
  | JArr es, JArr es' =>
      (fix go (l l' : list json) : bool :=
         match l, l' with
         | [], [] => true
         | x :: t, x' :: t' => json_eqb09 x x' && go t t'
         | _, _ => false
         end) es es'
  | _, _ => false
  end.

Fixpoint insert_str (x : string * string) (l : list (string * string)) : list (string * string) :=
  match l with
  | [] => [x]
  | y :: t => if String.ltb (fst x) (fst y) then x :: y :: t else y :: insert_str x t
  end.

(* Resource.SetAnnotations(GetAnnotations()) at the end of every build (see Corr/C08.v) *)
Definition norm_annos09 (obj : node) : node :=
  match obj with
  | Map kvs =>
      match find_field "metadata" kvs with
      | Some (Map mkvs) =>
          let annos := match find_field "annotations" mkvs with
                       | Some (Map a) => map (fun kv => (fst kv, node_value (snd kv))) a
                       | _ => []
                       end in
          let m' := remove_first "annotations" mkvs in
          let m'' := match annos with
                     | [] => m'
                     | _ => (m' ++ [("annotations",
                                     Map (map (fun kv => (fst kv, Scalar TStr SPlain (snd kv)))
                                              (fold_right insert_str [] annos)))])%list
                     end in
          Map (set_first "metadata" (Map m'') kvs)
      | _ => obj
      end
  | _ => obj
  end.

Definition mask_subj (on : bool) (obj : node) : node :=
  if on && is_role_binding (obj_kind obj) then
    match obj with
    | Map kvs => match find_field "subjects" kvs with
                 | Some _ => Map (set_first "subjects" (Scalar TNone SPlain "masked") kvs)
                 | None => obj
                 end
    | _ => obj
    end
  else obj.

Definition res_agree09 (mask : bool) (m o : node) : bool :=
  json_eqb09 (to_json (mask_subj mask (norm_annos09 m))) (to_json (mask_subj mask (norm_annos09 o))).

Fixpoint all2_09 {A} (f : A -> A -> bool) (l l' : list A) : bool :=
  match l, l' with
  | [], [] => true
  | x :: t, x' :: t' => f x x' && all2_09 f t t'
  | _, _ => false
  end.

Definition agree09 (c : case09) : bool :=
  match c with
  | CNsFilter cfg doc cls after =>
      match ns_filter gen_ns_scope cfg doc with
      | Ok d' => oclass_eqb09 cls COk && json_eqb09 (to_json d') (to_json after)
      | r => oclass_eqb09 cls (class_of r)
      end
  | CNsBuild l mask cls outs =>
      match accumulate_ns gen_ns_scope gen_namespace_fs l with
      | Ok ms => oclass_eqb09 cls COk && all2_09 (res_agree09 mask) ms outs
      | r => oclass_eqb09 cls (class_of r)
      end
  | CScope av kind cluster =>
      Bool.eqb (certainly_cluster_scoped gen_ns_scope av kind) cluster
  end.

Fixpoint mism_from09 (i : N) (l : list case09) : list N :=
  match l with
  | [] => []
  | c :: t => if agree09 c then mism_from09 (i + 1)%N t else i :: mism_from09 (i + 1)%N t
  end.

Definition mismatches09 (l : list case09) : list N := mism_from09 0%N l.
