(* Correspondence cases for C12: outcome CLASS of the kyaml core calls that Props/C12.v proves total
   (PathGetter = walk; fieldspec.Filter = fs_apply) on mutated documents. Only the class
   (COk / CErr / CPanic / CDiverge) is compared. *)
From KV Require Export Yaml.FieldSpec Res.BuildAnnot.

(* Filter.SetValue as used by the harness *)
Inductive setter12 :=
| SNoop                                   (* a SetValue that does nothing and returns nil *)
| SScalar (v : string)                    (* filtersutil.SetScalar(v) *)
| SEntry (name v : string) (t : tag).     (* filtersutil.SetEntry(name, v, tag), name <> "" *)

Inductive op12 :=
| O12Lookup (path : list string)
| O12LookupCreate (k : kind) (path : list string)
| O12FieldSpec (fs : fieldspec) (ck : option kind) (s : setter12)
(* api/resource.Resource methods on a document of BuildAnnot's domain *)
| O12AddPrefix (p : string)        (* r.AddNamePrefix(p) *)
| O12Enable                        (* r.AllowNameChange() *)
| O12RemoveBuild.                  (* r.RemoveBuildAnnotations() *)

Record case12 := mk12 {
  c12_op : op12;
  c12_doc : node;
  c12_class : oclass
}.

Definition no_nonstr (_ : string) : bool := false.   (* quoting style is not observed here *)

Definition setter_fn (s : setter12) (n : node) : res node :=
  match s with
  | SNoop => Ok n
  | SScalar v => set_scalar (Some (Scalar TNone SPlain v)) n
  | SEntry name v t => set_field no_nonstr name (Some (Scalar t SPlain v)) false n
  end.

Definition run12 (c : case12) : oclass :=
  match c12_op c with
  | O12Lookup p => class_of (lookup (parse_path p) (c12_doc c))
  | O12LookupCreate k p => class_of (lookup_create k (parse_path p) (c12_doc c))
  | O12FieldSpec fs ck s => class_of (fs_apply ck TNone (setter_fn s) fs (c12_doc c))
  | O12AddPrefix p => class_of (append_csv_annotation no_nonstr K_utils_BuildAnnotationPrefixes p (c12_doc c))
  | O12Enable => class_of (enable K_utils_BuildAnnotationAllowNameChange (c12_doc c))
  | O12RemoveBuild => class_of (remove_build_annotations (c12_doc c))
  end.

Definition oclass_eqb12 (a b : oclass) : bool :=
  match a, b with
  | COk, COk | CErr, CErr | CPanic, CPanic | CDiverge, CDiverge => true
  | _, _ => false
  end.

Definition agree12 (c : case12) : bool := oclass_eqb12 (run12 c) (c12_class c).

Fixpoint mism_from12 (i : N) (l : list case12) : list N :=
  match l with
  | [] => []
  | c :: t => if agree12 c then mism_from12 (i + 1)%N t else i :: mism_from12 (i + 1)%N t
  end.

Definition mismatches12 (l : list case12) : list N := mism_from12 0%N l.
