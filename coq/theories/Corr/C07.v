(* Correspondence cases for C07: the harness writes (input, observed implementation behaviour);
   [mismatches07] returns the indices where the model disagrees. *)
From KV Require Export Base.Prelude Res.HygieneTypes Gen.Annotations Res.Hygiene Res.ResMapModel.
From KV Require Import Corr.C14.   (* oclass_eqb, mism_from *)
Open Scope list_scope.

(* one step of an operation sequence: the operation, the observed outcome class and — when the class
   is COk — the observed (CurId, payload tag, IsNilOrEmpty) of every resource of the resmap afterwards *)
Record step07 := mkStep { s_op : op; s_class : oclass; s_after : list (resid * string * bool) }.

Inductive case07 :=
| CSeq (init : rmap) (steps : list step07) (final : rmap)
    (* resmap operation sequence starting from the map [init] (built with Append); [final] is the complete
       observed content (ids, annotations, emptiness, tags) after the last step that returned no error *)
| CStrip (bm : list string) (a : annmap) (observed : annmap)
    (* RemoveBuildAnnotations / RemoveOriginAnnotations / RemoveTransformerAnnotations as krusty.Run calls them *)
| CTable (runtime_build_annotations : list string)
    (* runtime value of the translated table resource.BuildAnnotations *)
| CFinal (h : list (string * string)) (legacy : bool) (bm : list string) (m : rmap)
         (cls : oclass) (out : list (resid * annmap)).
    (* the tail of a real build: [m] is the accumulated map observed through the hook (KustTarget.AccumulateTarget),
       [cls]/[out] what krusty.Run returned for the same tree: ids and annotations of the output in order *)

Fixpoint str_list_eqb (a b : list string) : bool :=
  match a, b with
  | [], [] => true
  | x :: a', y :: b' => String.eqb x y && str_list_eqb a' b'
  | _, _ => false
  end.

(* annotation maps are compared as maps (the harness emits unique keys) *)
Definition ann_sub (a b : annmap) : bool :=
  forallb (fun kv => match ann_get (fst kv) b with Some v => String.eqb v (snd kv) | None => false end) a.
Definition ann_eqb (a b : annmap) : bool :=
  Nat.eqb (List.length a) (List.length b) && ann_sub a b && ann_sub b a.

Definition res_eqb (a b : mres) : bool :=
  id_same (cur a) (cur b) && ann_eqb (m_ann a) (m_ann b) && Bool.eqb (m_empty a) (m_empty b)
  && String.eqb (m_tag a) (m_tag b).

Fixpoint rmap_eqb (a b : rmap) : bool :=
  match a, b with
  | [], [] => true
  | x :: a', y :: b' => res_eqb x y && rmap_eqb a' b'
  | _, _ => false
  end.

Fixpoint ids_eqb (m : rmap) (l : list (resid * string * bool)) : bool :=
  match m, l with
  | [], [] => true
  | x :: m', (i, t, e) :: l' =>
      id_same (cur x) i && String.eqb (m_tag x) t && Bool.eqb (m_empty x) e && ids_eqb m' l'
  | _, _ => false
  end.

(* the model is run on its own state; the sequence stops at the first step that is not COk
   (the harness stops there too: Go leaves a partially updated map behind after an error) *)
Fixpoint agree_steps (m : rmap) (steps : list step07) (final : rmap) : bool :=
  match steps with
  | [] => rmap_eqb m final
  | s :: t =>
      match step (s_op s) m with
      | Ok m' => oclass_eqb (s_class s) COk && ids_eqb m' (s_after s) && agree_steps m' t final
      | r => oclass_eqb (s_class s) (class_of r) && rmap_eqb m final
      end
  end.

(* debugging aid: the model's outcome class and state after every step *)
Fixpoint trace_steps (m : rmap) (steps : list step07) : list (oclass * rmap) :=
  match steps with
  | [] => []
  | s :: t =>
      match step (s_op s) m with
      | Ok m' => (COk, m') :: trace_steps m' t
      | r => [(class_of r, m)]
      end
  end.

Fixpoint out_eqb (m : rmap) (out : list (resid * annmap)) : bool :=
  match m, out with
  | [], [] => true
  | x :: m', (i, a) :: out' => id_same (cur x) i && ann_eqb (m_ann x) a && out_eqb m' out'
  | _, _ => false
  end.

Definition agree07 (c : case07) : bool :=
  match c with
  | CSeq init steps final => agree_steps init steps final
  | CStrip bm a obs => ann_eqb (strip_run bm a) obs
  | CTable ba => str_list_eqb (map snd gen_build_annotations) ba
  | CFinal h legacy bm m cls out =>
      match finalize h legacy bm m with
      | Ok m' => oclass_eqb cls COk && out_eqb m' out
      | r => oclass_eqb cls (class_of r)
      end
  end.

Definition mismatches07 (l : list case07) : list N := mism_from agree07 0%N l.
